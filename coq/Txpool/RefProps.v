(* Properties of the reference layer: what a scheduling pass emits, capacity,
   eviction and replacement rules. *)
From Verif Require Import Lib.Base Txpool.Model Txpool.Inv Txpool.Refine.
From Coq Require Import ZifyBool ZifyNat ZifyN.

(* ---------- meaning of "ready" ---------- *)
Lemma ready_meaning s t :
  is_ready s t = true <->
  match aget (tsender t) (sched s) with
  | Some last => last <> U64MAX /\ tseq t = last + 1
  | None => aget (tsender t) (senders s) = Some (tseq t)
  end.
Proof.
  unfold is_ready. destruct (aget (tsender t) (sched s)) as [last|].
  - destruct (last =? U64MAX) eqn:E; split; intros H.
    + discriminate.
    + destruct H. lia.
    + split; lia.
    + lia.
  - destruct (aget (tsender t) (senders s)) as [c|]; split; intros H.
    + f_equal. lia.
    + injection H as ->. lia.
    + discriminate.
    + discriminate.
Qed.

(* a successful pick is a ready transaction of maximal priority among the ready ones *)
Lemma pick_is_ready_and_max i s s' :
  r_schedule_one i s = Some s' ->
  exists t, find_id i (ready s) = Some t /\ In t (txs s) /\ tid t = i /\ is_ready s t = true /\
            (forall u, In u (txs s) -> is_ready s u = true -> tprio u <= tprio t) /\
            s' = set_sched s (aset (tsender t) (tseq t) (sched s)).
Proof.
  unfold r_schedule_one. destruct (find_id i (ready s)) as [t|] eqn:Hf; [|discriminate].
  destruct (forallb (fun u => tprio u <=? tprio t) (ready s)) eqn:Ef; [|discriminate].
  cbn [negb]. intros H. injection H as <-.
  pose proof Hf as Hf'.
  apply find_id_some in Hf as [Hin He]. unfold ready in Hin. apply filter_In in Hin as [Ht Hr].
  exists t. split; [reflexivity|]. split; [exact Ht|]. split; [exact He|]. split; [exact Hr|].
  split; [|reflexivity].
  intros u Hu Hru. rewrite forallb_forall in Ef.
  assert (In u (ready s)) as Hur by (unfold ready; apply filter_In; auto).
  specialize (Ef u Hur). lia.
Qed.

(* a schedule call that reports COk either filled the batch or left nothing ready *)
Lemma schedule_complete lim picks s s' :
  r_schedule lim picks s = (COk, s') ->
  N.of_nat (length picks) = N.min lim MAXBATCH \/ ready s' = [].
Proof.
  unfold r_schedule. destruct (_ <? _); [discriminate|].
  destruct (r_schedule_picks picks s) as [s1|]; [|discriminate].
  destruct (N.of_nat (length picks) =? N.min lim MAXBATCH) eqn:E1; cbn [orb].
  - intros _. left. lia.
  - destruct (ready s1) eqn:E2; [|discriminate]. intros H. injection H as <-. right. exact E2.
Qed.

(* ---------- a scheduling pass, with a ghost log of emissions ----------
   The log is kept most-recent-first; each event records the transaction and
   the sender's current sequence number at the time of the emission. *)
Definition event := (tx * option N)%type.

Fixpoint last_of (a : N) (log : list event) : option N :=
  match log with
  | [] => None
  | (t, _) :: older => if tsender t =? a then Some (tseq t) else last_of a older
  end.

Fixpoint chain_ok (log : list event) : Prop :=
  match log with
  | [] => True
  | (t, c) :: older =>
      match last_of (tsender t) older with
      | Some q => tseq t = q + 1 /\ q <> U64MAX     (* successor of the previous emission of that sender *)
      | None => c = Some (tseq t)                   (* first emission: the current sequence of that sender *)
      end /\ chain_ok older
  end.

Fixpoint r_picks_log (picks : list N) (s : st) (log : list event) : option (st * list event) :=
  match picks with
  | [] => Some (s, log)
  | i :: r =>
      match find_id i (ready s), r_schedule_one i s with
      | Some t, Some s1 => r_picks_log r s1 ((t, aget (tsender t) (senders s)) :: log)
      | _, _ => None
      end
  end.

Definition r_step_log (sl : st * list event) (o : op) : st * list event :=
  let '(s, log) := sl in
  match o with
  | OSchedule lim picks =>
      match r_schedule lim picks s, r_picks_log picks s log with
      | (COk, s1), Some (_, log1) => (s1, log1)
      | (_, s1), _ => (s1, log)
      end
  | OReset => (set_sched s [], [])
  | _ => (snd (r_step s o), log)
  end.

Definition r_run_log (c : N) (ops : list op) : st * list event :=
  fold_left r_step_log ops (init c, []).

Lemma r_picks_log_state picks : forall s log,
  match r_schedule_picks picks s, r_picks_log picks s log with
  | Some s1, Some (s2, _) => s1 = s2
  | None, None => True
  | _, _ => False
  end.
Proof.
  induction picks as [|i r IH]; cbn [r_schedule_picks r_picks_log]; intros s log; [reflexivity|].
  destruct (r_schedule_one i s) as [s1|] eqn:E.
  - unfold r_schedule_one in E. destruct (find_id i (ready s)) as [t|]; [|discriminate]. apply IH.
  - destruct (find_id i (ready s)); exact I.
Qed.

(* the state component of the logged run is the plain reference run *)
Lemma r_run_log_state ops : forall s log,
  fst (fold_left r_step_log ops (s, log)) = run r_step s ops.
Proof.
  unfold run. induction ops as [|o r IH]; cbn [fold_left]; intros s log; [reflexivity|].
  destruct o as [t q e|lim picks| |i|a q|]; cbn [r_step_log]; try apply IH.
  cbn [r_step]. pose proof (r_picks_log_state picks s log) as H.
  unfold r_schedule.
  destruct (N.min lim MAXBATCH <? N.of_nat (length picks)); cbn [snd].
  - destruct (r_picks_log picks s log) as [[? ?]|]; apply IH.
  - destruct (r_schedule_picks picks s) as [s1|]; destruct (r_picks_log picks s log) as [[s2 l2]|];
      try contradiction; cbn [snd]; try apply IH.
    destruct (_ || _); cbn [snd]; apply IH.
Qed.

Definition PassInv (s : st) (log : list event) : Prop :=
  chain_ok log /\ forall a, aget a (sched s) = last_of a log.

Lemma pick_pass_inv i s s1 t log :
  PassInv s log -> find_id i (ready s) = Some t -> r_schedule_one i s = Some s1 ->
  PassInv s1 ((t, aget (tsender t) (senders s)) :: log).
Proof.
  intros [Hc Hl] Hf Hs.
  destruct (pick_is_ready_and_max i s s1 Hs) as [t' [Hf' [Ht [He [Hr [_ ->]]]]]].
  rewrite Hf in Hf'. injection Hf' as <-.
  apply ready_meaning in Hr. split.
  - cbn [chain_ok]. split; [|exact Hc]. rewrite <- (Hl (tsender t)).
    destruct (aget (tsender t) (sched s)) as [last|]; [|exact Hr].
    destruct Hr as [Hr1 Hr2]. split; assumption.
  - intros a. cbn [sched set_sched last_of]. destruct (tsender t =? a) eqn:E.
    + apply N.eqb_eq in E. subst a. apply aget_aset_same.
    + rewrite aget_aset_other by lia. apply Hl.
Qed.

Lemma picks_pass_inv picks : forall s log s1 log1,
  PassInv s log -> r_picks_log picks s log = Some (s1, log1) -> PassInv s1 log1.
Proof.
  induction picks as [|i r IH]; cbn [r_picks_log]; intros s log s1 log1 HP H.
  - injection H as <- <-. exact HP.
  - destruct (find_id i (ready s)) as [t|] eqn:Hf; [|discriminate].
    destruct (r_schedule_one i s) as [s2|] eqn:Hs; [|discriminate].
    eapply IH; [|exact H]. eapply pick_pass_inv; eauto.
Qed.

(* operations other than schedule / reset do not touch the schedule map *)
Lemma add_sched t q e s : sched (snd (b_add t q e s)) = sched s.
Proof.
  unfold b_add. destruct (find_id (tid t) (txs s)); [reflexivity|].
  destruct (aget (tsender t) (senders s)).
  - destruct (_ <? _); [reflexivity|]. destruct (get_seq _ _ _).
    + destruct (_ <=? _); [reflexivity|]. unfold b_replace. destruct (nmem _ _); reflexivity.
    + destruct (insert_fields t s) as [F1 F2]. rewrite F1, F2.
      assert (sched (b_insert t s) = sched s) as Hs by (unfold b_insert; destruct (is_ready s t); reflexivity).
      destruct (_ <=? _); [exact Hs|]. destruct (find_id e _); [|reflexivity].
      destruct (forallb _ _); [|reflexivity]. cbn [snd]. unfold b_remove. rewrite drop_sched. exact Hs.
  - destruct (_ <? _); [reflexivity|]. cbn [txs set_senders]. destruct (get_seq _ _ _).
    + destruct (_ <=? _); [reflexivity|]. unfold b_replace. destruct (nmem _ _); reflexivity.
    + set (s1 := set_senders s _).
      destruct (insert_fields t s1) as [F1 F2]. rewrite F1, F2.
      assert (sched (b_insert t s1) = sched s) as Hs by (unfold b_insert; destruct (is_ready s1 t); reflexivity).
      destruct (_ <=? _); [exact Hs|]. destruct (find_id e _); [|reflexivity].
      destruct (forallb _ _); [|reflexivity]. cbn [snd]. unfold b_remove. rewrite drop_sched. exact Hs.
Qed.

Lemma erase_sched s : sched (erase s) = sched s.
Proof. reflexivity. Qed.

Lemma r_step_sched_other s o :
  match o with OSchedule _ _ | OReset => True | _ => sched (snd (r_step s o)) = sched s end.
Proof.
  destruct o as [t q e|lim picks| |i|a q|]; try exact I; cbn [r_step b_step].
  - pose proof (add_sched t q e s) as H. destruct (b_add t q e s) as [c s1]. cbn [snd] in *.
    rewrite erase_sched. exact H.
  - cbn [snd]. rewrite erase_sched. unfold b_used. destruct (find_id i (txs s)); [|reflexivity].
    destruct (_ <? _); [rewrite forward_sched|]; unfold b_remove; apply drop_sched.
  - cbn [snd]. rewrite erase_sched. apply forward_sched.
  - reflexivity.
Qed.

(* THE PASS INVARIANT over whole runs *)
Lemma run_pass_inv ops : forall s log,
  PassInv s log ->
  PassInv (fst (fold_left r_step_log ops (s, log))) (snd (fold_left r_step_log ops (s, log))).
Proof.
  induction ops as [|o r IH]; cbn [fold_left]; intros s log HP; [exact HP|].
  destruct o as [t q e|lim picks| |i|a q|]; cbn [r_step_log].
  - apply IH. destruct HP as [Hc Hl]. split; [exact Hc|]. intros b.
    pose proof (r_step_sched_other s (OAdd t q e)) as H. cbn beta iota in H. rewrite H. apply Hl.
  - pose proof (r_picks_log_state picks s log) as Hst.
    unfold r_schedule. destruct (N.min lim MAXBATCH <? N.of_nat (length picks)).
    + destruct (r_picks_log picks s log) as [[? ?]|]; apply IH; exact HP.
    + destruct (r_schedule_picks picks s) as [s1|] eqn:E1.
      * destruct (r_picks_log picks s log) as [[s2 l2]|] eqn:E2; [|contradiction]. subst s2.
        destruct (_ || _); apply IH; [|exact HP]. eapply picks_pass_inv; eauto.
      * destruct (r_picks_log picks s log) as [[s2 l2]|]; apply IH; exact HP.
  - apply IH. split; [exact I|]. intros a. reflexivity.
  - apply IH. destruct HP as [Hc Hl]. split; [exact Hc|]. intros b.
    pose proof (r_step_sched_other s (OUsed i)) as H. cbn beta iota in H. rewrite H. apply Hl.
  - apply IH. destruct HP as [Hc Hl]. split; [exact Hc|]. intros b.
    pose proof (r_step_sched_other s (OForward a q)) as H. cbn beta iota in H. rewrite H. apply Hl.
  - apply IH. destruct HP as [Hc Hl]. split; [exact Hc|]. intros b.
    pose proof (r_step_sched_other s OClear) as H. cbn beta iota in H. rewrite H. apply Hl.
Qed.

(* no transaction slot (sender, sequence) is emitted twice in a pass *)
Lemma chain_bound log : chain_ok log -> forall a t c, In (t, c) log -> tsender t = a ->
  exists q, last_of a log = Some q /\ tseq t <= q.
Proof.
  induction log as [|[u cu] older IH]; cbn [chain_ok last_of]; intros Hc a t c Hin Ha; [contradiction|].
  destruct Hc as [Hhead Hc]. destruct Hin as [Heq|Hin].
  - injection Heq as -> ->. rewrite Ha, N.eqb_refl. exists (tseq t). split; [reflexivity|lia].
  - destruct (IH Hc a t c Hin Ha) as [q [Hq Hle]].
    destruct (tsender u =? a) eqn:E.
    + apply N.eqb_eq in E. rewrite E in Hhead. rewrite Hq in Hhead. destruct Hhead as [H1 _].
      exists (tseq u). split; [reflexivity|lia].
    + exists q. auto.
Qed.

Definition slot (e : event) : N * N := (tsender (fst e), tseq (fst e)).

Lemma chain_nodup log : chain_ok log -> NoDup (map slot log).
Proof.
  induction log as [|[u cu] older IH]; cbn [chain_ok map]; intros Hc; [constructor|].
  destruct Hc as [Hhead Hc]. constructor; [|apply IH; exact Hc].
  intros Hin. apply in_map_iff in Hin as [[t c] [Hs Hin]]. unfold slot in Hs. cbn [fst] in Hs.
  injection Hs as Hs1 Hs2.
  destruct (chain_bound older Hc (tsender u) t c Hin Hs1) as [q [Hq Hle]].
  rewrite Hq in Hhead. destruct Hhead as [H1 _]. lia.
Qed.

Lemma pass_order_all c ops :
  chain_ok (snd (r_run_log c ops)) /\
  NoDup (map slot (snd (r_run_log c ops))) /\
  forall a, aget a (sched (fst (r_run_log c ops))) = last_of a (snd (r_run_log c ops)).
Proof.
  unfold r_run_log.
  assert (PassInv (init c) []) as H0 by (split; [exact I|intros a; reflexivity]).
  destruct (run_pass_inv ops (init c) [] H0) as [H1 H2].
  split; [exact H1|]. split; [apply chain_nodup; exact H1|exact H2].
Qed.

(* ---------- capacity ---------- *)
Lemma filter_length_le {A} (p : A -> bool) l : (length (filter p l) <= length l)%nat.
Proof. induction l as [|x r IH]; cbn [filter length]; [lia|]. destruct (p x); cbn [length]; lia. Qed.

Lemma filter_length_lt {A} (p : A -> bool) l x : In x l -> p x = false -> (length (filter p l) < length l)%nat.
Proof.
  induction l as [|y r IH]; cbn [filter length In]; intros Hin Hp; [contradiction|].
  destruct Hin as [->|Hin].
  - rewrite Hp. pose proof (filter_length_le p r). lia.
  - specialize (IH Hin Hp). destruct (p y); cbn [length]; lia.
Qed.

Lemma drop_length_le P a s : (length (txs (drop P a s)) <= length (txs s))%nat.
Proof. rewrite drop_txs. apply filter_length_le. Qed.

Lemma forward_length_le a q s : (length (txs (b_forward a q s)) <= length (txs s))%nat.
Proof.
  unfold b_forward. destruct (aget a (senders s)); [|lia]. destruct (q <=? n); [lia|].
  destruct (head a _) as [f|]; [destruct (negb _ && _)|]; cbn [txs set_maxh];
    (eapply Nat.le_trans; [apply drop_length_le|cbn; lia]).
Qed.

Definition within_cap (s : st) : Prop := N.of_nat (length (txs s)) <= cap s.

Lemma cap_fixed_add t q e s : cap (snd (b_add t q e s)) = cap s.
Proof.
  unfold b_add. destruct (find_id (tid t) (txs s)); [reflexivity|].
  destruct (aget (tsender t) (senders s)).
  - destruct (_ <? _); [reflexivity|]. destruct (get_seq _ _ _).
    + destruct (_ <=? _); [reflexivity|]. unfold b_replace. destruct (nmem _ _); reflexivity.
    + destruct (insert_fields t s) as [F1 F2]. rewrite F1, F2.
      destruct (_ <=? _); [exact F2|]. destruct (find_id e _); [|reflexivity].
      destruct (forallb _ _); [|reflexivity]. cbn [snd]. unfold b_remove. rewrite drop_cap. exact F2.
  - destruct (_ <? _); [reflexivity|]. cbn [txs set_senders]. destruct (get_seq _ _ _).
    + destruct (_ <=? _); [reflexivity|]. unfold b_replace. destruct (nmem _ _); reflexivity.
    + set (s1 := set_senders s _).
      destruct (insert_fields t s1) as [F1 F2]. rewrite F1, F2.
      destruct (_ <=? _); [exact F2|]. destruct (find_id e _); [|reflexivity].
      destruct (forallb _ _); [|reflexivity]. cbn [snd]. unfold b_remove. rewrite drop_cap. exact F2.
Qed.

Lemma add_within_cap t q e s : within_cap s -> within_cap (snd (b_add t q e s)).
Proof.
  unfold within_cap. intros H. rewrite cap_fixed_add. unfold b_add.
  destruct (find_id (tid t) (txs s)); [exact H|].
  assert (forall s1 : st, txs s1 = txs s -> cap s1 = cap s ->
            N.of_nat (length (txs (snd
              match get_seq (tsender t) (tseq t) (txs s1) with
              | Some old => if tprio t <=? tprio old then (CReplUnderpriced, s1) else (COk, b_replace t old s1)
              | None =>
                  if N.of_nat (length (txs (b_insert t s1))) <=? cap (b_insert t s1) then (COk, b_insert t s1)
                  else match find_id e (txs (b_insert t s1)) with
                       | Some low => if forallb (fun u => tprio low <=? tprio u) (txs (b_insert t s1))
                                     then (if tid low =? tid t then CUnderpriced else COk, b_remove low (b_insert t s1))
                                     else (CBadChoice, s)
                       | None => (CBadChoice, s)
                       end
              end))) <= cap s) as Hgen.
  { intros s1 Ht Hc. destruct (get_seq (tsender t) (tseq t) (txs s1)) as [old|] eqn:Hg.
    - destruct (_ <=? _); cbn [snd]; [rewrite Ht; exact H|].
      apply get_seq_some in Hg as [Hin _].
      unfold b_replace. assert ((length (del_id (tid old) (txs s1)) < length (txs s1))%nat) as Hlt.
      { unfold del_id. apply (filter_length_lt _ _ old Hin). rewrite N.eqb_refl. reflexivity. }
      destruct (nmem _ _); cbn [txs set_txs set_maxh length]; rewrite Ht in *; lia.
    - destruct (insert_fields t s1) as [F1 F2]. rewrite F1, F2, Hc.
      destruct (N.of_nat (length (t :: txs s1)) <=? cap s) eqn:E; cbn [snd]; [rewrite F1; lia|].
      destruct (find_id e (t :: txs s1)) as [low|] eqn:Hf; cbn [snd]; [|exact H].
      destruct (forallb _ _); cbn [snd]; [|exact H].
      apply find_id_some in Hf as [Hin _]. unfold b_remove. rewrite drop_txs, F1.
      assert ((length (filter (fun t0 => negb ((tsender t0 =? tsender low)%N && (tid t0 =? tid low)%N)) (t :: txs s1))
               < length (t :: txs s1))%nat) as Hlt.
      { apply (filter_length_lt _ _ low Hin). rewrite !N.eqb_refl. reflexivity. }
      cbn [length] in *. rewrite Ht in *. lia. }
  destruct (aget (tsender t) (senders s)) as [c|].
  - destruct (_ <? _); [exact H|]. apply (Hgen s); reflexivity.
  - destruct (_ <? _); [exact H|]. apply (Hgen (set_senders s (aset (tsender t) q (senders s)))); reflexivity.
Qed.

Lemma b_step_within_cap STOP s o : within_cap s -> within_cap (snd (b_step STOP s o)).
Proof.
  intros H. destruct o as [t q e|lim picks| |i|a q|]; cbn [b_step].
  - apply add_within_cap. exact H.
  - unfold b_schedule. destruct (_ <? _); [exact H|].
    destruct (b_schedule_picks STOP picks s) as [s1|] eqn:E; [|exact H].
    destruct (_ || _); [|exact H]. cbn [snd].
    assert (forall picks s s1, b_schedule_picks STOP picks s = Some s1 -> txs s1 = txs s /\ cap s1 = cap s) as Hp.
    { clear. induction picks as [|i r IH]; cbn [b_schedule_picks]; intros s s1 H.
      - injection H as <-. auto.
      - destruct (b_schedule_one STOP i s) as [s2|] eqn:E; [|discriminate].
        destruct (IH _ _ H) as [H1 H2]. unfold b_schedule_one in E.
        destruct (negb _); [discriminate|]. destruct (find_id i (txs s)); [|discriminate].
        destruct (negb _); [discriminate|]. injection E as <-.
        destruct (b_next STOP t s); cbn in *; auto. }
    destruct (Hp _ _ _ E) as [H1 H2]. unfold within_cap. rewrite H1, H2. exact H.
  - cbn [snd]. unfold within_cap, b_reset. cbn [txs cap set_sched].
    pose proof (restore_fold_eqv (sched s) s) as Hq.
    rewrite (eqv_txs _ _ Hq), (eqv_cap _ _ Hq). exact H.
  - cbn [snd]. unfold within_cap in *. unfold b_used. destruct (find_id i (txs s)); [|exact H].
    assert (forall s1, cap (b_forward (tsender t) (tseq t + 1) s1) = cap s1) as Hc.
    { intros s1. pose proof (forward_cong (tsender t) (tseq t + 1) s1 s1 (eqv_refl _)) as _.
      unfold b_forward. destruct (aget _ _); [|reflexivity]. destruct (_ <=? _); [reflexivity|].
      destruct (head _ _) as [f|]; [destruct (negb _ && _)|]; cbn [cap set_maxh]; rewrite drop_cap; reflexivity. }
    destruct (_ <? _).
    + rewrite Hc. unfold b_remove. rewrite drop_cap.
      pose proof (forward_length_le (tsender t) (tseq t + 1) (drop (fun u => tid u =? tid t) (tsender t) s)).
      pose proof (drop_length_le (fun u => tid u =? tid t) (tsender t) s). lia.
    + unfold b_remove. rewrite drop_cap. pose proof (drop_length_le (fun u => tid u =? tid t) (tsender t) s). lia.
  - cbn [snd]. unfold within_cap in *.
    assert (cap (b_forward a q s) = cap s) as Hc.
    { unfold b_forward. destruct (aget _ _); [|reflexivity]. destruct (_ <=? _); [reflexivity|].
      destruct (head _ _) as [f|]; [destruct (negb _ && _)|]; cbn [cap set_maxh]; rewrite drop_cap; reflexivity. }
    rewrite Hc. pose proof (forward_length_le a q s). lia.
  - cbn [snd]. unfold within_cap. cbn. lia.
Qed.

Lemma run_within_cap STOP ops : forall s, within_cap s -> within_cap (run (b_step STOP) s ops).
Proof.
  unfold run. induction ops as [|o r IH]; cbn [fold_left]; intros s H; [exact H|].
  apply IH. apply b_step_within_cap. exact H.
Qed.

(* ---------- who may leave the pool during an add ---------- *)
Lemma add_leaver_rule t q e s u :
  Inv s -> In u (txs s) -> ~ In u (txs (snd (b_add t q e s))) ->
  (tsender u = tsender t /\ tseq u = tseq t /\ tprio u < tprio t)      (* replaced by a strictly higher bid *)
  \/ (tprio u <= tprio t /\ forall w, In w (txs s) -> tprio u <= tprio w). (* evicted as a minimum *)
Proof.
  intros HI Hu Hgone. unfold b_add in Hgone.
  destruct (find_id (tid t) (txs s)) eqn:Hid; [contradiction|].
  assert (forall s1 : st, txs s1 = txs s ->
    ~ In u (txs (snd
      match get_seq (tsender t) (tseq t) (txs s1) with
      | Some old => if tprio t <=? tprio old then (CReplUnderpriced, s1) else (COk, b_replace t old s1)
      | None =>
          if N.of_nat (length (txs (b_insert t s1))) <=? cap (b_insert t s1) then (COk, b_insert t s1)
          else match find_id e (txs (b_insert t s1)) with
               | Some low => if forallb (fun u => tprio low <=? tprio u) (txs (b_insert t s1))
                             then (if tid low =? tid t then CUnderpriced else COk, b_remove low (b_insert t s1))
                             else (CBadChoice, s)
               | None => (CBadChoice, s)
               end
      end)) ->
    (tsender u = tsender t /\ tseq u = tseq t /\ tprio u < tprio t)
    \/ (tprio u <= tprio t /\ forall w, In w (txs s) -> tprio u <= tprio w)) as Hgen.
  { intros s1 Ht Hg. destruct (get_seq (tsender t) (tseq t) (txs s1)) as [old|] eqn:Hgs.
    - destruct (tprio t <=? tprio old) eqn:Ep; cbn [snd] in Hg; [rewrite Ht in Hg; contradiction|].
      apply get_seq_some in Hgs as [Hin [Hs Hq]]. left.
      assert (u = old).
      { destruct (N.eq_dec (tid u) (tid old)) as [He|He].
        - rewrite Ht in Hin. apply (inv_id_eq s); auto.
        - exfalso. apply Hg. unfold b_replace. destruct (nmem _ _); cbn [txs set_txs set_maxh];
            right; apply In_del_id; rewrite Ht; auto. }
      subst u. repeat split; auto. lia.
    - destruct (insert_fields t s1) as [F1 F2]. rewrite F1 in Hg.
      destruct (_ <=? _); cbn [snd] in Hg; [rewrite F1, Ht in Hg; exfalso; apply Hg; right; exact Hu|].
      destruct (find_id e (t :: txs s1)) as [low|] eqn:Hf; cbn [snd] in Hg; [|contradiction].
      destruct (forallb (fun u0 => tprio low <=? tprio u0) (t :: txs s1)) eqn:Ef; cbn [snd] in Hg; [|contradiction].
      right. rewrite forallb_forall in Ef.
      assert (u = low).
      { destruct (N.eq_dec (tid u) (tid low)) as [He|He].
        - apply find_id_some in Hf as [Hin _]. destruct Hin as [<-|Hin].
          + exfalso. eapply find_id_none; [exact Hid|exact Hu|exact He].
          + rewrite Ht in Hin. apply (inv_id_eq s); auto.
        - exfalso. apply Hg. unfold b_remove. apply drop_In_txs. rewrite F1. split; [right; rewrite Ht; exact Hu|].
          destruct (tid u =? tid low) eqn:E; [lia|]. rewrite andb_false_r. reflexivity. }
      subst u. split.
      + specialize (Ef t (or_introl eq_refl)). lia.
      + intros w Hw. assert (In w (t :: txs s1)) as Hw' by (right; rewrite Ht; exact Hw).
        specialize (Ef w Hw'). lia. }
  destruct (aget (tsender t) (senders s)) as [c|].
  - destruct (_ <? _); [contradiction|]. apply (Hgen s); auto.
  - destruct (_ <? _); [contradiction|].
    apply (Hgen (set_senders s (aset (tsender t) q (senders s)))); auto.
Qed.

(* a same-slot transaction is replaced only by a strictly higher priority *)
Lemma replace_only_higher t q e s old :
  Inv s -> find_id (tid t) (txs s) = None -> In old (txs s) ->
  tsender old = tsender t -> tseq old = tseq t ->
  (tprio t <= tprio old -> b_add t q e s = (CReplUnderpriced, s)) /\
  (tprio old < tprio t -> fst (b_add t q e s) = COk /\
       forall u, In u (txs (snd (b_add t q e s))) <-> u = t \/ (In u (txs s) /\ u <> old)).
Proof.
  intros HI Hid Hold Hs Hq. unfold b_add. rewrite Hid.
  destruct (i_entry s HI old Hold) as [c [Hc Hle]]. rewrite <- Hs, Hc.
  assert ((tseq t <? c) = false) as E by lia. rewrite Hs, E.
  assert (get_seq (tsender t) (tseq t) (txs s) = Some old) as Hg.
  { destruct (get_seq (tsender t) (tseq t) (txs s)) as [o|] eqn:Hg.
    - apply get_seq_some in Hg as [H1 [H2 H3]]. f_equal. apply (i_slot s HI); auto; congruence.
    - exfalso. eapply get_seq_none; eauto. }
  rewrite Hg. split; intros Hp.
  - assert ((tprio t <=? tprio old) = true) as E2 by lia. rewrite E2. reflexivity.
  - assert ((tprio t <=? tprio old) = false) as E2 by lia. rewrite E2. cbn [fst snd]. split; [reflexivity|].
    intros u. unfold b_replace. destruct (nmem _ _); cbn [txs set_txs set_maxh In]; rewrite In_del_id; split.
    + intros [<-|[H1 H2]]; [left; reflexivity|right]. split; [exact H1|]. intros ->. apply H2. reflexivity.
    + intros [->|[H1 H2]]; [left; reflexivity|right]. split; [exact H1|]. intros He. apply H2. apply (inv_id_eq s); auto.
    + intros [<-|[H1 H2]]; [left; reflexivity|right]. split; [exact H1|]. intros ->. apply H2. reflexivity.
    + intros [->|[H1 H2]]; [left; reflexivity|right]. split; [exact H1|]. intros He. apply H2. apply (inv_id_eq s); auto.
Qed.

(* ---------- a pass that stops early left nothing ready ---------- *)
Lemma exhausted_left_nothing_ready s :
  ready s = [] ->
  forall t, In t (txs s) ->
    match aget (tsender t) (sched s) with
    | Some last => last = U64MAX \/ tseq t <> last + 1
    | None => aget (tsender t) (senders s) <> Some (tseq t)
    end.
Proof.
  intros Hr t Ht.
  assert (is_ready s t = false) as Hn.
  { destruct (is_ready s t) eqn:E; [|reflexivity].
    assert (In t (ready s)) as Hin by (unfold ready; apply filter_In; auto).
    rewrite Hr in Hin. contradiction. }
  pose proof (ready_meaning s t) as Hm.
  destruct (aget (tsender t) (sched s)) as [last|].
  - destruct (N.eq_dec last U64MAX) as [->|Hne]; [left; reflexivity|]. right.
    intros Hs. assert (is_ready s t = true) by (apply Hm; auto). congruence.
  - intros Hs. assert (is_ready s t = true) by (apply Hm; auto). congruence.
Qed.

(* the queue-level operations of main_queue.go are compositions of scheduler
   operations, so every theorem over operation sequences covers them *)
Definition q_add (t : tx) (stateSeq evict : N) : list op := [OForward (tsender t) stateSeq; OAdd t stateSeq evict].
Definition q_schedule (lim : N) (picks : list N) : list op := [OReset; OSchedule lim picks].
Definition q_schedule_extra (lim : N) (picks : list N) : list op := [OSchedule lim picks].
Definition q_used (ids : list N) : list op := map OUsed ids.

Lemma q_ops_ok t q e lim picks ids :
  tseq t <= U64MAX ->
  Forall op_ok (q_add t q e ++ q_schedule lim picks ++ q_schedule_extra lim picks ++ q_used ids).
Proof.
  intros H. apply Forall_app. split; [repeat constructor; exact H|].
  apply Forall_app. split; [repeat constructor|].
  apply Forall_app. split; [repeat constructor|].
  unfold q_used. induction ids as [|i r IH]; cbn; constructor; [exact I|exact IH].
Qed.
