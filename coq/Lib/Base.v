(* Shared basics: association lists keyed by N, byte strings from big literals,
   case-comparison helpers used by the correspondence files written by the
   Go harnesses. *)
From Coq Require Export List NArith ZArith Bool Lia.
From Coq Require Import ZifyBool ZifyNat ZifyN.
Export ListNotations.
Open Scope N_scope.

Arguments N.add : simpl never.
Arguments N.mul : simpl never.
Arguments N.div : simpl never.
Arguments N.modulo : simpl never.
Arguments N.sub : simpl never.
Arguments N.pow : simpl never.
Arguments N.ltb : simpl never.
Arguments N.leb : simpl never.
Arguments N.eqb : simpl never.

(* ---------- association lists keyed by N (first match wins; [aset] keeps
   keys unique when they were) ---------- *)
Section AList.
  Context {V : Type}.
  Fixpoint aget (k : N) (l : list (N * V)) : option V :=
    match l with
    | [] => None
    | (k', v) :: r => if k' =? k then Some v else aget k r
    end.
  Fixpoint adel (k : N) (l : list (N * V)) : list (N * V) :=
    match l with
    | [] => []
    | (k', v) :: r => if k' =? k then adel k r else (k', v) :: adel k r
    end.
  Definition aset (k : N) (v : V) (l : list (N * V)) : list (N * V) :=
    (k, v) :: adel k l.

  Lemma aget_adel_same k l : aget k (adel k l) = None.
  Proof.
    induction l as [|[k' v] r IH]; cbn [adel aget]; [reflexivity|].
    destruct (k' =? k) eqn:E; [exact IH|]. cbn [aget]. rewrite E. exact IH.
  Qed.
  Lemma aget_adel_other k k' l : k <> k' -> aget k (adel k' l) = aget k l.
  Proof.
    intros Hne. induction l as [|[k2 v] r IH]; cbn [adel aget]; [reflexivity|].
    destruct (k2 =? k') eqn:E.
    - destruct (k2 =? k) eqn:E2; [lia|exact IH].
    - cbn [aget]. destruct (k2 =? k); [reflexivity|exact IH].
  Qed.
  Lemma aget_aset_same k v l : aget k (aset k v l) = Some v.
  Proof. unfold aset. cbn [aget]. rewrite N.eqb_refl. reflexivity. Qed.
  Lemma aget_aset_other k k' v l : k <> k' -> aget k (aset k' v l) = aget k l.
  Proof.
    intros Hne. unfold aset. cbn [aget].
    destruct (k' =? k) eqn:E; [lia|]. apply aget_adel_other; exact Hne.
  Qed.
End AList.

(* ---------- byte strings ---------- *)
Definition bytes := list N.

(* [bs len n]: the big-endian byte string of length [len] whose value is [n].
   The harnesses print byte strings as [bs 3 0x0a0b0c]. *)
Fixpoint bs_aux (len : nat) (n : N) (acc : bytes) : bytes :=
  match len with
  | O => acc
  | S l => bs_aux l (n / 256) ((n mod 256) :: acc)
  end.
Definition bs (len : nat) (n : N) : bytes := bs_aux len n [].

Fixpoint bytes_eqb (a b : bytes) : bool :=
  match a, b with
  | [], [] => true
  | x :: a', y :: b' => (x =? y) && bytes_eqb a' b'
  | _, _ => false
  end.

Lemma bytes_eqb_eq a b : bytes_eqb a b = true <-> a = b.
Proof.
  revert b; induction a as [|x a IH]; intros [|y b]; cbn [bytes_eqb]; split;
    try congruence; try reflexivity.
  - intros H. apply andb_true_iff in H as [H1 H2]. apply N.eqb_eq in H1.
    apply IH in H2. congruence.
  - intros H. injection H as -> ->. rewrite N.eqb_refl. cbn. apply IH. reflexivity.
Qed.

(* lexicographic order on byte strings: Lt / Eq / Gt *)
Fixpoint bytes_cmp (a b : bytes) : comparison :=
  match a, b with
  | [], [] => Eq
  | [], _ :: _ => Lt
  | _ :: _, [] => Gt
  | x :: a', y :: b' =>
      match N.compare x y with
      | Eq => bytes_cmp a' b'
      | c => c
      end
  end.

(* ---------- correspondence helper ----------
   [mismatches run eqb cases]: indices (from 0) of the cases whose model output
   differs from the recorded implementation output. *)
Section Mismatch.
  Context {I O : Type} (run : I -> O) (eqb : O -> O -> bool).
  Fixpoint mismatches_from (i : N) (cases : list (I * O)) : list N :=
    match cases with
    | [] => []
    | (inp, out) :: r =>
        if eqb (run inp) out then mismatches_from (i + 1) r
        else i :: mismatches_from (i + 1) r
    end.
  Definition mismatches := mismatches_from 0.
End Mismatch.

Fixpoint list_eqb {A} (eqb : A -> A -> bool) (a b : list A) : bool :=
  match a, b with
  | [], [] => true
  | x :: a', y :: b' => eqb x y && list_eqb eqb a' b'
  | _, _ => false
  end.

(* insertion sort on N, used to canonicalise set-like outputs *)
Fixpoint ninsert (x : N) (l : list N) : list N :=
  match l with
  | [] => [x]
  | y :: r => if x <=? y then x :: l else y :: ninsert x r
  end.
Definition nsort (l : list N) : list N := fold_right ninsert [] l.
