(* C13, part 1: the pending-log invariant and the correctness of the write log
   built at commit (for every old contents and every batch). *)
From Verif Require Import Lib.Base WriteLog.Model WriteLog.MapFacts.
From Coq Require Import Permutation.

(* ---------- the pending log as an association list ---------- *)
Lemma pget_none_notin k l : pget k l = None <-> ~ In k (map fst l).
Proof.
  induction l as [|[k' e] r IH]; cbn [pget map fst In].
  - split; [intros _ []|reflexivity].
  - destruct (bytes_eqb k' k) eqn:E.
    + apply bytes_eqb_eq in E. subst. split; [discriminate|]. intros H. exfalso. apply H. left. reflexivity.
    + apply bytes_eqb_neq in E. rewrite IH. split.
      * intros H [H1|H1]; [congruence|contradiction].
      * intros H H1. apply H. right. exact H1.
Qed.

Lemma pget_app_new k e l : pget k l = None -> pget k (l ++ [(k, e)]) = Some e.
Proof.
  induction l as [|[k' e'] r IH]; cbn [pget app].
  - rewrite bytes_eqb_refl. reflexivity.
  - destruct (bytes_eqb k' k); [discriminate|exact IH].
Qed.

Lemma pget_app_other k k2 e l : k2 <> k -> pget k2 (l ++ [(k, e)]) = pget k2 l.
Proof.
  intros Hne. induction l as [|[k' e'] r IH]; cbn [pget app].
  - assert (H : bytes_eqb k k2 = false) by (apply bytes_eqb_neq; congruence).
    rewrite H. reflexivity.
  - destruct (bytes_eqb k' k2); [reflexivity|exact IH].
Qed.

Lemma pget_pupd_same k v l e :
  pget k l = Some e -> pget k (pupd k v l) = Some (mkPe v (pe_existed e)).
Proof.
  induction l as [|[k' e'] r IH]; cbn [pget pupd]; [discriminate|].
  destruct (bytes_eqb k' k) eqn:E; cbn [pget]; rewrite E.
  - intros H. injection H as ->. reflexivity.
  - exact IH.
Qed.

Lemma pget_pupd_other k k2 v l : k2 <> k -> pget k2 (pupd k v l) = pget k2 l.
Proof.
  intros Hne. induction l as [|[k' e'] r IH]; cbn [pget pupd]; [reflexivity|].
  destruct (bytes_eqb k' k) eqn:E; cbn [pget].
  - apply bytes_eqb_eq in E. subst k'.
    assert (H : bytes_eqb k k2 = false) by (apply bytes_eqb_neq; congruence).
    rewrite H. reflexivity.
  - destruct (bytes_eqb k' k2); [reflexivity|exact IH].
Qed.

Lemma pupd_keys k v l : map fst (pupd k v l) = map fst l.
Proof.
  induction l as [|[k' e'] r IH]; cbn [pupd map fst]; [reflexivity|].
  destruct (bytes_eqb k' k); cbn [map fst]; [reflexivity|]. rewrite IH. reflexivity.
Qed.

(* ---------- the invariant (DESIGN C13) ---------- *)
(* For every key: untouched keys still have their old binding; a touched key's
   entry holds the current binding and remembers whether the key was in the
   OLD contents.  Keys of the log are distinct. *)
Definition inv (old : kvmap) (s : tstate) : Prop :=
  NoDup (map fst (ts_log s)) /\
  forall k, match pget k (ts_log s) with
            | None => get k (ts_tree s) = get k old
            | Some e => get k (ts_tree s) = pe_value e /\ pe_existed e = is_some (get k old)
            end.

Lemma inv_open old : inv old (open_tree old).
Proof. split; [constructor|]. intros k. reflexivity. Qed.

Lemma NoDup_app_new (k : bytes) (l : list bytes) : NoDup l -> ~ In k l -> NoDup (l ++ [k]).
Proof.
  intros Hn Hk. induction l as [|x l IH]; cbn [app].
  - constructor; [intros []|constructor].
  - inversion Hn as [|? ? Hx Hl]; subst. constructor.
    + intros Hin. apply in_app_or in Hin as [Hin|[Hin|[]]]; [contradiction|].
      subst. apply Hk. left. reflexivity.
    + apply IH; [exact Hl|]. intros Hin. apply Hk. right. exact Hin.
Qed.

Lemma inv_step old s o : inv old s -> inv old (step s o).
Proof.
  intros [Hnd Hk]. destruct o as [k v|k]; cbn [step].
  - (* Insert *)
    unfold do_insert. pose proof (Hk k) as Hkk.
    destruct (pget k (ts_log s)) as [e|] eqn:Ep.
    + split; cbn [ts_log ts_tree].
      * rewrite pupd_keys. exact Hnd.
      * intros k2. destruct (bytes_eqb k k2) eqn:E.
        -- apply bytes_eqb_eq in E. subst k2.
           rewrite (pget_pupd_same k (Some v) _ e Ep). cbn [pe_value pe_existed].
           rewrite get_set_same. split; [reflexivity|apply Hkk].
        -- apply bytes_eqb_neq in E.
           rewrite pget_pupd_other by congruence. rewrite get_set_other by congruence.
           apply Hk.
    + split; cbn [ts_log ts_tree].
      * rewrite map_app. cbn [map fst]. apply NoDup_app_new; [exact Hnd|].
        apply pget_none_notin. exact Ep.
      * intros k2. destruct (bytes_eqb k k2) eqn:E.
        -- apply bytes_eqb_eq in E. subst k2.
           rewrite (pget_app_new k _ _ Ep). cbn [pe_value pe_existed].
           rewrite get_set_same. split; [reflexivity|]. rewrite Hkk. reflexivity.
        -- apply bytes_eqb_neq in E.
           rewrite pget_app_other by congruence. rewrite get_set_other by congruence.
           apply Hk.
  - (* Remove *)
    unfold do_remove. pose proof (Hk k) as Hkk.
    destruct (pget k (ts_log s)) as [e|] eqn:Ep.
    + assert (Hgoal : inv old (mkTs (remove k (ts_tree s)) (pupd k None (ts_log s)))).
      { split; cbn [ts_log ts_tree].
        * rewrite pupd_keys. exact Hnd.
        * intros k2. destruct (bytes_eqb k k2) eqn:E.
          -- apply bytes_eqb_eq in E. subst k2.
             rewrite (pget_pupd_same k None _ e Ep). cbn [pe_value pe_existed].
             rewrite get_remove_same. split; [reflexivity|apply Hkk].
          -- apply bytes_eqb_neq in E.
             rewrite pget_pupd_other by congruence. rewrite get_remove_other by congruence.
             apply Hk. }
      destruct e as [[v|] ex]; [exact Hgoal|]. split; assumption.
    + split; cbn [ts_log ts_tree].
      * rewrite map_app. cbn [map fst]. apply NoDup_app_new; [exact Hnd|].
        apply pget_none_notin. exact Ep.
      * intros k2. destruct (bytes_eqb k k2) eqn:E.
        -- apply bytes_eqb_eq in E. subst k2.
           rewrite (pget_app_new k _ _ Ep). cbn [pe_value pe_existed].
           rewrite get_remove_same. split; [reflexivity|]. rewrite Hkk. reflexivity.
        -- apply bytes_eqb_neq in E.
           rewrite pget_app_other by congruence. rewrite get_remove_other by congruence.
           apply Hk.
Qed.

Lemma inv_fold old ops : forall s, inv old s -> inv old (fold_left step ops s).
Proof.
  induction ops as [|o ops IH]; intros s H; cbn [fold_left]; [exact H|].
  apply IH. apply inv_step. exact H.
Qed.

Lemma inv_run old ops : inv old (run_batch old ops).
Proof. apply inv_fold. apply inv_open. Qed.

(* ---------- the tree component is plain set/remove ---------- *)
Definition apply_op (m : kvmap) (o : op) : kvmap :=
  match o with
  | OInsert k v => set k v m
  | ORemove k => remove k m
  end.

Lemma tree_step old s o : inv old s -> ts_tree (step s o) = apply_op (ts_tree s) o.
Proof.
  intros [_ Hk]. destruct o as [k v|k]; cbn [step apply_op].
  - unfold do_insert. destruct (pget k (ts_log s)); reflexivity.
  - unfold do_remove. specialize (Hk k).
    destruct (pget k (ts_log s)) as [[[v|] ex]|]; cbn [ts_tree]; try reflexivity.
    cbn [pe_value] in Hk. destruct Hk as [Hk _]. rewrite remove_absent by exact Hk. reflexivity.
Qed.

Lemma tree_fold old ops : forall s, inv old s ->
  ts_tree (fold_left step ops s) = fold_left apply_op ops (ts_tree s).
Proof.
  induction ops as [|o ops IH]; intros s H; cbn [fold_left]; [reflexivity|].
  rewrite IH by (apply inv_step; exact H). rewrite (tree_step old s o H). reflexivity.
Qed.

Lemma contents_run old ops : contents (run_batch old ops) = fold_left apply_op ops old.
Proof. unfold contents, run_batch. rewrite (tree_fold old ops _ (inv_open old)). reflexivity. Qed.

Lemma apply_writelog_simple old wl : apply_writelog old wl = apply_simple old wl.
Proof.
  unfold apply_writelog. rewrite contents_run. unfold apply_simple.
  revert old. induction wl as [|e wl IH]; intros old; cbn [map fold_left]; [reflexivity|].
  rewrite IH. f_equal. unfold op_of_entry, apply_entry. destruct (snd e); reflexivity.
Qed.

Lemma sorted_apply_op m o : sorted m -> sorted (apply_op m o).
Proof. destruct o; cbn [apply_op]; [apply sorted_set|apply sorted_remove]. Qed.

Lemma sorted_fold_ops ops : forall m, sorted m -> sorted (fold_left apply_op ops m).
Proof.
  induction ops as [|o ops IH]; intros m H; cbn [fold_left]; [exact H|].
  apply IH. apply sorted_apply_op. exact H.
Qed.

Lemma sorted_contents old ops : sorted old -> sorted (contents (run_batch old ops)).
Proof. intros H. rewrite contents_run. apply sorted_fold_ops. exact H. Qed.

Lemma sorted_apply_writelog old wl : sorted old -> sorted (apply_writelog old wl).
Proof. intros H. unfold apply_writelog. apply sorted_contents. exact H. Qed.

(* ---------- what applying a log with distinct keys does ---------- *)
Fixpoint wl_get (k : bytes) (wl : writelog) : option (option bytes) :=
  match wl with
  | [] => None
  | (k', x) :: r => if bytes_eqb k' k then Some x else wl_get k r
  end.

Lemma wl_get_none_notin k wl : wl_get k wl = None <-> ~ In k (map fst wl).
Proof.
  induction wl as [|[k' x] r IH]; cbn [wl_get map fst In].
  - split; [intros _ []|reflexivity].
  - destruct (bytes_eqb k' k) eqn:E.
    + apply bytes_eqb_eq in E. subst. split; [discriminate|]. intros H. exfalso. apply H. left. reflexivity.
    + apply bytes_eqb_neq in E. rewrite IH. split.
      * intros H [H1|H1]; [congruence|contradiction].
      * intros H H1. apply H. right. exact H1.
Qed.

Lemma get_apply_entry_same m e : get (fst e) (apply_entry m e) = snd e.
Proof.
  unfold apply_entry. destruct (snd e); [apply get_set_same|apply get_remove_same].
Qed.

Lemma get_apply_entry_other m e k : k <> fst e -> get k (apply_entry m e) = get k m.
Proof.
  intros H. unfold apply_entry. destruct (snd e); [apply get_set_other|apply get_remove_other]; exact H.
Qed.

Lemma get_apply_simple k wl : forall m, NoDup (map fst wl) ->
  get k (apply_simple m wl) = match wl_get k wl with Some x => x | None => get k m end.
Proof.
  unfold apply_simple. induction wl as [|[k' x] r IH]; intros m Hnd; cbn [fold_left wl_get]; [reflexivity|].
  cbn [map fst] in Hnd. inversion Hnd as [|? ? Hnotin Hnd']; subst.
  rewrite IH by exact Hnd'.
  destruct (bytes_eqb k' k) eqn:E.
  - apply bytes_eqb_eq in E. subst k'.
    apply wl_get_none_notin in Hnotin. rewrite Hnotin.
    apply (get_apply_entry_same m (k, x)).
  - apply bytes_eqb_neq in E.
    destruct (wl_get k r); [reflexivity|].
    apply (get_apply_entry_other m (k', x)). cbn [fst]. congruence.
Qed.

Lemma wl_get_in k x wl : NoDup (map fst wl) -> (wl_get k wl = Some x <-> In (k, x) wl).
Proof.
  induction wl as [|[k' x'] r IH]; intros Hnd; cbn [wl_get In].
  - split; [discriminate|intros []].
  - cbn [map fst] in Hnd. inversion Hnd as [|? ? Hnotin Hnd']; subst.
    destruct (bytes_eqb k' k) eqn:E.
    + apply bytes_eqb_eq in E. subst k'. split.
      * intros H. injection H as ->. left. reflexivity.
      * intros [H|H]; [congruence|]. exfalso. apply Hnotin.
        apply (in_map fst) in H. exact H.
    + apply bytes_eqb_neq in E. rewrite (IH Hnd'). split.
      * intros H. right. exact H.
      * intros [H|H]; [congruence|exact H].
Qed.

Lemma wl_get_perm k wl wl' :
  NoDup (map fst wl) -> Permutation wl wl' -> wl_get k wl = wl_get k wl'.
Proof.
  intros Hnd Hp.
  assert (Hnd' : NoDup (map fst wl')).
  { eapply Permutation_NoDup; [apply Permutation_map; exact Hp|exact Hnd]. }
  destruct (wl_get k wl) as [x|] eqn:E1.
  - apply (wl_get_in k x wl Hnd) in E1. symmetry. apply (wl_get_in k x wl' Hnd').
    eapply Permutation_in; eassumption.
  - destruct (wl_get k wl') as [x|] eqn:E2; [|reflexivity].
    apply (wl_get_in k x wl' Hnd') in E2.
    assert (H : In (k, x) wl) by (eapply Permutation_in; [apply Permutation_sym|]; eassumption).
    apply (wl_get_in k x wl Hnd) in H. congruence.
Qed.

(* ---------- the log built at commit ---------- *)
Definition dropped (e : pentry) : bool :=
  match pe_value e, pe_existed e with None, false => true | _, _ => false end.

Lemma commit_entry_keys ke k : In k (map fst (commit_entry ke)) -> k = fst ke.
Proof.
  destruct ke as [k' [[v|] [|]]]; cbn; intros H; try (destruct H as [H|[]]; congruence). destruct H.
Qed.

Lemma commit_keys_in l k : In k (map fst (flat_map commit_entry l)) -> In k (map fst l).
Proof.
  induction l as [|ke r IH]; cbn [flat_map map]; [trivial|].
  rewrite map_app. intros H. apply in_app_or in H as [H|H].
  - left. symmetry. apply commit_entry_keys. exact H.
  - right. apply IH. exact H.
Qed.

Lemma commit_keys_nodup l : NoDup (map fst l) -> NoDup (map fst (flat_map commit_entry l)).
Proof.
  induction l as [|ke r IH]; cbn [flat_map map]; intros Hnd; [constructor|].
  inversion Hnd as [|? ? Hnotin Hnd']; subst. rewrite map_app.
  destruct ke as [k [[v|] [|]]]; cbn [commit_entry pe_value pe_existed map fst app];
    try (constructor; [intros H; apply Hnotin; apply commit_keys_in; exact H|apply IH; exact Hnd']).
  apply IH. exact Hnd'.
Qed.

Lemma wl_get_commit k l : NoDup (map fst l) ->
  wl_get k (flat_map commit_entry l) =
  match pget k l with
  | Some e => if dropped e then None else Some (pe_value e)
  | None => None
  end.
Proof.
  induction l as [|[k' e] r IH]; intros Hnd; cbn [flat_map pget]; [reflexivity|].
  cbn [map fst] in Hnd. inversion Hnd as [|? ? Hnotin Hnd']; subst.
  destruct (bytes_eqb k' k) eqn:E.
  - apply bytes_eqb_eq in E. subst k'.
    destruct e as [[v|] [|]]; cbn [commit_entry pe_value pe_existed dropped app wl_get];
      rewrite ?bytes_eqb_refl; try reflexivity.
    apply wl_get_none_notin. intros H. apply Hnotin. apply commit_keys_in. exact H.
  - rewrite <- (IH Hnd').
    destruct e as [[v|] [|]]; cbn [commit_entry pe_value pe_existed app wl_get];
      rewrite ?E; reflexivity.
Qed.

(* ---------- main results ---------- *)
Lemma writelog_keys_nodup_lem old ops :
  NoDup (map fst (commit_writelog (run_batch old ops))).
Proof. apply commit_keys_nodup. apply (inv_run old ops). Qed.

Lemma writelog_correct_ext old ops k :
  get k (apply_writelog old (commit_writelog (run_batch old ops))) =
  get k (contents (run_batch old ops)).
Proof.
  rewrite apply_writelog_simple.
  rewrite get_apply_simple by apply writelog_keys_nodup_lem.
  destruct (inv_run old ops) as [Hnd Hk]. unfold commit_writelog. rewrite wl_get_commit by exact Hnd.
  specialize (Hk k). unfold contents.
  destruct (pget k (ts_log (run_batch old ops))) as [[[v|] [|]]|];
    cbn [dropped pe_value pe_existed] in *.
  - symmetry. apply Hk.
  - symmetry. apply Hk.
  - symmetry. apply Hk.
  - destruct Hk as [H1 H2]. rewrite H1. destruct (get k old); [discriminate|reflexivity].
  - symmetry. exact Hk.
Qed.

Lemma writelog_correct_lem old ops : sorted old ->
  apply_writelog old (commit_writelog (run_batch old ops)) = contents (run_batch old ops).
Proof.
  intros Hs. apply sorted_ext.
  - apply sorted_apply_writelog. exact Hs.
  - apply sorted_contents. exact Hs.
  - intros k. apply writelog_correct_ext.
Qed.

(* entries are sound: a put carries the final value, a delete names a key
   that was in the old contents and is absent at the end *)
Lemma writelog_entries_sound_lem old ops k x :
  In (k, x) (commit_writelog (run_batch old ops)) ->
  get k (contents (run_batch old ops)) = x /\ (x = None -> get k old <> None).
Proof.
  intros Hin. apply (wl_get_in k x _ (writelog_keys_nodup_lem old ops)) in Hin.
  destruct (inv_run old ops) as [Hnd Hk]. unfold commit_writelog in Hin.
  rewrite wl_get_commit in Hin by exact Hnd. specialize (Hk k). unfold contents.
  destruct (pget k (ts_log (run_batch old ops))) as [[[v|] [|]]|];
    cbn [dropped pe_value pe_existed] in *; try discriminate;
    injection Hin as <-; destruct Hk as [H1 H2]; (split; [exact H1|]); try discriminate.
  intros _. destruct (get k old); [discriminate|discriminate].
Qed.

(* minimality relied on by the code: a key that was never in the old contents
   and is absent at the end does not appear *)
Lemma writelog_minimal_lem old ops k :
  get k old = None -> get k (contents (run_batch old ops)) = None ->
  ~ In k (map fst (commit_writelog (run_batch old ops))).
Proof.
  intros Ho Hn. apply wl_get_none_notin.
  destruct (inv_run old ops) as [Hnd Hk]. unfold commit_writelog.
  rewrite wl_get_commit by exact Hnd. specialize (Hk k). unfold contents in Hn.
  destruct (pget k (ts_log (run_batch old ops))) as [[[v|] [|]]|];
    cbn [dropped pe_value pe_existed] in *; try reflexivity;
    destruct Hk as [H1 H2]; rewrite Ho in H2; cbn in H2; congruence.
Qed.

(* completeness: every key whose binding changed is in the log *)
Lemma writelog_complete_lem old ops k :
  get k (contents (run_batch old ops)) <> get k old ->
  In k (map fst (commit_writelog (run_batch old ops))).
Proof.
  intros Hne.
  destruct (wl_get k (commit_writelog (run_batch old ops))) as [x|] eqn:E.
  - apply (wl_get_in k x _ (writelog_keys_nodup_lem old ops)) in E.
    apply (in_map fst) in E. exact E.
  - exfalso. apply Hne. rewrite <- writelog_correct_ext.
    rewrite apply_writelog_simple, get_apply_simple by apply writelog_keys_nodup_lem.
    rewrite E. reflexivity.
Qed.

(* order: any permutation of a log with distinct keys has the same effect
   (commit.go:101 ranges over a Go map) *)
Lemma apply_order_irrelevant_lem old wl wl' :
  sorted old -> NoDup (map fst wl) -> Permutation wl wl' ->
  apply_writelog old wl = apply_writelog old wl'.
Proof.
  intros Hs Hnd Hp. apply sorted_ext; try (apply sorted_apply_writelog; exact Hs).
  intros k. rewrite !apply_writelog_simple.
  assert (Hnd' : NoDup (map fst wl')).
  { eapply Permutation_NoDup; [apply Permutation_map; exact Hp|exact Hnd]. }
  rewrite !get_apply_simple by assumption.
  rewrite (wl_get_perm k wl wl' Hnd Hp). reflexivity.
Qed.

Lemma served_log_any_order_lem old ops wl' :
  sorted old -> Permutation (commit_writelog (run_batch old ops)) wl' ->
  apply_writelog old wl' = contents (run_batch old ops).
Proof.
  intros Hs Hp. rewrite <- (writelog_correct_lem old ops Hs). symmetry.
  apply apply_order_irrelevant_lem; [exact Hs|apply writelog_keys_nodup_lem|exact Hp].
Qed.

(* whatever a database serves for a root (any backend, any position among
   the candidates of its version, before or after finalization) is the commit
   log, hence correct; refusal is the only alternative *)
Lemma serve_is_commit_log b seq f wl wl' : serve b seq f wl = Some wl' -> wl' = wl.
Proof.
  unfold serve. destruct wl as [|e r]; [discriminate|].
  destruct f; [destruct b; [|destruct (seq =? 0)]| |]; congruence.
Qed.

Lemma served_fork_log_correct_lem old ops b seq f wl' :
  sorted old ->
  serve b seq f (commit_writelog (run_batch old ops)) = Some wl' ->
  apply_writelog old wl' = contents (run_batch old ops).
Proof.
  intros Hs H. apply serve_is_commit_log in H. subst wl'. apply writelog_correct_lem. exact Hs.
Qed.

(* ---------- rejected commit attempts ---------- *)
Lemma run_history_ops_lem old hs : run_history old hs = run_batch old (ops_of hs).
Proof.
  unfold run_history, run_batch. generalize (open_tree old).
  induction hs as [|[o|] r IH]; intros s; cbn [fold_left ops_of hstep]; [reflexivity| |]; apply IH.
Qed.

(* the log stored by the next successful commit, over a history with any
   number of rejected attempts: applied to the contents of the last SUCCESSFUL
   commit it gives the current contents, and it names every key whose binding
   differs from then *)
Lemma history_log_correct_lem old hs : sorted old ->
  apply_writelog old (commit_writelog (run_history old hs)) = contents (run_history old hs) /\
  NoDup (map fst (commit_writelog (run_history old hs))) /\
  (forall k, get k (contents (run_history old hs)) <> get k old ->
             In k (map fst (commit_writelog (run_history old hs)))).
Proof.
  intros Hs. rewrite run_history_ops_lem. split; [apply writelog_correct_lem; exact Hs|].
  split; [apply writelog_keys_nodup_lem|]. intros k. apply writelog_complete_lem.
Qed.

(* forgetting the pending log at a rejected attempt loses entries: the model
   of that variant, refuted *)
Definition hstep_forgetful (s : tstate) (h : hop) : tstate :=
  match h with
  | HOp o => step s o
  | HRejected => mkTs (ts_tree s) []
  end.
Example forgetful_rejected_commit_refuted :
  let old : kvmap := [([97], [1])] in
  let hs := [HOp (OInsert [98] [2]); HRejected; HOp (OInsert [99] [3])] in
  let s := fold_left hstep_forgetful hs (open_tree old) in
  apply_writelog old (commit_writelog s) <> contents s /\
  apply_writelog old (commit_writelog (run_history old hs)) = contents (run_history old hs).
Proof. cbv zeta. split; vm_compute; [discriminate|reflexivity]. Qed.

(* ---------- multi-hop answers ---------- *)
Lemma apply_writelog_app old wl1 wl2 :
  apply_writelog old (wl1 ++ wl2) = apply_writelog (apply_writelog old wl1) wl2.
Proof. rewrite !apply_writelog_simple. unfold apply_simple. apply fold_left_app. Qed.

(* the concatenation of the hop logs in path order takes the start contents
   to the end contents, for any number of hops, whether or not hops write
   the same keys *)
Lemma multi_hop_log_correct_lem path : forall old, sorted old ->
  apply_writelog old (path_log old path) = run_path old path.
Proof.
  induction path as [|ops r IH]; intros old Hs; cbn [path_log run_path].
  - reflexivity.
  - rewrite apply_writelog_app, (writelog_correct_lem old ops Hs).
    apply IH. apply sorted_contents. exact Hs.
Qed.

(* both hops write the same key: path order is right, newest-hop-first is not *)
Example multi_hop_same_key :
  let old : kvmap := [] in
  let path := [[OInsert [97; 98] [120]]; [OInsert [97; 98] []]] in
  path_log old path = [([97; 98], Some [120]); ([97; 98], Some [])] /\
  apply_writelog old (path_log old path) = run_path old path /\
  apply_writelog old (rev (path_log old path)) <> run_path old path.
Proof. cbv zeta. split; [vm_compute; reflexivity|]. split; [vm_compute; reflexivity|]. vm_compute. discriminate. Qed.

(* ---------- hashed write log ---------- *)
Lemma revive_commit new l :
  (forall k e, In (k, e) l -> forall v, pe_value e = Some v -> get k new = Some v) ->
  revive new (make_hashed (flat_map commit_entry l)) = Some (flat_map commit_entry l).
Proof.
  induction l as [|[k e] r IH]; intros H; cbn [flat_map]; [reflexivity|].
  assert (IH' : revive new (make_hashed (flat_map commit_entry r)) = Some (flat_map commit_entry r)).
  { apply IH. intros k0 e0 Hin. apply H. right. exact Hin. }
  destruct e as [[v|] ex].
  - assert (Hg : get k new = Some v) by (apply (H k (mkPe (Some v) ex)); [left; reflexivity|reflexivity]).
    assert (Hc : commit_entry (k, mkPe (Some v) ex) = [(k, Some v)]) by (destruct ex; reflexivity).
    rewrite Hc. change (revive new ((k, true) :: make_hashed (flat_map commit_entry r))
                        = Some ((k, Some v) :: flat_map commit_entry r)).
    cbn [revive]. rewrite Hg, IH'. reflexivity.
  - destruct ex.
    + change (revive new ((k, false) :: make_hashed (flat_map commit_entry r))
              = Some ((k, None) :: flat_map commit_entry r)).
      cbn [revive]. rewrite IH'. reflexivity.
    + exact IH'.
Qed.

Lemma pget_of_in k e l : NoDup (map fst l) -> In (k, e) l -> pget k l = Some e.
Proof.
  induction l as [|[k' e'] r IH]; intros Hnd Hin; cbn [pget]; [destruct Hin|].
  cbn [map fst] in Hnd. inversion Hnd as [|? ? Hnotin Hnd']; subst.
  destruct Hin as [Hin|Hin].
  - injection Hin as -> ->. rewrite bytes_eqb_refl. reflexivity.
  - destruct (bytes_eqb k' k) eqn:E.
    + apply bytes_eqb_eq in E. subst k'. exfalso. apply Hnotin.
      apply (in_map fst) in Hin. exact Hin.
    + apply IH; assumption.
Qed.

Lemma revive_roundtrip_lem old ops :
  revive (contents (run_batch old ops)) (make_hashed (commit_writelog (run_batch old ops)))
  = Some (commit_writelog (run_batch old ops)).
Proof.
  destruct (inv_run old ops) as [Hnd Hk]. unfold commit_writelog. apply revive_commit.
  intros k e Hin v Hv. specialize (Hk k). rewrite (pget_of_in k e _ Hnd Hin) in Hk.
  destruct Hk as [H1 _]. unfold contents. congruence.
Qed.

(* revival in any order: the hashed log may be walked in any order (and the
   log it was made from was built by ranging over a Go map); the revived log
   is the same up to order, hence has the same effect *)
Definition hentry_entry (new : kvmap) (h : hentry) : option entry :=
  match h with
  | (k, false) => Some (k, None)
  | (k, true) => match get k new with Some v => Some (k, Some v) | None => None end
  end.

Lemma revive_cons new h r :
  revive new (h :: r) =
  match hentry_entry new h, revive new r with
  | Some e, Some wl => Some (e :: wl)
  | _, _ => None
  end.
Proof.
  destruct h as [k [|]]; cbn [revive hentry_entry].
  - destruct (get k new); [|reflexivity]. destruct (revive new r); reflexivity.
  - destruct (revive new r); reflexivity.
Qed.

Lemma revive_perm_lem new hl hl' :
  Permutation hl hl' -> forall wl, revive new hl = Some wl ->
  exists wl', revive new hl' = Some wl' /\ Permutation wl wl'.
Proof.
  induction 1 as [|x l l' Hp IH|x y l|l1 l2 l3 H12 IH12 H23 IH23]; intros wl Hr.
  - exists wl. split; [exact Hr|apply Permutation_refl].
  - rewrite revive_cons in Hr. rewrite revive_cons.
    destruct (hentry_entry new x) as [e|]; [|discriminate].
    destruct (revive new l) as [wl0|] eqn:E; [|discriminate]. injection Hr as <-.
    destruct (IH wl0 eq_refl) as [wl0' [H1 H2]]. rewrite H1.
    exists (e :: wl0'). split; [reflexivity|apply perm_skip; exact H2].
  - rewrite !revive_cons in Hr. rewrite !revive_cons.
    destruct (hentry_entry new y) as [ey|]; [|discriminate].
    destruct (hentry_entry new x) as [ex|]; [|destruct (revive new l); discriminate].
    destruct (revive new l) as [wl0|]; [|discriminate]. injection Hr as <-.
    exists (ex :: ey :: wl0). split; [reflexivity|apply perm_swap].
  - destruct (IH12 wl Hr) as [wl2 [H1 H2]]. destruct (IH23 wl2 H1) as [wl3 [H3 H4]].
    exists wl3. split; [exact H3|eapply Permutation_trans; eassumption].
Qed.

Lemma revive_any_order_correct_lem old ops hl' :
  sorted old ->
  Permutation (make_hashed (commit_writelog (run_batch old ops))) hl' ->
  exists wl', revive (contents (run_batch old ops)) hl' = Some wl' /\
              Permutation (commit_writelog (run_batch old ops)) wl' /\
              apply_writelog old wl' = contents (run_batch old ops).
Proof.
  intros Hs Hp.
  destruct (revive_perm_lem _ _ _ Hp _ (revive_roundtrip_lem old ops)) as [wl' [H1 H2]].
  exists wl'. repeat split; [exact H1|exact H2|].
  apply served_log_any_order_lem; assumption.
Qed.

(* ---------- which corruptions change the result ---------- *)
(* dropping an entry that has an effect on the old contents *)
Lemma dropped_entry_differs_lem old wl1 e wl2 :
  NoDup (map fst (wl1 ++ e :: wl2)) -> get (fst e) old <> snd e ->
  apply_writelog old (wl1 ++ wl2) <> apply_writelog old (wl1 ++ e :: wl2).
Proof.
  intros Hnd Heff Heq.
  assert (Hnd2 : NoDup (map fst (wl1 ++ wl2))).
  { rewrite map_app in *. cbn [map] in Hnd. eapply NoDup_remove_1. exact Hnd. }
  assert (Hnotin : ~ In (fst e) (map fst (wl1 ++ wl2))).
  { rewrite map_app in *. cbn [map] in Hnd. eapply NoDup_remove_2. exact Hnd. }
  apply (f_equal (get (fst e))) in Heq. rewrite !apply_writelog_simple in Heq.
  rewrite !get_apply_simple in Heq by assumption.
  apply wl_get_none_notin in Hnotin. rewrite Hnotin in Heq.
  assert (Hin : wl_get (fst e) (wl1 ++ e :: wl2) = Some (snd e)).
  { apply wl_get_in; [exact Hnd|]. apply in_or_app. right. left. destruct e; reflexivity. }
  rewrite Hin in Heq. contradiction.
Qed.

(* altering the value (or the kind) of an entry *)
Lemma altered_value_differs_lem old wl1 k x y wl2 :
  NoDup (map fst (wl1 ++ (k, x) :: wl2)) -> x <> y ->
  apply_writelog old (wl1 ++ (k, y) :: wl2) <> apply_writelog old (wl1 ++ (k, x) :: wl2).
Proof.
  intros Hnd Hxy Heq.
  assert (Hnd2 : NoDup (map fst (wl1 ++ (k, y) :: wl2))).
  { rewrite map_app in *. exact Hnd. }
  apply (f_equal (get k)) in Heq. rewrite !apply_writelog_simple in Heq.
  rewrite !get_apply_simple in Heq by assumption.
  assert (H1 : wl_get k (wl1 ++ (k, x) :: wl2) = Some x).
  { apply wl_get_in; [exact Hnd|]. apply in_or_app. right. left. reflexivity. }
  assert (H2 : wl_get k (wl1 ++ (k, y) :: wl2) = Some y).
  { apply wl_get_in; [exact Hnd2|]. apply in_or_app. right. left. reflexivity. }
  rewrite H1, H2 in Heq. congruence.
Qed.

(* appending an entry (new key, or a second entry for a key of the log) whose
   value is not what the correct result has for that key: last write wins *)
Lemma appended_entry_differs_lem old wl k x :
  get k (apply_writelog old wl) <> x ->
  apply_writelog old (wl ++ [(k, x)]) <> apply_writelog old wl.
Proof.
  intros Hne Heq. apply Hne. rewrite <- Heq at 1.
  rewrite !apply_writelog_simple. unfold apply_simple. rewrite fold_left_app. cbn [fold_left].
  apply (get_apply_entry_same _ (k, x)).
Qed.

(* ---------- non-vacuity: one batch with all five patterns ---------- *)
Definition ex_old : kvmap := [([1], [10]); ([1; 2], [11]); ([3], [])].
Definition ex_ops : list op :=
  [ OInsert [1] [10];                   (* overwrite with the same value *)
    ORemove [1; 2]; OInsert [1; 2] [12]; (* remove then reinsert *)
    OInsert [2] [20]; ORemove [2];       (* insert then remove (never existed) *)
    OInsert [4] [];                      (* empty value *)
    ORemove [3]; ORemove [3];            (* removal, repeated *)
    ORemove [9] ].                       (* removal of an absent key *)

Example ex_sorted : sorted ex_old.
Proof. cbn. repeat split; repeat constructor. Qed.

Example ex_log :
  commit_writelog (run_batch ex_old ex_ops) =
  [([1], Some [10]); ([1; 2], Some [12]); ([4], Some []); ([3], None)] /\
  contents (run_batch ex_old ex_ops) = [([1], [10]); ([1; 2], [12]); ([4], [])].
Proof. split; vm_compute; reflexivity. Qed.

Example ex_dropped_effective :
  get (fst ([3], @None bytes)) ex_old <> snd ([3], @None bytes).
Proof. vm_compute. discriminate. Qed.
