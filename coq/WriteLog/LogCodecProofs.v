(* decode (encode l) = l for the stored form of pathbadger's internal write log. *)
From Verif Require Import Lib.Base WriteLog.Model WriteLog.PathLog WriteLog.LogCodec.

Definition bef (a x : N) : N := a * 256 + x.

Lemma bs_aux_fold len : forall n acc a0,
  fold_left bef (bs_aux len n acc) a0 = fold_left bef acc (a0 * 256 ^ N.of_nat len + n mod 256 ^ N.of_nat len).
Proof.
  induction len as [|l IH]; intros n acc a0.
  - cbn [bs_aux]. change (N.of_nat 0) with 0. rewrite N.pow_0_r, N.mod_1_r. f_equal. lia.
  - cbn [bs_aux]. rewrite IH. cbn [fold_left]. f_equal. unfold bef.
    rewrite Nat2N.inj_succ, N.pow_succ_r'.
    rewrite (N.mod_mul_r n 256 (256 ^ N.of_nat l)) by (try lia; apply N.pow_nonzero; lia).
    lia.
Qed.

Lemma be_val_bs len n : n < 256 ^ N.of_nat len -> be_val (bs len n) = n.
Proof.
  intros H. unfold be_val, bs. fold bef. rewrite bs_aux_fold. cbn [fold_left].
  rewrite N.mod_small by exact H. lia.
Qed.

Lemma bs_aux_length len : forall n acc, length (bs_aux len n acc) = (len + length acc)%nat.
Proof.
  induction len as [|l IH]; intros n acc; cbn [bs_aux]; [reflexivity|].
  rewrite IH. cbn [length]. lia.
Qed.
Lemma bs_length len n : length (bs len n) = len.
Proof. unfold bs. rewrite bs_aux_length. cbn [length]. lia. Qed.

Lemma take_app (a r : bytes) : take (length a) (a ++ r) = Some (a, r).
Proof. induction a as [|x a IH]; cbn [length take app]; [reflexivity|]. rewrite IH. reflexivity. Qed.

Lemma head_byte m ai : ai < 32 -> (m * 32 + ai) / 32 = m /\ (m * 32 + ai) mod 32 = ai.
Proof.
  intros H. split.
  - rewrite N.div_add_l by lia. rewrite N.div_small by exact H. lia.
  - rewrite N.add_comm, N.mod_add by lia. apply N.mod_small. exact H.
Qed.

Lemma dec_head_enc m n r : n < 18446744073709551616 ->
  dec_head (cbor_head m n ++ r) = Some (m, n, r).
Proof.
  intros Hn. unfold cbor_head.
  destruct (n <? 24) eqn:E0.
  - apply N.ltb_lt in E0. cbn [app dec_head].
    destruct (head_byte m n) as [H1 H2]; [lia|]. rewrite H1, H2.
    assert (E : (n <? 24) = true) by (apply N.ltb_lt; exact E0). rewrite E. reflexivity.
  - apply N.ltb_ge in E0.
    assert (Hcase : forall ai k, (24 <= ai < 28) ->
              (if ai =? 24 then Some 1%nat else if ai =? 25 then Some 2%nat
               else if ai =? 26 then Some 4%nat else if ai =? 27 then Some 8%nat else None) = Some k ->
              n < 256 ^ N.of_nat k ->
              dec_head (((m * 32 + ai) :: bs k n) ++ r) = Some (m, n, r)).
    { intros ai k Hai Hk Hlt. cbn [app dec_head].
      destruct (head_byte m ai) as [H1 H2]; [lia|]. rewrite H1, H2.
      assert (E : (ai <? 24) = false) by (apply N.ltb_ge; lia). rewrite E, Hk.
      rewrite <- (bs_length k n) at 1. rewrite take_app. rewrite be_val_bs by exact Hlt. reflexivity. }
    destruct (n <? 256) eqn:E1; [apply N.ltb_lt in E1; apply (Hcase 24 1%nat); [lia|reflexivity|exact E1]|].
    destruct (n <? 65536) eqn:E2; [apply N.ltb_lt in E2; apply (Hcase 25 2%nat); [lia|reflexivity|exact E2]|].
    destruct (n <? 4294967296) eqn:E3; [apply N.ltb_lt in E3; apply (Hcase 26 4%nat); [lia|reflexivity|exact E3]|].
    apply (Hcase 27 8%nat); [lia|reflexivity|exact Hn].
Qed.

Lemma firstn_app_exact {A} (a b : list A) : firstn (length a) (a ++ b) = a.
Proof. induction a as [|x a IH]; cbn [length firstn app]; [reflexivity|]. rewrite IH. reflexivity. Qed.
Lemma skipn_app_exact {A} (a b : list A) : skipn (length a) (a ++ b) = b.
Proof. induction a as [|x a IH]; cbn [length skipn app]; [reflexivity|exact IH]. Qed.

Lemma dec_entry_enc e : ientry_wf e -> dec_entry (enc_entry e) = e.
Proof.
  destruct e as [[v i]|k|]; cbn [ientry_wf enc_entry dec_entry]; [|reflexivity|intros []].
  intros [Hv Hi]. rewrite app_length, !bs_length. cbn [Nat.add Nat.eqb].
  pose proof (firstn_app_exact (bs 8 v) (bs 4 i)) as Hf. rewrite bs_length in Hf. rewrite Hf.
  pose proof (skipn_app_exact (bs 8 v) (bs 4 i)) as Hs. rewrite bs_length in Hs. rewrite Hs.
  rewrite !be_val_bs by assumption. reflexivity.
Qed.

Lemma dec_items_enc (l : list ientry) : forall r,
  Forall ientry_wf l ->
  Forall (fun e => N.of_nat (length (enc_entry e)) < 18446744073709551616) l ->
  dec_items (length l) (flat_map (fun e => enc_bstr (enc_entry e)) l ++ r) = Some (l, r).
Proof.
  induction l as [|e l IH]; intros r Hwf Hlen; cbn [length flat_map dec_items app]; [reflexivity|].
  inversion Hwf as [|? ? Hwe Hwl]; subst. inversion Hlen as [|? ? Hle Hll]; subst.
  unfold enc_bstr at 1. rewrite <- !app_assoc. rewrite dec_head_enc by exact Hle.
  rewrite Nat2N.id, take_app, IH by assumption. rewrite dec_entry_enc by exact Hwe. reflexivity.
Qed.

Lemma decode_encode_log_lem (l : list ientry) :
  Forall ientry_wf l ->
  Forall (fun e => N.of_nat (length (enc_entry e)) < 18446744073709551616) l ->
  N.of_nat (length l) < 18446744073709551616 ->
  decode_log (encode_log l) = Some l.
Proof.
  intros Hwf Hlen Hn. unfold decode_log, encode_log. rewrite dec_head_enc by exact Hn.
  rewrite Nat2N.id. rewrite <- (app_nil_r (flat_map _ l)). rewrite dec_items_enc by assumption.
  reflexivity.
Qed.

(* non-vacuity, and what the bytes look like *)
Example codec_example :
  encode_log [IInsert (3, 7); IDelete [97; 98]] =
  [130; 77; 1; 0; 0; 0; 0; 0; 0; 0; 3; 0; 0; 0; 7; 67; 2; 97; 98] /\
  decode_log (encode_log [IInsert (3, 7); IDelete [97; 98]]) = Some [IInsert (3, 7); IDelete [97; 98]].
Proof. split; vm_compute; reflexivity. Qed.
