(* Facts about the byte-string order and the sorted key/value maps of
   WriteLog/Model.v. *)
From Verif Require Import Lib.Base WriteLog.Model.
From Coq Require Import Permutation.

(* ---------- bytes_eqb / bytes_cmp ---------- *)
Lemma bytes_eqb_refl a : bytes_eqb a a = true.
Proof. apply bytes_eqb_eq. reflexivity. Qed.

Lemma bytes_eqb_neq a b : bytes_eqb a b = false <-> a <> b.
Proof.
  split.
  - intros H E. apply bytes_eqb_eq in E. congruence.
  - intros H. destruct (bytes_eqb a b) eqn:E; [|reflexivity].
    apply bytes_eqb_eq in E. contradiction.
Qed.

Lemma bytes_eqb_sym a b : bytes_eqb a b = bytes_eqb b a.
Proof.
  destruct (bytes_eqb a b) eqn:E1, (bytes_eqb b a) eqn:E2; try reflexivity.
  - apply bytes_eqb_eq in E1. subst. rewrite bytes_eqb_refl in E2. discriminate.
  - apply bytes_eqb_eq in E2. subst. rewrite bytes_eqb_refl in E1. discriminate.
Qed.

Lemma bytes_cmp_eq a b : bytes_cmp a b = Eq <-> a = b.
Proof.
  revert b. induction a as [|x a IH]; intros [|y b]; cbn [bytes_cmp]; split;
    try congruence; try reflexivity.
  - destruct (N.compare x y) eqn:E; try discriminate.
    apply N.compare_eq in E. intros H. apply IH in H. congruence.
  - intros H. injection H as -> ->. rewrite N.compare_refl. apply IH. reflexivity.
Qed.

Lemma bytes_cmp_refl a : bytes_cmp a a = Eq.
Proof. apply bytes_cmp_eq. reflexivity. Qed.

Lemma bytes_cmp_antisym a b : bytes_cmp b a = CompOpp (bytes_cmp a b).
Proof.
  revert b. induction a as [|x a IH]; intros [|y b]; cbn [bytes_cmp]; try reflexivity.
  rewrite (N.compare_antisym x y).
  destruct (N.compare x y); cbn [CompOpp]; try reflexivity. apply IH.
Qed.

Lemma bytes_cmp_lt_trans a b c :
  bytes_cmp a b = Lt -> bytes_cmp b c = Lt -> bytes_cmp a c = Lt.
Proof.
  revert b c. induction a as [|x a IH]; intros [|y b] [|z c]; cbn [bytes_cmp];
    try congruence.
  destruct (N.compare x y) eqn:E1; try discriminate.
  - apply N.compare_eq in E1. subst y.
    destruct (N.compare x z) eqn:E2; try congruence. apply IH.
  - intros _. destruct (N.compare y z) eqn:E2; try discriminate.
    + apply N.compare_eq in E2. subst z. rewrite E1. reflexivity.
    + intros _. assert (H : N.compare x z = Lt).
      { apply N.compare_lt_iff. apply N.compare_lt_iff in E1. apply N.compare_lt_iff in E2.
        eapply N.lt_trans; eassumption. }
      rewrite H. reflexivity.
Qed.

Lemma bytes_cmp_gt_lt a b : bytes_cmp a b = Gt <-> bytes_cmp b a = Lt.
Proof.
  rewrite (bytes_cmp_antisym a b). destruct (bytes_cmp a b); cbn; split; congruence.
Qed.

Lemma bytes_cmp_lt_neq a b : bytes_cmp a b = Lt -> a <> b.
Proof. intros H E. subst. rewrite bytes_cmp_refl in H. discriminate. Qed.

Lemma bytes_cmp_gt_neq a b : bytes_cmp a b = Gt -> a <> b.
Proof. intros H E. subst. rewrite bytes_cmp_refl in H. discriminate. Qed.

(* ---------- get / set / remove ---------- *)
Lemma get_set_same k v m : get k (set k v m) = Some v.
Proof.
  induction m as [|[k' v'] r IH]; cbn [set get].
  - rewrite bytes_eqb_refl. reflexivity.
  - destruct (bytes_cmp k k') eqn:E; cbn [get].
    + rewrite bytes_eqb_refl. reflexivity.
    + rewrite bytes_eqb_refl. reflexivity.
    + apply bytes_cmp_gt_neq in E.
      assert (H : bytes_eqb k' k = false) by (apply bytes_eqb_neq; congruence).
      rewrite H. exact IH.
Qed.

Lemma get_set_other k k2 v m : k2 <> k -> get k2 (set k v m) = get k2 m.
Proof.
  intros Hne. induction m as [|[k' v'] r IH]; cbn [set get].
  - assert (H : bytes_eqb k k2 = false) by (apply bytes_eqb_neq; congruence).
    rewrite H. reflexivity.
  - assert (H : bytes_eqb k k2 = false) by (apply bytes_eqb_neq; congruence).
    destruct (bytes_cmp k k') eqn:E; cbn [get].
    + rewrite H. apply bytes_cmp_eq in E. subst k'. rewrite H. reflexivity.
    + rewrite H. reflexivity.
    + rewrite IH. reflexivity.
Qed.

Lemma get_remove_same k m : get k (remove k m) = None.
Proof.
  induction m as [|[k' v'] r IH]; cbn [remove get]; [reflexivity|].
  destruct (bytes_eqb k' k) eqn:E; [exact IH|]. cbn [get]. rewrite E. exact IH.
Qed.

Lemma get_remove_other k k2 m : k2 <> k -> get k2 (remove k m) = get k2 m.
Proof.
  intros Hne. induction m as [|[k' v'] r IH]; cbn [remove get]; [reflexivity|].
  destruct (bytes_eqb k' k) eqn:E.
  - apply bytes_eqb_eq in E. subst k'.
    assert (H : bytes_eqb k k2 = false) by (apply bytes_eqb_neq; congruence).
    rewrite H. exact IH.
  - cbn [get]. rewrite IH. reflexivity.
Qed.

Lemma remove_absent k m : get k m = None -> remove k m = m.
Proof.
  induction m as [|[k' v'] r IH]; cbn [remove get]; [reflexivity|].
  destruct (bytes_eqb k' k); [discriminate|]. intros H. rewrite IH by exact H. reflexivity.
Qed.

Lemma get_in k v m : get k m = Some v -> In (k, v) m.
Proof.
  induction m as [|[k' v'] r IH]; cbn [get]; [discriminate|].
  destruct (bytes_eqb k' k) eqn:E.
  - apply bytes_eqb_eq in E. intros H. injection H as ->. subst. left. reflexivity.
  - intros H. right. apply IH. exact H.
Qed.

(* ---------- sortedness ---------- *)
Definition key_lt (k : bytes) (e : bytes * bytes) : Prop := bytes_cmp k (fst e) = Lt.

Fixpoint sorted (m : kvmap) : Prop :=
  match m with
  | [] => True
  | (k, _) :: r => Forall (key_lt k) r /\ sorted r
  end.

Lemma Forall_set (P : bytes * bytes -> Prop) k v m :
  Forall P m -> P (k, v) -> Forall P (set k v m).
Proof.
  intros Hm Hk. induction m as [|[k' v'] r IH]; cbn [set].
  - constructor; [exact Hk|constructor].
  - inversion Hm as [|? ? H1 H2]; subst.
    destruct (bytes_cmp k k').
    + constructor; assumption.
    + constructor; [exact Hk|]. constructor; assumption.
    + constructor; [exact H1|]. apply IH. exact H2.
Qed.

Lemma Forall_remove (P : bytes * bytes -> Prop) k m :
  Forall P m -> Forall P (remove k m).
Proof.
  intros Hm. induction m as [|[k' v'] r IH]; cbn [remove]; [constructor|].
  inversion Hm as [|? ? H1 H2]; subst.
  destruct (bytes_eqb k' k); [apply IH; exact H2|].
  constructor; [exact H1|apply IH; exact H2].
Qed.

Lemma sorted_set k v m : sorted m -> sorted (set k v m).
Proof.
  induction m as [|[k' v'] r IH]; cbn [set sorted].
  - intros _. split; [constructor|exact I].
  - intros [Hf Hs]. destruct (bytes_cmp k k') eqn:E; cbn [sorted].
    + apply bytes_cmp_eq in E. subst k'. split; assumption.
    + split; [|split; assumption].
      constructor; [exact E|].
      eapply Forall_impl; [|exact Hf]. intros e He. unfold key_lt in *.
      eapply bytes_cmp_lt_trans; eassumption.
    + split; [|apply IH; exact Hs].
      apply Forall_set; [exact Hf|]. unfold key_lt. cbn [fst].
      apply bytes_cmp_gt_lt. exact E.
Qed.

Lemma sorted_remove k m : sorted m -> sorted (remove k m).
Proof.
  induction m as [|[k' v'] r IH]; cbn [remove sorted]; [trivial|].
  intros [Hf Hs]. destruct (bytes_eqb k' k); [apply IH; exact Hs|].
  cbn [sorted]. split; [apply Forall_remove; exact Hf|apply IH; exact Hs].
Qed.

Lemma get_none_of_lt k m : Forall (key_lt k) m -> get k m = None.
Proof.
  induction m as [|[k' v'] r IH]; cbn [get]; [reflexivity|].
  intros H. inversion H as [|? ? H1 H2]; subst. unfold key_lt in H1. cbn [fst] in H1.
  apply bytes_cmp_lt_neq in H1.
  assert (E : bytes_eqb k' k = false) by (apply bytes_eqb_neq; congruence).
  rewrite E. apply IH. exact H2.
Qed.

(* the head key of a sorted map is below every key that has a binding *)
Lemma sorted_get_some_lt k (r : kvmap) k2 :
  Forall (key_lt k) r -> get k2 r <> None -> bytes_cmp k k2 = Lt.
Proof.
  intros Hf. induction r as [|[k' v'] r IH]; cbn [get]; [congruence|].
  inversion Hf as [|? ? H1 H2]; subst.
  destruct (bytes_eqb k' k2) eqn:E.
  - apply bytes_eqb_eq in E. subst. intros _. exact H1.
  - apply IH. exact H2.
Qed.

(* canonical form: sorted maps with the same bindings are the same list *)
Lemma sorted_ext m1 : forall m2,
  sorted m1 -> sorted m2 -> (forall k, get k m1 = get k m2) -> m1 = m2.
Proof.
  induction m1 as [|[k1 v1] r1 IH]; intros [|[k2 v2] r2] S1 S2 Hext.
  - reflexivity.
  - specialize (Hext k2). cbn [get] in Hext. rewrite bytes_eqb_refl in Hext. discriminate.
  - specialize (Hext k1). cbn [get] in Hext. rewrite bytes_eqb_refl in Hext. discriminate.
  - cbn [sorted] in S1, S2. destruct S1 as [F1 S1], S2 as [F2 S2].
    assert (Hk : k1 = k2).
    { destruct (bytes_cmp k1 k2) eqn:E.
      - apply bytes_cmp_eq. exact E.
      - exfalso. pose proof (Hext k1) as H. cbn [get] in H.
        rewrite bytes_eqb_refl in H.
        assert (E2 : bytes_eqb k2 k1 = false).
        { apply bytes_eqb_neq. apply bytes_cmp_lt_neq in E. congruence. }
        rewrite E2 in H.
        assert (Hlt : bytes_cmp k2 k1 = Lt).
        { eapply (sorted_get_some_lt k2 r2 k1); [exact F2|]. rewrite <- H. discriminate. }
        apply bytes_cmp_gt_lt in Hlt. congruence.
      - exfalso. pose proof (Hext k2) as H. cbn [get] in H.
        rewrite bytes_eqb_refl in H.
        assert (E2 : bytes_eqb k1 k2 = false).
        { apply bytes_eqb_neq. apply bytes_cmp_gt_neq in E. congruence. }
        rewrite E2 in H.
        assert (Hlt : bytes_cmp k1 k2 = Lt).
        { eapply (sorted_get_some_lt k1 r1 k2); [exact F1|]. rewrite H. discriminate. }
        congruence. }
    subst k2.
    assert (Hv : v1 = v2).
    { specialize (Hext k1). cbn [get] in Hext. rewrite bytes_eqb_refl in Hext. congruence. }
    subst v2. f_equal. apply IH; [exact S1|exact S2|].
    intros k. destruct (bytes_eqb k1 k) eqn:E.
    + apply bytes_eqb_eq in E. subst k.
      rewrite (get_none_of_lt k1 r1 F1), (get_none_of_lt k1 r2 F2). reflexivity.
    + specialize (Hext k). cbn [get] in Hext. rewrite E in Hext. exact Hext.
Qed.

(* kvmap_eqb decides equality *)
Lemma kvmap_eqb_eq a : forall b, kvmap_eqb a b = true <-> a = b.
Proof.
  unfold kvmap_eqb. induction a as [|[k v] a IH]; intros [|[k' v'] b]; cbn [list_eqb];
    split; try congruence; try reflexivity.
  - intros H. apply andb_true_iff in H as [H1 H2]. unfold kv_eqb in H1. cbn [fst snd] in H1.
    apply andb_true_iff in H1 as [Hk Hv]. apply bytes_eqb_eq in Hk, Hv.
    apply IH in H2. congruence.
  - intros H. injection H as -> -> ->. unfold kv_eqb. cbn [fst snd].
    rewrite !bytes_eqb_refl. cbn. apply IH. reflexivity.
Qed.
