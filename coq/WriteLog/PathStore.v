(* Model of how pathbadger STORES write logs and serves them again
   (go/storage/mkvs/db/pathbadger: pathbadger.go, writelog.go, metadata.go).

   State, as far as write logs are concerned:
   - finalized node slots  finalizedNodeKeyFmt(type, dbKey)   written at the
     timestamp of a version and read at the timestamp of the end root's
     version (badger MVCC: a read at ts sees the newest write with ts' <= ts);
   - pending node slots    pendingNodeKeyFmt(version, type, seqNo, dbKey) for
     batches whose reserved sequence number is not 0 (node.go:233-245);
   - root nodes            rootNodeKeyFmt(version, root hash);
   - write logs            writeLogKeyFmt(version, end root, start root)
                           (writelog.go:43-61);
   - metadata              PendingRootSeqs, NextPendingRootSeq, last finalized
                           version (metadata.go:120-166).
   Operations ported: NewBatch's sequence-number reservation
   (pathbadger.go:729-737), Batch.Commit (pathbadger.go:866-972), Finalize
   (pathbadger.go:243-536) for one finalized root per version (one root type),
   GetWriteLog (writelog.go:63-166).

   What the MKVS layer hands to a batch (positions of the nodes it puts, the
   root node, the annotated write log) is INPUT of the model: the positions are
   the implementation's choice.

   No proofs in this file. *)
From Verif Require Import Lib.Base WriteLog.Model WriteLog.PathLog.

(* a root of the one root type: (version, identifier of the hash); identifier
   0 is the empty hash *)
Definition rid := (N * N)%type.
Definition rid_eqb (a b : rid) : bool := (fst a =? fst b) && (snd a =? snd b).
Definition rid_empty (r : rid) : bool := snd r =? 0.

(* one MVCC write to a finalized node slot: timestamp (= version), slot,
   value (None = deletion) *)
Definition mvwrite := (N * dbkey * option snode)%type.

(* newest write first *)
Fixpoint nget_at (ts : N) (p : dbkey) (ws : list mvwrite) : option snode :=
  match ws with
  | [] => None
  | (t, q, v) :: r => if (t <=? ts) && dbkey_eqb q p then v else nget_at ts p r
  end.

Record pbdb := mkDb {
  d_nodes : list mvwrite;                        (* finalized node slots *)
  d_pend : list (N * N * dbkey * snode);         (* pending slots: version, seqNo, slot, node *)
  d_roots : list (rid * option snode);           (* stored roots with their root node *)
  d_updated : list (rid * (list dbkey * list dbkey)); (* rootUpdatedNodes: put slots, removed slots *)
  d_logs : list (rid * rid * list ientry);       (* (end, start, internal log) *)
  d_seq : list (rid * N);                        (* PendingRootSeqs *)
  d_next : list (N * N);                         (* NextPendingRootSeq per version *)
  d_fin : option N                               (* last finalized version *)
}.

Definition empty_db : pbdb := mkDb [] [] [] [] [] [] [] None.

Definition has_rid (db : pbdb) (r : rid) : bool :=
  existsb (fun x => rid_eqb (fst x) r) (d_roots db).
Definition root_node (db : pbdb) (r : rid) : option snode :=
  match find (fun x => rid_eqb (fst x) r) (d_roots db) with
  | Some x => snd x
  | None => None
  end.
Definition seq_of (db : pbdb) (r : rid) : N :=      (* getPendingRootSeqNo: 0 when absent *)
  match find (fun x => rid_eqb (fst x) r) (d_seq db) with
  | Some x => snd x
  | None => 0
  end.
Definition log_of (db : pbdb) (e s : rid) : option (list ientry) :=
  match find (fun x => rid_eqb (fst (fst x)) e && rid_eqb (snd (fst x)) s) (d_logs db) with
  | Some x => Some (snd x)
  | None => None
  end.

(* NewBatch: reserve a sequence number (pathbadger.go:729-737,
   metadata.go:120-139).  The counter is a uint16 per (version, root type);
   when it has reached MaxUint16 the reservation is REFUSED ("too many
   non-finalized roots in version") and the counter stays where it is, so a
   number is never handed out twice within a version.  (A batch that is
   abandoned -- NewBatch + Reset, e.g. a rejected Apply -- keeps its number
   reserved; since /repo d881fca Reset also restores the database pointers the
   batch had assigned to nodes, which is below this model's level.) *)
Definition SEQ_MAX : N := 65535.                       (* math.MaxUint16 *)
Definition next_of (db : pbdb) (version : N) : N :=
  match aget version (d_next db) with Some s => s | None => 0 end.
Definition set_next (db : pbdb) (version n : N) : pbdb :=
  mkDb (d_nodes db) (d_pend db) (d_roots db) (d_updated db) (d_logs db) (d_seq db)
       (aset version n (d_next db)) (d_fin db).
Definition new_batch (db : pbdb) (version : N) : option (pbdb * N) :=
  let seq := next_of db version in
  if seq =? SEQ_MAX then None                          (* metadata.go:133-135 *)
  else Some (set_next db version (seq + 1), seq).

(* the variant whose exhaustion check never fires: the uint16 counter wraps *)
Definition new_batch_wrapping (db : pbdb) (version : N) : option (pbdb * N) :=
  let seq := next_of db version in
  Some (set_next db version ((seq + 1) mod 65536), seq).

(* [n] reservations that are abandoned; returns how many were granted *)
Fixpoint burn_nat (nb : pbdb -> N -> option (pbdb * N)) (n : nat) (db : pbdb) (version : N) : pbdb * N :=
  match n with
  | O => (db, 0)
  | S n' => match nb db version with
            | Some (db', _) => let (db'', g) := burn_nat nb n' db' version in (db'', g + 1)
            | None => burn_nat nb n' db version
            end
  end.

(* what a batch carries at Commit *)
Record batch := mkBatch {
  b_start : rid;
  b_end : rid;
  b_nodes : list (dbkey * snode);   (* PutNode: standalone nodes (root node excluded) *)
  b_removed : list dbkey;           (* updatedNode{Removed: true} *)
  b_root : option snode;            (* newRootValue *)
  b_log : list ientry               (* makeInternalWriteLog of the write log *)
}.

Inductive cres := COk | CAlreadyFinalized.

(* Batch.Commit (pathbadger.go:866-972) *)
Definition commit (db : pbdb) (seq : N) (b : batch) : pbdb * cres :=
  let version := fst (b_end b) in
  if is_finalized (d_fin db) version then (db, CAlreadyFinalized)       (* 877-881 *)
  else if has_rid db (b_end b) then (db, COk)                           (* 902-909: nothing stored *)
  else
    let nodes' := if seq =? 0                                           (* node.go:233-245 *)
                  then map (fun pn => (version, fst pn, Some (snd pn))) (b_nodes b) ++ d_nodes db
                  else d_nodes db in
    let pend' := if seq =? 0 then d_pend db
                 else map (fun pn => (version, seq, fst pn, snd pn)) (b_nodes b) ++ d_pend db in
    let logs' := match b_log b with                                     (* writelog.go:52-54 *)
                 | [] => d_logs db
                 | _ => (b_end b, b_start b, b_log b) :: d_logs db
                 end in
    (mkDb nodes' pend'
          ((b_end b, b_root b) :: d_roots db)
          ((b_end b, (map fst (b_nodes b), b_removed b)) :: d_updated db)
          logs'
          ((b_end b, seq) :: d_seq db)                                  (* 937 *)
          (d_next db) (d_fin db), COk).

Definition dbkey_in (p : dbkey) (l : list dbkey) : bool := existsb (dbkey_eqb p) l.

(* Finalize of [version] with the single finalized root [pick]
   (pathbadger.go:243-536) *)
Definition finalize (db : pbdb) (version : N) (pick : rid) : pbdb :=
  let here := fun (r : rid) => fst r =? version in
  let pseq := seq_of db pick in
  let upd := fun (r : rid) =>
               match find (fun x => rid_eqb (fst x) r) (d_updated db) with
               | Some x => snd x
               | None => ([], [])
               end in
  (* notLoneNodes: slots put by the finalized root *)
  let not_lone := fst (upd pick) in
  (* maybeLoneNodes: slots removed by the finalized root; slots put by discarded roots
     that wrote to the final slots (seqNo 0) *)
  let maybe_lone :=
    snd (upd pick) ++
    flat_map (fun x => if here (fst x) && negb (rid_eqb (fst x) pick) && (seq_of db (fst x) =? 0)
                       then fst (snd x) else []) (d_updated db) in
  (* copy the pending slots of a finalized root with a non-zero sequence number (429-457) *)
  let copied :=
    if pseq =? 0 then []
    else flat_map (fun e => match e with
                            | (v, s, p, n) => if (v =? version) && (s =? pseq) && dbkey_in p not_lone
                                              then [(version, p, Some n)] else []
                            end) (d_pend db) in
  (* remove lone nodes (473-485) *)
  let deleted := flat_map (fun p => if dbkey_in p not_lone then [] else [(version, p, @None snode)])
                          maybe_lone in
  mkDb (deleted ++ copied ++ d_nodes db)
       (filter (fun e => match e with (v, _, _, _) => negb (v =? version) end) (d_pend db))
       (filter (fun x => negb (here (fst x)) || rid_eqb (fst x) pick) (d_roots db))   (* 387-389 *)
       (filter (fun x => negb (here (fst x))) (d_updated db))
       (filter (fun x => negb (here (fst (fst x))) || rid_eqb (fst (fst x)) pick) (d_logs db)) (* 404-421 *)
       (filter (fun x => negb (here (fst x))) (d_seq db))                                  (* metadata.go:91 *)
       (d_next db)
       (Some version).

Inductive gres :=
| GServed (wl : writelog)
| GNotFound           (* ErrWriteLogNotFound *)
| GRootNotFound       (* ErrRootNotFound *)
| GMustFollow         (* ErrRootMustFollowOld *)
| GError.             (* "failed to fetch node" and the like *)

(* GetWriteLog (writelog.go:63-166) *)
Definition get_writelog (db : pbdb) (s e : rid) : gres :=
  if negb ((fst e =? fst s) || (fst e =? fst s + 1)) then GMustFollow     (* 67-69 *)
  else if negb (has_rid db e) then GRootNotFound                          (* 86-89 *)
  else match log_of db e s with                                            (* 94-101 *)
       | None => GNotFound
       | Some il =>
           if negb (seq_of db e =? 0) then GNotFound                       (* 110-113 *)
           else match resolve_with (fun p => nget_at (fst e) p (d_nodes db))
                                   (root_node db e) (fst e) il with       (* 115-163 *)
                | Some wl => GServed wl
                | None => GError
                end
       end.

(* ---------- correspondence runner: a trace of database calls ---------- *)
Inductive tcall :=
| TCommit (b : batch)              (* NewBatch + Commit *)
| TBurn (version : N) (count : N)  (* count times NewBatch + Reset *)
| TFinalize (version : N) (pick : rid)
| TGet (s e : rid).

Inductive tobs :=
| OSeq (seq : N)                   (* the sequence number the batch got *)
| ORefused                         (* NewBatch: too many non-finalized roots *)
| OBurn (granted : N)              (* how many of the reservations were granted *)
| ODone
| OGet (r : gres).

Fixpoint run_trace_with (nb : pbdb -> N -> option (pbdb * N)) (db : pbdb) (t : list tcall) : list tobs :=
  match t with
  | [] => []
  | TCommit b :: r =>
      match nb db (fst (b_end b)) with
      | Some (db1, seq) => let (db2, _) := commit db1 seq b in OSeq seq :: run_trace_with nb db2 r
      | None => ORefused :: run_trace_with nb db r
      end
  | TBurn v n :: r =>
      let (db1, g) := burn_nat nb (N.to_nat n) db v in OBurn g :: run_trace_with nb db1 r
  | TFinalize v pick :: r => ODone :: run_trace_with nb (finalize db v pick) r
  | TGet s e :: r => OGet (get_writelog db s e) :: run_trace_with nb db r
  end.
Definition run_trace := run_trace_with new_batch.

Definition gres_eqb (a b : gres) : bool :=
  match a, b with
  | GServed x, GServed y => list_eqb entry_eqb x y
  | GNotFound, GNotFound | GRootNotFound, GRootNotFound
  | GMustFollow, GMustFollow | GError, GError => true
  | _, _ => false
  end.
Definition tobs_eqb (a b : tobs) : bool :=
  match a, b with
  | OSeq x, OSeq y => x =? y
  | OBurn x, OBurn y => x =? y
  | ORefused, ORefused => true
  | ODone, ODone => true
  | OGet x, OGet y => gres_eqb x y
  | _, _ => false
  end.
Definition run_trace_case (t : list tcall) : list tobs := run_trace empty_db t.
Definition trace_eqb (a b : list tobs) : bool := list_eqb tobs_eqb a b.
