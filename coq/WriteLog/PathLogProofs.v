(* C13: pathbadger's path-keyed internal write log (model in PathLog.v). *)
From Verif Require Import Lib.Base WriteLog.Model WriteLog.MapFacts WriteLog.Proofs WriteLog.PathLog.

Lemma dbkey_eqb_eq a b : dbkey_eqb a b = true <-> a = b.
Proof.
  unfold dbkey_eqb. destruct a as [a1 a2], b as [b1 b2]. cbn [fst snd]. split.
  - intros H. apply andb_true_iff in H as [H1 H2]. apply N.eqb_eq in H1, H2. congruence.
  - intros H. injection H as -> ->. rewrite !N.eqb_refl. reflexivity.
Qed.

Lemma dbkey_eqb_neq a b : dbkey_eqb a b = false <-> a <> b.
Proof.
  split.
  - intros H E. apply dbkey_eqb_eq in E. congruence.
  - intros H. destruct (dbkey_eqb a b) eqn:E; [|reflexivity]. apply dbkey_eqb_eq in E. contradiction.
Qed.

(* the node GetWriteLog reads for an insertion entry *)
Definition node_at (st : nstore) (rootnode : option snode) (endv : N) (p : dbkey) : option snode :=
  if dbkey_eqb p (endv, INDEX_ROOT) then rootnode else nget p st.

(* resolve (make wl) = wl when every inserted leaf has a db pointer that the
   end root's store resolves to that leaf *)
Lemma pathbadger_log_roundtrip_lem st rootnode endv (al : list aentry) :
  (forall k v p, In (k, Some (v, p)) al ->
     exists n, node_at st rootnode endv p = Some n /\ leaf_from_db n = (k, Some v)) ->
  resolve st rootnode endv (make_internal al) = Some (strip al).
Proof.
  induction al as [|[k [[v p]|]] r IH]; intros H; cbn [make_internal strip map fst snd resolve].
  - reflexivity.
  - destruct (H k v p (or_introl eq_refl)) as [n [Hn Hl]]. unfold node_at in Hn.
    fold (make_internal r). fold (strip r).
    rewrite IH by (intros k0 v0 p0 Hin; apply H; right; exact Hin).
    rewrite Hn, Hl. reflexivity.
  - fold (make_internal r). fold (strip r).
    rewrite IH by (intros k0 v0 p0 Hin; apply H; right; exact Hin). reflexivity.
Qed.

(* one reference that the store cannot resolve makes the whole log unservable *)
Lemma resolve_unresolvable st rootnode endv il p :
  In (IInsert p) il -> node_at st rootnode endv p = None -> resolve st rootnode endv il = None.
Proof.
  intros Hin Hn. induction il as [|e r IH]; [destruct Hin|].
  destruct Hin as [->|Hin].
  - cbn [resolve]. unfold node_at in Hn. rewrite Hn. reflexivity.
  - specialize (IH Hin). destruct e as [q|k|]; cbn [resolve]; rewrite ?IH; try reflexivity.
    destruct (if dbkey_eqb q (endv, INDEX_ROOT) then rootnode else nget q st); reflexivity.
Qed.

(* ---------- end to end at the level of maps ---------- *)
Lemma nget_end_store pos_of (new : kvmap) k v :
  NoDup (map pos_of (map fst new)) -> get k new = Some v ->
  nget (pos_of k) (end_store pos_of new) = Some (SLeaf k v).
Proof.
  induction new as [|[k0 v0] r IH]; intros Hnd Hg; cbn [get] in Hg; [discriminate|].
  cbn [map fst] in Hnd. inversion Hnd as [|? ? Hnotin Hnd']; subst.
  cbn [end_store map fst snd nget].
  destruct (bytes_eqb k0 k) eqn:E.
  - apply bytes_eqb_eq in E. subst k0. injection Hg as ->.
    assert (Hr : dbkey_eqb (pos_of k) (pos_of k) = true) by (apply dbkey_eqb_eq; reflexivity).
    rewrite Hr. reflexivity.
  - assert (Hne : dbkey_eqb (pos_of k0) (pos_of k) = false).
    { apply dbkey_eqb_neq. intros Heq. apply Hnotin. rewrite Heq.
      apply in_map. apply get_in in Hg. apply (in_map fst) in Hg. exact Hg. }
    rewrite Hne. apply IH; assumption.
Qed.

Lemma nget_none p (st : nstore) : (forall q n, In (q, n) st -> q <> p) -> nget p st = None.
Proof.
  induction st as [|[q n] r IH]; intros H; cbn [nget]; [reflexivity|].
  assert (E : dbkey_eqb q p = false) by (apply dbkey_eqb_neq; apply (H q n); left; reflexivity).
  rewrite E. apply IH. intros q0 n0 Hin. apply (H q0 n0). right. exact Hin.
Qed.

Lemma strip_annotate startv pos_of old ops :
  strip (annotate startv pos_of old ops) = commit_writelog (run_batch old ops).
Proof.
  unfold strip, annotate. rewrite map_map.
  induction (commit_writelog (run_batch old ops)) as [|[k [v|]] r IH]; cbn [map fst snd];
    [reflexivity| |]; rewrite IH; reflexivity.
Qed.

Lemma in_annotate startv pos_of old ops k v p :
  In (k, Some (v, p)) (annotate startv pos_of old ops) ->
  In (k, Some v) (commit_writelog (run_batch old ops)) /\
  p = (if ptr_invalid old ops k then invalid_ptr
       else if ptr_old_root old ops k then (startv, INDEX_ROOT) else pos_of k).
Proof.
  unfold annotate. intros H. apply in_map_iff in H as [[k0 [v0|]] [Heq Hin]]; cbn [fst snd] in Heq.
  - injection Heq as -> -> <-. split; [exact Hin|reflexivity].
  - discriminate.
Qed.

(* served exactly when no inserted leaf carries the invalid pointer *)
Lemma pathbadger_served_lem startv pos_of rootnode endv old ops :
  let new := contents (run_batch old ops) in
  NoDup (map pos_of (map fst new)) ->
  Forall (fun k => pos_of k <> (endv, INDEX_ROOT)) (map fst new) ->
  (forall k, In k (map fst (commit_writelog (run_batch old ops))) -> ptr_class old ops k = 0) ->
  pb_served startv pos_of rootnode endv old ops = Some (commit_writelog (run_batch old ops)).
Proof.
  cbv zeta. intros Hnd Hroot Hvalid. unfold pb_served.
  pose proof (strip_annotate startv pos_of old ops) as Hstrip. rewrite <- Hstrip.
  apply pathbadger_log_roundtrip_lem.
  intros k v p Hin. apply in_annotate in Hin as [Hin ->].
  assert (Hc : ptr_class old ops k = 0) by (apply Hvalid; apply (in_map fst) in Hin; exact Hin).
  unfold ptr_class in Hc.
  destruct (ptr_invalid old ops k); [discriminate|]. destruct (ptr_old_root old ops k); [discriminate|].
  destruct (writelog_entries_sound_lem old ops k (Some v) Hin) as [Hg _].
  exists (SLeaf k v). split; [|reflexivity]. unfold node_at.
  assert (Hk : In k (map fst (contents (run_batch old ops)))).
  { apply get_in in Hg. apply (in_map fst) in Hg. exact Hg. }
  rewrite Forall_forall in Hroot. specialize (Hroot k Hk).
  assert (E : dbkey_eqb (pos_of k) (endv, INDEX_ROOT) = false) by (apply dbkey_eqb_neq; exact Hroot).
  rewrite E. apply nget_end_store; assumption.
Qed.

Lemma pathbadger_unservable_lem startv pos_of rootnode endv old ops k v :
  let new := contents (run_batch old ops) in
  Forall (fun k => pos_of k <> invalid_ptr /\ pos_of k <> (startv, INDEX_ROOT)) (map fst new) ->
  endv <> VERSION_INVALID -> startv <> endv ->
  In (k, Some v) (commit_writelog (run_batch old ops)) -> ptr_class old ops k <> 0 ->
  pb_served startv pos_of rootnode endv old ops = None.
Proof.
  cbv zeta. intros Hinv Hendv Hse Hin Hp. unfold pb_served.
  set (p := if ptr_invalid old ops k then invalid_ptr else (startv, INDEX_ROOT)).
  apply (resolve_unresolvable _ _ _ _ p).
  - unfold make_internal, annotate. rewrite map_map. apply in_map_iff.
    exists (k, Some v). cbn [fst snd]. split; [|exact Hin]. unfold p, ptr_class in *.
    destruct (ptr_invalid old ops k); [reflexivity|].
    destruct (ptr_old_root old ops k); [reflexivity|congruence].
  - unfold node_at.
    assert (E : dbkey_eqb p (endv, INDEX_ROOT) = false).
    { apply dbkey_eqb_neq. unfold p. destruct (ptr_invalid old ops k).
      - unfold invalid_ptr. intros H. injection H as H1 H2. congruence.
      - intros H. injection H as H1. congruence. }
    rewrite E. apply nget_none. intros q n Hq. unfold end_store in Hq.
    apply in_map_iff in Hq as [[k0 v0] [Heq Hin0]]. cbn [fst snd] in Heq. injection Heq as <- _.
    rewrite Forall_forall in Hinv. apply (in_map fst) in Hin0. destruct (Hinv _ Hin0) as [H1 H2].
    unfold p. destruct (ptr_invalid old ops k); assumption.
Qed.

(* ---------- the known finding as a refuted lemma of the port ----------
   "pathbadger can serve the write log of every committed batch" is false:
   contents {"c", "ca"} (the leaf of "c" is embedded in the internal node
   above "ca"), batch = Insert("c", "") with the value it already has. *)
Definition rf_old : kvmap := [([99], []); ([99; 97], [])].
Definition rf_ops : list op := [OInsert [99] []].
Definition rf_pos (k : bytes) : dbkey := (2, N.of_nat (length k)).
Definition rf_root : option snode := Some (SInternal (Some ([99], []))).

Lemma pathbadger_log_unservable_refuted_lem :
  exists (pos_of : bytes -> dbkey) (rootnode : option snode) (endv : N) (old : kvmap) (ops : list op),
    sorted old /\
    NoDup (map pos_of (map fst (contents (run_batch old ops)))) /\
    Forall (fun k => pos_of k <> invalid_ptr /\ pos_of k <> (endv, INDEX_ROOT))
           (map fst (contents (run_batch old ops))) /\
    commit_writelog (run_batch old ops) = [([99], Some [])] /\
    apply_writelog old (commit_writelog (run_batch old ops)) = contents (run_batch old ops) /\
    pb_served 2 pos_of rootnode endv old ops = None.
Proof.
  exists rf_pos, rf_root, 3, rf_old, rf_ops.
  split; [cbn; repeat split; repeat constructor|].
  split; [vm_compute; repeat constructor; cbn; intuition discriminate|].
  split; [vm_compute; repeat constructor; discriminate|].
  split; [vm_compute; reflexivity|].
  split; vm_compute; reflexivity.
Qed.

(* the same batch is servable as soon as the leaf is not embedded *)
Example rf_standalone_served :
  pb_served 2 rf_pos (Some (SInternal None)) 3 [([99], []); ([100], [])] rf_ops = Some [([99], Some [])].
Proof. vm_compute. reflexivity. Qed.

(* second shape of the same defect: the tree is the single leaf "c" (it is the
   root node); Insert("c","") with the value it has: the log keeps the root
   slot of the start version (2, 0), GetWriteLog at version 3 looks it up among
   the ordinary node slots *)
Lemma pathbadger_log_old_root_slot_refuted_lem :
  ptr_class [([99], [])] rf_ops [99] = 2 /\
  commit_writelog (run_batch [([99], [])] rf_ops) = [([99], Some [])] /\
  make_internal (annotate 2 rf_pos [([99], [])] rf_ops) = [IInsert (2, 0)] /\
  pb_served 2 rf_pos (Some (SLeaf [99] [])) 3 [([99], [])] rf_ops = None /\
  (* the twin without the re-insertion has nothing to serve and nothing to fail on *)
  commit_writelog (run_batch [([99], [])] []) = [].
Proof. repeat split; vm_compute; reflexivity. Qed.
