(* Model for C13: the pending write log of an MKVS tree, the write log built at
   commit, its application to another tree and the root-checked apply of the
   storage backend.

   Level of abstraction: key/value MAPS.  A tree is its contents, a sorted
   association list [kvmap] (strictly increasing keys in [bytes_cmp] order,
   which is also the order in which the real tree iterator yields them).  The
   link "equal contents => equal root hash" is the theorem
   [root_depends_only_on_contents] of the trie model (coq/Mkvs, another
   area); here the root is an abstract function [root_of : kvmap -> digest]
   (a Section variable) which is never assumed injective.

   Ported code (oasis-core, go/storage):
   - mkvs/tree.go:19-34        pendingWriteLog : map[key]*pendingEntry
                               {key, value, existed, insertedLeaf}
   - mkvs/insert.go:12-51      Insert: nil value becomes the empty value; the
                               entry is created with existed := result.existed
                               (key present in the tree at that moment) or only
                               its value/insertedLeaf are replaced
   - mkvs/remove.go:11-47      RemoveExisting: no-op when the entry says the key
                               is already removed; else entry created with
                               existed := changed, or its value set to nil
   - mkvs/commit.go:99-114     the write log: every entry except those with
                               value == nil && !existed; annotation =
                               insertedLeaf (nil for deletions)
   - mkvs/tree.go:107-134      ApplyWriteLog: Value == nil -> Remove else Insert
   - mkvs/db/api/helpers.go:21-107  hashed write log (key, hash of inserted
                               leaf) and its revival through the end root
   - api/root_cache.go:25-62   Apply: Follows check, bypass when the expected
                               root is already stored, ApplyWriteLog,
                               CommitKnown
   - mkvs/commit.go:29-39,86-96  CommitKnown: computed hash compared with the
                               expected one BEFORE PutWriteLog/batch.Commit

   No proofs in this file. *)
From Verif Require Import Lib.Base.

(* ---------- key/value maps ---------- *)
Definition kvmap := list (bytes * bytes).

Fixpoint get (k : bytes) (m : kvmap) : option bytes :=
  match m with
  | [] => None
  | (k', v) :: r => if bytes_eqb k' k then Some v else get k r
  end.

(* sorted insert / replace *)
Fixpoint set (k v : bytes) (m : kvmap) : kvmap :=
  match m with
  | [] => [(k, v)]
  | (k', v') :: r =>
      match bytes_cmp k k' with
      | Lt => (k, v) :: m
      | Eq => (k, v) :: r
      | Gt => (k', v') :: set k v r
      end
  end.

Fixpoint remove (k : bytes) (m : kvmap) : kvmap :=
  match m with
  | [] => []
  | (k', v') :: r => if bytes_eqb k' k then remove k r else (k', v') :: remove k r
  end.

Definition is_some {A} (o : option A) : bool :=
  match o with Some _ => true | None => false end.

(* ---------- the pending write log ---------- *)
(* pendingEntry (tree.go:28-34).  [pe_value = None] is Go's value == nil
   (removed); Insert never stores nil (insert.go:13-15), so an inserted empty
   value is [Some []].  The insertedLeaf pointer always refers to the live
   leaf of the key in the pending tree (insert.go:41,45; remove.go:41), so at
   commit time it denotes (key, current value); it is represented by
   [pe_value] itself and resolved again in [revive] below. *)
Record pentry := mkPe { pe_value : option bytes; pe_existed : bool }.

(* The Go map is unordered; the model keeps first-touch order and every
   comparison with the implementation is made on key-sorted logs. *)
Definition plog := list (bytes * pentry).

Fixpoint pget (k : bytes) (l : plog) : option pentry :=
  match l with
  | [] => None
  | (k', e) :: r => if bytes_eqb k' k then Some e else pget k r
  end.

(* replace the value of the (existing) entry of k *)
Fixpoint pupd (k : bytes) (v : option bytes) (l : plog) : plog :=
  match l with
  | [] => []
  | (k', e) :: r =>
      if bytes_eqb k' k then (k', mkPe v (pe_existed e)) :: r
      else (k', e) :: pupd k v r
  end.

Record tstate := mkTs { ts_tree : kvmap; ts_log : plog }.

Inductive op := OInsert (k v : bytes) | ORemove (k : bytes).

(* Insert (insert.go:12-51) *)
Definition do_insert (k v : bytes) (s : tstate) : tstate :=
  let existed := is_some (get k (ts_tree s)) in        (* doInsert's result.existed *)
  let tree' := set k v (ts_tree s) in
  match pget k (ts_log s) with
  | None => mkTs tree' (ts_log s ++ [(k, mkPe (Some v) existed)])
  | Some _ => mkTs tree' (pupd k (Some v) (ts_log s))
  end.

(* RemoveExisting (remove.go:11-47) *)
Definition do_remove (k : bytes) (s : tstate) : tstate :=
  match pget k (ts_log s) with
  | Some (mkPe None _) => s                                   (* remove.go:22-24 *)
  | Some _ =>
      mkTs (remove k (ts_tree s)) (pupd k None (ts_log s))     (* remove.go:40-41 *)
  | None =>
      let changed := is_some (get k (ts_tree s)) in           (* doRemove's changed *)
      mkTs (remove k (ts_tree s)) (ts_log s ++ [(k, mkPe None changed)])
  end.

Definition step (s : tstate) (o : op) : tstate :=
  match o with
  | OInsert k v => do_insert k v s
  | ORemove k => do_remove k s
  end.

Definition open_tree (old : kvmap) : tstate := mkTs old [].
Definition run_batch (old : kvmap) (ops : list op) : tstate :=
  fold_left step ops (open_tree old).
Definition contents (s : tstate) : kvmap := ts_tree s.

(* Histories on ONE tree object that contain Commit attempts the node database
   rejected inside Batch.Commit (version already finalized, root not following,
   foreign namespace; badger.go:1019-1034, pathbadger.go:870-881).  commit.go
   resets pendingWriteLog only after batch.Commit has succeeded (137-142) and
   doCommit clears dirty flags only through the batch's on-commit hooks
   (commit.go:172-175, 214-216, 236-240): a rejected attempt is the identity on
   the tree and on its pending log. *)
Inductive hop := HOp (o : op) | HRejected.
Definition hstep (s : tstate) (h : hop) : tstate :=
  match h with
  | HOp o => step s o
  | HRejected => s
  end.
Definition run_history (old : kvmap) (hs : list hop) : tstate :=
  fold_left hstep hs (open_tree old).
Fixpoint ops_of (hs : list hop) : list op :=
  match hs with
  | [] => []
  | HOp o :: r => o :: ops_of r
  | HRejected :: r => ops_of r
  end.

(* ---------- the write log ---------- *)
(* writelog.LogEntry: Value == nil is a deletion (writelog.go:71-77) *)
Definition entry := (bytes * option bytes)%type.
Definition writelog := list entry.

(* commit.go:99-114 *)
Definition commit_entry (ke : bytes * pentry) : list entry :=
  let (k, e) := ke in
  match pe_value e, pe_existed e with
  | None, false => []                       (* commit.go:104-106 *)
  | v, _ => [(k, v)]
  end.
Definition commit_writelog (s : tstate) : writelog := flat_map commit_entry (ts_log s).

(* ApplyWriteLog (tree.go:107-134) drives the same Insert/Remove, pending log
   included. *)
Definition op_of_entry (e : entry) : op :=
  match snd e with
  | Some v => OInsert (fst e) v
  | None => ORemove (fst e)
  end.
Definition apply_writelog (old : kvmap) (wl : writelog) : kvmap :=
  contents (run_batch old (map op_of_entry wl)).

(* the same without the pending-log bookkeeping (proved equal) *)
Definition apply_entry (m : kvmap) (e : entry) : kvmap :=
  match snd e with
  | Some v => set (fst e) v m
  | None => remove (fst e) m
  end.
Definition apply_simple (old : kvmap) (wl : writelog) : kvmap := fold_left apply_entry wl old.

(* ---------- hashed write log (helpers.go:21-107) ---------- *)
(* An entry keeps the key and, for insertions, a reference to the inserted
   leaf; revival reads the value back from that leaf in the END root's tree.
   At the level of maps the leaf of key k in a tree is [get k contents]. *)
Definition hentry := (bytes * bool)%type.
Definition make_hashed (wl : writelog) : list hentry :=
  map (fun e => (fst e, is_some (snd e))) wl.
(* None: a referenced leaf is missing (ErrNodeNotFound from valueGetter) *)
Fixpoint revive (new : kvmap) (hl : list hentry) : option writelog :=
  match hl with
  | [] => Some []
  | (k, false) :: r =>
      match revive new r with Some wl => Some ((k, None) :: wl) | None => None end
  | (k, true) :: r =>
      match get k new, revive new r with
      | Some v, Some wl => Some ((k, Some v) :: wl)
      | _, _ => None
      end
  end.

(* ---------- which logs a node database serves (forks) ---------- *)
(* Several candidate roots may be committed in one version from the same
   parent; one of them is finalized later.
   - badger (badger.go:335-470): the log of every stored root is served;
     Finalize removes non-finalized roots together with their logs
     (badger.go:655-680).
   - pathbadger (writelog.go:109-113, pathbadger.go:731): only the batch that
     reserved sequence number 0 of its (version, type) writes to the final
     node slots; for any other pending root "seqNo != 0 => ErrWriteLogNotFound"
     until it is finalized ("all finalized roots use a seqNo of zero").
   - both: a nil log is never stored (commit.go:99-114; badger.go:1110,
     pathbadger/writelog.go:53-55), so nothing is served for it.
   [seq] is the number of batches opened before this one for the same
   (version, type) in that database. *)
Inductive backend := Badger | PathBadger.
Inductive fstate := Pending | FinalizedThis | FinalizedOther.

Definition serve (b : backend) (seq : N) (f : fstate) (wl : writelog) : option writelog :=
  match wl with
  | [] => None
  | _ =>
      match f with
      | FinalizedOther => None
      | FinalizedThis => Some wl
      | Pending =>
          match b with
          | Badger => Some wl
          | PathBadger => if seq =? 0 then Some wl else None
          end
      end
  end.

(* ---------- multi-hop answers (badger.go:363-470) ---------- *)
(* badger answers GetWriteLog(start, end) also when end is reached from start
   through up to two stored hops (IO roots: empty -> i -> io); the answer is
   the concatenation of the hop logs in path order, oldest hop first. *)
Fixpoint run_path (old : kvmap) (path : list (list op)) : kvmap :=
  match path with
  | [] => old
  | ops :: r => run_path (contents (run_batch old ops)) r
  end.
Fixpoint path_log (old : kvmap) (path : list (list op)) : writelog :=
  match path with
  | [] => []
  | ops :: r => commit_writelog (run_batch old ops) ++ path_log (contents (run_batch old ops)) r
  end.

(* ---------- comparison helpers for the correspondence ---------- *)
Fixpoint entry_insert (e : entry) (l : writelog) : writelog :=
  match l with
  | [] => [e]
  | e' :: r =>
      match bytes_cmp (fst e) (fst e') with
      | Gt => e' :: entry_insert e r
      | _ => e :: l
      end
  end.
Definition sort_log (l : writelog) : writelog := fold_right entry_insert [] l.

Definition obytes_eqb (a b : option bytes) : bool :=
  match a, b with
  | None, None => true
  | Some x, Some y => bytes_eqb x y
  | _, _ => false
  end.
Definition entry_eqb (a b : entry) : bool :=
  bytes_eqb (fst a) (fst b) && obytes_eqb (snd a) (snd b).
Definition kv_eqb (a b : bytes * bytes) : bool :=
  bytes_eqb (fst a) (fst b) && bytes_eqb (snd a) (snd b).
Definition kvmap_eqb (a b : kvmap) : bool := list_eqb kv_eqb a b.

(* ---------- Apply with a known root (root_cache.go:25-62) ---------- *)
Inductive acode := AOk | AFollow | AMismatch | AOther
                 | ASkipped.   (* storage worker only: the root was already there, nothing applied *)
Definition acode_eqb (a b : acode) : bool :=
  match a, b with
  | AOk, AOk | AFollow, AFollow | AMismatch, AMismatch | AOther, AOther | ASkipped, ASkipped => true
  | _, _ => false
  end.

Section Apply.
  Variable digest : Type.
  Variable digest_eqb : digest -> digest -> bool.
  Variable root_of : kvmap -> digest.

  (* node.Root without the namespace (one namespace per database) *)
  Record root := mkRoot { r_version : N; r_type : N; r_hash : digest }.

  Definition root_eqb (a b : root) : bool :=
    (r_version a =? r_version b) && (r_type a =? r_type b) && digest_eqb (r_hash a) (r_hash b).

  (* node.go:142-155 *)
  Definition follows (r other : root) : bool :=
    (r_type r =? r_type other) &&
    ((r_version r =? r_version other) || (r_version r =? r_version other + 1)).

  (* The node database: the set of stored roots, each with the contents of
     its tree. *)
  Definition db := list (root * kvmap).

  (* HasRoot (badger.go:521-546, pathbadger.go:216-239): "an empty root is
     always implicitly present" *)
  Definition has_root (d : db) (r : root) : bool :=
    digest_eqb (r_hash r) (root_of []) || existsb (fun x => root_eqb (fst x) r) d.

  (* NewWithRoot (tree.go:83-98): the empty hash opens the empty tree whatever
     the version; any other root must be stored. *)
  Definition open_root (d : db) (r : root) : option kvmap :=
    if digest_eqb (r_hash r) (root_of []) then Some []
    else match find (fun x => root_eqb (fst x) r) d with
         | Some x => Some (snd x)
         | None => None
         end.

  (* last finalized version of the database, if any *)
  Definition is_finalized (fin : option N) (v : N) : bool :=
    match fin with Some f => v <=? f | None => false end.

  Definition apply (strict : bool) (fin : option N) (d : db) (src dst : root) (wl : writelog) : db * acode :=
    if negb (follows dst src) then (d, AFollow)               (* root_cache.go:32-34 *)
    else if has_root d dst then (d, AOk)                      (* root_cache.go:39, bypass *)
    else match open_root d src with
         | None =>
             (* The start root is unknown.  NewWithRoot only records the hash; the first
                Insert/Remove dereferences it and fails (ErrNodeNotFound).  With an empty
                log nothing is dereferenced: the computed root is the start hash itself,
                and when that is the expected one the database batch refuses the unknown
                old root (badger.go:1087-1095).  [strict]: pathbadger checks that the old
                root exists already when the batch is opened (pathbadger.go:683-698), i.e.
                before the comparison. *)
             match wl with
             | [] => if strict then (d, AOther)
                     else if digest_eqb (r_hash src) (r_hash dst) then (d, AOther) else (d, AMismatch)
             | _ :: _ => (d, AOther)
             end
         | Some old =>
             let new := apply_writelog old wl in              (* root_cache.go:44 *)
             if digest_eqb (root_of new) (r_hash dst)         (* commit.go:31-33, 92-96 *)
             then if is_finalized fin (r_version dst)
                  then (d, AOther)      (* batch.Commit: ErrAlreadyFinalized (badger.go:1030-1034,
                                           pathbadger.go:877-881), after the comparison *)
                  else (d ++ [(dst, new)], AOk)               (* commit.go:116-138 *)
             else (d, AMismatch)                              (* root_cache.go:51-52 *)
         end.

  (* The storage worker's diff sync of one root of a round
     (go/worker/storage/committee/worker.go): fetchDiff (367-411) skips roots
     the local database already has, uses the EMPTY log when the announced
     root has the hash of the previous one (without asking anybody), and
     otherwise takes whatever a peer answered; the main loop (1139-1172) applies
     it with the expected root: success, ErrExpectedRootMismatch = bad peer
     (retry with another one), any other error = retry. *)
  Definition sync_root (strict : bool) (fin : option N) (d : db) (prev this : root)
    (peer : writelog) : db * acode :=
    if has_root d this then (d, ASkipped)                           (* worker.go:383-385 *)
    else
      let wl := if digest_eqb (r_hash this) (r_hash prev) then [] else peer in   (* 392-396 *)
      apply strict fin d prev this wl.                              (* 1143-1151 *)

  Definition accepted (c : acode) : bool :=
    match c with AOk | ASkipped => true | _ => false end.

  (* retry with the answers of further peers until one is accepted *)
  Fixpoint sync_with_peers (strict : bool) (fin : option N) (d : db) (prev this : root)
    (answers : list writelog) : db * bool :=
    match answers with
    | [] => (d, false)
    | wl :: r =>
        let (d', c) := sync_root strict fin d prev this wl in
        if accepted c then (d', true) else sync_with_peers strict fin d' prev this r
    end.
End Apply.

Arguments mkRoot {digest}.
Arguments r_version {digest}.
Arguments r_type {digest}.
Arguments r_hash {digest}.

(* ---------- correspondence runner ---------- *)
(* For the comparison with the implementation the digest is instantiated with
   the contents themselves (root_of = identity): the model then answers
   "accepted iff the resulting contents are the announced ones", which is what
   the implementation does up to hash collisions.  A root is described by
   (version, type, contents). *)
Definition croot := root kvmap.
Definition capply := apply kvmap kvmap_eqb (fun m => m).

Definition csync := sync_root kvmap kvmap_eqb (fun m => m).

(* [at_worker]: the attempt goes through the storage worker's decision *)
Record attempt := mkAttempt { at_src : croot; at_dst : croot; at_wl : writelog; at_worker : bool }.

(* run the attempts in order on one database; report the code and whether the
   expected root is stored afterwards *)
Fixpoint run_attempts (strict : bool) (fin : option N) (d : db kvmap) (l : list attempt) : list (acode * bool) :=
  match l with
  | [] => []
  | a :: r =>
      let (d', c) := (if at_worker a then csync else capply) strict fin d (at_src a) (at_dst a) (at_wl a) in
      (c, has_root kvmap kvmap_eqb (fun m => m) d' (at_dst a)) :: run_attempts strict fin d' r
  end.

(* one case: contents at the start root, the batch, the state of the second
   database (stored roots) and the apply attempts made on it *)
Record wcase := mkCase {
  c_old : kvmap;
  c_ops : list hop;          (* updates and rejected commit attempts since the last successful commit *)
  c_db2 : db kvmap;
  c_strict : bool;           (* the second database is pathbadger *)
  c_fin : option N;          (* last finalized version of the second database *)
  c_attempts : list attempt;
  c_queries : list (backend * N * fstate)   (* GetWriteLog calls made for this pair *)
}.

Record wobs := mkObs {
  o_log : writelog;          (* the log Commit returned, sorted by key *)
  o_served : list (option writelog);  (* per query: the served log sorted by key, or refusal *)
  o_new : kvmap;             (* contents at the end root *)
  o_hashed_ok : bool;        (* revival of the hashed log gives the log back *)
  o_attempts : list (acode * bool)
}.

Definition run_case (c : wcase) : wobs :=
  let s := run_history (c_old c) (c_ops c) in
  let wl := commit_writelog s in
  mkObs (sort_log wl)
        (map (fun q => match serve (fst (fst q)) (snd (fst q)) (snd q) wl with
                       | Some l => Some (sort_log l)
                       | None => None
                       end) (c_queries c))
        (contents s)
        (match revive (contents s) (make_hashed wl) with
         | Some wl' => list_eqb entry_eqb wl wl'
         | None => false
         end)
        (run_attempts (c_strict c) (c_fin c) (c_db2 c) (c_attempts c)).

Definition att_eqb (a b : acode * bool) : bool :=
  acode_eqb (fst a) (fst b) && Bool.eqb (snd a) (snd b).
Definition olog_eqb (a b : option writelog) : bool :=
  match a, b with
  | None, None => true
  | Some x, Some y => list_eqb entry_eqb x y
  | _, _ => false
  end.
Definition wobs_eqb (a b : wobs) : bool :=
  list_eqb entry_eqb (o_log a) (o_log b) && list_eqb olog_eqb (o_served a) (o_served b) &&
  kvmap_eqb (o_new a) (o_new b) &&
  Bool.eqb (o_hashed_ok a) (o_hashed_ok b) && list_eqb att_eqb (o_attempts a) (o_attempts b).
