(* C13: pathbadger's write-log storage (model in PathStore.v). *)
From Verif Require Import Lib.Base WriteLog.Model WriteLog.MapFacts WriteLog.Proofs
  WriteLog.PathLog WriteLog.PathLogProofs WriteLog.PathStore.

Lemma rid_eqb_eq a b : rid_eqb a b = true <-> a = b.
Proof.
  unfold rid_eqb. destruct a as [a1 a2], b as [b1 b2]. cbn [fst snd]. split.
  - intros H. apply andb_true_iff in H as [H1 H2]. apply N.eqb_eq in H1, H2. congruence.
  - intros H. injection H as -> ->. rewrite !N.eqb_refl. reflexivity.
Qed.
Lemma rid_eqb_refl a : rid_eqb a a = true.
Proof. apply rid_eqb_eq. reflexivity. Qed.
Lemma rid_eqb_version a b : fst a <> fst b -> rid_eqb a b = false.
Proof.
  intros H. destruct (rid_eqb a b) eqn:E; [|reflexivity]. apply rid_eqb_eq in E. congruence.
Qed.

(* ---------- resolution over an arbitrary view ---------- *)
Lemma resolve_with_nget st rootnode endv il :
  resolve st rootnode endv il = resolve_with (fun p => nget p st) rootnode endv il.
Proof.
  induction il as [|[p|k|] r IH]; cbn [resolve resolve_with]; rewrite ?IH; reflexivity.
Qed.

Lemma resolve_with_ext f g rootnode endv il :
  (forall p, f p = g p) -> resolve_with f rootnode endv il = resolve_with g rootnode endv il.
Proof.
  intros H. induction il as [|[p|k|] r IH]; cbn [resolve_with]; rewrite ?IH, ?H; reflexivity.
Qed.

Definition view_at (lookup : dbkey -> option snode) (rootnode : option snode) (endv : N) (p : dbkey) :=
  if dbkey_eqb p (endv, INDEX_ROOT) then rootnode else lookup p.

Lemma resolve_with_roundtrip lookup rootnode endv (al : list aentry) :
  (forall k v p, In (k, Some (v, p)) al ->
     exists n, view_at lookup rootnode endv p = Some n /\ leaf_from_db n = (k, Some v)) ->
  resolve_with lookup rootnode endv (make_internal al) = Some (strip al).
Proof.
  induction al as [|[k [[v p]|]] r IH]; intros H; cbn [make_internal strip map fst snd resolve_with].
  - reflexivity.
  - destruct (H k v p (or_introl eq_refl)) as [n [Hn Hl]]. unfold view_at in Hn.
    fold (make_internal r). fold (strip r).
    rewrite IH by (intros k0 v0 p0 Hin; apply H; right; exact Hin).
    rewrite Hn, Hl. reflexivity.
  - fold (make_internal r). fold (strip r).
    rewrite IH by (intros k0 v0 p0 Hin; apply H; right; exact Hin). reflexivity.
Qed.

Lemma resolve_with_unresolvable lookup rootnode endv il p :
  In (IInsert p) il -> view_at lookup rootnode endv p = None ->
  resolve_with lookup rootnode endv il = None.
Proof.
  intros Hin Hn. induction il as [|e r IH]; [destruct Hin|].
  destruct Hin as [->|Hin].
  - cbn [resolve_with]. unfold view_at in Hn. rewrite Hn. reflexivity.
  - specialize (IH Hin). destruct e as [q|k|]; cbn [resolve_with]; rewrite ?IH; try reflexivity.
    destruct (if dbkey_eqb q (endv, INDEX_ROOT) then rootnode else lookup q); reflexivity.
Qed.

(* ---------- the state right after a Commit ---------- *)
Lemma make_internal_nonempty (al : list aentry) : al <> [] -> exists e r, make_internal al = e :: r.
Proof. destruct al as [|a r]; [congruence|]. intros _. eexists. eexists. reflexivity. Qed.

(* the view a reader at the end root's version has of the final slots once a
   batch with sequence number 0 has been committed *)
Definition view_seq0 (db : pbdb) (b : batch) (p : dbkey) : option snode :=
  nget_at (fst (b_end b)) p
    (map (fun pn => (fst (b_end b), fst pn, Some (snd pn))) (b_nodes b) ++ d_nodes db).

Definition follows_v (s e : rid) : bool := (fst e =? fst s) || (fst e =? fst s + 1).

(* first candidate of its version (sequence number 0): served at once *)
Lemma get_after_commit_seq0_lem db b (al : list aentry) :
  is_finalized (d_fin db) (fst (b_end b)) = false ->
  has_rid db (b_end b) = false ->
  follows_v (b_start b) (b_end b) = true ->
  b_log b = make_internal al -> al <> [] ->
  (forall k v p, In (k, Some (v, p)) al ->
     exists n, view_at (view_seq0 db b) (b_root b) (fst (b_end b)) p = Some n /\
               leaf_from_db n = (k, Some v)) ->
  get_writelog (fst (commit db 0 b)) (b_start b) (b_end b) = GServed (strip al).
Proof.
  intros Hfin Hhas Hfol Hlog Hne Hok.
  destruct (make_internal_nonempty al Hne) as [e0 [r0 He0]].
  unfold commit. rewrite Hfin, Hhas. cbn [fst]. rewrite N.eqb_refl.
  rewrite Hlog, He0. unfold get_writelog. cbn [d_roots d_logs d_seq d_nodes].
  unfold follows_v in Hfol. rewrite Hfol. cbn [negb].
  unfold has_rid, log_of, seq_of, root_node. cbn [d_roots d_logs d_seq d_nodes existsb find fst snd].
  rewrite !rid_eqb_refl. cbn [orb andb negb fst snd]. rewrite N.eqb_refl. cbn [negb].
  rewrite <- He0.
  rewrite (resolve_with_roundtrip _ (b_root b) (fst (b_end b)) al); [reflexivity|].
  exact Hok.
Qed.

(* a later candidate of the same version (non-zero sequence number) is refused
   while pending, whatever its log is *)
Lemma get_pending_nonzero_seq_lem db seq b :
  is_finalized (d_fin db) (fst (b_end b)) = false ->
  has_rid db (b_end b) = false ->
  follows_v (b_start b) (b_end b) = true ->
  seq <> 0 ->
  get_writelog (fst (commit db seq b)) (b_start b) (b_end b) = GNotFound.
Proof.
  intros Hfin Hhas Hfol Hseq.
  assert (Es : (seq =? 0) = false) by (apply N.eqb_neq; exact Hseq).
  unfold commit. rewrite Hfin, Hhas, Es. cbn [fst].
  unfold get_writelog. unfold follows_v in Hfol. rewrite Hfol. cbn [negb].
  unfold has_rid, log_of, seq_of. cbn [d_roots d_logs d_seq existsb find fst snd].
  rewrite !rid_eqb_refl. cbn [orb negb].
  destruct (b_log b) as [|e0 r0].
  - destruct (find _ (d_logs db)) as [x|]; [|reflexivity]. cbn [snd]. rewrite Es. reflexivity.
  - cbn [find fst snd]. rewrite !rid_eqb_refl. cbn [andb snd]. rewrite Es. reflexivity.
Qed.

(* ---------- later versions do not disturb what is served for earlier ones ---------- *)
Lemma nget_at_skip_newer ts p (ws1 ws2 : list mvwrite) :
  (forall t q v, In (t, q, v) ws1 -> ts < t) ->
  nget_at ts p (ws1 ++ ws2) = nget_at ts p ws2.
Proof.
  induction ws1 as [|[[t q] v] r IH]; intros H; cbn [app nget_at]; [reflexivity|].
  assert (Ht : (t <=? ts) = false).
  { apply N.leb_gt. apply (H t q v). left. reflexivity. }
  rewrite Ht. cbn [andb]. apply IH. intros t0 q0 v0 Hin. apply (H t0 q0 v0). right. exact Hin.
Qed.

Lemma find_filter_keep {A} (f g : A -> bool) (l : list A) :
  (forall x, f x = true -> g x = true) -> find f (filter g l) = find f l.
Proof.
  intros H. induction l as [|x r IH]; cbn [filter find]; [reflexivity|].
  destruct (g x) eqn:Eg; cbn [find].
  - destruct (f x); [reflexivity|exact IH].
  - destruct (f x) eqn:Ef; [rewrite (H x Ef) in Eg; discriminate|exact IH].
Qed.

Lemma existsb_filter_keep {A} (f g : A -> bool) (l : list A) :
  (forall x, f x = true -> g x = true) -> existsb f (filter g l) = existsb f l.
Proof.
  intros H. induction l as [|x r IH]; cbn [filter existsb]; [reflexivity|].
  destruct (g x) eqn:Eg; cbn [existsb].
  - rewrite IH. reflexivity.
  - destruct (f x) eqn:Ef; [rewrite (H x Ef) in Eg; discriminate|]. cbn [orb]. exact IH.
Qed.

Lemma get_writelog_set_next db w n s e : get_writelog (set_next db w n) s e = get_writelog db s e.
Proof. reflexivity. Qed.

Lemma get_writelog_commit_later db seq b s e :
  fst e < fst (b_end b) ->
  get_writelog (fst (commit db seq b)) s e = get_writelog db s e.
Proof.
  intros Hlt. unfold commit.
  destruct (is_finalized (d_fin db) (fst (b_end b))); [reflexivity|].
  destruct (has_rid db (b_end b)); [reflexivity|]. cbn [fst].
  assert (Hne : rid_eqb (b_end b) e = false) by (apply rid_eqb_version; lia).
  unfold get_writelog. destruct (negb _); [reflexivity|].
  unfold has_rid, log_of, seq_of, root_node. cbn [d_roots d_logs d_seq d_nodes existsb find fst snd].
  rewrite Hne. cbn [orb].
  assert (Hlog : find (fun x : rid * rid * list ientry => rid_eqb (fst (fst x)) e && rid_eqb (snd (fst x)) s)
                   (match b_log b with [] => d_logs db | _ :: _ => (b_end b, b_start b, b_log b) :: d_logs db end)
                 = find (fun x => rid_eqb (fst (fst x)) e && rid_eqb (snd (fst x)) s) (d_logs db)).
  { destruct (b_log b); [reflexivity|]. cbn [find fst snd]. rewrite Hne. reflexivity. }
  rewrite Hlog.
  assert (Hview : forall p,
            nget_at (fst e) p (if seq =? 0
                               then map (fun pn => (fst (b_end b), fst pn, Some (snd pn))) (b_nodes b) ++ d_nodes db
                               else d_nodes db) = nget_at (fst e) p (d_nodes db)).
  { intros p. destruct (seq =? 0); [|reflexivity]. apply nget_at_skip_newer.
    intros t q v Hin. apply in_map_iff in Hin as [pn [Heq _]]. injection Heq as <- _ _. exact Hlt. }
  destruct (negb (existsb _ (d_roots db))); [reflexivity|].
  destruct (find _ (d_logs db)) as [x|]; [|reflexivity]. cbn [snd].
  destruct (negb _); [reflexivity|].
  rewrite (resolve_with_ext _ (fun p => nget_at (fst e) p (d_nodes db))) by exact Hview.
  reflexivity.
Qed.

Lemma get_writelog_finalize_later db w pick s e :
  fst e < w -> get_writelog (finalize db w pick) s e = get_writelog db s e.
Proof.
  intros Hlt. unfold get_writelog. destruct (negb _); [reflexivity|].
  assert (Hw : (fst e =? w) = false) by (apply N.eqb_neq; lia).
  assert (Hkeep : forall r : rid, rid_eqb r e = true -> negb (fst r =? w) = true).
  { intros r Hr. apply rid_eqb_eq in Hr. subst r. rewrite Hw. reflexivity. }
  unfold has_rid, log_of, seq_of, root_node, finalize. cbn [d_roots d_logs d_seq d_nodes].
  rewrite existsb_filter_keep
    by (intros x Hx; rewrite (Hkeep _ Hx); reflexivity).
  rewrite (find_filter_keep (fun x : rid * option snode => rid_eqb (fst x) e))
    by (intros x Hx; rewrite (Hkeep _ Hx); reflexivity).
  rewrite (find_filter_keep (fun x : rid * rid * list ientry => rid_eqb (fst (fst x)) e && rid_eqb (snd (fst x)) s))
    by (intros x Hx; apply andb_true_iff in Hx as [Hx _]; rewrite (Hkeep _ Hx); reflexivity).
  rewrite (find_filter_keep (fun x : rid * N => rid_eqb (fst x) e))
    by (intros x Hx; rewrite (Hkeep _ Hx); reflexivity).
  destruct (negb _); [reflexivity|].
  destruct (find _ (d_logs db)) as [x|]; [|reflexivity]. cbn [snd].
  destruct (negb _); [reflexivity|].
  match goal with |- context [resolve_with ?f _ _ _] =>
    rewrite (resolve_with_ext f (fun p => nget_at (fst e) p (d_nodes db))) end; [reflexivity|].
  intros p. rewrite app_assoc. apply nget_at_skip_newer.
  intros t q v Hin. apply in_app_or in Hin as [Hin|Hin].
  - apply in_flat_map in Hin as [p0 [_ Hin]]. destruct (dbkey_in p0 _); [destruct Hin|].
    destruct Hin as [Heq|[]]. injection Heq as <- _ _. exact Hlt.
  - destruct (seq_of db pick =? 0); [destruct Hin|].
    apply in_flat_map in Hin as [[[[v0 s0] p0] n0] [_ Hin]].
    destruct ((v0 =? w) && (s0 =? seq_of db pick) && dbkey_in p0 _); [|destruct Hin].
    destruct Hin as [Heq|[]]. injection Heq as <- _ _. exact Hlt.
Qed.

Lemma new_batch_some db v db' s :
  new_batch db v = Some (db', s) -> db' = set_next db v (s + 1) /\ s = next_of db v /\ s <> SEQ_MAX.
Proof.
  unfold new_batch. destruct (next_of db v =? SEQ_MAX) eqn:E; [discriminate|].
  intros H. injection H as <- <-. apply N.eqb_neq in E. repeat split. exact E.
Qed.

Lemma get_writelog_burn n : forall db v s e,
  get_writelog (fst (burn_nat new_batch n db v)) s e = get_writelog db s e.
Proof.
  induction n as [|n IH]; intros db v s e; cbn [burn_nat]; [reflexivity|].
  destruct (new_batch db v) as [[db1 s1]|] eqn:En; [|apply IH].
  apply new_batch_some in En as [-> _].
  destruct (burn_nat new_batch n (set_next db v (s1 + 1)) v) as [db2 g] eqn:E.
  cbn [fst]. pose proof (IH (set_next db v (s1 + 1)) v s e) as H. rewrite E in H. cbn [fst] in H.
  rewrite H. reflexivity.
Qed.

(* any later history: commits into and finalizations of later versions *)
Inductive later_call (v : N) : tcall -> Prop :=
| LCommit b : v < fst (b_end b) -> later_call v (TCommit b)
| LBurn w n : later_call v (TBurn w n)
| LFinalize w pick : v < w -> later_call v (TFinalize w pick)
| LGet s e : later_call v (TGet s e).

Fixpoint run_calls (db : pbdb) (t : list tcall) : pbdb :=
  match t with
  | [] => db
  | TCommit b :: r =>
      match new_batch db (fst (b_end b)) with
      | Some (db1, seq) => run_calls (fst (commit db1 seq b)) r
      | None => run_calls db r
      end
  | TBurn v n :: r => run_calls (fst (burn_nat new_batch (N.to_nat n) db v)) r
  | TFinalize w pick :: r => run_calls (finalize db w pick) r
  | TGet _ _ :: r => run_calls db r
  end.

Lemma served_log_stable_lem t : forall db s e,
  Forall (later_call (fst e)) t ->
  get_writelog (run_calls db t) s e = get_writelog db s e.
Proof.
  induction t as [|c r IH]; intros db s e H; cbn [run_calls]; [reflexivity|].
  inversion H as [|? ? Hc Hr]; subst. destruct Hc as [b Hb|w n|w pick Hw|s0 e0].
  - destruct (new_batch db (fst (b_end b))) as [[db1 s1]|] eqn:En; [|apply IH; exact Hr].
    apply new_batch_some in En as [-> _]. rewrite IH by exact Hr.
    rewrite get_writelog_commit_later by exact Hb. reflexivity.
  - rewrite IH by exact Hr. apply get_writelog_burn.
  - rewrite IH by exact Hr. apply get_writelog_finalize_later. exact Hw.
  - apply IH. exact Hr.
Qed.

(* ---------- chains: one batch per version, finalized, any later history ---------- *)
(* the log committed for (start, end) is served right after the commit, after
   the finalization of its version, and after any later history; applied to
   the start contents it gives the end contents whenever it is the commit log
   of a batch *)
Lemma chain_log_served_lem db b (al : list aentry) t :
  is_finalized (d_fin db) (fst (b_end b)) = false ->
  has_rid db (b_end b) = false ->
  follows_v (b_start b) (b_end b) = true ->
  b_log b = make_internal al -> al <> [] ->
  (forall k v p, In (k, Some (v, p)) al ->
     exists n, view_at (view_seq0 db b) (b_root b) (fst (b_end b)) p = Some n /\
               leaf_from_db n = (k, Some v)) ->
  Forall (later_call (fst (b_end b))) t ->
  get_writelog (run_calls (fst (commit db 0 b)) t) (b_start b) (b_end b) = GServed (strip al).
Proof.
  intros. rewrite served_log_stable_lem by assumption.
  apply get_after_commit_seq0_lem; assumption.
Qed.

Lemma chain_log_correct_lem db b t old ops startv pos_of :
  sorted old ->
  is_finalized (d_fin db) (fst (b_end b)) = false ->
  has_rid db (b_end b) = false ->
  follows_v (b_start b) (b_end b) = true ->
  b_log b = make_internal (annotate startv pos_of old ops) ->
  commit_writelog (run_batch old ops) <> [] ->
  (forall k v p, In (k, Some (v, p)) (annotate startv pos_of old ops) ->
     exists n, view_at (view_seq0 db b) (b_root b) (fst (b_end b)) p = Some n /\
               leaf_from_db n = (k, Some v)) ->
  Forall (later_call (fst (b_end b))) t ->
  exists wl, get_writelog (run_calls (fst (commit db 0 b)) t) (b_start b) (b_end b) = GServed wl /\
             apply_writelog old wl = contents (run_batch old ops).
Proof.
  intros Hs Hfin Hhas Hfol Hlog Hne Hok Ht.
  exists (strip (annotate startv pos_of old ops)). split.
  - apply chain_log_served_lem; try assumption.
    intros E. apply Hne. rewrite <- (strip_annotate startv pos_of old ops), E. reflexivity.
  - rewrite strip_annotate. apply writelog_correct_lem. exact Hs.
Qed.

(* ---------- the known finding on the storage model ----------
   v1: {"c"} (root node = the leaf); v2: + "ca" (root = internal node with
   the leaf of "c" embedded, "ca" standalone at (2,1)); v3: Insert("c","")
   again: the log entry carries the invalid pointer. *)
Definition rf_trace : list tcall :=
  [ TCommit (mkBatch (0, 0) (1, 1) [] [] (Some (SLeaf [99] [])) [IInsert (1, 0)]);
    TFinalize 1 (1, 1);
    TGet (0, 0) (1, 1);
    TCommit (mkBatch (1, 1) (2, 2) [((2, 1), SLeaf [99; 97] [])] []
                     (Some (SInternal (Some ([99], [])))) [IInsert (2, 1)]);
    TFinalize 2 (2, 2);
    TGet (1, 1) (2, 2);
    TCommit (mkBatch (2, 2) (3, 2) [] [] (Some (SInternal (Some ([99], []))))
                     (make_internal [([99], Some ([], invalid_ptr))]));
    TFinalize 3 (3, 2);
    TGet (2, 2) (3, 2) ].

Lemma pathbadger_store_unservable_refuted_lem :
  run_trace_case rf_trace =
  [ OSeq 0; ODone; OGet (GServed [([99], Some [])]);
    OSeq 0; ODone; OGet (GServed [([99; 97], Some [])]);
    OSeq 0; ODone; OGet GError ].
Proof. vm_compute. reflexivity. Qed.

(* non-vacuity of the chain lemma's hypotheses: the second commit above *)
Example chain_hyps :
  let db := run_calls empty_db (firstn 3 rf_trace) in
  let b := mkBatch (1, 1) (2, 2) [((2, 1), SLeaf [99; 97] [])] []
                   (Some (SInternal (Some ([99], [])))) [IInsert (2, 1)] in
  is_finalized (d_fin db) 2 = false /\ has_rid db (2, 2) = false /\
  follows_v (1, 1) (2, 2) = true /\
  view_at (view_seq0 db b) (b_root b) 2 (2, 1) = Some (SLeaf [99; 97] []).
Proof. vm_compute. repeat split. Qed.

(* two candidates in one version: the first is served while pending, the
   second only after it has been finalized, and then with ITS nodes *)
Example fork_trace :
  run_trace_case
    [ TCommit (mkBatch (0, 0) (1, 1) [((1, 1), SLeaf [97] [1]); ((1, 2), SLeaf [98] [1])] []
                       (Some (SInternal None)) [IInsert (1, 1); IInsert (1, 2)]);
      TCommit (mkBatch (0, 0) (1, 2) [((1, 1), SLeaf [97] [2]); ((1, 2), SLeaf [98] [2])] []
                       (Some (SInternal None)) [IInsert (1, 1); IInsert (1, 2)]);
      TGet (0, 0) (1, 1); TGet (0, 0) (1, 2);
      TFinalize 1 (1, 2);
      TGet (0, 0) (1, 1); TGet (0, 0) (1, 2) ]
  = [ OSeq 0; OSeq 1;
      OGet (GServed [([97], Some [1]); ([98], Some [1])]); OGet GNotFound;
      ODone;
      OGet GRootNotFound; OGet (GServed [([97], Some [2]); ([98], Some [2])]) ].
Proof. vm_compute. reflexivity. Qed.

(* ---------- sequence numbers ---------- *)
Lemma seq_refused_at_max_lem db v : next_of db v = SEQ_MAX -> new_batch db v = None.
Proof. intros H. unfold new_batch. rewrite H. reflexivity. Qed.

Lemma next_of_set_next_same db v n : next_of (set_next db v n) v = n.
Proof. unfold next_of, set_next. cbn [d_next]. rewrite aget_aset_same. reflexivity. Qed.
Lemma next_of_set_next_other db v w n : v <> w -> next_of (set_next db w n) v = next_of db v.
Proof. intros H. unfold next_of, set_next. cbn [d_next]. rewrite aget_aset_other by exact H. reflexivity. Qed.
Lemma next_of_commit db seq b v : next_of (fst (commit db seq b)) v = next_of db v.
Proof.
  unfold commit. destruct (is_finalized _ _); [reflexivity|]. destruct (has_rid _ _); reflexivity.
Qed.
Lemma next_of_finalize db w p v : next_of (finalize db w p) v = next_of db v.
Proof. reflexivity. Qed.

Lemma next_of_new_batch db w db' s v :
  new_batch db w = Some (db', s) -> next_of db v <= next_of db' v.
Proof.
  intros H. apply new_batch_some in H as [-> [Hs _]].
  destruct (N.eq_dec v w) as [->|Hne].
  - rewrite next_of_set_next_same. lia.
  - rewrite next_of_set_next_other by exact Hne. lia.
Qed.

Lemma next_of_burn n : forall db w v, next_of db v <= next_of (fst (burn_nat new_batch n db w)) v.
Proof.
  induction n as [|n IH]; intros db w v; cbn [burn_nat fst]; [lia|].
  destruct (new_batch db w) as [[db1 s1]|] eqn:En; [|apply IH].
  pose proof (next_of_new_batch db w db1 s1 v En) as H1. pose proof (IH db1 w v) as H2.
  destruct (burn_nat new_batch n db1 w) as [db2 g]. cbn [fst] in *. lia.
Qed.

(* the numbers granted to the commits of one version, in order *)
Fixpoint commit_seqs (db : pbdb) (t : list tcall) (v : N) : list N :=
  match t with
  | [] => []
  | TCommit b :: r =>
      match new_batch db (fst (b_end b)) with
      | Some (db1, s) =>
          (if fst (b_end b) =? v then [s] else []) ++ commit_seqs (fst (commit db1 s b)) r v
      | None => commit_seqs db r v
      end
  | TBurn w n :: r => commit_seqs (fst (burn_nat new_batch (N.to_nat n) db w)) r v
  | TFinalize w p :: r => commit_seqs (finalize db w p) r v
  | TGet _ _ :: r => commit_seqs db r v
  end.

Fixpoint increasing_from (lo : N) (l : list N) : Prop :=
  match l with
  | [] => True
  | x :: r => lo <= x /\ increasing_from (x + 1) r
  end.

Lemma increasing_weaken l : forall lo lo', lo' <= lo -> increasing_from lo l -> increasing_from lo' l.
Proof. destruct l as [|x r]; intros lo lo' H; cbn [increasing_from]; [trivial|]. intros [H1 H2]. split; [lia|exact H2]. Qed.

Lemma increasing_lower l : forall lo, increasing_from lo l -> Forall (fun x => lo <= x) l.
Proof.
  induction l as [|x r IH]; intros lo; cbn [increasing_from]; [constructor|].
  intros [H1 H2]. constructor; [exact H1|]. eapply Forall_impl; [|apply (IH (x + 1) H2)].
  cbv beta. intros a Ha. lia.
Qed.

Lemma increasing_nodup l : forall lo, increasing_from lo l -> NoDup l.
Proof.
  induction l as [|x r IH]; intros lo; cbn [increasing_from]; [constructor|].
  intros [H1 H2]. constructor; [|apply (IH (x + 1) H2)].
  intros Hin. pose proof (increasing_lower r (x + 1) H2) as Hf. rewrite Forall_forall in Hf.
  specialize (Hf x Hin). lia.
Qed.

Lemma commit_seqs_increasing t : forall db v, increasing_from (next_of db v) (commit_seqs db t v).
Proof.
  induction t as [|c r IH]; intros db v; cbn [commit_seqs]; [exact I|].
  destruct c as [b|w n|w p|s e].
  - destruct (new_batch db (fst (b_end b))) as [[db1 s1]|] eqn:En; [|apply IH].
    pose proof (new_batch_some _ _ _ _ En) as [Hdb [Hs _]].
    pose proof (IH (fst (commit db1 s1 b)) v) as H. rewrite next_of_commit in H.
    destruct (fst (b_end b) =? v) eqn:Ev; cbn [app].
    + apply N.eqb_eq in Ev. cbn [increasing_from]. split; [subst; lia|].
      subst db1. rewrite <- Ev in H. rewrite next_of_set_next_same in H. rewrite <- Ev. exact H.
    + eapply increasing_weaken; [|exact H]. apply (next_of_new_batch _ _ _ _ v En).
  - eapply increasing_weaken; [|apply IH]. apply next_of_burn.
  - apply (IH (finalize db w p) v).
  - apply IH.
Qed.

(* sequence numbers granted within one version are pairwise distinct, for any
   history and any number of reservations; at the bound the store refuses *)
Lemma commit_seqs_distinct_lem db t v :
  NoDup (commit_seqs db t v) /\ Forall (fun s => s <> SEQ_MAX) (commit_seqs db t v).
Proof.
  split; [eapply increasing_nodup; apply commit_seqs_increasing|].
  revert db. induction t as [|c r IH]; intros db; cbn [commit_seqs]; [constructor|].
  destruct c as [b|w n|w p|s e]; try apply IH.
  destruct (new_batch db (fst (b_end b))) as [[db1 s1]|] eqn:En; [|apply IH].
  apply Forall_app. split; [|apply IH].
  destruct (fst (b_end b) =? v); [|constructor].
  constructor; [|constructor]. apply new_batch_some in En as [_ [_ H]]. exact H.
Qed.

(* the wrapping counter, refuted: commit A (number 0, final slots), 65535
   abandoned reservations, commit a competing root D: it gets number 0 again
   and overwrites A's nodes; the log served for (R0, A) then carries D's values *)
Definition wrap_trace : list tcall :=
  [ TCommit (mkBatch (0, 0) (1, 1) [((1, 1), SLeaf [97] [1]); ((1, 2), SLeaf [98] [1])] []
                     (Some (SInternal None)) [IInsert (1, 1); IInsert (1, 2)]);
    TBurn 1 65535;
    TCommit (mkBatch (0, 0) (1, 2) [((1, 1), SLeaf [97] [4]); ((1, 2), SLeaf [98] [4])] []
                     (Some (SInternal None)) [IInsert (1, 1); IInsert (1, 2)]);
    TGet (0, 0) (1, 1) ].

Lemma seq_wrap_refuted_lem :
  run_trace_with new_batch_wrapping empty_db wrap_trace =
    [OSeq 0; OBurn 65535; OSeq 0; OGet (GServed [([97], Some [4]); ([98], Some [4])])] /\
  run_trace_with new_batch empty_db wrap_trace =
    [OSeq 0; OBurn 65534; ORefused; OGet (GServed [([97], Some [1]); ([98], Some [1])])].
Proof. split; vm_compute; reflexivity. Qed.
