(* C13: pathbadger's write-log storage (model in PathStore.v). *)
From Verif Require Import Lib.Base WriteLog.Model WriteLog.MapFacts WriteLog.Proofs
  WriteLog.PathLog WriteLog.PathLogProofs WriteLog.PathStore.

Lemma rid_eqb_eq a b : rid_eqb a b = true <-> a = b.
Proof.
  unfold rid_eqb. destruct a as [a1 a2], b as [b1 b2]. cbn [fst snd]. split.
  - intros H. apply andb_true_iff in H as [H1 H2]. apply N.eqb_eq in H1, H2. congruence.
  - intros H. injection H as -> ->. rewrite !N.eqb_refl. reflexivity.
Qed.
Lemma rid_eqb_refl a : rid_eqb a a = true.
Proof. apply rid_eqb_eq. reflexivity. Qed.
Lemma rid_eqb_version a b : fst a <> fst b -> rid_eqb a b = false.
Proof.
  intros H. destruct (rid_eqb a b) eqn:E; [|reflexivity]. apply rid_eqb_eq in E. congruence.
Qed.

(* ---------- resolution over an arbitrary view ---------- *)
Lemma resolve_with_nget st rootnode endv il :
  resolve st rootnode endv il = resolve_with (fun p => nget p st) rootnode endv il.
Proof.
  induction il as [|[p|k|] r IH]; cbn [resolve resolve_with]; rewrite ?IH; reflexivity.
Qed.

Lemma resolve_with_ext f g rootnode endv il :
  (forall p, f p = g p) -> resolve_with f rootnode endv il = resolve_with g rootnode endv il.
Proof.
  intros H. induction il as [|[p|k|] r IH]; cbn [resolve_with]; rewrite ?IH, ?H; reflexivity.
Qed.

Definition view_at (lookup : dbkey -> option snode) (rootnode : option snode) (endv : N) (p : dbkey) :=
  if dbkey_eqb p (endv, INDEX_ROOT) then rootnode else lookup p.

Lemma resolve_with_roundtrip lookup rootnode endv (al : list aentry) :
  (forall k v p, In (k, Some (v, p)) al ->
     exists n, view_at lookup rootnode endv p = Some n /\ leaf_from_db n = (k, Some v)) ->
  resolve_with lookup rootnode endv (make_internal al) = Some (strip al).
Proof.
  induction al as [|[k [[v p]|]] r IH]; intros H; cbn [make_internal strip map fst snd resolve_with].
  - reflexivity.
  - destruct (H k v p (or_introl eq_refl)) as [n [Hn Hl]]. unfold view_at in Hn.
    fold (make_internal r). fold (strip r).
    rewrite IH by (intros k0 v0 p0 Hin; apply H; right; exact Hin).
    rewrite Hn, Hl. reflexivity.
  - fold (make_internal r). fold (strip r).
    rewrite IH by (intros k0 v0 p0 Hin; apply H; right; exact Hin). reflexivity.
Qed.

Lemma resolve_with_unresolvable lookup rootnode endv il p :
  In (IInsert p) il -> view_at lookup rootnode endv p = None ->
  resolve_with lookup rootnode endv il = None.
Proof.
  intros Hin Hn. induction il as [|e r IH]; [destruct Hin|].
  destruct Hin as [->|Hin].
  - cbn [resolve_with]. unfold view_at in Hn. rewrite Hn. reflexivity.
  - specialize (IH Hin). destruct e as [q|k|]; cbn [resolve_with]; rewrite ?IH; try reflexivity.
    destruct (if dbkey_eqb q (endv, INDEX_ROOT) then rootnode else lookup q); reflexivity.
Qed.

(* ---------- the state right after a Commit ---------- *)
Lemma make_internal_nonempty (al : list aentry) : al <> [] -> exists e r, make_internal al = e :: r.
Proof. destruct al as [|a r]; [congruence|]. intros _. eexists. eexists. reflexivity. Qed.

(* the view a reader at the end root's version has of the final slots once a
   batch with sequence number 0 has been committed *)
Definition view_seq0 (db : pbdb) (b : batch) (p : dbkey) : option snode :=
  nget_at (fst (b_end b)) p
    (map (fun pn => (fst (b_end b), fst pn, Some (snd pn))) (b_nodes b) ++ d_nodes db).

Definition follows_v (s e : rid) : bool := (fst e =? fst s) || (fst e =? fst s + 1).

(* first candidate of its version (sequence number 0): served at once *)
Lemma get_after_commit_seq0_lem db b (al : list aentry) :
  is_finalized (d_fin db) (fst (b_end b)) = false ->
  has_rid db (b_end b) = false ->
  follows_v (b_start b) (b_end b) = true ->
  b_log b = make_internal al -> al <> [] ->
  (forall k v p, In (k, Some (v, p)) al ->
     exists n, view_at (view_seq0 db b) (b_root b) (fst (b_end b)) p = Some n /\
               leaf_from_db n = (k, Some v)) ->
  get_writelog (fst (commit db 0 b)) (b_start b) (b_end b) = GServed (strip al).
Proof.
  intros Hfin Hhas Hfol Hlog Hne Hok.
  destruct (make_internal_nonempty al Hne) as [e0 [r0 He0]].
  unfold commit. rewrite Hfin, Hhas. cbn [fst]. rewrite N.eqb_refl.
  rewrite Hlog, He0. unfold get_writelog. cbn [d_roots d_logs d_seq d_nodes].
  unfold follows_v in Hfol. rewrite Hfol. cbn [negb].
  unfold has_rid, log_of, seq_of, root_node. cbn [d_roots d_logs d_seq d_nodes existsb find fst snd].
  rewrite !rid_eqb_refl. cbn [orb andb negb fst snd]. rewrite N.eqb_refl. cbn [negb].
  rewrite <- He0.
  rewrite (resolve_with_roundtrip _ (b_root b) (fst (b_end b)) al); [reflexivity|].
  exact Hok.
Qed.

(* a later candidate of the same version (non-zero sequence number) is refused
   while pending, whatever its log is *)
Lemma get_pending_nonzero_seq_lem db seq b :
  is_finalized (d_fin db) (fst (b_end b)) = false ->
  has_rid db (b_end b) = false ->
  follows_v (b_start b) (b_end b) = true ->
  seq <> 0 ->
  get_writelog (fst (commit db seq b)) (b_start b) (b_end b) = GNotFound.
Proof.
  intros Hfin Hhas Hfol Hseq.
  assert (Es : (seq =? 0) = false) by (apply N.eqb_neq; exact Hseq).
  unfold commit. rewrite Hfin, Hhas, Es. cbn [fst].
  unfold get_writelog. unfold follows_v in Hfol. rewrite Hfol. cbn [negb].
  unfold has_rid, log_of, seq_of. cbn [d_roots d_logs d_seq existsb find fst snd].
  rewrite !rid_eqb_refl. cbn [orb negb].
  destruct (b_log b) as [|e0 r0].
  - destruct (find _ (d_logs db)) as [x|]; [|reflexivity]. cbn [snd]. rewrite Es. reflexivity.
  - cbn [find fst snd]. rewrite !rid_eqb_refl. cbn [andb snd]. rewrite Es. reflexivity.
Qed.

(* ---------- later versions do not disturb what is served for earlier ones ---------- *)
Lemma nget_at_skip_newer ts p (ws1 ws2 : list mvwrite) :
  (forall t q v, In (t, q, v) ws1 -> ts < t) ->
  nget_at ts p (ws1 ++ ws2) = nget_at ts p ws2.
Proof.
  induction ws1 as [|[[t q] v] r IH]; intros H; cbn [app nget_at]; [reflexivity|].
  assert (Ht : (t <=? ts) = false).
  { apply N.leb_gt. apply (H t q v). left. reflexivity. }
  rewrite Ht. cbn [andb]. apply IH. intros t0 q0 v0 Hin. apply (H t0 q0 v0). right. exact Hin.
Qed.

Lemma find_filter_keep {A} (f g : A -> bool) (l : list A) :
  (forall x, f x = true -> g x = true) -> find f (filter g l) = find f l.
Proof.
  intros H. induction l as [|x r IH]; cbn [filter find]; [reflexivity|].
  destruct (g x) eqn:Eg; cbn [find].
  - destruct (f x); [reflexivity|exact IH].
  - destruct (f x) eqn:Ef; [rewrite (H x Ef) in Eg; discriminate|exact IH].
Qed.

Lemma existsb_filter_keep {A} (f g : A -> bool) (l : list A) :
  (forall x, f x = true -> g x = true) -> existsb f (filter g l) = existsb f l.
Proof.
  intros H. induction l as [|x r IH]; cbn [filter existsb]; [reflexivity|].
  destruct (g x) eqn:Eg; cbn [existsb].
  - rewrite IH. reflexivity.
  - destruct (f x) eqn:Ef; [rewrite (H x Ef) in Eg; discriminate|]. cbn [orb]. exact IH.
Qed.

Lemma get_writelog_new_batch db w s e : get_writelog (fst (new_batch db w)) s e = get_writelog db s e.
Proof. reflexivity. Qed.

Lemma get_writelog_commit_later db seq b s e :
  fst e < fst (b_end b) ->
  get_writelog (fst (commit db seq b)) s e = get_writelog db s e.
Proof.
  intros Hlt. unfold commit.
  destruct (is_finalized (d_fin db) (fst (b_end b))); [reflexivity|].
  destruct (has_rid db (b_end b)); [reflexivity|]. cbn [fst].
  assert (Hne : rid_eqb (b_end b) e = false) by (apply rid_eqb_version; lia).
  unfold get_writelog. destruct (negb _); [reflexivity|].
  unfold has_rid, log_of, seq_of, root_node. cbn [d_roots d_logs d_seq d_nodes existsb find fst snd].
  rewrite Hne. cbn [orb].
  assert (Hlog : find (fun x : rid * rid * list ientry => rid_eqb (fst (fst x)) e && rid_eqb (snd (fst x)) s)
                   (match b_log b with [] => d_logs db | _ :: _ => (b_end b, b_start b, b_log b) :: d_logs db end)
                 = find (fun x => rid_eqb (fst (fst x)) e && rid_eqb (snd (fst x)) s) (d_logs db)).
  { destruct (b_log b); [reflexivity|]. cbn [find fst snd]. rewrite Hne. reflexivity. }
  rewrite Hlog.
  assert (Hview : forall p,
            nget_at (fst e) p (if seq =? 0
                               then map (fun pn => (fst (b_end b), fst pn, Some (snd pn))) (b_nodes b) ++ d_nodes db
                               else d_nodes db) = nget_at (fst e) p (d_nodes db)).
  { intros p. destruct (seq =? 0); [|reflexivity]. apply nget_at_skip_newer.
    intros t q v Hin. apply in_map_iff in Hin as [pn [Heq _]]. injection Heq as <- _ _. exact Hlt. }
  destruct (negb (existsb _ (d_roots db))); [reflexivity|].
  destruct (find _ (d_logs db)) as [x|]; [|reflexivity]. cbn [snd].
  destruct (negb _); [reflexivity|].
  rewrite (resolve_with_ext _ (fun p => nget_at (fst e) p (d_nodes db))) by exact Hview.
  reflexivity.
Qed.

Lemma get_writelog_finalize_later db w pick s e :
  fst e < w -> get_writelog (finalize db w pick) s e = get_writelog db s e.
Proof.
  intros Hlt. unfold get_writelog. destruct (negb _); [reflexivity|].
  assert (Hw : (fst e =? w) = false) by (apply N.eqb_neq; lia).
  assert (Hkeep : forall r : rid, rid_eqb r e = true -> negb (fst r =? w) = true).
  { intros r Hr. apply rid_eqb_eq in Hr. subst r. rewrite Hw. reflexivity. }
  unfold has_rid, log_of, seq_of, root_node, finalize. cbn [d_roots d_logs d_seq d_nodes].
  rewrite existsb_filter_keep
    by (intros x Hx; rewrite (Hkeep _ Hx); reflexivity).
  rewrite (find_filter_keep (fun x : rid * option snode => rid_eqb (fst x) e))
    by (intros x Hx; rewrite (Hkeep _ Hx); reflexivity).
  rewrite (find_filter_keep (fun x : rid * rid * list ientry => rid_eqb (fst (fst x)) e && rid_eqb (snd (fst x)) s))
    by (intros x Hx; apply andb_true_iff in Hx as [Hx _]; rewrite (Hkeep _ Hx); reflexivity).
  rewrite (find_filter_keep (fun x : rid * N => rid_eqb (fst x) e))
    by (intros x Hx; rewrite (Hkeep _ Hx); reflexivity).
  destruct (negb _); [reflexivity|].
  destruct (find _ (d_logs db)) as [x|]; [|reflexivity]. cbn [snd].
  destruct (negb _); [reflexivity|].
  match goal with |- context [resolve_with ?f _ _ _] =>
    rewrite (resolve_with_ext f (fun p => nget_at (fst e) p (d_nodes db))) end; [reflexivity|].
  intros p. rewrite app_assoc. apply nget_at_skip_newer.
  intros t q v Hin. apply in_app_or in Hin as [Hin|Hin].
  - apply in_flat_map in Hin as [p0 [_ Hin]]. destruct (dbkey_in p0 _); [destruct Hin|].
    destruct Hin as [Heq|[]]. injection Heq as <- _ _. exact Hlt.
  - destruct (seq_of db pick =? 0); [destruct Hin|].
    apply in_flat_map in Hin as [[[[v0 s0] p0] n0] [_ Hin]].
    destruct ((v0 =? w) && (s0 =? seq_of db pick) && dbkey_in p0 _); [|destruct Hin].
    destruct Hin as [Heq|[]]. injection Heq as <- _ _. exact Hlt.
Qed.

(* any later history: commits into and finalizations of later versions *)
Inductive later_call (v : N) : tcall -> Prop :=
| LCommit b : v < fst (b_end b) -> later_call v (TCommit b)
| LFinalize w pick : v < w -> later_call v (TFinalize w pick)
| LGet s e : later_call v (TGet s e).

Fixpoint run_calls (db : pbdb) (t : list tcall) : pbdb :=
  match t with
  | [] => db
  | TCommit b :: r =>
      let (db1, seq) := new_batch db (fst (b_end b)) in run_calls (fst (commit db1 seq b)) r
  | TFinalize w pick :: r => run_calls (finalize db w pick) r
  | TGet _ _ :: r => run_calls db r
  end.

Lemma served_log_stable_lem t : forall db s e,
  Forall (later_call (fst e)) t ->
  get_writelog (run_calls db t) s e = get_writelog db s e.
Proof.
  induction t as [|c r IH]; intros db s e H; cbn [run_calls]; [reflexivity|].
  inversion H as [|? ? Hc Hr]; subst. destruct Hc as [b Hb|w pick Hw|s0 e0].
  - cbn [new_batch]. rewrite IH by exact Hr.
    rewrite get_writelog_commit_later by exact Hb. reflexivity.
  - rewrite IH by exact Hr. apply get_writelog_finalize_later. exact Hw.
  - apply IH. exact Hr.
Qed.

(* ---------- chains: one batch per version, finalized, any later history ---------- *)
(* the log committed for (start, end) is served right after the commit, after
   the finalization of its version, and after any later history; applied to
   the start contents it gives the end contents whenever it is the commit log
   of a batch *)
Lemma chain_log_served_lem db b (al : list aentry) t :
  is_finalized (d_fin db) (fst (b_end b)) = false ->
  has_rid db (b_end b) = false ->
  follows_v (b_start b) (b_end b) = true ->
  b_log b = make_internal al -> al <> [] ->
  (forall k v p, In (k, Some (v, p)) al ->
     exists n, view_at (view_seq0 db b) (b_root b) (fst (b_end b)) p = Some n /\
               leaf_from_db n = (k, Some v)) ->
  Forall (later_call (fst (b_end b))) t ->
  get_writelog (run_calls (fst (commit db 0 b)) t) (b_start b) (b_end b) = GServed (strip al).
Proof.
  intros. rewrite served_log_stable_lem by assumption.
  apply get_after_commit_seq0_lem; assumption.
Qed.

Lemma chain_log_correct_lem db b t old ops pos_of :
  sorted old ->
  is_finalized (d_fin db) (fst (b_end b)) = false ->
  has_rid db (b_end b) = false ->
  follows_v (b_start b) (b_end b) = true ->
  b_log b = make_internal (annotate pos_of old ops) ->
  commit_writelog (run_batch old ops) <> [] ->
  (forall k v p, In (k, Some (v, p)) (annotate pos_of old ops) ->
     exists n, view_at (view_seq0 db b) (b_root b) (fst (b_end b)) p = Some n /\
               leaf_from_db n = (k, Some v)) ->
  Forall (later_call (fst (b_end b))) t ->
  exists wl, get_writelog (run_calls (fst (commit db 0 b)) t) (b_start b) (b_end b) = GServed wl /\
             apply_writelog old wl = contents (run_batch old ops).
Proof.
  intros Hs Hfin Hhas Hfol Hlog Hne Hok Ht.
  exists (strip (annotate pos_of old ops)). split.
  - apply chain_log_served_lem; try assumption.
    intros E. apply Hne. rewrite <- (strip_annotate pos_of old ops), E. reflexivity.
  - rewrite strip_annotate. apply writelog_correct_lem. exact Hs.
Qed.

(* ---------- the known finding on the storage model ----------
   v1: {"c"} (root node = the leaf); v2: + "ca" (root = internal node with
   the leaf of "c" embedded, "ca" standalone at (2,1)); v3: Insert("c","")
   again: the log entry carries the invalid pointer. *)
Definition rf_trace : list tcall :=
  [ TCommit (mkBatch (0, 0) (1, 1) [] [] (Some (SLeaf [99] [])) [IInsert (1, 0)]);
    TFinalize 1 (1, 1);
    TGet (0, 0) (1, 1);
    TCommit (mkBatch (1, 1) (2, 2) [((2, 1), SLeaf [99; 97] [])] []
                     (Some (SInternal (Some ([99], [])))) [IInsert (2, 1)]);
    TFinalize 2 (2, 2);
    TGet (1, 1) (2, 2);
    TCommit (mkBatch (2, 2) (3, 2) [] [] (Some (SInternal (Some ([99], []))))
                     (make_internal [([99], Some ([], invalid_ptr))]));
    TFinalize 3 (3, 2);
    TGet (2, 2) (3, 2) ].

Lemma pathbadger_store_unservable_refuted_lem :
  run_trace_case rf_trace =
  [ OSeq 0; ODone; OGet (GServed [([99], Some [])]);
    OSeq 0; ODone; OGet (GServed [([99; 97], Some [])]);
    OSeq 0; ODone; OGet GError ].
Proof. vm_compute. reflexivity. Qed.

(* non-vacuity of the chain lemma's hypotheses: the second commit above *)
Example chain_hyps :
  let db := run_calls empty_db (firstn 3 rf_trace) in
  let b := mkBatch (1, 1) (2, 2) [((2, 1), SLeaf [99; 97] [])] []
                   (Some (SInternal (Some ([99], [])))) [IInsert (2, 1)] in
  is_finalized (d_fin db) 2 = false /\ has_rid db (2, 2) = false /\
  follows_v (1, 1) (2, 2) = true /\
  view_at (view_seq0 db b) (b_root b) 2 (2, 1) = Some (SLeaf [99; 97] []).
Proof. vm_compute. repeat split. Qed.

(* two candidates in one version: the first is served while pending, the
   second only after it has been finalized, and then with ITS nodes *)
Example fork_trace :
  run_trace_case
    [ TCommit (mkBatch (0, 0) (1, 1) [((1, 1), SLeaf [97] [1]); ((1, 2), SLeaf [98] [1])] []
                       (Some (SInternal None)) [IInsert (1, 1); IInsert (1, 2)]);
      TCommit (mkBatch (0, 0) (1, 2) [((1, 1), SLeaf [97] [2]); ((1, 2), SLeaf [98] [2])] []
                       (Some (SInternal None)) [IInsert (1, 1); IInsert (1, 2)]);
      TGet (0, 0) (1, 1); TGet (0, 0) (1, 2);
      TFinalize 1 (1, 2);
      TGet (0, 0) (1, 1); TGet (0, 0) (1, 2) ]
  = [ OSeq 0; OSeq 1;
      OGet (GServed [([97], Some [1]); ([98], Some [1])]); OGet GNotFound;
      ODone;
      OGet GRootNotFound; OGet (GServed [([97], Some [2]); ([98], Some [2])]) ].
Proof. vm_compute. reflexivity. Qed.
