(* Model of pathbadger's path-keyed internal write log
   (go/storage/mkvs/db/pathbadger/writelog.go, node.go).

   pathbadger stores nodes under position keys dbKey = (version, index)
   (node.go:490-525).  A stored write log does not contain values: an
   insertion is a reference to the position of the inserted leaf, a deletion
   carries the key (writelog.go:16-41).  GetWriteLog resolves the references
   against the node store of the end root (writelog.go:109-166).

   - dbPtr / dbKey / invalid pointer      node.go:23-29, 496-531
   - makeInternalWriteLog                 writelog.go:28-41
   - GetWriteLog resolution               writelog.go:115-163
   - leafFromDb                           node.go:310-327
   - embedded leaf loaded with an invalid pointer   node.go:394-414
   - same-value Insert returns the loaded pointer    mkvs/insert.go:176-185
   - dirty pointers get a fresh position at commit   node/node.go:215-222,
                                                     pathbadger/node.go:173-190

   No proofs in this file. *)
From Verif Require Import Lib.Base WriteLog.Model.

Definition VERSION_INVALID : N := 18446744073709551615.   (* node.go:24 *)
Definition INDEX_INVALID : N := 4294967295.               (* node.go:29 *)
Definition INDEX_ROOT : N := 0.                           (* node.go:27 *)

Definition dbkey := (N * N)%type.                         (* (version, index) *)
Definition invalid_ptr : dbkey := (VERSION_INVALID, INDEX_INVALID).   (* newInvalidDbPtr *)
Definition dbkey_eqb (a b : dbkey) : bool := (fst a =? fst b) && (snd a =? snd b).
Definition is_invalid (p : dbkey) : bool := dbkey_eqb p invalid_ptr.  (* node.go:518-520 *)

(* a stored node, as far as leafFromDb looks at it *)
Inductive snode :=
| SLeaf (k v : bytes)
| SInternal (leaf : option (bytes * bytes)).   (* the leaf embedded in an internal node *)

(* finalizedNodeKeyFmt(type, dbKey) -> node, for one root type *)
Definition nstore := list (dbkey * snode).
Fixpoint nget (p : dbkey) (st : nstore) : option snode :=
  match st with
  | [] => None
  | (q, n) :: r => if dbkey_eqb q p then Some n else nget p r
  end.

(* internalWriteLog entries: first byte 0x01 insert (+ dbKey), 0x02 delete
   (+ key), anything else is corruption *)
Inductive ientry := IInsert (p : dbkey) | IDelete (k : bytes) | IBad.

(* a write-log entry with its annotation: for insertions the value and the
   DBInternal pointer of LogEntryAnnotation.InsertedNode *)
Definition aentry := (bytes * option (bytes * dbkey))%type.

(* makeInternalWriteLog (writelog.go:28-41) *)
Definition make_internal (al : list aentry) : list ientry :=
  map (fun e => match snd e with
                | None => IDelete (fst e)
                | Some (_, p) => IInsert p
                end) al.

(* the plain write log the annotated one stands for *)
Definition strip (al : list aentry) : writelog :=
  map (fun e => (fst e, match snd e with Some (v, _) => Some v | None => None end)) al.

(* leafFromDb (node.go:310-327): an internal node without a leaf yields nil
   key and nil value *)
Definition leaf_from_db (n : snode) : entry :=
  match n with
  | SLeaf k v => (k, Some v)
  | SInternal (Some (k, v)) => (k, Some v)
  | SInternal None => ([], None)
  end.

(* GetWriteLog's resolution loop (writelog.go:115-163).  [rootnode] is the
   node stored under rootNodeKeyFmt(endVersion, endRootHash); [endv] the end
   root's version.  None = the call fails. *)
Fixpoint resolve (st : nstore) (rootnode : option snode) (endv : N) (il : list ientry)
  : option writelog :=
  match il with
  | [] => Some []
  | IDelete k :: r =>
      match resolve st rootnode endv r with Some wl => Some ((k, None) :: wl) | None => None end
  | IInsert p :: r =>
      let node := if dbkey_eqb p (endv, INDEX_ROOT) then rootnode   (* writelog.go:126-142 *)
                  else nget p st in                                   (* writelog.go:144-159 *)
      match node, resolve st rootnode endv r with
      | Some n, Some wl => Some (leaf_from_db n :: wl)
      | _, _ => None
      end
  | IBad :: _ => None                                                 (* writelog.go:160-162 *)
  end.

(* the same loop over an arbitrary view of the node slots (used by the storage
   model, where the view is an MVCC read) *)
Fixpoint resolve_with (lookup : dbkey -> option snode) (rootnode : option snode) (endv : N)
  (il : list ientry) : option writelog :=
  match il with
  | [] => Some []
  | IDelete k :: r =>
      match resolve_with lookup rootnode endv r with Some wl => Some ((k, None) :: wl) | None => None end
  | IInsert p :: r =>
      let node := if dbkey_eqb p (endv, INDEX_ROOT) then rootnode else lookup p in
      match node, resolve_with lookup rootnode endv r with
      | Some n, Some wl => Some (leaf_from_db n :: wl)
      | _, _ => None
      end
  | IBad :: _ => None
  end.

(* ---------- which pointer an inserted leaf carries at commit ---------- *)
Fixpoint is_prefix (a b : bytes) : bool :=
  match a, b with
  | [], _ => true
  | x :: a', y :: b' => (x =? y) && is_prefix a' b'
  | _ :: _, [] => false
  end.
Definition proper_prefix (a b : bytes) : bool := is_prefix a b && negb (bytes_eqb a b).

(* In the MKVS trie the leaf of a key sits inside an internal node (and is
   stored inline with it, node.go:297-302) exactly when the key ends where
   other keys continue. *)
Definition embedded (k : bytes) (m : kvmap) : bool :=
  existsb (fun e => proper_prefix k (fst e)) m.

(* the leaf of k is never made dirty by the batch: the key exists and every
   operation on it re-inserts the value it already has (insert.go:176-185);
   any other operation creates a new leaf or marks it dirty *)
Definition clean_same_value (old : kvmap) (ops : list op) (k : bytes) : bool :=
  match get k old with
  | None => false
  | Some v =>
      forallb (fun o => match o with
                        | OInsert k' v' => negb (bytes_eqb k' k) || bytes_eqb v' v
                        | ORemove k' => negb (bytes_eqb k' k)
                        end) ops
  end.

(* The pointer of such a clean leaf is the one it got when its node was loaded
   from the database: invalid if it was embedded (node.go:408-413).  At commit
   VisitCleanNode gives it a position only if it stopped being embedded
   (node.go:145-156). *)
Definition ptr_invalid (old : kvmap) (ops : list op) (k : bytes) : bool :=
  clean_same_value old ops k && embedded k old && embedded k (contents (run_batch old ops)).

(* A clean leaf that IS the root node of the start tree (a tree of one key)
   was loaded with the root slot of the START root's version as its pointer
   (node.go:62-69: index 0 of root.Version).  If the tree still consists of that
   one leaf at commit, nothing gives it another position (node.go:119-124: "a
   clean root node ... the root has not changed"); the root node is copied to
   the new version (pathbadger.go:911-931) but the log keeps the old root slot,
   which GetWriteLog resolves only for the END root's version
   (writelog.go:112-113, 126). *)
Definition sole_key (k : bytes) (m : kvmap) : bool :=
  match m with
  | [(k', _)] => bytes_eqb k' k
  | _ => false
  end.
Definition ptr_old_root (old : kvmap) (ops : list op) (k : bytes) : bool :=
  clean_same_value old ops k && sole_key k old && sole_key k (contents (run_batch old ops)).

(* 0: a position of its own; 1: the invalid pointer; 2: the root slot of the
   start root's version *)
Definition ptr_class (old : kvmap) (ops : list op) (k : bytes) : N :=
  if ptr_invalid old ops k then 1 else if ptr_old_root old ops k then 2 else 0.

(* [pos_of]: the positions the implementation assigned to standalone leaves
   (its free choice; validated, not predicted); [startv]: the version of the
   start root *)
Definition annotate (startv : N) (pos_of : bytes -> dbkey) (old : kvmap) (ops : list op) : list aentry :=
  map (fun e : entry =>
         match snd e with
         | None => (fst e, None)
         | Some v => (fst e, Some (v, if ptr_invalid old ops (fst e) then invalid_ptr
                                      else if ptr_old_root old ops (fst e) then (startv, INDEX_ROOT)
                                      else pos_of (fst e)))
         end) (commit_writelog (run_batch old ops)).

(* standalone copies of the leaves of the end root *)
Definition end_store (pos_of : bytes -> dbkey) (new : kvmap) : nstore :=
  map (fun e => (pos_of (fst e), SLeaf (fst e) (snd e))) new.

(* what pathbadger serves for the pair (old, result of the batch) *)
Definition pb_served (startv : N) (pos_of : bytes -> dbkey) (rootnode : option snode) (endv : N)
  (old : kvmap) (ops : list op) : option writelog :=
  resolve (end_store pos_of (contents (run_batch old ops))) rootnode endv
          (make_internal (annotate startv pos_of old ops)).

(* ---------- correspondence runner ---------- *)
Record pbcase := mkPb {
  pb_old : kvmap;
  pb_ops : list op;
  pb_clog : writelog;          (* the log Commit returned, in the implementation's order *)
  pb_raw : list ientry;        (* the stored internal log, read from the database *)
  pb_store : nstore;           (* the nodes at the referenced positions *)
  pb_root : option snode;      (* the root node of the end root *)
  pb_endv : N
}.
Record pbobs := mkPbObs {
  po_shape : list (option bytes);   (* per stored entry: Some key = deletion of key, None = insertion *)
  po_class : list N;                (* per stored entry: 0 own position, 1 the invalid pointer,
                                       2 the root slot of an older version *)
  po_served : option writelog       (* GetWriteLog, in stored order; None = error *)
}.
Definition ientry_shape (e : ientry) : option bytes :=
  match e with IDelete k => Some k | _ => None end.
Definition ientry_class (endv : N) (e : ientry) : N :=
  match e with
  | IInsert p => if is_invalid p then 1
                 else if (snd p =? INDEX_ROOT) && (fst p <? endv) then 2 else 0
  | _ => 0
  end.
Definition run_pbcase (c : pbcase) : pbobs :=
  mkPbObs
    (map (fun e : entry => match snd e with None => Some (fst e) | Some _ => None end) (pb_clog c))
    (map (fun e : entry => match snd e with
                           | None => 0
                           | Some _ => ptr_class (pb_old c) (pb_ops c) (fst e)
                           end) (pb_clog c))
    (resolve (pb_store c) (pb_root c) (pb_endv c) (pb_raw c)).
Definition pbobs_eqb (a b : pbobs) : bool :=
  list_eqb obytes_eqb (po_shape a) (po_shape b) &&
  list_eqb N.eqb (po_class a) (po_class b) &&
  olog_eqb (po_served a) (po_served b).
