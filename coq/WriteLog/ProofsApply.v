(* C13, part 2: Apply with a known root (root_cache.go:25-62 +
   commit.go:29-39).  [root_of] is an arbitrary function from contents to
   digests; it is never assumed injective. *)
From Verif Require Import Lib.Base WriteLog.Model WriteLog.MapFacts WriteLog.Proofs.
From Coq Require Import Permutation.

Section ApplyProofs.
  Variable digest : Type.
  Variable digest_eqb : digest -> digest -> bool.
  Hypothesis digest_eqb_spec : forall a b, digest_eqb a b = true <-> a = b.
  Variable root_of : kvmap -> digest.
  Variable strict : bool.

  Notation root := (root digest).
  Notation db := (db digest).
  Notation apply := (apply digest digest_eqb root_of strict).
  Notation has_root := (has_root digest digest_eqb root_of).
  Notation open_root := (open_root digest digest_eqb root_of).
  Notation root_eqb := (root_eqb digest digest_eqb).
  Notation follows := (follows digest).

  Definition collision : Prop := exists x y : kvmap, x <> y /\ root_of x = root_of y.

  Lemma digest_eqb_refl a : digest_eqb a a = true.
  Proof. apply digest_eqb_spec. reflexivity. Qed.

  Lemma root_eqb_eq a b : root_eqb a b = true <-> a = b.
  Proof.
    unfold Model.root_eqb. destruct a as [v1 t1 h1], b as [v2 t2 h2]. cbn [r_version r_type r_hash].
    split.
    - intros H. apply andb_true_iff in H as [H H3]. apply andb_true_iff in H as [H1 H2].
      apply N.eqb_eq in H1, H2. apply digest_eqb_spec in H3. congruence.
    - intros H. injection H as -> -> ->. rewrite !N.eqb_refl, digest_eqb_refl. reflexivity.
  Qed.

  Lemma has_root_app d r m r' :
    has_root (d ++ [(r, m)]) r' = has_root d r' || root_eqb r r'.
  Proof.
    unfold Model.has_root. rewrite existsb_app. cbn [existsb fst]. rewrite orb_false_r.
    rewrite orb_assoc. reflexivity.
  Qed.

  (* every stored root is the digest of the contents stored under it *)
  Definition db_wf (d : db) : Prop := forall r m, In (r, m) d -> root_of m = r_hash r.

  (* --- the result of one Apply, by cases --- *)
  Lemma apply_cases fin d src dst wl :
    let res := apply fin d src dst wl in
    (follows dst src = false /\ res = (d, AFollow)) \/
    (follows dst src = true /\ has_root d dst = true /\ res = (d, AOk)) \/
    (follows dst src = true /\ has_root d dst = false /\ open_root d src = None /\
       (res = (d, AOther) \/ res = (d, AMismatch))) \/
    (exists old, follows dst src = true /\ has_root d dst = false /\ open_root d src = Some old /\
       ((root_of (apply_writelog old wl) = r_hash dst /\ is_finalized fin (r_version dst) = false /\
         res = (d ++ [(dst, apply_writelog old wl)], AOk)) \/
        (root_of (apply_writelog old wl) = r_hash dst /\ is_finalized fin (r_version dst) = true /\
         res = (d, AOther)) \/
        (root_of (apply_writelog old wl) <> r_hash dst /\ res = (d, AMismatch)))).
  Proof.
    cbv zeta. unfold Model.apply.
    destruct (follows dst src) eqn:Ef; cbn [negb]; [|left; split; reflexivity].
    right. destruct (has_root d dst) eqn:Eh; [left; repeat split; reflexivity|].
    right. destruct (open_root d src) as [old|] eqn:Eo.
    - right. exists old. repeat (split; [reflexivity|]).
      destruct (digest_eqb (root_of (apply_writelog old wl)) (r_hash dst)) eqn:Ed.
      + apply digest_eqb_spec in Ed. destruct (is_finalized fin (r_version dst)) eqn:Efin.
        * right. left. repeat split; assumption.
        * left. repeat split; assumption.
      + right. right. split; [|reflexivity]. intros H. apply digest_eqb_spec in H. congruence.
    - left. repeat (split; [reflexivity|]).
      destruct wl; [destruct strict; [|destruct (digest_eqb (r_hash src) (r_hash dst))]|]; auto.
  Qed.

  (* accepted iff the recomputed root is the expected one (when the expected
     root is not already stored, the start root opens and the version is
     still open) *)
  Lemma apply_known_root_lem fin d src dst wl old :
    follows dst src = true -> has_root d dst = false -> open_root d src = Some old ->
    is_finalized fin (r_version dst) = false ->
    (snd (apply fin d src dst wl) = AOk <-> root_of (apply_writelog old wl) = r_hash dst).
  Proof.
    intros Hf Hh Ho Hfin. pose proof (apply_cases fin d src dst wl) as H. cbv zeta in H.
    destruct H as [[H _]|[[_ [H _]]|[[_ [_ [H _]]]|[old' [_ [_ [Ho' H]]]]]]]; try congruence.
    assert (old' = old) by congruence. subst old'.
    destruct H as [[H1 [_ H2]]|[[H1 [H3 H2]]|[H1 H2]]]; rewrite H2; cbn [snd]; split; congruence.
  Qed.

  (* a failed Apply leaves the database as it was *)
  Lemma apply_error_unchanged_lem fin d src dst wl :
    snd (apply fin d src dst wl) <> AOk -> fst (apply fin d src dst wl) = d.
  Proof.
    intros Hne. pose proof (apply_cases fin d src dst wl) as H. cbv zeta in H.
    destruct H as [[_ H]|[[_ [_ H]]|[[_ [_ [_ [H|H]]]]|[old [_ [_ [_ [[_ [_ H]]|[[_ [_ H]]|[_ H]]]]]]]]]];
      rewrite H in *; cbn [fst snd] in *; congruence.
  Qed.

  (* after a hash mismatch (or any other failure past the Follows check) the
     expected root is not in the database *)
  Lemma apply_rejected_no_root_lem fin d src dst wl :
    snd (apply fin d src dst wl) = AMismatch \/ snd (apply fin d src dst wl) = AOther ->
    fst (apply fin d src dst wl) = d /\ has_root (fst (apply fin d src dst wl)) dst = false.
  Proof.
    intros Hc. pose proof (apply_cases fin d src dst wl) as H. cbv zeta in H.
    destruct H as [[_ H]|[[_ [_ H]]|[[_ [Hh [_ [H|H]]]]|[old [_ [Hh [_ [[_ [_ H]]|[[_ [_ H]]|[_ H]]]]]]]]]];
      rewrite H in *; cbn [fst snd] in *; try (destruct Hc; discriminate);
      (split; [reflexivity|exact Hh]).
  Qed.

  (* an accepted Apply leaves the expected root stored, adds nothing else, and
     the contents stored under the new root hash to it *)
  Lemma apply_ok_persisted_lem fin d src dst wl :
    snd (apply fin d src dst wl) = AOk ->
    has_root (fst (apply fin d src dst wl)) dst = true /\
    (fst (apply fin d src dst wl) = d \/
     exists old, open_root d src = Some old /\
       fst (apply fin d src dst wl) = d ++ [(dst, apply_writelog old wl)] /\
       root_of (apply_writelog old wl) = r_hash dst).
  Proof.
    intros Hc. pose proof (apply_cases fin d src dst wl) as H. cbv zeta in H.
    destruct H as [[_ H]|[[_ [Hh H]]|[[_ [_ [_ [H|H]]]]|[old [_ [_ [Ho [[Hr [_ H]]|[[_ [_ H]]|[_ H]]]]]]]]]];
      rewrite H in *; cbn [fst snd] in *; try discriminate.
    - split; [exact Hh|left; reflexivity].
    - split.
      + rewrite has_root_app. apply orb_true_iff. right. apply root_eqb_eq. reflexivity.
      + right. exists old. repeat split; assumption.
  Qed.

  Lemma apply_preserves_wf fin d src dst wl : db_wf d -> db_wf (fst (apply fin d src dst wl)).
  Proof.
    intros Hwf. pose proof (apply_cases fin d src dst wl) as H. cbv zeta in H.
    destruct H as [[_ H]|[[_ [_ H]]|[[_ [_ [_ [H|H]]]]|[old [_ [_ [_ [[Hr [_ H]]|[[_ [_ H]]|[_ H]]]]]]]]]];
      rewrite H; cbn [fst]; try exact Hwf.
    intros r m Hin. apply in_app_or in Hin as [Hin|[Hin|[]]]; [apply Hwf; exact Hin|].
    injection Hin as <- <-. exact Hr.
  Qed.

  (* any history of Apply requests (each with the finalization state of its
     moment) on an initially empty database *)
  Definition request := (option N * root * root * writelog)%type.
  Definition apply_all (d : db) (reqs : list request) : db :=
    fold_left (fun d q => fst (apply (fst (fst (fst q))) d (snd (fst (fst q))) (snd (fst q)) (snd q))) reqs d.

  Lemma apply_all_wf reqs : forall d, db_wf d -> db_wf (apply_all d reqs).
  Proof.
    unfold apply_all. induction reqs as [|q reqs IH]; intros d H; cbn [fold_left]; [exact H|].
    apply IH. apply apply_preserves_wf. exact H.
  Qed.

  Lemma stored_roots_hash_to_contents_lem reqs r m :
    In (r, m) (apply_all [] reqs) -> root_of m = r_hash r.
  Proof. apply (apply_all_wf reqs []). intros ? ? []. Qed.

  (* a log whose application gives other contents than the announced ones is
     rejected, unless root_of collides *)
  Lemma corrupted_log_rejected_lem fin d src dst wl' old new :
    follows dst src = true -> has_root d dst = false -> open_root d src = Some old ->
    r_hash dst = root_of new ->
    apply_writelog old wl' <> new ->
    (snd (apply fin d src dst wl') = AMismatch /\ fst (apply fin d src dst wl') = d /\
     has_root (fst (apply fin d src dst wl')) dst = false)
    \/ collision.
  Proof.
    intros Hf Hh Ho Hd Hne. pose proof (apply_cases fin d src dst wl') as H. cbv zeta in H.
    destruct H as [[H _]|[[_ [H _]]|[[_ [_ [H _]]]|[old' [_ [_ [Ho' H]]]]]]]; try congruence.
    assert (old' = old) by congruence. subst old'.
    destruct H as [[H1 _]|[[H1 _]|[H1 H2]]].
    - right. exists (apply_writelog old wl'), new. split; [exact Hne|congruence].
    - right. exists (apply_writelog old wl'), new. split; [exact Hne|congruence].
    - left. rewrite H2. cbn [fst snd]. repeat split; [exact Hh].
  Qed.

  (* an unknown start root: every Apply fails and nothing is stored *)
  Lemma unknown_start_rejected_lem fin d src dst wl :
    follows dst src = true -> has_root d dst = false -> open_root d src = None ->
    snd (apply fin d src dst wl) <> AOk /\ fst (apply fin d src dst wl) = d.
  Proof.
    intros Hf Hh Ho. pose proof (apply_cases fin d src dst wl) as H. cbv zeta in H.
    destruct H as [[H _]|[[_ [H _]]|[[_ [_ [_ [H|H]]]]|[old' [_ [_ [Ho' _]]]]]]]; try congruence;
      rewrite H; cbn [fst snd]; split; congruence.
  Qed.

  (* a version that is already finalized: nothing is stored into it, whatever the log *)
  Lemma finalized_version_rejected_lem fin d src dst wl :
    has_root d dst = false -> is_finalized fin (r_version dst) = true ->
    snd (apply fin d src dst wl) <> AOk /\ fst (apply fin d src dst wl) = d.
  Proof.
    intros Hh Hfin. pose proof (apply_cases fin d src dst wl) as H. cbv zeta in H.
    destruct H as [[_ H]|[[_ [H _]]|[[_ [_ [_ [H|H]]]]|[old [_ [_ [_ [[_ [H1 H]]|[[_ [_ H]]|[_ H]]]]]]]]]];
      try congruence; rewrite H; cbn [fst snd]; split; congruence.
  Qed.

  (* the write log of any batch, in any order, is accepted for the root of the
     batch's result *)
  Lemma sync_reaches_end_root_lem fin d src dst old ops wl :
    sorted old ->
    follows dst src = true -> open_root d src = Some old ->
    is_finalized fin (r_version dst) = false ->
    r_hash dst = root_of (contents (run_batch old ops)) ->
    Permutation (commit_writelog (run_batch old ops)) wl ->
    snd (apply fin d src dst wl) = AOk /\ has_root (fst (apply fin d src dst wl)) dst = true /\
    (has_root d dst = false ->
     fst (apply fin d src dst wl) = d ++ [(dst, contents (run_batch old ops))]).
  Proof.
    intros Hs Hf Ho Hfin Hd Hp.
    pose proof (served_log_any_order_lem old ops wl Hs Hp) as Hcontents.
    pose proof (apply_cases fin d src dst wl) as H. cbv zeta in H.
    destruct H as [[H _]|[[_ [Hh H]]|[[_ [_ [H _]]]|[old' [_ [Hh [Ho' H]]]]]]]; try congruence.
    - rewrite H. cbn [fst snd]. repeat split; [exact Hh|]. congruence.
    - assert (old' = old) by congruence. subst old'. rewrite Hcontents in H.
      destruct H as [[H1 [_ H2]]|[[_ [H3 _]]|[H1 H2]]]; [|congruence|congruence].
      rewrite H2. cbn [fst snd]. repeat split.
      rewrite has_root_app. apply orb_true_iff. right. apply root_eqb_eq. reflexivity.
  Qed.

  (* ---------- the storage worker's diff sync ---------- *)
  Notation sync_root := (sync_root digest digest_eqb root_of strict).
  Notation sync_with_peers := (sync_with_peers digest digest_eqb root_of strict).

  Lemma open_root_wf d r m : db_wf d -> open_root d r = Some m -> root_of m = r_hash r.
  Proof.
    intros Hwf. unfold Model.open_root.
    destruct (digest_eqb (r_hash r) (root_of [])) eqn:E.
    - intros H. injection H as <-. apply digest_eqb_spec in E. congruence.
    - destruct (find _ d) as [x|] eqn:Ef; [|discriminate]. intros H. injection H as <-.
      apply find_some in Ef as [Hin Heq]. apply root_eqb_eq in Heq. subst r.
      apply Hwf. destruct x. exact Hin.
  Qed.

  Lemma find_none_of_existsb {A} (f : A -> bool) l : existsb f l = false -> find f l = None.
  Proof.
    induction l as [|x r IH]; cbn [existsb find]; [reflexivity|].
    destruct (f x); [discriminate|exact IH].
  Qed.

  Lemma find_app_none {A} (f : A -> bool) l1 l2 : find f l1 = None -> find f (l1 ++ l2) = find f l2.
  Proof.
    induction l1 as [|x r IH]; cbn [find app]; [reflexivity|].
    destruct (f x); [discriminate|exact IH].
  Qed.

  Lemma has_root_opens d r : has_root d r = true -> exists m, open_root d r = Some m.
  Proof.
    unfold Model.has_root, Model.open_root. destruct (digest_eqb (r_hash r) (root_of [])).
    - intros _. exists []. reflexivity.
    - cbn [orb]. intros H. destruct (find (fun x => root_eqb (fst x) r) d) as [x|] eqn:Ef.
      + exists (snd x). reflexivity.
      + exfalso. apply existsb_exists in H as [x [Hin Hx]].
        pose proof (find_none _ _ Ef x Hin) as Hn. cbv beta in Hn. congruence.
  Qed.

  Lemma same_or_collision m new : root_of m = root_of new -> m = new \/ collision.
  Proof.
    intros H. destruct (kvmap_eqb m new) eqn:E.
    - left. apply kvmap_eqb_eq. exact E.
    - right. exists m, new. split; [|exact H]. intros Heq. apply kvmap_eqb_eq in Heq. congruence.
  Qed.

  Definition holds_announced (d : db) (this : root) : Prop :=
    has_root d this = true /\
    exists m, open_root d this = Some m /\ root_of m = r_hash this /\
      forall new, root_of new = r_hash this -> m = new \/ collision.

  Lemma holds_announced_of_has d this : db_wf d -> has_root d this = true -> holds_announced d this.
  Proof.
    intros Hwf Hh. split; [exact Hh|]. destruct (has_root_opens d this Hh) as [m Hm].
    exists m. split; [exact Hm|]. pose proof (open_root_wf d this m Hwf Hm) as Hr.
    split; [exact Hr|]. intros new Hn. apply same_or_collision. congruence.
  Qed.

  (* an accepted sync, whatever the peer answered: the database holds the
     announced root with contents that hash to it, i.e. the announced contents
     unless root_of collides *)
  Lemma sync_root_sound_lem fin d prev this peer :
    db_wf d -> accepted (snd (sync_root fin d prev this peer)) = true ->
    db_wf (fst (sync_root fin d prev this peer)) /\
    holds_announced (fst (sync_root fin d prev this peer)) this.
  Proof.
    intros Hwf. unfold Model.sync_root. destruct (has_root d this) eqn:Eh; cbn [fst snd].
    - intros _. split; [exact Hwf|]. apply holds_announced_of_has; assumption.
    - set (wl := if digest_eqb (r_hash this) (r_hash prev) then [] else peer).
      intros Hacc. assert (Hok : snd (apply fin d prev this wl) = AOk).
      { pose proof (apply_cases fin d prev this wl) as H. cbv zeta in H.
        destruct H as [[_ H]|[[_ [_ H]]|[[_ [_ [_ [H|H]]]]|[old [_ [_ [_ [[_ [_ H]]|[[_ [_ H]]|[_ H]]]]]]]]]];
          rewrite H in *; cbn [snd accepted] in *; congruence. }
      split; [apply apply_preserves_wf; exact Hwf|].
      destruct (apply_ok_persisted_lem fin d prev this wl Hok) as [Hhas _].
      apply holds_announced_of_has; [apply apply_preserves_wf; exact Hwf|exact Hhas].
  Qed.

  (* a rejected sync leaves the database as it was *)
  Lemma sync_root_rejected_lem fin d prev this peer :
    accepted (snd (sync_root fin d prev this peer)) = false ->
    fst (sync_root fin d prev this peer) = d.
  Proof.
    unfold Model.sync_root. destruct (has_root d this); cbn [fst snd accepted]; [discriminate|].
    intros H. apply apply_error_unchanged_lem. intros E. rewrite E in H. discriminate.
  Qed.

  (* any sequence of (possibly malicious) peer answers *)
  Lemma sync_with_peers_sound_lem fin answers : forall d prev this,
    db_wf d ->
    let res := sync_with_peers fin d prev this answers in
    db_wf (fst res) /\
    (snd res = true -> holds_announced (fst res) this) /\
    (snd res = false -> fst res = d).
  Proof.
    induction answers as [|wl r IH]; intros d prev this Hwf; cbn [Model.sync_with_peers].
    - cbn [fst snd]. split; [exact Hwf|split; [discriminate|intros _; reflexivity]].
    - destruct (sync_root fin d prev this wl) as [d' c] eqn:E.
      destruct (accepted c) eqn:Ea; cbn [fst snd].
      + pose proof (sync_root_sound_lem fin d prev this wl Hwf) as H. rewrite E in H. cbn [fst snd] in H.
        destruct (H Ea) as [H1 H2]. split; [exact H1|split; [intros _; exact H2|discriminate]].
      + pose proof (sync_root_rejected_lem fin d prev this wl) as H. rewrite E in H. cbn [fst snd] in H.
        rewrite (H Ea). apply IH. exact Hwf.
  Qed.

  (* ... and as soon as one peer is honest (answers with the log of the batch,
     in any order) the sync is accepted *)
  Lemma sync_root_honest_lem fin d prev this old ops wl :
    db_wf d -> sorted old ->
    follows this prev = true -> open_root d prev = Some old ->
    is_finalized fin (r_version this) = false ->
    r_hash this = root_of (contents (run_batch old ops)) ->
    Permutation (commit_writelog (run_batch old ops)) wl ->
    accepted (snd (sync_root fin d prev this wl)) = true.
  Proof.
    intros Hwf Hs Hf Ho Hfin Hd Hp. unfold Model.sync_root.
    destruct (has_root d this) eqn:Eh; cbn [snd accepted]; [reflexivity|].
    destruct (digest_eqb (r_hash this) (r_hash prev)) eqn:Ee.
    - apply digest_eqb_spec in Ee.
      assert (H : snd (apply fin d prev this []) = AOk).
      { apply (apply_known_root_lem fin d prev this [] old Hf Eh Ho Hfin).
        change (apply_writelog old []) with old. rewrite (open_root_wf d prev old Hwf Ho). congruence. }
      rewrite H. reflexivity.
    - destruct (sync_reaches_end_root_lem fin d prev this old ops wl Hs Hf Ho Hfin Hd Hp) as [H _].
      rewrite H. reflexivity.
  Qed.

  Lemma sync_with_peers_live_lem fin answers : forall d prev this old ops wl,
    db_wf d -> sorted old ->
    follows this prev = true -> open_root d prev = Some old ->
    is_finalized fin (r_version this) = false ->
    r_hash this = root_of (contents (run_batch old ops)) ->
    Permutation (commit_writelog (run_batch old ops)) wl ->
    In wl answers ->
    snd (sync_with_peers fin d prev this answers) = true.
  Proof.
    induction answers as [|a r IH]; intros d prev this old ops wl Hwf Hs Hf Ho Hfin Hd Hp Hin;
      [destruct Hin|]. cbn [Model.sync_with_peers].
    destruct (sync_root fin d prev this a) as [d' c] eqn:E.
    destruct (accepted c) eqn:Ea; cbn [snd]; [reflexivity|].
    pose proof (sync_root_rejected_lem fin d prev this a) as Hrej. rewrite E in Hrej. cbn [fst snd] in Hrej.
    rewrite (Hrej Ea). destruct Hin as [->|Hin].
    - exfalso. pose proof (sync_root_honest_lem fin d prev this old ops wl Hwf Hs Hf Ho Hfin Hd Hp) as H.
      rewrite E in H. cbn [snd] in H. congruence.
    - eapply IH; eassumption.
  Qed.
End ApplyProofs.

(* ---------- non-vacuity ---------- *)
Definition ex_root (v : N) (m : kvmap) : croot := mkRoot v 1 m.

(* the correct log is accepted; the log with the deletion dropped is rejected
   and the root does not appear; an Apply for a root that does not follow
   fails before anything else *)
Example ex_apply :
  let new := contents (run_batch ex_old ex_ops) in
  let wl := commit_writelog (run_batch ex_old ex_ops) in
  let d := [(ex_root 5 ex_old, ex_old)] in
  run_attempts false (Some 5) d
    [ mkAttempt (ex_root 5 ex_old) (ex_root 6 new) (removelast wl) false;
      mkAttempt (ex_root 5 ex_old) (ex_root 8 new) wl false;
      mkAttempt (ex_root 5 ex_old) (ex_root 6 new) (rev wl) false;
      mkAttempt (ex_root 5 ex_old) (ex_root 6 new) [] false;
      mkAttempt (ex_root 4 [([9], [9])]) (ex_root 5 [([8], [])]) [([8], Some [])] false;
      mkAttempt (ex_root 4 [([9], [9])]) (ex_root 5 [([8], [])]) [] false;
      mkAttempt (ex_root 5 ex_old) (ex_root 5 [([8], [])]) [([1], None); ([1; 2], None); ([3], None); ([8], Some [])] false ]
  = [(AMismatch, false); (AFollow, false); (AOk, true); (AOk, true);
     (AOther, false); (AMismatch, false); (AOther, false)].
Proof. vm_compute. reflexivity. Qed.

Example ex_hyps :
  follows kvmap (ex_root 6 [([7], [])]) (ex_root 5 ex_old) = true /\
  has_root kvmap kvmap_eqb (fun m => m) [(ex_root 5 ex_old, ex_old)] (ex_root 6 [([7], [])]) = false /\
  open_root kvmap kvmap_eqb (fun m => m) [(ex_root 5 ex_old, ex_old)] (ex_root 5 ex_old) = Some ex_old.
Proof. vm_compute. repeat split. Qed.
