(* The on-disk form of pathbadger's internal write log
   (pathbadger/writelog.go:16-41, 103-106): cbor.Marshal of [][]byte, i.e. a
   CBOR array (major type 4) of byte strings (major type 2), shortest-form
   heads (the encoder is canonical); every byte string is one entry:
     0x01 ++ dbKey   (8 bytes big-endian version ++ 4 bytes big-endian index)
     0x02 ++ key
   No proofs in this file. *)
From Verif Require Import Lib.Base WriteLog.Model WriteLog.PathLog.

Definition be_val (b : bytes) : N := fold_left (fun a x => a * 256 + x) b 0.

(* CBOR head: major type and argument, shortest form (RFC 8949, 3.1 / 4.2.1) *)
Definition cbor_head (major n : N) : bytes :=
  if n <? 24 then [major * 32 + n]
  else if n <? 256 then (major * 32 + 24) :: bs 1 n
  else if n <? 65536 then (major * 32 + 25) :: bs 2 n
  else if n <? 4294967296 then (major * 32 + 26) :: bs 4 n
  else (major * 32 + 27) :: bs 8 n.

Definition enc_entry (e : ientry) : bytes :=
  match e with
  | IInsert (v, i) => 1 :: bs 8 v ++ bs 4 i       (* node.go:478-494 *)
  | IDelete k => 2 :: k
  | IBad => [0]
  end.
Definition enc_bstr (b : bytes) : bytes := cbor_head 2 (N.of_nat (length b)) ++ b.
Definition encode_log (l : list ientry) : bytes :=
  cbor_head 4 (N.of_nat (length l)) ++ flat_map (fun e => enc_bstr (enc_entry e)) l.

(* exactly n bytes and the rest *)
Fixpoint take (n : nat) (b : bytes) : option (bytes * bytes) :=
  match n, b with
  | O, _ => Some ([], b)
  | S n', x :: r => match take n' r with Some (a, r') => Some (x :: a, r') | None => None end
  | S _, [] => None
  end.

Definition dec_head (b : bytes) : option (N * N * bytes) :=
  match b with
  | [] => None
  | x :: r =>
      let major := x / 32 in
      let ai := x mod 32 in
      if ai <? 24 then Some (major, ai, r)
      else
        let len := if ai =? 24 then Some 1%nat else if ai =? 25 then Some 2%nat
                   else if ai =? 26 then Some 4%nat else if ai =? 27 then Some 8%nat else None in
        match len with
        | None => None
        | Some k => match take k r with
                    | Some (v, r') => Some (major, be_val v, r')
                    | None => None
                    end
        end
  end.

(* writelog.go:118-162 looks only at the first byte; a reference that is not
   12 bytes long cannot name a node *)
Definition dec_entry (b : bytes) : ientry :=
  match b with
  | 1 :: r => if Nat.eqb (length r) 12 then IInsert (be_val (firstn 8 r), be_val (skipn 8 r)) else IBad
  | 2 :: k => IDelete k
  | _ => IBad
  end.

Fixpoint dec_items (n : nat) (b : bytes) : option (list ientry * bytes) :=
  match n with
  | O => Some ([], b)
  | S n' =>
      match dec_head b with
      | Some (2, len, r) =>
          match take (N.to_nat len) r with
          | Some (e, r') =>
              match dec_items n' r' with
              | Some (l, r'') => Some (dec_entry e :: l, r'')
              | None => None
              end
          | None => None
          end
      | _ => None
      end
  end.

Definition decode_log (b : bytes) : option (list ientry) :=
  match dec_head b with
  | Some (4, n, r) =>
      match dec_items (N.to_nat n) r with
      | Some (l, []) => Some l
      | _ => None
      end
  | _ => None
  end.

(* entries the encoding can represent *)
Definition ientry_wf (e : ientry) : Prop :=
  match e with
  | IInsert (v, i) => v < 18446744073709551616 /\ i < 4294967296
  | IDelete _ => True
  | IBad => False
  end.
