From Verif Require Import Lib.Base Txpool.Model Txpool.Proofs Gen.TxpoolConsts.

Theorem gen_consts_expected :
  other_guards = [U64MAX; U64MAX; U64MAX; U64MAX] /\ max_batch_size = MAXBATCH.
Proof. exact gen_other_guards_expected. Qed.
Print Assumptions gen_consts_expected.
