(* C20 — Runtime transaction pool respects sender order, priority and capacity.
   Only statements; proofs are in Txpool/*.v. *)
From Verif Require Import Lib.Base Txpool.Model Txpool.Inv Txpool.Refine Txpool.RefProps Txpool.Proofs Gen.TxpoolConsts.

(* G: the guards read from the source are the ones the model assumes *)
Theorem gen_consts_expected :
  other_guards = [U64MAX; U64MAX; U64MAX; U64MAX] /\ max_batch_size = MAXBATCH /\ next_sched_stop = U64MAX.
Proof. exact (conj (proj1 gen_other_guards_expected) (conj (proj2 gen_other_guards_expected) gen_stop_is_maxuint64)). Qed.
Print Assumptions gen_consts_expected.

(* "After any sequence of add, schedule, reset, transaction-used and sender-forward
   operations its contents and schedules equal those of a straightforward reference
   model": every observation (result class, contents, validity of each scheduled
   pick and of each eviction) of the ported bookkeeping equals the reference's, for
   all operation sequences with uint64 sequence numbers. *)
Theorem book_refines_ref : forall c ops,
  Forall op_ok ops ->
  run_obs (b_step next_sched_stop) (init c) ops = run_obs r_step (init c) ops.
Proof. exact book_refines_ref_l. Qed.
Print Assumptions book_refines_ref.

(* the incrementally maintained max heap holds exactly the computed ready set *)
Theorem maxheap_is_ready_set : forall c ops,
  Forall op_ok ops ->
  let s := run (b_step next_sched_stop) (init c) ops in
  forall j, In j (maxh s) <-> In j (map tid (ready s)).
Proof. exact maxheap_is_ready_set_l. Qed.
Print Assumptions maxheap_is_ready_set.

(* with the literal the code had before the repair the refinement is false *)
Theorem book_refines_ref_refuted_for_maxint64 :
  exists c ops, Forall op_ok ops /\
    run_obs (b_step 9223372036854775807) (init c) ops <> run_obs r_step (init c) ops.
Proof. exact Proofs.book_refines_ref_refuted_for_maxint64. Qed.
Print Assumptions book_refines_ref_refuted_for_maxint64.

(* what "ready" means: successor of the sender's last emission in this pass
   (never across the uint64 boundary), else the sender's current sequence *)
Theorem ready_meaning : forall s t,
  is_ready s t = true <->
  match aget (tsender t) (sched s) with
  | Some last => last <> U64MAX /\ tseq t = last + 1
  | None => aget (tsender t) (senders s) = Some (tseq t)
  end.
Proof. exact RefProps.ready_meaning. Qed.
Print Assumptions ready_meaning.

(* sender order and no double scheduling, for every run of the reference: per
   sender the emissions of the current pass start at the sender's current sequence
   and proceed by +1; no (sender, sequence) slot is emitted twice; the schedule map
   records each sender's last emission *)
Theorem pass_sender_order : forall c ops,
  chain_ok (snd (r_run_log c ops)) /\
  NoDup (map slot (snd (r_run_log c ops))) /\
  forall a, aget a (sched (fst (r_run_log c ops))) = last_of a (snd (r_run_log c ops)).
Proof. exact pass_order_all. Qed.
Print Assumptions pass_sender_order.

(* the logged run is the plain reference run *)
Theorem logged_run_is_reference_run : forall ops s log,
  fst (fold_left r_step_log ops (s, log)) = run r_step s ops.
Proof. exact r_run_log_state. Qed.
Print Assumptions logged_run_is_reference_run.

(* every pick is a ready transaction of maximal priority among the ready ones *)
Theorem pick_is_highest_priority_ready : forall i s s',
  r_schedule_one i s = Some s' ->
  exists t, find_id i (ready s) = Some t /\ In t (txs s) /\ tid t = i /\ is_ready s t = true /\
            (forall u, In u (txs s) -> is_ready s u = true -> tprio u <= tprio t) /\
            s' = set_sched s (aset (tsender t) (tseq t) (sched s)).
Proof. exact pick_is_ready_and_max. Qed.
Print Assumptions pick_is_highest_priority_ready.

(* a schedule call stops only at the limit or when nothing is ready *)
Theorem schedule_fills_or_exhausts : forall lim picks s s',
  r_schedule lim picks s = (COk, s') ->
  N.of_nat (length picks) = N.min lim MAXBATCH \/ ready s' = [].
Proof. exact schedule_complete. Qed.
Print Assumptions schedule_fills_or_exhausts.

(* capacity, for every operation sequence (and any stop constant) *)
Theorem capacity_respected : forall STOP c ops, within_cap (run (b_step STOP) (init c) ops).
Proof. exact capacity_respected_l. Qed.
Print Assumptions capacity_respected.

(* a transaction leaves the pool during an add only as the replaced same-slot
   transaction of strictly lower priority, or as a minimum-priority eviction *)
Theorem eviction_and_replacement_rule : forall c ops t q e u,
  Forall op_ok ops ->
  let s := run (b_step next_sched_stop) (init c) ops in
  In u (txs s) -> ~ In u (txs (snd (b_add t q e s))) ->
  (tsender u = tsender t /\ tseq u = tseq t /\ tprio u < tprio t)
  \/ (tprio u <= tprio t /\ forall w, In w (txs s) -> tprio u <= tprio w).
Proof. exact leaver_rule_l. Qed.
Print Assumptions eviction_and_replacement_rule.

Theorem replace_only_by_strictly_higher : forall c ops t q e old,
  Forall op_ok ops ->
  let s := run (b_step next_sched_stop) (init c) ops in
  find_id (tid t) (txs s) = None -> In old (txs s) ->
  tsender old = tsender t -> tseq old = tseq t ->
  (tprio t <= tprio old -> b_add t q e s = (CReplUnderpriced, s)) /\
  (tprio old < tprio t -> fst (b_add t q e s) = COk /\
       forall u, In u (txs (snd (b_add t q e s))) <-> u = t \/ (In u (txs s) /\ u <> old)).
Proof. exact replace_only_higher_l. Qed.
Print Assumptions replace_only_by_strictly_higher.

(* a schedule call that returned fewer transactions than its limit left nothing
   ready: no transaction is the successor of its sender's last emission, none sits
   at its sender's current sequence (the pool "always picks a ready transaction next") *)
Theorem exhausted_pass_left_nothing_ready : forall s,
  ready s = [] ->
  forall t, In t (txs s) ->
    match aget (tsender t) (sched s) with
    | Some last => last = U64MAX \/ tseq t <> last + 1
    | None => aget (tsender t) (senders s) <> Some (tseq t)
    end.
Proof. exact exhausted_left_nothing_ready. Qed.
Print Assumptions exhausted_pass_left_nothing_ready.

(* mainQueue.Add / Schedule / ScheduleExtra / HandleTxsUsed (main_queue.go) are
   compositions of the scheduler operations, hence covered by every theorem above *)
Theorem main_queue_operations_are_scheduler_sequences : forall t q e lim picks ids,
  tseq t <= U64MAX ->
  Forall op_ok (q_add t q e ++ q_schedule lim picks ++ q_schedule_extra lim picks ++ q_used ids).
Proof. exact q_ops_ok. Qed.
Print Assumptions main_queue_operations_are_scheduler_sequences.
