From Verif Require Import Lib.Base Pcs.Model Pcs.Proofs Pcs.Node Pcs.NodeProofs Gen.PcsVectors Pcs.Vectors Gen.PcsClock.
From Coq Require Import ZArith.

Theorem accept_implies_all_checks :
  forall (P : Prims) (env : Env) (pol : Policy) (ts : Z) (raw : bytes) (c : Collateral) (out : Output),
    verify P env pol ts raw c = Ok out ->
    exists q, parse_quote P raw = inl q /\ AllChecks P env pol ts q c out.
Proof. exact accept_implies_all_checks_l. Qed.
Print Assumptions accept_implies_all_checks.

Theorem signed_regions_of_raw_quote :
  forall (P : Prims) (raw : bytes) (q : Quote),
    parse_quote P raw = inl q ->
    q_header q = slice 0 48 raw /\
    q_body q = slice 48 (if q_tee q =? TEE_TDX then 584 else 384) raw /\
    (q_tee q = TEE_SGX \/ q_tee q = TEE_TDX).
Proof. exact parse_quote_regions. Qed.
Print Assumptions signed_regions_of_raw_quote.

Theorem output_is_function_of_signed_body :
  forall (P : Prims) (env : Env) (pol : Policy) (ts : Z) (q : Quote) (c : Collateral) (out : Output),
    verify_parsed P env pol ts q c = Ok out ->
    out = output_of P (q_tee q) (q_body q) /\
    ecdsa_ok P (q_attkey q) (sha256 P (signed_region q)) (q_sig q) = true.
Proof. exact Proofs.output_is_function_of_signed_body. Qed.
Print Assumptions output_is_function_of_signed_body.

Theorem output_covered_by_signature :
  forall (P : Prims) (env : Env) (pol1 pol2 : Policy) (ts1 ts2 : Z) (raw1 raw2 : bytes)
         (c1 c2 : Collateral) (o1 o2 : Output),
    verify P env pol1 ts1 raw1 c1 = Ok o1 ->
    verify P env pol2 ts2 raw2 c2 = Ok o2 ->
    (forall q1 q2, parse_quote P raw1 = inl q1 -> parse_quote P raw2 = inl q2 ->
                   signed_region q1 = signed_region q2) ->
    o1 = o2.
Proof. exact output_covered_by_signature_l. Qed.
Print Assumptions output_covered_by_signature.

Theorem unsigned_unread_components_irrelevant :
  forall (P : Prims) (env : Env) (pol : Policy) (ts : Z) (q q' : Quote) (c : Collateral) (s : bytes),
    (verify_parsed P env pol ts (set_slack q s) c = verify_parsed P env pol ts q c) /\
    (q_tee q = q_tee q' -> q_body q = q_body q' -> q_header q = q_header q' -> q_sig q = q_sig q' ->
     q_attkey q = q_attkey q' -> q_qe_report q = q_qe_report q' -> q_qe_sig q = q_qe_sig q' ->
     q_auth q = q_auth q' -> q_cert_type q = q_cert_type q' -> q_cert_data q = q_cert_data q' ->
     verify_parsed P env pol ts q c = verify_parsed P env pol ts q' c).
Proof. exact unsigned_unread_components_irrelevant_l. Qed.
Print Assumptions unsigned_unread_components_irrelevant.

Theorem expired_never_accepted :
  forall (P : Prims) (env : Env) (pol : Policy) (ts : Z) (raw : bytes) (c : Collateral),
    (forall qi issue, parse_qeid P (c_qeid c) = Some qi -> qi_issue qi = Some issue ->
                      ~ in_window (p_period pol) issue ts)
    \/ (forall ti issue, parse_tcbinfo P (c_tcbinfo c) = Some ti -> ti_issue ti = Some issue ->
                      ~ in_window (p_period pol) issue ts)
    \/ pck_chain_ok P ts (match parse_quote P raw with inl q => q_cert_data q | inr _ => [] end) = false
    \/ tcb_chain_ok P ts (c_certs c) = false ->
    forall out, verify P env pol ts raw c <> Ok out.
Proof. exact expired_never_accepted_l. Qed.
Print Assumptions expired_never_accepted.

Theorem disallowed_status_never_accepted :
  forall (P : Prims) (env : Env) (pol : Policy) (ts : Z) (raw : bytes) (c : Collateral) (out : Output),
    verify P env pol ts raw c = Ok out ->
    exists q pck ti lv, parse_quote P raw = inl q /\ pck_info P (q_cert_data q) = PckOk pck /\
      parse_tcbinfo P (c_tcbinfo c) = Some ti /\
      get_tcb_level ti (pk_compsvn pck) (tdx_svn_of q) (pk_pcesvn pck) = Ok lv /\
      (tl_status lv = ST_UpToDate \/ tl_status lv = ST_SWHardeningNeeded \/
       e_lax env = true /\ (tl_status lv = ST_OutOfDate \/ tl_status lv = ST_ConfigurationNeeded \/
                            tl_status lv = ST_OutOfDateConfigurationNeeded)).
Proof. exact disallowed_status_never_accepted_l. Qed.
Print Assumptions disallowed_status_never_accepted.

Theorem foreign_fmspc_never_accepted :
  forall (P : Prims) (env : Env) (pol : Policy) (ts : Z) (raw : bytes) (c : Collateral),
    (forall q pck ti, parse_quote P raw = inl q -> pck_info P (q_cert_data q) = PckOk pck ->
                      parse_tcbinfo P (c_tcbinfo c) = Some ti ->
                      hexdecode (ti_fmspc ti) <> Some (pk_fmspc pck)
                      \/ mem_bytes (ti_fmspc ti) (p_blacklist pol) = true
                      \/ (p_whitelist pol <> [] /\ mem_bytes (ti_fmspc ti) (p_whitelist pol) = false)
                      \/ ti_id ti <> (if q_tee q =? TEE_TDX then s_TDX else s_SGX)) ->
    forall out, verify P env pol ts raw c <> Ok out.
Proof. exact foreign_fmspc_never_accepted_l. Qed.
Print Assumptions foreign_fmspc_never_accepted.

Theorem validity_window_interval :
  forall (P : Prims) (env : Env),
    interval_shaped (pck_chain_ok P) -> interval_shaped (tcb_chain_ok P) ->
    forall (pol : Policy) (t1 t2 t3 : Z) (raw : bytes) (c : Collateral) (o1 o3 : Output),
      (t1 <= t2 <= t3)%Z ->
      verify P env pol t1 raw c = Ok o1 -> verify P env pol t3 raw c = Ok o3 ->
      verify P env pol t2 raw c = Ok o1.
Proof. exact validity_window_interval_l. Qed.
Print Assumptions validity_window_interval.

Theorem accept_implies_before_next_update_refuted :
  exists P env pol ts raw c out ti next,
    verify P env pol ts raw c = Ok out /\ parse_tcbinfo P (c_tcbinfo c) = Some ti /\
    ti_next ti = Some next /\ (next <= ts)%Z.
Proof. exact accept_implies_before_next_update_refuted_l. Qed.
Print Assumptions accept_implies_before_next_update_refuted.

Theorem fmspc_blacklist_by_value_refuted :
  exists P env pol ts raw c out q pck entry,
    verify P env pol ts raw c = Ok out /\ parse_quote P raw = inl q /\
    pck_info P (q_cert_data q) = PckOk pck /\
    In entry (p_blacklist pol) /\ hexdecode entry = Some (pk_fmspc pck).
Proof. exact fmspc_blacklist_by_value_refuted_l. Qed.
Print Assumptions fmspc_blacklist_by_value_refuted.

Theorem non_vacuity_examples :
  verify sgxP toy_env default_policy 50 toy_sgx_raw toy_coll = Ok (repeat 0xEE 32, repeat 0x51 32, repeat 0xDA 64) /\
  verify tdxP toy_env tdx_policy 50 toy_tdx_raw toy_coll = Ok (zeros 32, zeros 32, zeros 64) /\
  (interval_shaped toy_window /\
   (exists o, verify sgxP toy_env default_policy 20 toy_sgx_raw toy_coll = Ok o) /\
   (exists o, verify sgxP toy_env default_policy 100000 toy_sgx_raw toy_coll = Ok o)).
Proof. exact (conj ex_sgx_accepted (conj ex_tdx_accepted ex_interval_hypotheses)). Qed.
Print Assumptions non_vacuity_examples.

(* ---------- third anchor: node registration (go/common/node) ---------- *)

Theorem registration_binds_rak :
  forall (NP : NPrims) (env : Env) (cfg0 : option TeeCfg) (ts : Z) (height : N)
         (constraints : option Constraints) (node_id : bytes) (is261 : bool) (cap : CapTee) (u : unit),
    cap_verify NP env cfg0 ts height constraints node_id is261 cap = NOk u ->
    exists a sc raw c mre mrs rd,
      ct_att cap = Some a /\ constraints = Some sc /\
      Binds NP env (cfg_of cfg0) ts height sc node_id cap a raw c mre mrs rd.
Proof. exact registration_binds_rak_l. Qed.
Print Assumptions registration_binds_rak.

Theorem foreign_quote_never_binds :
  forall (NP : NPrims) (env : Env) (cfg0 : option TeeCfg) (ts : Z) (height : N) (sc : Constraints)
         (node_id : bytes) (is261 : bool) (cap : CapTee) (a : Attestation) (raw : bytes) (c : Collateral),
    ct_att cap = Some a -> a_quote a = QKPcs raw c ->
    (forall mre mrs rd, verify (np_pcs NP) env (eff_pcs_policy (cfg_of cfg0) sc) ts raw c = Ok (mre, mrs, rd) ->
                        firstn 32 rd <> hash512_256 NP (tee_hash_context ++ ct_rak cap)) ->
    forall u, cap_verify NP env cfg0 ts height (Some sc) node_id is261 cap <> NOk u.
Proof. exact foreign_quote_never_binds_l. Qed.
Print Assumptions foreign_quote_never_binds.

Theorem unlisted_or_stale_never_registers :
  forall (NP : NPrims) (env : Env) (cfg0 : option TeeCfg) (ts : Z) (height : N) (sc : Constraints)
         (node_id : bytes) (is261 : bool) (cap : CapTee) (a : Attestation) (raw : bytes) (c : Collateral)
         (mre mrs rd : bytes),
    ct_att cap = Some a -> a_quote a = QKPcs raw c ->
    verify (np_pcs NP) env (eff_pcs_policy (cfg_of cfg0) sc) ts raw c = Ok (mre, mrs, rd) ->
    (forall e, In e (sc_enclaves sc) -> ~ (fst e = mre /\ snd e = mrs))
    \/ f_signed (cfg_of cfg0) = true /\
       (height < a_height a \/ eff_max_age (cfg_of cfg0) sc < height - a_height a \/
        rak_verify NP (ct_rak cap) (att_message NP rd node_id (a_height a) (ct_rek cap)) (a_sig a) = false) ->
    forall u, cap_verify NP env cfg0 ts height (Some sc) node_id is261 cap <> NOk u.
Proof. exact unlisted_or_stale_never_registers_l. Qed.
Print Assumptions unlisted_or_stale_never_registers.

Theorem unsigned_attestation_frame :
  forall (NP : NPrims) (env : Env) (cfg : TeeCfg) (ts : Z) (h1 h2 : N) (sc : Constraints) (nid1 nid2 : bytes)
         (is261 : bool) (hw : N) (rak : bytes) (rek1 rek2 : option bytes) (v : N) (k : QuoteKind)
         (ah1 ah2 : N) (s1 s2 : bytes),
    f_signed cfg = false ->
    cap_verify NP env (Some cfg) ts h1 (Some sc) nid1 is261 (mkCap hw rak rek1 (Some (mkAtt v k ah1 s1))) =
    cap_verify NP env (Some cfg) ts h2 (Some sc) nid2 is261 (mkCap hw rak rek2 (Some (mkAtt v k ah2 s2))).
Proof. exact unsigned_attestation_frame_l. Qed.
Print Assumptions unsigned_attestation_frame.

Theorem registration_examples :
  cap_verify toyNP toy_env (Some toy_cfg) 50 1000 (Some toy_sc) [7] true (toy_cap 990 toy_rak) = NOk tt /\
  cap_verify toyNP toy_env (Some toy_cfg) 50 1000 (Some toy_sc) [7] true (toy_cap 990 (repeat 0xDB 32)) = NRej NRakHashMismatch.
Proof. exact (conj (proj1 ex_registration) (proj1 (proj2 ex_registration))). Qed.
Print Assumptions registration_examples.

(* ---------- the real Intel vectors (coq/Gen/PcsVectors.v) ---------- *)

Theorem real_sgx_vector :
  let q := parsed sgxP b_q_sgx in
  parse_quote sgxP b_q_sgx = inl q /\
  q_version q = 3 /\ q_tee q = TEE_SGX /\ q_cert_type q = 5 /\ q_slack q = [] /\
  q_header q = firstn 48 b_q_sgx /\ q_body q = slice 48 384 b_q_sgx /\
  output_of sgxP (q_tee q) (q_body q) =
    (hx 32 0x68823bc62f409ee33a32ea270cfe45d4b19a6fb3c8570d7bc186cbe062398e8f,
     hx 32 0x9affcfae47b848ec2caf1c49b4b283531e1cc425f93582b36806e52a43d78d1a,
     slice 368 64 b_q_sgx) /\
  firstn 4 (sgx_report_data (q_body q)) = [2; 106; 105; 206] /\
  sgx_debug (q_body q) = false /\ sgx_flags (q_body q) = 5 /\ sgx_xfrm (q_body q) = 3 /\
  sgx_flags (q_qe_report q) = 0x15 /\ sgx_xfrm (q_qe_report q) = 231 /\
  qeid_verify real_qi_sgx (q_qe_report q) = Ok tt /\
  qeid_validate default_policy TEE_SGX 1671497404000000000 real_qi_sgx = Ok tt /\
  qeid_validate default_policy TEE_SGX 1673786737000000000 real_qi_sgx = Rej RQeIdExpired /\
  hex_of_len b_ti_sgx_sig 64 <> None /\ hex_of_len b_qi_sgx_sig 64 <> None.
Proof. exact real_sgx_vector_l. Qed.
Print Assumptions real_sgx_vector.

Theorem real_tdx_vector :
  let q := parsed sgxP b_q_tdx in
  parse_quote sgxP b_q_tdx = inl q /\
  q_version q = 4 /\ q_tee q = TEE_TDX /\ q_cert_type q = 5 /\ q_slack q = [] /\
  q_body q = slice 48 584 b_q_tdx /\ td_attributes (q_body q) = 2 ^ 28 /\ td_debug (q_body q) = false /\
  td_mrsignerseam (q_body q) = zeros 48 /\
  pre_checks (mkEnv false false []) default_policy q = Rej RTeeNotAllowed /\
  pre_checks (mkEnv false false []) (mkPolicy false 30 12 [] [] (Some [])) q = Ok tt /\
  q_cert_type (parsed sgxP b_q_eppid) = 3 /\
  pck_stage sgxP 0 (parsed sgxP b_q_eppid) = Rej RNoPckChain.
Proof. exact real_tdx_vector_l. Qed.
Print Assumptions real_tdx_vector.

(* ---------- growth round 3 ---------- *)

(* the full pipeline (SGX and TDX) in one statement, clause by clause as the code enforces it *)
Theorem accept_chain_and_tcb :
  forall (P : Prims) (env : Env) (pol : Policy) (ts : Z) (raw : bytes) (c : Collateral) (out : Output),
    verify P env pol ts raw c = Ok out ->
    exists q, parse_quote P raw = inl q /\ ChainAndTcb P env pol ts q c out.
Proof. exact accept_chain_and_tcb_l. Qed.
Print Assumptions accept_chain_and_tcb.

Theorem selected_level_is_first_match :
  forall (ti : TcbInfo) (sgxsvn : list Z) (tdxsvn : option bytes) (pcesvn : N) (lv : TcbLevel),
    get_tcb_level ti sgxsvn tdxsvn pcesvn = Ok lv ->
    first_matching_level ti sgxsvn tdxsvn pcesvn lv /\ tl_status lv <> ST_MISSING /\ tdx_module_ok ti tdxsvn.
Proof. exact get_tcb_level_spec. Qed.
Print Assumptions selected_level_is_first_match.

Theorem tdx_seam_attributes_checked_refuted :
  exists P env pol ts raw c out q ti a m,
    verify P env pol ts raw c = Ok out /\ parse_quote P raw = inl q /\ q_tee q = TEE_TDX /\
    parse_tcbinfo P (c_tcbinfo c) = Some ti /\
    hexdecode (ti_seam_attrs ti) = Some a /\ hexdecode (ti_seam_mask ti) = Some m /\ m = repeat 255 8 /\
    td_seamattributes (q_body q) <> a.
Proof. exact tdx_seam_attributes_checked_refuted_l. Qed.
Print Assumptions tdx_seam_attributes_checked_refuted.

(* the registry's entry point *)
Theorem registry_accept_binds :
  forall (NP : NPrims) (env : Env) (cfg0 : option TeeCfg) (ts : Z) (height : N) (node_id : bytes) (is261 : bool)
         (rt : NodeRuntime) (reg : RegRuntime) (u : unit),
    verify_enclave_ids NP env cfg0 ts height node_id is261 rt reg = NOk u ->
    (nr_tee rt = None /\ rr_hw reg = 0) \/
    exists cap d pre post a sc raw c mre mrs rd,
      nr_tee rt = Some cap /\ ct_hardware cap = rr_hw reg /\
      rr_deployments reg = pre ++ d :: post /\ d_version d = nr_version rt /\
      (forall y, In y pre -> d_version y <> nr_version rt) /\
      ct_att cap = Some a /\ d_tee d = Some sc /\
      Binds NP env (cfg_of cfg0) ts height sc node_id cap a raw c mre mrs rd.
Proof. exact registry_accept_binds_l. Qed.
Print Assumptions registry_accept_binds.

Theorem registry_verdict_deterministic :
  forall (NP : NPrims) (env env2 : Env) (cfg1 cfg2 : option TeeCfg) (ts1 ts2 : Z) (h1 h2 : N) (nid1 nid2 : bytes)
         (f1 f2 : bool) (rt1 rt2 : NodeRuntime) (reg1 reg2 : RegRuntime),
    env = env2 -> cfg1 = cfg2 -> ts1 = ts2 -> h1 = h2 -> nid1 = nid2 -> f1 = f2 -> rt1 = rt2 -> reg1 = reg2 ->
    verify_enclave_ids NP env cfg1 ts1 h1 nid1 f1 rt1 reg1 = verify_enclave_ids NP env2 cfg2 ts2 h2 nid2 f2 rt2 reg2.
Proof. exact registry_verdict_deterministic_l. Qed.
Print Assumptions registry_verdict_deterministic.

(* regenerated from the source: no wall clock / randomness in the files on the verification path *)
Theorem no_wall_clock_on_verification_path : pcs_path_wall_clock_or_random_uses = 0.
Proof. reflexivity. Qed.
Print Assumptions no_wall_clock_on_verification_path.

Theorem verdict_depends_on_process_switches :
  exists NP cfg ts h nid rt reg,
    verify_enclave_ids NP (mkEnv true false []) cfg ts h nid true rt reg = NOk tt /\
    verify_enclave_ids NP (mkEnv false false []) cfg ts h nid true rt reg = NRej (NQuote RDebugMismatch).
Proof. exact verdict_depends_on_process_switches_l. Qed.
Print Assumptions verdict_depends_on_process_switches.

Theorem genesis_ignores_attestation :
  forall (NP : NPrims) (env : Env) (cfg0 : option TeeCfg) (ts : Z) (height : N) (node_id : bytes) (is261 : bool)
         (rt : NodeRuntime) (reg : RegRuntime) (g s : bool) (r : NReason),
    g || s = true -> register_tee_check NP env cfg0 ts height node_id is261 rt reg g s <> NRej r.
Proof. exact genesis_ignores_attestation_l. Qed.
Print Assumptions genesis_ignores_attestation.

Theorem register_tee_check_strict :
  forall (NP : NPrims) (env : Env) (cfg0 : option TeeCfg) (ts : Z) (height : N) (node_id : bytes) (is261 : bool)
         (rt : NodeRuntime) (reg : RegRuntime),
    register_tee_check NP env cfg0 ts height node_id is261 rt reg false false =
    verify_enclave_ids NP env cfg0 ts height node_id is261 rt reg.
Proof. exact register_tee_check_strict_l. Qed.
Print Assumptions register_tee_check_strict.

Theorem report_data_binds_rek_and_node_id_refuted :
  exists NP env cfg ts h sc rak q s1 s2 nid1 nid2 rek1 rek2,
    nid1 <> nid2 /\ rek1 <> rek2 /\
    cap_verify NP env cfg ts h sc nid1 true (mkCap 1 rak rek1 (Some (mkAtt 1 q 990 s1))) = NOk tt /\
    cap_verify NP env cfg ts h sc nid2 true (mkCap 1 rak rek2 (Some (mkAtt 1 q 990 s2))) = NOk tt.
Proof. exact report_data_binds_rek_and_node_id_refuted_l. Qed.
Print Assumptions report_data_binds_rek_and_node_id_refuted.

(* TDX module policy: an allowed entry must match on every field it sets *)
Theorem tdx_module_policy_is_conjunction :
  forall (mods : list TdxModulePolicy) (body : bytes),
    tdx_module_allowed mods body = true <-> tdx_policy_admits mods body.
Proof. exact tdx_module_allowed_spec. Qed.
Print Assumptions tdx_module_policy_is_conjunction.

(* which PCS policy a registration is verified under *)
Theorem pcs_policy_in_force :
  forall (cfg : TeeCfg) (sc : Constraints),
    eff_pcs_policy cfg sc = policy_in_force cfg sc /\
    (forall pp, runtime_pcs sc = Some pp -> policy_in_force cfg sc = pp) /\
    (forall d dp, runtime_pcs sc = None -> f_default_policy cfg = Some d -> f_pcs cfg = true -> qp_pcs d = Some dp ->
                  policy_in_force cfg sc = dp).
Proof. exact pcs_policy_in_force_l. Qed.
Print Assumptions pcs_policy_in_force.
