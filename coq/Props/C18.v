From Verif Require Import Lib.Base Pcs.Model Pcs.Proofs.
From Coq Require Import ZArith.

Theorem accept_implies_all_checks :
  forall (P : Prims) (env : Env) (pol : Policy) (ts : Z) (raw : bytes) (c : Collateral) (out : Output),
    verify P env pol ts raw c = Ok out ->
    exists q, parse_quote P raw = inl q /\ AllChecks P env pol ts q c out.
Proof. exact accept_implies_all_checks_l. Qed.
Print Assumptions accept_implies_all_checks.

Theorem signed_regions_of_raw_quote :
  forall (P : Prims) (raw : bytes) (q : Quote),
    parse_quote P raw = inl q ->
    q_header q = slice 0 48 raw /\
    q_body q = slice 48 (if q_tee q =? TEE_TDX then 584 else 384) raw /\
    (q_tee q = TEE_SGX \/ q_tee q = TEE_TDX).
Proof. exact parse_quote_regions. Qed.
Print Assumptions signed_regions_of_raw_quote.

Theorem output_is_function_of_signed_body :
  forall (P : Prims) (env : Env) (pol : Policy) (ts : Z) (q : Quote) (c : Collateral) (out : Output),
    verify_parsed P env pol ts q c = Ok out ->
    out = output_of P (q_tee q) (q_body q) /\
    ecdsa_ok P (q_attkey q) (sha256 P (signed_region q)) (q_sig q) = true.
Proof. exact Proofs.output_is_function_of_signed_body. Qed.
Print Assumptions output_is_function_of_signed_body.

Theorem output_covered_by_signature :
  forall (P : Prims) (env : Env) (pol1 pol2 : Policy) (ts1 ts2 : Z) (raw1 raw2 : bytes)
         (c1 c2 : Collateral) (o1 o2 : Output),
    verify P env pol1 ts1 raw1 c1 = Ok o1 ->
    verify P env pol2 ts2 raw2 c2 = Ok o2 ->
    (forall q1 q2, parse_quote P raw1 = inl q1 -> parse_quote P raw2 = inl q2 ->
                   signed_region q1 = signed_region q2) ->
    o1 = o2.
Proof. exact output_covered_by_signature_l. Qed.
Print Assumptions output_covered_by_signature.

Theorem unsigned_unread_components_irrelevant :
  forall (P : Prims) (env : Env) (pol : Policy) (ts : Z) (q q' : Quote) (c : Collateral) (s : bytes),
    (verify_parsed P env pol ts (set_slack q s) c = verify_parsed P env pol ts q c) /\
    (q_tee q = q_tee q' -> q_body q = q_body q' -> q_header q = q_header q' -> q_sig q = q_sig q' ->
     q_attkey q = q_attkey q' -> q_qe_report q = q_qe_report q' -> q_qe_sig q = q_qe_sig q' ->
     q_auth q = q_auth q' -> q_cert_type q = q_cert_type q' -> q_cert_data q = q_cert_data q' ->
     verify_parsed P env pol ts q c = verify_parsed P env pol ts q' c).
Proof. exact unsigned_unread_components_irrelevant_l. Qed.
Print Assumptions unsigned_unread_components_irrelevant.

Theorem expired_never_accepted :
  forall (P : Prims) (env : Env) (pol : Policy) (ts : Z) (raw : bytes) (c : Collateral),
    (forall qi issue, parse_qeid P (c_qeid c) = Some qi -> qi_issue qi = Some issue ->
                      ~ in_window (p_period pol) issue ts)
    \/ (forall ti issue, parse_tcbinfo P (c_tcbinfo c) = Some ti -> ti_issue ti = Some issue ->
                      ~ in_window (p_period pol) issue ts)
    \/ pck_chain_ok P ts (match parse_quote P raw with inl q => q_cert_data q | inr _ => [] end) = false
    \/ tcb_chain_ok P ts (c_certs c) = false ->
    forall out, verify P env pol ts raw c <> Ok out.
Proof. exact expired_never_accepted_l. Qed.
Print Assumptions expired_never_accepted.

Theorem disallowed_status_never_accepted :
  forall (P : Prims) (env : Env) (pol : Policy) (ts : Z) (raw : bytes) (c : Collateral) (out : Output),
    verify P env pol ts raw c = Ok out ->
    exists q pck ti lv, parse_quote P raw = inl q /\ pck_info P (q_cert_data q) = PckOk pck /\
      parse_tcbinfo P (c_tcbinfo c) = Some ti /\
      get_tcb_level ti (pk_compsvn pck) (tdx_svn_of q) (pk_pcesvn pck) = Ok lv /\
      (tl_status lv = ST_UpToDate \/ tl_status lv = ST_SWHardeningNeeded \/
       e_lax env = true /\ (tl_status lv = ST_OutOfDate \/ tl_status lv = ST_ConfigurationNeeded \/
                            tl_status lv = ST_OutOfDateConfigurationNeeded)).
Proof. exact disallowed_status_never_accepted_l. Qed.
Print Assumptions disallowed_status_never_accepted.

Theorem foreign_fmspc_never_accepted :
  forall (P : Prims) (env : Env) (pol : Policy) (ts : Z) (raw : bytes) (c : Collateral),
    (forall q pck ti, parse_quote P raw = inl q -> pck_info P (q_cert_data q) = PckOk pck ->
                      parse_tcbinfo P (c_tcbinfo c) = Some ti ->
                      hexdecode (ti_fmspc ti) <> Some (pk_fmspc pck)
                      \/ mem_bytes (ti_fmspc ti) (p_blacklist pol) = true
                      \/ (p_whitelist pol <> [] /\ mem_bytes (ti_fmspc ti) (p_whitelist pol) = false)
                      \/ ti_id ti <> (if q_tee q =? TEE_TDX then s_TDX else s_SGX)) ->
    forall out, verify P env pol ts raw c <> Ok out.
Proof. exact foreign_fmspc_never_accepted_l. Qed.
Print Assumptions foreign_fmspc_never_accepted.

Theorem validity_window_interval :
  forall (P : Prims) (env : Env),
    interval_shaped (pck_chain_ok P) -> interval_shaped (tcb_chain_ok P) ->
    forall (pol : Policy) (t1 t2 t3 : Z) (raw : bytes) (c : Collateral) (o1 o3 : Output),
      (t1 <= t2 <= t3)%Z ->
      verify P env pol t1 raw c = Ok o1 -> verify P env pol t3 raw c = Ok o3 ->
      verify P env pol t2 raw c = Ok o1.
Proof. exact validity_window_interval_l. Qed.
Print Assumptions validity_window_interval.

Theorem accept_implies_before_next_update_refuted :
  exists P env pol ts raw c out ti next,
    verify P env pol ts raw c = Ok out /\ parse_tcbinfo P (c_tcbinfo c) = Some ti /\
    ti_next ti = Some next /\ (next <= ts)%Z.
Proof. exact accept_implies_before_next_update_refuted_l. Qed.
Print Assumptions accept_implies_before_next_update_refuted.

Theorem fmspc_blacklist_by_value_refuted :
  exists P env pol ts raw c out q pck entry,
    verify P env pol ts raw c = Ok out /\ parse_quote P raw = inl q /\
    pck_info P (q_cert_data q) = PckOk pck /\
    In entry (p_blacklist pol) /\ hexdecode entry = Some (pk_fmspc pck).
Proof. exact fmspc_blacklist_by_value_refuted_l. Qed.
Print Assumptions fmspc_blacklist_by_value_refuted.

Theorem non_vacuity_examples :
  verify sgxP toy_env default_policy 50 toy_sgx_raw toy_coll = Ok (repeat 0xEE 32, repeat 0x51 32, repeat 0xDA 64) /\
  verify tdxP toy_env tdx_policy 50 toy_tdx_raw toy_coll = Ok (zeros 32, zeros 32, zeros 64) /\
  (interval_shaped toy_window /\
   (exists o, verify sgxP toy_env default_policy 20 toy_sgx_raw toy_coll = Ok o) /\
   (exists o, verify sgxP toy_env default_policy 100000 toy_sgx_raw toy_coll = Ok o)).
Proof. exact (conj ex_sgx_accepted (conj ex_tdx_accepted ex_interval_hypotheses)). Qed.
Print Assumptions non_vacuity_examples.
