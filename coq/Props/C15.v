From Verif Require Import Lib.Base Ledger.SharePool Ledger.SharePoolProofs Ledger.SharePoolSeq Ledger.SharePoolExamples.
From Verif Require Import Ledger.Debond Ledger.DebondProofs Ledger.DebondExamples.
From Verif Require Import Ledger.Rewards Ledger.RewardsProofs.
From Verif Require Import Gen.AtomicConsts Ledger.Msg Ledger.MsgProofs.

(* Deposit (api.go:659): on success the pool becomes (B+a, S+m), m = a when no
   shares exist, else floor(a*S/B); unless the pool holds an orphan balance
   (S = 0 < B) the minted shares are at most pro rata and worth at most a. *)
Theorem deposit_mints_at_most_prorata : forall p dst src a,
  let r := deposit p dst src a in
  rcode r = COk ->
  rpool r = mkPool (bal p + a) (tsh p + rret r) /\
  rdst r = dst + rret r /\ rsrc r + a = src /\
  (tsh p = 0 -> rret r = a) /\
  (tsh p <> 0 -> bal p <> 0 /\ rret r * bal p <= a * tsh p /\ a * tsh p < (rret r + 1) * bal p) /\
  (~ orphan p -> rret r * bal p <= a * tsh p /\ worth (rpool r) (rret r) <= a).
Proof. exact deposit_mints_at_most_prorata_l. Qed.
Print Assumptions deposit_mints_at_most_prorata.

(* The orphan-balance case stated explicitly: with S = 0 the depositor of
   a > 0 gets a shares and can redeem B + a. *)
Theorem deposit_orphan_takes_balance : forall p dst src a,
  tsh p = 0 -> a <= src -> a <> 0 ->
  let r := deposit p dst src a in
  rcode r = COk /\ rret r = a /\ rpool r = mkPool (bal p + a) a /\
  worth (rpool r) (rret r) = bal p + a.
Proof. exact deposit_orphan_l. Qed.
Print Assumptions deposit_orphan_takes_balance.

Theorem deposit_fails_exactly : forall p dst src a,
  let r := deposit p dst src a in
  (rcode r = CInvalidArgument <-> (tsh p <> 0 /\ bal p = 0)) /\
  (rcode r = CInsufficient <-> (~ (tsh p <> 0 /\ bal p = 0) /\ src < a)) /\
  (rcode r <> COk -> rpool r = p /\ rdst r = dst /\ rsrc r = src /\ rret r = 0).
Proof. exact deposit_fails_exactly_l. Qed.
Print Assumptions deposit_fails_exactly.

Theorem withdraw_pays_at_most_prorata : forall p dst src s,
  let r := withdraw p dst src s in
  rcode r = COk ->
  rret r = worth p s /\
  rret r * tsh p <= s * bal p /\
  (tsh p <> 0 -> s * bal p < (rret r + 1) * tsh p) /\
  rret r <= bal p /\ s <= tsh p /\ s <= src /\
  rpool r = mkPool (bal p - rret r) (tsh p - s) /\
  rdst r = dst + rret r /\ rsrc r = src - s.
Proof. exact withdraw_pays_at_most_prorata_l. Qed.
Print Assumptions withdraw_pays_at_most_prorata.

Theorem withdraw_fails_exactly : forall p dst src s,
  let r := withdraw p dst src s in
  (rcode r <> COk <-> (src < s \/ tsh p < s)) /\
  (src < s -> rcode r = CInsufficient /\ rpool r = p /\ rdst r = dst /\ rsrc r = src /\ rret r = 0) /\
  (s <= src -> tsh p < s -> rcode r = CInsufficient /\ rpool r = p /\ rdst r = dst /\ rsrc r = src - s).
Proof. exact withdraw_fails_exactly_l. Qed.
Print Assumptions withdraw_fails_exactly.

(* In every reachable state of a well-formed ledger Withdraw fails iff the
   holder lacks the shares, and then changes nothing. *)
Theorem withdraw_partial_failure_unreachable : forall st0 ops d s,
  wfm st0 -> let st := mfinal st0 ops in
  let r := withdraw (mpool st) 0 (dsh (dget d (mdel st))) s in
  (rcode r = COk <-> s <= dsh (dget d (mdel st))) /\
  (rcode r <> COk -> rpool r = mpool st /\ rsrc r = dsh (dget d (mdel st))).
Proof. exact withdraw_partial_failure_unreachable_l. Qed.
Print Assumptions withdraw_partial_failure_unreachable.

Theorem others_never_lose : forall p dst src x u,
  (rcode (deposit p dst src x) = COk -> worth p u <= worth (rpool (deposit p dst src x)) u) /\
  (rcode (withdraw p dst src x) = COk -> u + x <= tsh p ->
   worth p u <= worth (rpool (withdraw p dst src x)) u).
Proof. exact others_never_lose_l. Qed.
Print Assumptions others_never_lose.

(* Over any history of deposits, redemptions (by others) and rewards, a
   holder who does nothing keeps its shares and their worth never falls. *)
Theorem passive_holder_never_loses : forall d ops, Forall (passive d) ops ->
  forall st, wfm st ->
  dget d (mdel (mfinal st ops)) = dget d (mdel st) /\
  worth (mpool st) (dsh (dget d (mdel st))) <= worth (mpool (mfinal st ops)) (dsh (dget d (mdel st))).
Proof. exact passive_holder_never_loses_l. Qed.
Print Assumptions passive_holder_never_loses.

Theorem price_falls_only_by_slash : forall st o,
  (~ is_slash o -> price_le (mpool st) (mpool (mnext st o))) /\
  (is_slash o -> price_le (mpool (mnext st o)) (mpool st) /\ tsh (mpool (mnext st o)) = tsh (mpool st)).
Proof. exact price_falls_only_by_slash_l. Qed.
Print Assumptions price_falls_only_by_slash.

(* paid out + balance + slashed = paid in + rewards + c along every history *)
Theorem conservation : forall ops st c, wfm st -> conserved c st -> conserved c (mfinal st ops).
Proof. exact conservation_l. Qed.
Print Assumptions conservation.

(* For every set A of delegators containing all acting ones (the others hold
   arbitrary shares and stay passive), over every history of deposits,
   redemptions, rewards and slashes: what A got out plus what its shares are
   still worth is at most what A paid in plus A's pro-rata part of every reward
   (rounded up per reward; a reward to a share-less pool counted in full) plus
   what A's shares were worth at the start (the whole balance if the pool
   started with an orphan balance). *)
Theorem profit_bound : forall A st0 ops,
  wfm st0 -> Forall (actor_in A) ops ->
  let st := mfinal st0 ops in
  outA A st + worth (mpool st) (uA A st) + inA A st0
  <= inA A st + outA A st0 + rshare A st0 ops + start_value A st0.
Proof. exact profit_bound_l. Qed.
Print Assumptions profit_bound.

Theorem no_profit_without_rewards : forall A b s hold ops,
  wfm (minit b s hold) -> (s = 0 -> b = 0) ->
  Forall plain ops -> Forall (actor_in A) ops ->
  let st0 := minit b s hold in
  let st := mfinal st0 ops in
  outA A st + worth (mpool st) (uA A st) <= inA A st + worth (mpool st0) (uA A st0).
Proof. exact no_profit_without_rewards_l. Qed.
Print Assumptions no_profit_without_rewards.

Theorem sole_actor_no_profit : forall d b s hold ops,
  wfm (minit b s hold) -> (s = 0 -> b = 0) ->
  Forall plain ops -> Forall (only_actor d) ops ->
  let st0 := minit b s hold in
  let st := mfinal st0 ops in
  dout (dget d (mdel st)) + worth (mpool st) (dsh (dget d (mdel st)))
  <= din (dget d (mdel st)) + worth (mpool st0) (dsh (dget d (mdel st0))).
Proof. exact sole_actor_no_profit_l. Qed.
Print Assumptions sole_actor_no_profit.

(* The per-delegator reading with other delegators acting is false: another
   delegator's own rounding loss is shared by all holders. *)
Theorem naive_per_delegator_no_profit_refuted :
  exists b s hold ops d,
    wfm (minit b s hold) /\ (s = 0 -> b = 0) /\ Forall plain ops /\
    dsh (dget d (mdel (minit b s hold))) = 0 /\
    let st := mfinal (minit b s hold) ops in
    din (dget d (mdel st)) < dout (dget d (mdel st)).
Proof. exact naive_per_delegator_refuted_l. Qed.
Print Assumptions naive_per_delegator_no_profit_refuted.

Theorem slash_same_fraction : forall ba bd amount,
  let '(ta, td) := slash_pools ba bd amount in
  ta <= ba /\ td <= bd /\ ta + td <= amount /\
  (amount <= ba + bd -> ba + bd <> 0 ->
     ta = ba * amount / (ba + bd) /\ td = bd * amount / (ba + bd) /\
     ta * (ba + bd) <= ba * amount < (ta + 1) * (ba + bd) /\
     td * (ba + bd) <= bd * amount < (td + 1) * (ba + bd) /\
     amount <= ta + td + 1) /\
  (ba + bd <= amount -> ta = ba /\ td = bd) /\
  ta * bd <= (td + 1) * ba /\ td * ba <= (ta + 1) * bd.
Proof. exact slash_same_fraction_l. Qed.
Print Assumptions slash_same_fraction.

(* The orphan-balance state (no shares, non-zero balance) is unreachable when
   rewards are proportional to the balance, as the code computes them. *)
Theorem no_orphan_invariant : forall ops st, wfm st -> no_orphan st -> prop_rewards st ops ->
  no_orphan (mfinal st ops).
Proof. exact no_orphan_invariant_l. Qed.
Print Assumptions no_orphan_invariant.

(* Debonding. Over every history of escrow additions, reclaims (with any
   debonding interval), epoch transitions (any epochs), rewards and slashes
   from a well-formed state: onEpochChange never fails; every delegation still
   queued ends at or after the epoch of the last transition (whatever was due
   has been paid at the transition that reached it); per (end epoch, delegator)
   the debonding shares minted by reclaims = shares redeemed by pay-outs +
   shares still queued (paid exactly once); every pay-out was made at a
   transition at or after the end epoch, for the worth of the shares in the
   debonding pool at that moment, at most pro rata. *)
Theorem reclaim_paid_exactly_once : forall st0 ops,
  wfD st0 ->
  let st := drun st0 ops in
  dhalt st = false /\
  Forall (fun x => depoch st <= eend x) (dq st) /\
  (forall e d, ksum e d (dminted st) = lsum e d (dlog st) + ksum e d (dq st)) /\
  Forall plog_ok (dlog st).
Proof. exact reclaim_paid_exactly_once_l. Qed.
Print Assumptions reclaim_paid_exactly_once.

Theorem epoch_pays_exactly_due : forall st e,
  wfD st ->
  let st' := dnext st (DEpoch e) in
  dq st' = filter (fun x => e <? eend x) (dq st) /\
  depoch st' = e /\ dact st' = dact st /\
  exists new, dlog st' = new ++ dlog st /\ Forall (fun r => pat r = e) new /\
              length new = length (filter (fun x => eend x <=? e) (dq st)).
Proof. exact epoch_pays_exactly_due_l. Qed.
Print Assumptions epoch_pays_exactly_due.

Theorem reclaim_moves_stake : forall st d s iv,
  wfD st -> snd (dstep st (DReclaim d s iv)) = COk ->
  let st' := dnext st (DReclaim d s iv) in
  let p := worth (dact st) s in
  s <> 0 /\ s <= sget d (ddels st) /\
  dact st' = mkPool (bal (dact st) - p) (tsh (dact st) - s) /\
  bal (ddeb st') = bal (ddeb st) + p /\
  dlog st' = dlog st /\ depoch st' = depoch st /\
  exists m, tsh (ddeb st') = tsh (ddeb st) + m /\
            dq st' = qinsert (depoch st + iv) d m (dq st) /\
            (~ orphan (ddeb st) -> m * bal (ddeb st) <= p * tsh (ddeb st)).
Proof. exact reclaim_moves_stake_l. Qed.
Print Assumptions reclaim_moves_stake.

Theorem debond_wf_reachable : forall epoch ops, wfD (drun (dinit epoch) ops).
Proof. exact debond_wf_reachable_l. Qed.
Print Assumptions debond_wf_reachable.

Theorem debond_wf_reachable2 : forall epoch b s ops, wfD (drun (dinit2 epoch b s) ops).
Proof. exact debond_wf_reachable2_l. Qed.
Print Assumptions debond_wf_reachable2.

(* Rewards with commission (AddRewards / AddRewardSingleAttenuated /
   computeCommission), for all balances, factors, scales, rates, attenuations
   and denominators. *)
Theorem reward_raises_price : forall rd cd a common factor scale rate att,
  price_le (rapool a) (rapool (rracct (add_reward rd cd a common factor scale rate att))).
Proof. exact reward_raises_price_l. Qed.
Print Assumptions reward_raises_price.

Theorem commission_is_ordinary_deposit : forall rd cd a common factor scale rate att,
  let r := add_reward rd cd a common factor scale rate att in
  tsh (rapool a) <> 0 ->
  rrminted r * (bal (rapool a) + (rrq r - rrcom r)) <= rrcom r * tsh (rapool a) /\
  worth (rapool (rracct r)) (rrminted r) <= rrcom r /\
  (cd <> 0 -> rrcom r * cd <= rrq r * rate).
Proof. exact commission_is_ordinary_deposit_l. Qed.
Print Assumptions commission_is_ordinary_deposit.

Theorem reward_split_conserves : forall rd cd a common factor scale rate att,
  let r := add_reward rd cd a common factor scale rate att in
  rrcom r <= rrq r /\ rrq r <= common /\
  rrcommon r = common - rrq r /\
  bal (rapool (rracct r)) = bal (rapool a) + (rrq r - rrcom r) + rrcom r /\
  bal (rapool (rracct r)) + rrcommon r = bal (rapool a) + common /\
  tsh (rapool (rracct r)) = tsh (rapool a) + rrminted r /\
  raself (rracct r) = raself a + rrminted r /\
  (rrcode r <> COk -> rracct r = a /\ rrcommon r = common).
Proof. exact reward_split_conserves_l. Qed.
Print Assumptions reward_split_conserves.

(* every holder's redeemable worth after a reward is at least what it was,
   the entity's (with its commission shares) included *)
Theorem reward_holders_never_lose : forall rd cd a common factor scale rate att u,
  let r := add_reward rd cd a common factor scale rate att in
  worth (rapool a) u <= worth (rapool (rracct r)) u /\
  worth (rapool a) (raself a) <= worth (rapool (rracct r)) (raself (rracct r)).
Proof. exact reward_holders_never_lose_l. Qed.
Print Assumptions reward_holders_never_lose.

(* a reward with commission IS the operation list [plain reward; deposit by
   the entity] of the multi-delegator machine, so profit_bound, conservation
   and passive_holder_never_loses cover histories with commission rewards *)
Theorem reward_is_machine_ops : forall rd cd st ent common factor scale rate att,
  let a := mkRA (mpool st) (dsh (dget ent (mdel st))) in
  let r := add_reward rd cd a common factor scale rate att in
  let ops := reward_ops rd cd (mpool st) common factor scale rate att ent in
  rrcode r = COk ->
  mpool (mfinal st ops) = rapool (rracct r) /\
  dsh (dget ent (mdel (mfinal st ops))) = raself (rracct r) /\
  (forall d, d <> ent -> Forall (passive d) ops /\ dget d (mdel (mfinal st ops)) = dget d (mdel st)) /\
  Forall (actor_in (N.eqb ent)) ops.
Proof. exact reward_is_machine_ops_l. Qed.
Print Assumptions reward_is_machine_ops.

(* the address loop of AddRewards: no account is worse off, and balances plus
   common pool are conserved *)
Theorem add_rewards_conserves : forall rd cd accts common factor scale,
  let '(c, out, cm) := add_rewards rd cd accts common factor scale in
  Forall2 (fun x a' => no_worse (fst x) a') accts out /\
  (c = COk -> sumbal out + cm = sumbal (map fst accts) + common) /\
  (c <> COk -> cm = common).
Proof. exact add_rewards_conserves_l. Qed.
Print Assumptions add_rewards_conserves.

(* Runtime messages are not rolled back individually (roothash/messages.go).
   A handler whose checks all precede its writes needs no rollback: *)
Theorem checks_before_writes_atomic_thm : forall steps,
  no_check_after_write (events_of steps) = true ->
  forall s w s' c, run_steps s w steps = (s', c) -> c <> MOk -> s' = s.
Proof. exact checks_before_writes_atomic. Qed.
Print Assumptions checks_before_writes_atomic_thm.

(* a failed staking message (or transaction) leaves every account, pool,
   delegation and debonding delegation unchanged *)
Theorem failed_message_changes_nothing : forall pr s o s' c,
  lstep pr s o = (s', c) -> c <> MOk -> s' = s.
Proof. exact failed_message_changes_nothing_l. Qed.
Print Assumptions failed_message_changes_nothing.

(* the step orders of addEscrow / reclaimEscrow read from the CURRENT source
   (go/ast, Gen/AtomicConsts.v): no fallible check after the first state write,
   and the write part is the model's *)
Theorem escrow_handlers_write_after_last_check :
  no_check_after_write add_escrow_events = true /\
  no_check_after_write reclaim_escrow_events = true /\
  (forall pr m d a, from_first_write add_escrow_events
                    = from_first_write (events_of (add_escrow_steps pr m d a))) /\
  (forall pr m d s iv, from_first_write reclaim_escrow_events
                       = from_first_write (events_of (reclaim_steps pr m d s iv))).
Proof. exact escrow_handlers_write_after_last_check_l. Qed.
Print Assumptions escrow_handlers_write_after_last_check.

(* the sender is debited exactly when (and by what) the pool is credited *)
Theorem add_escrow_debit_credit : forall pr s m d a s',
  lstep pr s (LAdd m d a) = (s', MOk) ->
  sget d (lgen s') + a = sget d (lgen s) /\
  bal (lact s') = bal (lact s) + a /\
  p_min_transact pr <= sget d (lgen s') /\ p_min_deleg pr <= a /\
  exists minted, tsh (lact s') = tsh (lact s) + minted /\
                 sget d (ldels s') = sget d (ldels s) + minted /\
                 ldeb s' = ldeb s /\ lq s' = lq s.
Proof. exact add_escrow_debit_credit_l. Qed.
Print Assumptions add_escrow_debit_credit.

(* TransferFromCommon (escrowed rewards from slashed funds, state.go:953):
   conservation, and: the entity receives exactly the commission share
   t*rate/denominator unless the pool has NO shares (then everything is
   commission); the rest goes to the pool balance without shares, also for a
   pool slashed to zero with shares outstanding; the commission is deposited at
   most pro rata, or stays liquid only when the pool is still dead. *)
Theorem transfer_from_common_spec : forall cd a common amount escrow rate,
  let r := transfer_from_common cd a common amount escrow rate in
  let t := N.min common amount in
  ((t = 0 \/ trcode r <> COk) -> tracct r = a /\ trcommon r = common /\ trmoved r = 0) /\
  (trcode r = COk -> t <> 0 ->
     trmoved r = t /\ trcommon r = common - t /\
     tagen (tracct r) + bal (tapool (tracct r)) + trcommon r = tagen a + bal (tapool a) + common /\
     tsh (tapool (tracct r)) = tsh (tapool a) + trminted r /\
     taself (tracct r) = taself a + trminted r /\
     (escrow = false -> tracct r = mkTA (tagen a + t) (tapool a) (taself a)) /\
     (escrow = true ->
        trcom r <= t /\
        (tsh (tapool a) <> 0 -> trcom r = t * rate / cd) /\
        (tsh (tapool a) = 0 -> trcom r = t) /\
        bal (tapool a) + (t - trcom r) <= bal (tapool (tracct r)) /\
        ((tagen (tracct r) = tagen a /\ bal (tapool (tracct r)) = bal (tapool a) + t /\
          (tsh (tapool a) <> 0 ->
           trminted r * (bal (tapool a) + (t - trcom r)) <= trcom r * tsh (tapool a))) \/
         (tagen (tracct r) = tagen a + trcom r /\ trminted r = 0 /\
          bal (tapool a) = 0 /\ t - trcom r = 0 /\ tsh (tapool a) <> 0 /\
          bal (tapool (tracct r)) = 0)))).
Proof. exact tfc_spec. Qed.
Print Assumptions transfer_from_common_spec.

(* fairness of an escrowed reward: price and every holder's worth do not fall,
   and with shares outstanding every holder of u shares can redeem at least
   its pro-rata part of balance + non-commission part *)
Theorem transfer_from_common_holders_get_noncommission : forall cd a common amount escrow rate u,
  let r := transfer_from_common cd a common amount escrow rate in
  price_le (tapool a) (tapool (tracct r)) /\
  worth (tapool a) u <= worth (tapool (tracct r)) u /\
  (trcode r = COk -> escrow = true -> tsh (tapool a) <> 0 ->
   u * (bal (tapool a) + (trmoved r - trcom r)) / tsh (tapool a) <= worth (tapool (tracct r)) u).
Proof. exact tfc_holders_get_noncommission_l. Qed.
Print Assumptions transfer_from_common_holders_get_noncommission.
