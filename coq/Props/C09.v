From Verif Require Import Lib.Base Auth.Model Auth.Proofs Auth.GenFacts Auth.WritersFacts Gen.SigContexts Gen.NonceWriters Gen.SigOptions.
From Coq Require String.

(* The context list regenerated from every signature.NewContext call of the
   sources satisfies NewContext's own rules, its constant heads are pairwise
   prefix-incomparable, the transaction context is one of them, and no method
   body type makes a method critical (critical methods skip authentication). *)
Theorem gen_contexts_checked :
  prefix_free_b chain_separator contexts = true /\
  forallb (ctx_len_ok chain_separator chain_context_max_size ed25519_context_max_size) contexts = true /\
  In tx_context contexts /\ cchain tx_context = true /\ cdyn tx_context = None /\
  method_metadata_providers = [].
Proof. exact (conj contexts_prefix_free (conj contexts_wellformed (conj tx_context_registered (conj (proj1 tx_context_shape) (conj (proj2 tx_context_shape) no_critical_methods))))). Qed.
Print Assumptions gen_contexts_checked.

Theorem domain_separation :
  forall (Hf : bytes -> bytes) (c1 c2 : ctx_spec) (d1 d2 h1 h2 m1 m2 : bytes),
    In c1 contexts -> In c2 contexts ->
    length d1 = length d2 -> length h1 = length h2 ->
    Hf (signing_preimage chain_separator c1 d1 h1 m1)
      = Hf (signing_preimage chain_separator c2 d2 h2 m2) ->
    (c1 = c2 /\ m1 = m2 /\ (cdyn c1 <> None -> d1 = d2) /\ (cchain c1 = true -> h1 = h2))
    \/ (exists x y, x <> y /\ Hf x = Hf y).
Proof. exact (fun Hf c1 c2 d1 d2 h1 h2 m1 m2 i1 i2 => digest_domain_separation chain_separator Hf contexts c1 c2 d1 d2 h1 h2 m1 m2 contexts_prefix_free i1 i2). Qed.
Print Assumptions domain_separation.

Theorem tx_signature_valid_in_no_other_domain :
  forall (Hf : bytes -> bytes) (c : ctx_spec) (d h m ch blob : bytes),
    In c contexts -> length h = length ch ->
    Hf (signing_preimage chain_separator tx_context [] ch blob)
      = Hf (signing_preimage chain_separator c d h m) ->
    (c = tx_context /\ m = blob /\ h = ch) \/ (exists x y, x <> y /\ Hf x = Hf y).
Proof. exact tx_cross_domain. Qed.
Print Assumptions tx_signature_valid_in_no_other_domain.

(* the equal-length hypotheses cannot be dropped: the construction has no length field *)
Theorem domain_separation_unequal_chain_length_refuted :
  forall (SEPc : bytes) (c : ctx_spec) (d : bytes), cchain c = true ->
    exists h1 h2 m1 m2, h1 <> h2 /\
      signing_preimage SEPc c d h1 m1 = signing_preimage SEPc c d h2 m2.
Proof. exact chain_length_hypothesis_needed. Qed.
Print Assumptions domain_separation_unequal_chain_length_refuted.

Theorem domain_separation_unequal_suffix_length_refuted :
  forall (SEPc : bytes) (c : ctx_spec) (sfx : bytes) (mx : N),
    cdyn c = Some (sfx, mx) -> cchain c = true -> 2 + blen SEPc <= mx ->
    exists d1 d2 h1 h2 m1 m2, d1 <> d2 /\ blen d1 <= mx /\ blen d2 <= mx /\ length h1 = length h2 /\
      signing_preimage SEPc c d1 h1 m1 = signing_preimage SEPc c d2 h2 m2.
Proof. exact suffix_length_hypothesis_needed. Qed.
Print Assumptions domain_separation_unequal_suffix_length_refuted.

Theorem executes_only_if_authentic :
  forall (L Raw : Type) (C : cfg L Raw) (s : state L) (raw : Raw),
    SEP C = chain_separator -> txc C = tx_context -> chain C <> [] ->
    (forall m, is_critical C m = false) ->
    fst (deliver C s raw) <> s \/ exec_reached (snd (deliver C s raw)) = true ->
    exists e t,
      dec_env C raw = Some e /\ dec_tx C (e_blob e) = Some t /\
      blen (e_sig e) = 64 /\
      sig_ok C (e_pk e)
        (hashf C (signing_preimage chain_separator tx_context [] (chain C) (e_blob e)))
        (e_sig e) = true /\
      t_nonce t = nonce_of s (addr_of C (e_pk e)) /\
      nonce_of (fst (deliver C s raw)) (addr_of C (e_pk e))
        = (nonce_of s (addr_of C (e_pk e)) + 1) mod U64 /\
      (forall a', a' <> addr_of C (e_pk e) -> nonce_of (fst (deliver C s raw)) a' = nonce_of s a').
Proof. exact (@executes_only_if_authentic_tx). Qed.
Print Assumptions executes_only_if_authentic.

Theorem rejected_has_no_effect :
  forall (L Raw : Type) (C : cfg L Raw) (s : state L) (raw : Raw),
    (forall m, is_critical C m = false) ->
    authenticated (snd (deliver C s raw)) = false ->
    fst (deliver C s raw) = s /\ exec_reached (snd (deliver C s raw)) = false.
Proof. exact (@Proofs.rejected_has_no_effect). Qed.
Print Assumptions rejected_has_no_effect.

Theorem nonce_monotone :
  forall (L Raw : Type) (C : cfg L Raw) (s : state L) (o : op),
    ((forall raw, o <> OTx raw) -> nonces (step C s o) = nonces s) /\
    (forall raw a, o = OTx raw ->
       nonce_of (step C s o) a = nonce_of s a
       \/ (authenticated (snd (deliver C s raw)) = true /\
           nonce_of (step C s o) a = (nonce_of s a + 1) mod U64)).
Proof. exact (@Proofs.nonce_monotone). Qed.
Print Assumptions nonce_monotone.

Theorem nonces_stay_uint64 :
  forall (L Raw : Type) (C : cfg L Raw) (s : state L) (ops : list op),
    (forall a, nonce_of s a < U64) -> forall a, nonce_of (run C s ops) a < U64.
Proof. exact (@run_wf). Qed.
Print Assumptions nonces_stay_uint64.

(* the nonces of the authenticated transactions of one signer in ANY history
   (transactions of all signers, other operations, restarts) are consecutive
   modulo 2^64 from the signer's initial nonce, hence pairwise distinct as long
   as at most 2^64 of them execute *)
Theorem no_replay :
  forall (L Raw : Type) (C : cfg L Raw) (s : state L) (ops : list op) (a : N),
    (forall a, nonce_of s a < U64) ->
    (exists k, of_addr a (trace C s ops)
               = map (fun i => (nonce_of s a + N.of_nat i) mod U64) (seq 0 k)) /\
    (N.of_nat (length (of_addr a (trace C s ops))) <= U64 -> NoDup (of_addr a (trace C s ops))).
Proof. exact (fun L Raw C s ops a w => conj (trace_consecutive C s ops a w) (Proofs.no_replay C s ops a w)). Qed.
Print Assumptions no_replay.

Theorem same_bytes_never_execute_twice :
  forall (L Raw : Type) (C : cfg L Raw) (s : state L) (o1 o2 o3 : list op) (raw : Raw),
    (forall a, nonce_of s a < U64) ->
    authenticated (snd (deliver C (run C s o1) raw)) = true ->
    authenticated (snd (deliver C (run C s (o1 ++ OTx raw :: o2)) raw)) = true ->
    exists a, U64 < N.of_nat (length (of_addr a (trace C s (o1 ++ OTx raw :: o2 ++ OTx raw :: o3)))).
Proof. exact (@same_bytes_never_twice). Qed.
Print Assumptions same_bytes_never_execute_twice.

(* two byte strings that decode to the same signer address and nonce (the same
   bytes, or two encodings of the same envelope) are never both authenticated *)
Theorem same_signed_content_never_executes_twice :
  forall (L Raw : Type) (C : cfg L Raw) (s : state L) (o1 o2 o3 : list op) (raw raw2 : Raw),
    (forall a, nonce_of s a < U64) ->
    auth_info C raw2 = auth_info C raw ->
    authenticated (snd (deliver C (run C s o1) raw)) = true ->
    authenticated (snd (deliver C (run C s (o1 ++ OTx raw :: o2)) raw2)) = true ->
    exists a, U64 < N.of_nat (length (of_addr a (trace C s (o1 ++ OTx raw :: o2 ++ OTx raw2 :: o3)))).
Proof. exact (@same_content_never_twice). Qed.
Print Assumptions same_signed_content_never_executes_twice.

(* the Ed25519 acceptance rules (regenerated from the VerifyOptions literal of
   go/common/crypto/signature/signature.go) are the ones authenticity needs:
   small-order public keys and commitments rejected; nothing else configured;
   every verification call of the package goes through that literal *)
Theorem gen_verify_options_checked :
  allow_small_order_A = false /\ allow_small_order_R = false /\
  allow_noncanonical_A = true /\ allow_noncanonical_R = true /\
  other_option_fields = [] /\ verification_bypassing_options = [].
Proof. exact verify_options_expected. Qed.
Print Assumptions gen_verify_options_checked.

(* a public key of small order (for which the verification equation can hold
   for every message) is never the sender of an authenticated transaction, for
   ANY signature predicate, as long as AllowSmallOrderA = false *)
Theorem small_order_key_never_authenticated :
  forall (L Raw : Type) (C : cfg L Raw) (s : state L) (raw : Raw),
    allow_small_A C = false ->
    authenticated (snd (deliver C s raw)) = true ->
    exists e, dec_env C raw = Some e /\ small_order_A C (e_pk e) = false /\
              (allow_small_R C = false -> small_order_R C (e_sig e) = false).
Proof. exact (@Proofs.small_order_key_never_authenticated). Qed.
Print Assumptions small_order_key_never_authenticated.

(* over ANY history the nonce of an account is its initial nonce plus the number
   of its authenticated transactions (mod 2^64): nothing else moves it, nothing
   resets it; this is the invariant no_replay rests on *)
Theorem nonce_counts_authenticated_transactions :
  forall (L Raw : Type) (C : cfg L Raw) (s : state L) (ops : list op) (a : N),
    (forall a, nonce_of s a < U64) ->
    nonce_of (run C s ops) a
      = (nonce_of s a + N.of_nat (length (of_addr a (trace C s ops)))) mod U64.
Proof. exact (@run_nonce_count). Qed.
Print Assumptions nonce_counts_authenticated_transactions.

Theorem nonce_never_decreases :
  forall (L Raw : Type) (C : cfg L Raw) (s : state L) (ops : list op) (a : N),
    (forall a, nonce_of s a < U64) ->
    nonce_of s a + N.of_nat (length (of_addr a (trace C s ops))) < U64 ->
    nonce_of s a <= nonce_of (run C s ops) a.
Proof. exact (@Proofs.nonce_never_decreases). Qed.
Print Assumptions nonce_never_decreases.

(* an operation that removed an account record (missing record = nonce 0) would
   re-admit already executed bytes: why account_record_writers is pinned below *)
Theorem account_removal_enables_replay :
  exists (L Raw : Type) (C : cfg L Raw) (s : state L) (raw : Raw) (a : N),
    (forall a', nonce_of s a' < U64) /\
    authenticated (snd (deliver C s raw)) = true /\
    authenticated (snd (deliver C (fst (deliver C s raw)) raw)) = false /\
    authenticated (snd (deliver C (remove_account (fst (deliver C s raw)) a) raw)) = true.
Proof. exact GenFacts.account_removal_enables_replay. Qed.
Print Assumptions account_removal_enables_replay.

Theorem restart_is_identity :
  forall (L Raw : Type) (C : cfg L Raw) (s : state L), step C s ORestart = s.
Proof. exact (@Proofs.restart_is_identity). Qed.
Print Assumptions restart_is_identity.

Theorem bit_flip_rejected_or_forgery :
  forall (L Raw : Type) (C : cfg L Raw) (s1 : state L) (raw : Raw) (s2 : state L) (raw' : Raw),
    authenticated (snd (deliver C s1 raw)) = true ->
    authenticated (snd (deliver C s2 raw')) = false
    \/ exists e e' t' rc,
         dec_env C raw = Some e /\ dec_env C raw' = Some e' /\
         dec_tx C (e_blob e') = Some t' /\
         prepare (SEP C) (txc C) None (chain C) = Some rc /\
         t_nonce t' = nonce_of s2 (addr_of C (e_pk e')) /\
         (e' = e
          \/ (sig_ok C (e_pk e') (hashf C (rc ++ e_blob e')) (e_sig e') = true /\
              (e_pk e', hashf C (rc ++ e_blob e'), e_sig e')
                <> (e_pk e, hashf C (rc ++ e_blob e), e_sig e))
          \/ (exists x y, x <> y /\ hashf C x = hashf C y)).
Proof. exact (@Proofs.bit_flip_rejected_or_forgery). Qed.
Print Assumptions bit_flip_rejected_or_forgery.

(* The literal clause "altered in any bit never takes effect" does not follow
   from the signature check and is false for a decoder that maps two byte
   strings to one envelope (as the repository's CBOR decoder does): the altered
   bytes carry the SAME signed content and execute in its place (never in
   addition: same_bytes_never_execute_twice / no_replay). *)
Theorem bit_flip_never_executes_refuted :
  exists (L Raw : Type) (C : cfg L Raw) (s : state L) (raw raw' : Raw),
    raw' <> raw /\ (forall m, is_critical C m = false) /\
    dec_env C raw' = dec_env C raw /\
    authenticated (snd (deliver C s raw)) = true /\
    authenticated (snd (deliver C s raw')) = true /\
    exec_reached (snd (deliver C s raw')) = true.
Proof. exact GenFacts.bit_flip_never_executes_refuted. Qed.
Print Assumptions bit_flip_never_executes_refuted.

(* CheckTx (mempool path, its own copy of the state, reset at Commit) never
   changes the delivery state: the delivery component of any interleaving of
   delivery operations, CheckTx calls and commits is the run of the delivery
   operations alone, so every theorem above applies to it unchanged *)
Theorem checktx_never_changes_delivery_state :
  forall (L Raw : Type) (C : cfg L Raw) (check_exec_ok : L -> bytes -> tx -> bool)
         (m : mstate) (ops : list mop),
    ds (mrun C check_exec_ok m ops) = run C (ds m) (deliver_ops ops).
Proof. exact (@checktx_erasure). Qed.
Print Assumptions checktx_never_changes_delivery_state.

Theorem checktx_changes_at_most_the_signers_check_nonce :
  forall (L Raw : Type) (C : cfg L Raw) (check_exec_ok : L -> bytes -> tx -> bool)
         (s : state L) (raw : Raw),
    snd (check_tx C check_exec_ok s raw) = false /\ fst (check_tx C check_exec_ok s raw) = s
    \/ exists e t, dec_env C raw = Some e /\ verify C e = true /\ dec_tx C (e_blob e) = Some t /\
         (is_critical C (t_method t) = false -> t_nonce t = nonce_of s (addr_of C (e_pk e))) /\
         nonces (fst (check_tx C check_exec_ok s raw))
           = aset (addr_of C (e_pk e)) ((nonce_of s (addr_of C (e_pk e)) + 1) mod U64) (nonces s).
Proof. exact (@checktx_own_state). Qed.
Print Assumptions checktx_changes_at_most_the_signers_check_nonce.

(* the only syntactic writers of account nonces in the sources (regenerated):
   AuthenticateAndPayFees (delivery), PostExecuteTx (CheckTx only), and literals
   building initial states *)
Import String.
Local Open Scope string_scope.
Theorem nonce_writers_are_the_modelled_ones :
  nonce_writers = [
    "go/consensus/cometbft/apps/staking/auth.go:PostExecuteTx:incdec";
    "go/consensus/cometbft/apps/staking/state/gas.go:AuthenticateAndPayFees:incdec";
    "go/consensus/cometbft/apps/staking/state/interop/interop.go:InitializeTestStakingState:literal";
    "go/consensus/cometbft/apps/staking/state/interop/interop.go:InitializeTestStakingState:literal";
    "go/consensus/cometbft/apps/staking/state/interop/interop.go:InitializeTestStakingState:literal";
    "go/oasis-node/cmd/common/genesis/staking.go:AppendTo:literal"
  ].
Proof. exact nonce_writers_expected. Qed.
Print Assumptions nonce_writers_are_the_modelled_ones.

(* nothing deletes an account record and only SetAccount stores one (regenerated):
   a deletion would be a nonce write to 0 (account_removal_enables_replay) *)
Theorem account_records_are_never_deleted :
  account_record_writers = [
    "go/consensus/cometbft/apps/staking/state/state.go:SetAccount:Insert";
    "go/upgrade/migrations/dummy.go:ConsensusUpgrade:SetAccount(literal)"
  ].
Proof. exact account_record_writers_expected. Qed.
Print Assumptions account_records_are_never_deleted.
