From Verif Require Import Lib.Base NodeDB.Spec NodeDB.Badger NodeDB.BadgerProofs NodeDB.SpecProofs NodeDB.Examples NodeDB.Final NodeDB.PathBadger NodeDB.PathBadgerProofs NodeDB.StructProofs NodeDB.Gc NodeDB.GcProofs.

Theorem finalized_readable :
  forall h s v rid c,
    last_geb s v = true -> s_read s v rid = Some c ->
    d_earliest (s_run s h) <= v -> s_read (s_run s h) v rid = Some c.
Proof. exact s_finalized_stable. Qed.
Print Assumptions finalized_readable.

Theorem non_finalized_absent_or_exact :
  forall h s v rid,
    last_geb s v = true ->
    s_read (s_run s h) v rid = None \/ s_read (s_run s h) v rid = s_read s v rid.
Proof. exact s_absent_or_exact. Qed.
Print Assumptions non_finalized_absent_or_exact.

Theorem prune_only_earliest_finalized_not_last :
  forall s v s',
    s_prune s v = (EOk, s') ->
    exists l, d_last s = Some l /\ v = d_earliest s /\ v < l /\
              d_earliest s' = v + 1 /\ d_last s' = Some l /\
              (forall u, u <> v -> roots_at s' u = roots_at s u) /\ roots_at s' v = [].
Proof. exact s_prune_ok. Qed.
Print Assumptions prune_only_earliest_finalized_not_last.

Theorem badger_refines_spec :
  forall h d, inv d -> ok_run d h = true ->
    b_meta (b_run d h) = s_run (b_meta d) h /\ inv (b_run d h).
Proof. exact badger_refines_spec_l. Qed.
Print Assumptions badger_refines_spec.

Theorem badger_step_refines_spec :
  forall d o, inv d -> safe_step d o = true ->
    fst (b_step d o) = fst (s_step (b_meta d) o) /\
    b_meta (snd (b_step d o)) = snd (s_step (b_meta d) o).
Proof. exact b_step_refines. Qed.
Print Assumptions badger_step_refines_spec.

Theorem badger_finalized_readable :
  forall h, ok_run bdb0 h = true ->
    forall v rid, s_has (b_meta (b_run bdb0 h)) v rid = true ->
      b_status (b_run bdb0 h) v rid = 1 /\
      b_read (b_run bdb0 h) v rid = s_read (s_run sdb0 h) v rid.
Proof. exact badger_finalized_readable_l. Qed.
Print Assumptions badger_finalized_readable.

Theorem badger_never_node_missing :
  forall h d k, inv d -> ok_run d h = true ->
    forall i o, nth_error (b_observe d k h) i = Some o ->
      exists e c ea la rs, o = ((e, c), (ea, la), rs) /\
        forall p hs st, In (p, (hs, st)) rs -> st = (if hs then 1 else 0).
Proof. exact b_observe_exact. Qed.
Print Assumptions badger_never_node_missing.

Theorem finalized_readable_refuted :
  exists h, accepted bdb0 h = true /\
    exists v rid, unreadable_finalized (b_run bdb0 h) v rid = true.
Proof. exact finalized_readable_refuted_l. Qed.
Print Assumptions finalized_readable_refuted.

Theorem finalized_readable_refuted_at_finalize :
  exists h, accepted bdb0 h = true /\
    exists v rid, unreadable_finalized (b_run bdb0 h) v rid = true.
Proof. exact finalized_readable_refuted_at_finalize_l. Qed.
Print Assumptions finalized_readable_refuted_at_finalize.

Theorem finalized_readable_refuted_same_version_chain :
  exists h, accepted bdb0 h = true /\
    exists v rid, unreadable_finalized (b_run bdb0 h) v rid = true.
Proof. exact finalized_readable_refuted_same_version_chain_l. Qed.
Print Assumptions finalized_readable_refuted_same_version_chain.

Theorem prune_refines_spec_refuted :
  exists h, accepted bdb0 h = true /\
    fst (b_prune (b_run bdb0 h) 0) = ENodeNotFound /\ fst (s_prune (s_run sdb0 h) 0) = EOk.
Proof. exact prune_refines_spec_refuted_l. Qed.
Print Assumptions prune_refines_spec_refuted.

Theorem side_conditions_satisfiable :
  ok_run bdb0 h_good = true /\ accepted bdb0 h_good = true /\
  b_status (b_run bdb0 h_good) 3 7 = 1 /\ b_status (b_run bdb0 h_good) 2 5 = 0 /\
  d_earliest (b_meta (b_run bdb0 h_good)) = 3.
Proof. exact good_history_ok. Qed.
Print Assumptions side_conditions_satisfiable.

Theorem alternative_prune_rule_keeps_readable :
  let d := b_run bdb0 (firstn 5 h_prune_shared) in
  fst (b_prune_alt d 1) = EOk /\ b_status (snd (b_prune_alt d 1)) 2 4 = 1.
Proof. exact prune_alt_keeps_readable. Qed.
Print Assumptions alternative_prune_rule_keeps_readable.

Theorem pathbadger_pipelined_nonzero_seqno_refuted :
  p_accepted pdb0 h_pipe = true /\
  p_has (p_run pdb0 h_pipe) 3 3 = true /\ p_status (p_run pdb0 h_pipe) 3 3 = 2 /\
  s_read (s_run sdb0 h_pipe_spec) 3 3 = Some [(3, 1); (6, 1)] /\
  p_status (p_run pdb0 h_pipe) 2 3 = 1 /\
  p_status (p_run pdb0 (h_pipe ++ [PFinalize 2 [3]])) 3 3 = 1 /\
  p_status (p_run pdb0 [PCommit 2 1 3 None [(3, 1); (6, 1)] [((2, 1), 2); ((2, 2), 3)] [];
                        PCommit 2 1 2 None [(2, 1)] [] [];
                        PCommit 3 1 3 (Some (2, 3)) [] [((2, 1), 2); ((2, 2), 3)] []]) 3 3 = 1.
Proof. exact pathbadger_pipelined_nonzero_seqno_refuted_l. Qed.
Print Assumptions pathbadger_pipelined_nonzero_seqno_refuted.

Theorem pathbadger_prune_rule :
  forall d v d', p_prune d v = (EOk, d') ->
  exists l, p_last d = Some l /\ v = p_earliest d /\ v < l /\ p_earliest d' = v + 1 /\ p_last d' = Some l.
Proof. exact p_prune_rule. Qed.
Print Assumptions pathbadger_prune_rule.

Theorem pathbadger_finalize_lists_only_requested_roots :
  forall d v rids d' r, p_finalize d v rids = (EOk, d') ->
  has_rootkey d' v r = true -> nmem r rids = true /\ has_rootkey d v r = true.
Proof. exact p_finalize_rootkeys. Qed.
Print Assumptions pathbadger_finalize_lists_only_requested_roots.

Theorem no_lone_sharing_implies_prune_safe :
  forall d ver, inv d -> lin d -> s_prune_check (b_meta d) ver = EOk -> no_lone_sharing d ver = true ->
  prune_safe d ver = true.
Proof. exact structural_prune_safe. Qed.
Print Assumptions no_lone_sharing_implies_prune_safe.

Theorem badger_refines_spec_structural :
  forall h, ok_run_struct bdb0 h = true ->
  inv (b_run bdb0 h) /\ b_meta (b_run bdb0 h) = s_run sdb0 h /\
  forall v rid, s_has (b_meta (b_run bdb0 h)) v rid = true ->
    b_status (b_run bdb0 h) v rid = 1 /\ b_read (b_run bdb0 h) v rid = s_read (s_run sdb0 h) v rid.
Proof. exact badger_refines_spec_structural_l. Qed.
Print Assumptions badger_refines_spec_structural.

Theorem structural_side_conditions_satisfiable :
  ok_run_struct bdb0 h_good = true /\
  no_lone_sharing (b_run bdb0 (firstn 5 h_prune_shared)) 1 = false.
Proof. exact structural_conditions_satisfiable. Qed.
Print Assumptions structural_side_conditions_satisfiable.

Theorem gc_at_earliest_changes_no_read :
  forall D st st', gc_rel D st st' -> forall n t, D <= t -> best n t st' = best n t st.
Proof. exact gc_best. Qed.
Print Assumptions gc_at_earliest_changes_no_read.

Theorem gc_keeps_retained_roots :
  forall d st', gc_rel (d_earliest (b_meta d)) (b_store d) st' ->
  let d' := mkb (b_meta d) (b_aux d) st' in
  (forall v rid, b_status d' v rid = b_status d v rid) /\ (inv d -> inv d').
Proof. exact gc_keeps_retained_roots_l. Qed.
Print Assumptions gc_keeps_retained_roots.

Theorem gc_discard_too_high_refuted :
  let d := b_run bdb0 h_gc in
  ok_run bdb0 h_gc = true /\ d_earliest (b_meta d) = 1 /\
  b_status d 1 3 = 1 /\ b_status d 2 4 = 1 /\
  b_status (b_gc 1 d) 1 3 = 1 /\ b_status (b_gc 1 d) 2 4 = 1 /\
  b_status (b_gc 2 d) 1 3 = 2 /\ b_status (b_gc 2 d) 2 4 = 1.
Proof. exact gc_discard_too_high_refuted_l. Qed.
Print Assumptions gc_discard_too_high_refuted.

Theorem pathbadger_gc_keeps_retained_roots :
  forall d st', pgc_rel (p_earliest d) (p_fin d) st' ->
  let d' := mkp (p_earliest d) (p_last d) (p_rootkeys d) st' (p_pend d) (p_next d) (p_pseq d) (p_upd d) (p_ghost d) in
  forall v rid, p_status d' v rid = p_status d v rid.
Proof. exact pathbadger_gc_keeps_retained_roots_l. Qed.
Print Assumptions pathbadger_gc_keeps_retained_roots.

Theorem pathbadger_gc_discard_too_high_refuted :
  let d := p_run pdb0 h_pgc in
  p_accepted pdb0 h_pgc = true /\ p_earliest d = 1 /\
  p_status d 1 3 = 1 /\ p_status d 2 4 = 1 /\
  p_status (p_gc 1 d) 1 3 = 1 /\ p_status (p_gc 1 d) 2 4 = 1 /\
  p_status (p_gc 2 d) 1 3 = 2 /\ p_status (p_gc 2 d) 2 4 = 1.
Proof. exact pathbadger_gc_discard_too_high_refuted_l. Qed.
Print Assumptions pathbadger_gc_discard_too_high_refuted.
