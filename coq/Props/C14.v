From Verif Require Import Lib.Base Sched.Elect Sched.ElectSpec Sched.ElectLemmas Sched.ElectProofs Sched.ElectProofs2 Sched.CommitteeProofs Sched.EngineProofs Sched.ElectCheck.
From Coq Require Import Permutation.

(* Every elected validator is a registered, unexpired, unfrozen node with the
   validator role whose entity's escrow covers all its stake claims, listed
   under its own consensus key with the voting power of its entity's stake;
   at most max(1, MaxValidators) and at least MinValidators (and one) are
   elected -- for every registry, ledger, parameters and EVERY pair of index
   lists used as shuffles. *)
Theorem elect_sound :
  forall p ents epoch nodes pe pn vals vents,
    elect_validators p ents epoch nodes pe pn = VOk vals vents ->
    Forall (validator_ok p ents epoch nodes) vals /\
    len vals <= N.max 1 (p_max p) /\ p_min p <= len vals /\ 1 <= len vals.
Proof. exact ElectProofs.elect_sound. Qed.
Print Assumptions elect_sound.

(* No entity has more than MaxValidatorsPerEntity validators, for every
   tie-breaking permutation of the entities and every node shuffle. *)
Theorem elect_per_entity :
  forall p ents epoch nodes pe pn vals vents,
    is_perm pe (length (usort (map n_ent (vcands p ents epoch nodes)))) ->
    elect_validators p ents epoch nodes pe pn = VOk vals vents ->
    forall e, count_ent e vals <= p_per p.
Proof. exact ElectProofs.elect_per_entity. Qed.
Print Assumptions elect_per_entity.

(* Validators are taken in descending entity-stake order: an eligible entity
   that is left out never has more escrow than a represented one, whatever
   permutations break the ties (consensus keys unique, as the registry keeps them). *)
Theorem validators_by_descending_stake :
  forall p ents epoch nodes pe pn vals vents,
    NoDup (map n_cons nodes) ->
    is_perm pe (length (usort (map n_ent (vcands p ents epoch nodes)))) ->
    is_perm pn (length (vcands p ents epoch nodes)) ->
    1 <= p_per p -> p_bypass p = false ->
    elect_validators p ents epoch nodes pe pn = VOk vals vents ->
    by_descending_stake p ents epoch nodes no_extra vals.
Proof. exact ElectProofs2.validators_by_descending_stake. Qed.
Print Assumptions validators_by_descending_stake.

(* Voting power is non-decreasing in stake, for both distributions. *)
Theorem power_monotone :
  forall sq a b x y,
    a <= b -> voting_power sq a = Some x -> voting_power sq b = Some y -> x <= y.
Proof. exact ElectProofs.power_monotone. Qed.
Print Assumptions power_monotone.

(* Voting power is never 0 (0 would mean removal to the consensus engine). *)
Theorem power_positive : forall sq s x, voting_power sq s = Some x -> 1 <= x.
Proof. exact ElectProofs.power_positive. Qed.
Print Assumptions power_positive.

(* The whole epoch result (validators, updates, committees) is a function of
   the SET of registered nodes and the SET of accounts, of the parameters and
   of the shuffles: the order in which state was written is irrelevant. *)
Theorem elect_deterministic :
  forall i i',
    Permutation (i_nodes i) (i_nodes i') -> NoDup (map n_id (i_nodes i)) ->
    Permutation (i_ents i) (i_ents i') -> NoDup (map e_addr (i_ents i)) ->
    i_params i = i_params i' -> i_epoch i = i_epoch i' -> i_rts i = i_rts i' ->
    i_perm_e i = i_perm_e i' -> i_perm_n i = i_perm_n i' -> i_perm_c i = i_perm_c i' ->
    i_current i = i_current i' -> i_fv261 i = i_fv261 i' -> i_vrf i = i_vrf i' ->
    i_base i = i_base i' -> i_changed i = i_changed i' -> i_slashed i = i_slashed i' ->
    run_epoch i = run_epoch i'.
Proof. exact ElectProofs2.elect_deterministic. Qed.
Print Assumptions elect_deterministic.

(* The validator updates, applied in ANY order to the previous set, give
   exactly the newly elected set as key -> power maps (removals, power
   changes, unchanged entries and additions). *)
Theorem diff_applies :
  forall cur pend ups,
    NoDup (map fst cur) -> NoDup (map fst pend) ->
    Forall (fun kv => snd kv <> 0) pend ->
    Permutation ups (diff_validators cur pend) ->
    forall k, aget k (apply_updates cur ups) = aget k pend.
Proof. exact ElectProofs2.diff_applies. Qed.
Print Assumptions diff_applies.

(* The premise "no pending power is 0" of diff_applies holds for every elected set. *)
Theorem elect_powers_nonzero :
  forall p ents epoch nodes pe pn vals vents,
    elect_validators p ents epoch nodes pe pn = VOk vals vents ->
    Forall (fun kv => snd kv <> 0) (powers_of vals).
Proof. exact ElectProofs2.elect_powers_nonzero. Qed.
Print Assumptions elect_powers_nonzero.

(* A committee exists only for a non-suspended (compute) runtime with a
   non-zero group size (and, with the VRF backend, a strong alpha) and then has
   EXACTLY the configured worker and backup sizes, workers first, only
   eligible nodes, at most MaxNodes per entity and role, from a pool not below
   MinPoolSize -- for every entropy index table AND for VRF sortition with
   every hashed-beta function (ByBeta). *)
Theorem committee_sound :
  forall fv p ents vents epoch rt cnodes blocked sw sb ms,
    elect_committee fv p ents vents epoch rt cnodes blocked sw sb = Some ms ->
    committee_ok fv p ents vents epoch rt cnodes blocked sw sb ms.
Proof. exact CommitteeProofs.committee_sound. Qed.
Print Assumptions committee_sound.

(* What "eligible" means for a committee member, spelled out (incl. the TEE
   capability and, under sortition, the submitted VRF proof). *)
Theorem committee_members_eligible :
  forall fv p ents vents epoch rt nodes cnodes blocked sw sb ms role id,
    (forall n, In n cnodes -> In n (live_nodes epoch nodes)) ->
    elect_committee fv p ents vents epoch rt cnodes blocked sw sb = Some ms ->
    In (role, id) ms ->
    exists n cs src,
      In n nodes /\ n_id n = id /\ n_freeze n = 0 /\ epoch <= n_exp n /\
      ((role = ROLE_WORKER /\ cs = r_cw rt /\ src = sw) \/ (role = ROLE_BACKUP /\ cs = r_cb rt /\ src = sb)) /\
      (p_bypass p = true \/ stake_ok ents (n_ent n) = true) /\
      has_role ROLE_COMPUTE n = true /\
      (exists ver from tee, active_deployment epoch (r_deps rt) = Some (ver, from) /\
                            In (r_id rt, ver, tee) (n_rts n) /\ tee_ok (r_tee rt) tee = true) /\
      suspended epoch (r_id rt) n = false /\
      src_haspi src n = true /\
      (c_vset cs = true -> In (n_ent n) vents).
Proof. exact CommitteeProofs.committee_members_eligible. Qed.
Print Assumptions committee_members_eligible.

(* TEE eligibility: no capability for a non-TEE runtime; same hardware and a
   verifying attestation for a TEE runtime. *)
Theorem tee_ok_spec :
  forall hw tee, tee_ok hw tee = true ->
    (hw = 0 /\ tee = None) \/ (hw <> 0 /\ tee = Some (hw, true)).
Proof. exact CommitteeProofs.tee_ok_spec. Qed.
Print Assumptions tee_ok_spec.

(* VRF backend, validators: soundness and limits for every beta function. *)
Theorem elect_sound_vrf :
  forall p ents epoch nodes pe pn beta vals vents,
    elect_validators_vrf p ents epoch nodes pe pn beta = VOk vals vents ->
    Forall (validator_ok p ents epoch nodes) vals /\
    len vals <= N.max 1 (p_max p) /\ p_min p <= len vals /\ 1 <= len vals.
Proof. exact ElectProofs.elect_sound_vrf. Qed.
Print Assumptions elect_sound_vrf.

Theorem elect_per_entity_vrf :
  forall p ents epoch nodes pe pn beta vals vents,
    is_perm pe (length (usort (map n_ent (vcands p ents epoch nodes)))) ->
    elect_validators_vrf p ents epoch nodes pe pn beta = VOk vals vents ->
    forall e, count_ent e vals <= p_per p.
Proof. exact ElectProofs.elect_per_entity_vrf. Qed.
Print Assumptions elect_per_entity_vrf.

(* VRF backend: descending stake among the entities taking part in the shuffle
   in use (all eligible ones in the entropy fallback; those with a submitted
   proof under sortition), hashed betas pairwise distinct. *)
Theorem validators_by_descending_stake_vrf :
  forall p ents epoch nodes pe pn beta vals vents,
    NoDup (map n_cons nodes) ->
    is_perm pe (length (usort (map n_ent (vcands p ents epoch nodes)))) ->
    is_perm pn (length (vcands p ents epoch nodes)) ->
    (forall m n b, In m (vcands p ents epoch nodes) -> In n (vcands p ents epoch nodes) ->
                   beta (n_id m) = Some b -> beta (n_id n) = Some b -> m = n) ->
    1 <= p_per p -> p_bypass p = false ->
    elect_validators_vrf p ents epoch nodes pe pn beta = VOk vals vents ->
    by_descending_stake p ents epoch nodes (vrf_extra p beta (vcands p ents epoch nodes)) vals.
Proof. exact ElectProofs2.validators_by_descending_stake_vrf. Qed.
Print Assumptions validators_by_descending_stake_vrf.

(* Every elected set is a map with non-zero powers (premises of diff_applies). *)
Theorem core_keys_nodup :
  forall p ents pe cands sh vals vents,
    elect_core p ents pe cands sh = VOk vals vents -> NoDup (map fst (powers_of vals)).
Proof. exact EngineProofs.core_keys_nodup. Qed.
Print Assumptions core_keys_nodup.

(* diff_applies lifted over successive epochs: after ANY sequence of blocks
   (elections that succeed, fail or are skipped) the consensus engine holds
   exactly the set the scheduler tracks as current. *)
Theorem engine_tracks_elected :
  forall bs cur eng,
    NoDup (map fst cur) -> same_map eng cur -> blocks_ok cur bs ->
    same_map (snd (run_blocks cur eng bs)) (fst (run_blocks cur eng bs)) /\
    NoDup (map fst (fst (run_blocks cur eng bs))).
Proof. exact EngineProofs.engine_tracks_elected. Qed.
Print Assumptions engine_tracks_elected.

(* The election trigger: an election happens iff the epoch is not the base
   epoch and the epoch changed or stake was slashed in the block; rewards only
   on an epoch change. *)
Theorem should_elect_spec :
  forall base epoch changed slashed,
    (fst (should_elect base epoch changed slashed) = true <->
       epoch <> base /\ (changed = true \/ slashed = true)) /\
    (snd (should_elect base epoch changed slashed) = true <->
       epoch <> base /\ changed = true).
Proof. exact EngineProofs.should_elect_spec. Qed.
Print Assumptions should_elect_spec.

(* The boolean checkers evaluated on the implementation's output are sound. *)
Theorem election_ok_b_sound :
  forall p ents epoch nodes extra vals,
    election_ok_b p ents epoch nodes extra vals = true -> election_ok p ents epoch nodes extra vals.
Proof. exact ElectCheck.election_ok_b_sound. Qed.
Print Assumptions election_ok_b_sound.

Theorem committee_ok_b_sound :
  forall fv p ents vents epoch rt cnodes blocked sw sb ms,
    committee_ok_b fv p ents vents epoch rt cnodes blocked sw sb ms = true ->
    committee_ok fv p ents vents epoch rt cnodes blocked sw sb ms.
Proof. exact CommitteeProofs.committee_ok_b_sound. Qed.
Print Assumptions committee_ok_b_sound.

Theorem impl_ok_b_sound :
  forall i vals ups comms,
    impl_ok_b i (EOk vals ups comms) = true ->
    election_ok (i_params i) (sort_by e_addr (i_ents i)) (i_epoch i) (i_nodes i) (val_extra i) vals /\
    Permutation (apply_updates (i_current i) ups) (powers_of vals) /\
    comms_ok (i_fv261 i) (i_params i) (sort_by e_addr (i_ents i)) (map ent_of vals) (i_epoch i)
      (committee_nodes i (sort_by n_id (i_nodes i))) (vrf_blocked i) (i_rts i) (committee_srcs i) comms.
Proof. exact ElectCheck.impl_ok_b_sound. Qed.
Print Assumptions impl_ok_b_sound.

(* Observation: with MaxValidators = 0 (rejected at genesis, not by a
   governance parameter change) one validator is still elected; hence the
   bound max(1, MaxValidators) above. *)
Theorem max_validators_zero_elects_one_refuted :
  exists p ents epoch nodes pe pn vals vents,
    p_max p = 0 /\ elect_validators p ents epoch nodes pe pn = VOk vals vents /\ len vals = 1.
Proof. exact ElectCheck.max_validators_zero_elects_one_refuted. Qed.
Print Assumptions max_validators_zero_elects_one_refuted.
