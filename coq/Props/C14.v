From Verif Require Import Lib.Base Sched.Elect Sched.ElectSpec Sched.ElectLemmas Sched.ElectProofs Sched.ElectProofs2 Sched.CommitteeProofs Sched.EngineProofs Sched.ElectCheck Sched.SizeProofs Sched.Beacon Sched.BeaconProofs.
From Coq Require Import Permutation.

(* Every elected validator is a registered, unexpired, unfrozen node with the
   validator role whose entity's escrow covers all its stake claims, listed
   under its own consensus key with the voting power of its entity's stake;
   at most max(1, MaxValidators) and at least MinValidators (and one) are
   elected -- for every registry, ledger, parameters and EVERY pair of index
   lists used as shuffles. *)
Theorem elect_sound :
  forall p ents epoch nodes pe pn vals vents,
    elect_validators p ents epoch nodes pe pn = VOk vals vents ->
    Forall (validator_ok p ents epoch nodes) vals /\
    len vals <= N.max 1 (p_max p) /\ p_min p <= len vals /\ 1 <= len vals.
Proof. exact ElectProofs.elect_sound. Qed.
Print Assumptions elect_sound.

(* No entity has more than MaxValidatorsPerEntity validators, for every
   tie-breaking permutation of the entities and every node shuffle. *)
Theorem elect_per_entity :
  forall p ents epoch nodes pe pn vals vents,
    is_perm pe (length (usort (map n_ent (vcands p ents epoch nodes)))) ->
    elect_validators p ents epoch nodes pe pn = VOk vals vents ->
    forall e, count_ent e vals <= p_per p.
Proof. exact ElectProofs.elect_per_entity. Qed.
Print Assumptions elect_per_entity.

(* Validators are taken in descending entity-stake order: an eligible entity
   that is left out never has more escrow than a represented one, whatever
   permutations break the ties (consensus keys unique, as the registry keeps them). *)
Theorem validators_by_descending_stake :
  forall p ents epoch nodes pe pn vals vents,
    NoDup (map n_cons nodes) ->
    is_perm pe (length (usort (map n_ent (vcands p ents epoch nodes)))) ->
    is_perm pn (length (vcands p ents epoch nodes)) ->
    1 <= p_per p -> p_bypass p = false ->
    elect_validators p ents epoch nodes pe pn = VOk vals vents ->
    by_descending_stake p ents epoch nodes no_extra vals.
Proof. exact ElectProofs2.validators_by_descending_stake. Qed.
Print Assumptions validators_by_descending_stake.

(* Voting power is non-decreasing in stake, for both distributions. *)
Theorem power_monotone :
  forall sq a b x y,
    a <= b -> voting_power sq a = Some x -> voting_power sq b = Some y -> x <= y.
Proof. exact ElectProofs.power_monotone. Qed.
Print Assumptions power_monotone.

(* Voting power is never 0 (0 would mean removal to the consensus engine). *)
Theorem power_positive : forall sq s x, voting_power sq s = Some x -> 1 <= x.
Proof. exact ElectProofs.power_positive. Qed.
Print Assumptions power_positive.

(* The whole epoch result (validators, updates, committees) is a function of
   the SET of registered nodes and the SET of accounts, of the parameters and
   of the shuffles: the order in which state was written is irrelevant. *)
Theorem elect_deterministic :
  forall i i',
    Permutation (i_nodes i) (i_nodes i') -> NoDup (map n_id (i_nodes i)) ->
    Permutation (i_ents i) (i_ents i') -> NoDup (map e_addr (i_ents i)) ->
    i_params i = i_params i' -> i_epoch i = i_epoch i' -> i_rts i = i_rts i' ->
    i_perm_e i = i_perm_e i' -> i_perm_n i = i_perm_n i' -> i_perm_c i = i_perm_c i' ->
    i_current i = i_current i' -> i_fv261 i = i_fv261 i' -> i_vrf i = i_vrf i' ->
    i_base i = i_base i' -> i_changed i = i_changed i' -> i_slashed i = i_slashed i' ->
    i_slashes i = i_slashes i' ->
    run_epoch i = run_epoch i'.
Proof. exact ElectProofs2.elect_deterministic. Qed.
Print Assumptions elect_deterministic.

(* The validator updates, applied in ANY order to the previous set, give
   exactly the newly elected set as key -> power maps (removals, power
   changes, unchanged entries and additions). *)
Theorem diff_applies :
  forall cur pend ups,
    NoDup (map fst cur) -> NoDup (map fst pend) ->
    Forall (fun kv => snd kv <> 0) pend ->
    Permutation ups (diff_validators cur pend) ->
    forall k, aget k (apply_updates cur ups) = aget k pend.
Proof. exact ElectProofs2.diff_applies. Qed.
Print Assumptions diff_applies.

(* The premise "no pending power is 0" of diff_applies holds for every elected set. *)
Theorem elect_powers_nonzero :
  forall p ents epoch nodes pe pn vals vents,
    elect_validators p ents epoch nodes pe pn = VOk vals vents ->
    Forall (fun kv => snd kv <> 0) (powers_of vals).
Proof. exact ElectProofs2.elect_powers_nonzero. Qed.
Print Assumptions elect_powers_nonzero.

(* A committee exists only for a non-suspended (compute) runtime with a
   non-zero group size (and, with the VRF backend, a strong alpha) and then has
   EXACTLY the configured worker and backup sizes, workers first, only
   eligible nodes, at most MaxNodes per entity and role, from a pool not below
   MinPoolSize -- for every entropy index table AND for VRF sortition with
   every hashed-beta function (ByBeta). *)
Theorem committee_sound :
  forall fv p ents vents epoch rt cnodes blocked sw sb ms,
    elect_committee fv p ents vents epoch rt cnodes blocked sw sb = Some ms ->
    committee_ok fv p ents vents epoch rt cnodes blocked sw sb ms.
Proof. exact CommitteeProofs.committee_sound. Qed.
Print Assumptions committee_sound.

(* What "eligible" means for a committee member, spelled out (incl. the TEE
   capability and, under sortition, the submitted VRF proof). *)
Theorem committee_members_eligible :
  forall fv p ents vents epoch rt nodes cnodes blocked sw sb ms role id,
    (forall n, In n cnodes -> In n (live_nodes epoch nodes)) ->
    elect_committee fv p ents vents epoch rt cnodes blocked sw sb = Some ms ->
    In (role, id) ms ->
    exists n cs src,
      In n nodes /\ n_id n = id /\ n_freeze n = 0 /\ epoch <= n_exp n /\
      ((role = ROLE_WORKER /\ cs = r_cw rt /\ src = sw) \/ (role = ROLE_BACKUP /\ cs = r_cb rt /\ src = sb)) /\
      (p_bypass p = true \/ stake_ok ents (n_ent n) = true) /\
      has_role ROLE_COMPUTE n = true /\
      (exists ver from tee, active_deployment epoch (r_deps rt) = Some (ver, from) /\
                            In (r_id rt, ver, tee) (n_rts n) /\ tee_ok (r_tee rt) tee = true) /\
      suspended epoch (r_id rt) n = false /\
      src_haspi src n = true /\
      (c_vset cs = true -> In (n_ent n) vents).
Proof. exact CommitteeProofs.committee_members_eligible. Qed.
Print Assumptions committee_members_eligible.

(* TEE eligibility: no capability for a non-TEE runtime; same hardware and a
   verifying attestation for a TEE runtime. *)
Theorem tee_ok_spec :
  forall hw tee, tee_ok hw tee = true ->
    (hw = 0 /\ tee = None) \/ (hw <> 0 /\ tee = Some (hw, true)).
Proof. exact CommitteeProofs.tee_ok_spec. Qed.
Print Assumptions tee_ok_spec.

(* VRF backend, validators: soundness and limits for every beta function. *)
Theorem elect_sound_vrf :
  forall p ents epoch nodes pe pn beta vals vents,
    elect_validators_vrf p ents epoch nodes pe pn beta = VOk vals vents ->
    Forall (validator_ok p ents epoch nodes) vals /\
    len vals <= N.max 1 (p_max p) /\ p_min p <= len vals /\ 1 <= len vals.
Proof. exact ElectProofs.elect_sound_vrf. Qed.
Print Assumptions elect_sound_vrf.

Theorem elect_per_entity_vrf :
  forall p ents epoch nodes pe pn beta vals vents,
    is_perm pe (length (usort (map n_ent (vcands p ents epoch nodes)))) ->
    elect_validators_vrf p ents epoch nodes pe pn beta = VOk vals vents ->
    forall e, count_ent e vals <= p_per p.
Proof. exact ElectProofs.elect_per_entity_vrf. Qed.
Print Assumptions elect_per_entity_vrf.

(* VRF backend: descending stake among the entities taking part in the shuffle
   in use (all eligible ones in the entropy fallback; those with a submitted
   proof under sortition), hashed betas pairwise distinct. *)
Theorem validators_by_descending_stake_vrf :
  forall p ents epoch nodes pe pn beta vals vents,
    NoDup (map n_cons nodes) ->
    is_perm pe (length (usort (map n_ent (vcands p ents epoch nodes)))) ->
    is_perm pn (length (vcands p ents epoch nodes)) ->
    (forall m n b, In m (vcands p ents epoch nodes) -> In n (vcands p ents epoch nodes) ->
                   beta (n_id m) = Some b -> beta (n_id n) = Some b -> m = n) ->
    1 <= p_per p -> p_bypass p = false ->
    elect_validators_vrf p ents epoch nodes pe pn beta = VOk vals vents ->
    by_descending_stake p ents epoch nodes (vrf_extra p beta (vcands p ents epoch nodes)) vals.
Proof. exact ElectProofs2.validators_by_descending_stake_vrf. Qed.
Print Assumptions validators_by_descending_stake_vrf.

(* Every elected set is a map with non-zero powers (premises of diff_applies). *)
Theorem core_keys_nodup :
  forall p ents pe cands sh vals vents,
    elect_core p ents pe cands sh = VOk vals vents -> NoDup (map fst (powers_of vals)).
Proof. exact EngineProofs.core_keys_nodup. Qed.
Print Assumptions core_keys_nodup.

(* diff_applies lifted over successive epochs: after ANY sequence of blocks
   (elections that succeed, fail or are skipped) the consensus engine holds
   exactly the set the scheduler tracks as current. *)
Theorem engine_tracks_elected :
  forall bs cur eng,
    NoDup (map fst cur) -> same_map eng cur -> blocks_ok cur bs ->
    same_map (snd (run_blocks cur eng bs)) (fst (run_blocks cur eng bs)) /\
    NoDup (map fst (fst (run_blocks cur eng bs))).
Proof. exact EngineProofs.engine_tracks_elected. Qed.
Print Assumptions engine_tracks_elected.

(* The election trigger: an election happens iff the epoch is not the base
   epoch and the epoch changed or stake was slashed in the block; rewards only
   on an epoch change. *)
Theorem should_elect_spec :
  forall base epoch changed slashed,
    (fst (should_elect base epoch changed slashed) = true <->
       epoch <> base /\ (changed = true \/ slashed = true)) /\
    (snd (should_elect base epoch changed slashed) = true <->
       epoch <> base /\ changed = true).
Proof. exact EngineProofs.should_elect_spec. Qed.
Print Assumptions should_elect_spec.

(* The boolean checkers evaluated on the implementation's output are sound. *)
Theorem election_ok_b_sound :
  forall p ents epoch nodes extra vals,
    election_ok_b p ents epoch nodes extra vals = true -> election_ok p ents epoch nodes extra vals.
Proof. exact ElectCheck.election_ok_b_sound. Qed.
Print Assumptions election_ok_b_sound.

Theorem committee_ok_b_sound :
  forall fv p ents vents epoch rt cnodes blocked sw sb ms,
    committee_ok_b fv p ents vents epoch rt cnodes blocked sw sb ms = true ->
    committee_ok fv p ents vents epoch rt cnodes blocked sw sb ms.
Proof. exact CommitteeProofs.committee_ok_b_sound. Qed.
Print Assumptions committee_ok_b_sound.

Theorem impl_ok_b_sound :
  forall i vals ups comms,
    impl_ok_b i (EOk vals ups comms) = true ->
    election_ok (i_params i) (sort_by e_addr (post_ents i)) (i_epoch i) (post_nodes i) (val_extra i) vals /\
    Permutation (apply_updates (i_current i) ups) (powers_of vals) /\
    comms_ok (i_fv261 i) (i_params i) (sort_by e_addr (post_ents i)) (map ent_of vals) (i_epoch i)
      (committee_nodes i (sort_by n_id (post_nodes i))) (vrf_blocked i) (i_rts i) (committee_srcs i) comms.
Proof. exact ElectCheck.impl_ok_b_sound. Qed.
Print Assumptions impl_ok_b_sound.

(* Exact size: in the success case the number of validators is EXACTLY
   min(sum over the eligible entities of min(its nodes in the shuffled list,
   MaxValidatorsPerEntity), max(1, MaxValidators)) -- entropy and VRF alike. *)
Theorem validators_exact_count :
  forall p ents pe cands sh vals vents,
    NoDup (map n_cons sh) ->
    is_perm pe (length (usort (map n_ent cands))) ->
    elect_core p ents pe cands sh = VOk vals vents ->
    len vals = N.min (sum (map (ent_quota p sh) (usort (map n_ent cands)))) (N.max 1 (p_max p)).
Proof. exact SizeProofs.validators_exact_count. Qed.
Print Assumptions validators_exact_count.

(* Exact size: a committee has exactly GroupSize workers and GroupBackupSize backups. *)
Theorem committee_exact_size :
  forall fv p ents vents epoch rt cnodes blocked sw sb ms,
    elect_committee fv p ents vents epoch rt cnodes blocked sw sb = Some ms ->
    len ms = r_gsize rt + r_bsize rt /\
    len (filter (fun m => fst m =? ROLE_WORKER) ms) = r_gsize rt /\
    len (filter (fun m => fst m =? ROLE_BACKUP) ms) = r_bsize rt.
Proof. exact SizeProofs.committee_exact_size. Qed.
Print Assumptions committee_exact_size.

(* The candidate pool of a role is the per-entity de-duplicated one ... *)
Theorem role_pool_deduplicated :
  forall p ents vents epoch rt src cs cnodes lim e,
    c_max cs = Some lim -> 0 < lim ->
    count_node_ent e (role_pool p ents vents epoch rt src cs cnodes) <= lim.
Proof. exact SizeProofs.role_pool_deduplicated. Qed.
Print Assumptions role_pool_deduplicated.

(* ... and an elected committee's pool AFTER that de-duplication has at least
   MinPoolSize nodes (each filled role); no entity has more than MaxNodes
   members among the workers, nor among the backups. *)
Theorem committee_pool_and_limits :
  forall fv p ents vents epoch rt cnodes blocked sw sb ms,
    elect_committee fv p ents vents epoch rt cnodes blocked sw sb = Some ms ->
    min_pool (r_cw rt) <= len (role_pool p ents vents epoch rt sw (r_cw rt) cnodes) /\
    (r_bsize rt <> 0 -> min_pool (r_cb rt) <= len (role_pool p ents vents epoch rt sb (r_cb rt) cnodes)) /\
    exists w b,
      ms = map (fun n => (ROLE_WORKER, n_id n)) w ++ map (fun n => (ROLE_BACKUP, n_id n)) b /\
      (forall lim, c_max (r_cw rt) = Some lim -> forall e, count_node_ent e w <= lim) /\
      (forall lim, c_max (r_cb rt) = Some lim -> forall e, count_node_ent e b <= lim).
Proof. exact SizeProofs.committee_pool_and_limits. Qed.
Print Assumptions committee_pool_and_limits.

(* A whole block (trigger + slashing + election + diff + committees): whenever
   it elects -- on an epoch change or because stake was slashed inside the
   epoch -- every eligibility clause holds against the POST-slash stakes and
   freezes, the updates are the diff against the tracked set and every
   committee is acceptable. *)
Theorem run_epoch_sound :
  forall i vals ups comms,
    run_epoch i = EOk vals ups comms ->
    let ents := sort_by e_addr (post_ents i) in
    let nodes := sort_by n_id (post_nodes i) in
    fst (should_elect (i_base i) (i_epoch i) (i_changed i) (post_slashed i)) = true /\
    Forall (validator_ok (i_params i) ents (i_epoch i) nodes) vals /\
    len vals <= N.max 1 (p_max (i_params i)) /\ p_min (i_params i) <= len vals /\ 1 <= len vals /\
    ups = sort_by fst (diff_validators (i_current i) (powers_of vals)) /\
    exists vents,
      comms_ok (i_fv261 i) (i_params i) ents vents (i_epoch i) (committee_nodes i nodes)
               (vrf_blocked i) (i_rts i) (committee_srcs i) comms.
Proof. exact SizeProofs.run_epoch_sound. Qed.
Print Assumptions run_epoch_sound.

(* Re-election after a slash: no validator of an entity whose post-slash escrow
   no longer covers its claims, none that is frozen or expired. *)
Theorem reelect_after_slash_excludes :
  forall i vals ups comms,
    run_epoch i = EOk vals ups comms -> p_bypass (i_params i) = false ->
    (forall kv, In kv vals -> stake_ok (sort_by e_addr (post_ents i)) (ent_of kv) = true) /\
    (forall kv, In kv vals ->
       exists n, In n (post_nodes i) /\ n_id n = fst (fst (snd kv)) /\ n_freeze n = 0 /\ i_epoch i <= n_exp n).
Proof. exact SizeProofs.reelect_after_slash_excludes. Qed.
Print Assumptions reelect_after_slash_excludes.

(* What a slash does to the escrow the election reads. *)
Theorem slash_one_escrow :
  forall addr amt ents,
    NoDup (map e_addr ents) ->
    escrow_of (map (slash_one addr amt) ents) addr = escrow_of ents addr - amt.
Proof. exact SizeProofs.slash_one_escrow. Qed.
Print Assumptions slash_one_escrow.

(* Beacon (VRF backend) determinism: the VRFProve transactions of different
   nodes may be delivered in any order; the resulting beacon state -- hence the
   next alpha, PrevState, entropy and eligibility -- is the same. *)
Theorem prove_order_irrelevant :
  forall bp ops ops',
    Permutation ops ops' ->
    Forall (fun o => prove_node o <> None) ops ->
    NoDup (map prove_node ops) ->
    forall s, brun bp s ops = brun bp s ops'.
Proof. exact BeaconProofs.prove_order_irrelevant. Qed.
Print Assumptions prove_order_irrelevant.

(* Node statuses after any history of blocks, proofs and (de)registrations. *)
Theorem brun_inv : forall bp ops s, binv s -> binv (brun bp s ops).
Proof. exact BeaconProofs.brun_inv. Qed.
Print Assumptions brun_inv.

(* A node that (re-)registered in the current epoch or the previous one is not
   past ElectionEligibleAfter, whatever proofs it submitted. *)
Theorem late_registration_ineligible :
  forall bp s0 ops id el reg,
    binv s0 ->
    let s := brun bp s0 ops in
    In (id, (el, reg)) (b_nodes s) -> b_epoch s < EPOCH_INVALID ->
    b_epoch s <= reg + 1 -> ~ (el < b_epoch s).
Proof. exact BeaconProofs.late_registration_ineligible. Qed.
Print Assumptions late_registration_ineligible.

(* ... and with the VRF backend (no weak alpha allowed) every committee member
   is past ElectionEligibleAfter: a late node can never be elected in that epoch. *)
Theorem vrf_committee_member_seasoned :
  forall i v vals ups comms rid ms role id,
    run_epoch i = EOk vals ups comms -> i_vrf i = Some v -> v_weak v = false ->
    In (rid, Some ms) comms -> In (role, id) ms ->
    exists n, In n (post_nodes i) /\ n_id n = id /\ n_elig n < i_epoch i.
Proof. exact BeaconProofs.vrf_committee_member_seasoned. Qed.
Print Assumptions vrf_committee_member_seasoned.

(* What an epoch transition hands to the election: PrevState = the proofs
   collected under the previous alpha and its quality; entropy = f(epoch, block). *)
Theorem transition_feeds_election :
  forall bp s h blk fe v,
    b_future s = Some (fe, h) -> b_vrf s = Some v ->
    let s' := fst (bstep bp s (OBegin h blk)) in
    b_epoch s' = fe /\ b_beacon s' = Some (fe, blk) /\
    exists v', b_vrf s' = Some v' /\ vs_prev v' = Some (vs_pi v, vs_hq v) /\ vs_pi v' = [] /\
               vs_epoch v' = fe /\ vs_after v' = h + bp_delay bp /\
               vs_hq v' = (bp_thresh bp <=? len (vs_pi v)).
Proof. exact BeaconProofs.transition_feeds_election. Qed.
Print Assumptions transition_feeds_election.

(* A proof is accepted only from a registered node, for the current alpha's
   epoch, strictly after the submission delay, and only if it verifies. *)
Theorem prove_accepted_spec :
  forall bp s h node ep beta valid,
    snd (bstep bp s (OProve h node ep beta valid)) = 0 ->
    exists v, b_vrf s = Some v /\ vs_after v < h /\ aget node (b_nodes s) <> None /\
              ep = vs_epoch v /\ valid = true.
Proof. exact BeaconProofs.prove_accepted_spec. Qed.
Print Assumptions prove_accepted_spec.

(* Observation: with MaxValidators = 0 (rejected at genesis, not by a
   governance parameter change) one validator is still elected; hence the
   bound max(1, MaxValidators) above. *)
Theorem max_validators_zero_elects_one_refuted :
  exists p ents epoch nodes pe pn vals vents,
    p_max p = 0 /\ elect_validators p ents epoch nodes pe pn = VOk vals vents /\ len vals = 1.
Proof. exact ElectCheck.max_validators_zero_elects_one_refuted. Qed.
Print Assumptions max_validators_zero_elects_one_refuted.
