From Coq Require Import Permutation.
From Verif Require Import Lib.Base Roothash.Pool Roothash.PoolSpec Roothash.PoolProofs Roothash.PoolInv Roothash.Verify Roothash.VerifyProofs Roothash.App Roothash.AppProofs Roothash.EarlyDetect Roothash.Permute Roothash.Evidence Roothash.EvidenceProofs Roothash.Membership Roothash.AppInv Roothash.LivenessProofs.

Theorem finalize_only_if_rule :
  forall (c : committee) (p : pool) (strag : N) (timeout : bool) (p' : pool) (sc : sched_commitment),
    hr_entry_ok c p ->
    process c p strag timeout = (p', POk sc) ->
    (disc p = false /\ unanimity c strag sc) \/ (disc p = true /\ backup_majority c sc).
Proof. exact finalize_only_if_rule. Qed.
Print Assumptions finalize_only_if_rule.

Theorem no_wait_after_timeout :
  forall (c : committee) (p : pool) (strag : N), snd (process c p strag true) <> PStillWaiting.
Proof. exact no_wait_after_timeout. Qed.
Print Assumptions no_wait_after_timeout.

Theorem one_vote_per_member :
  forall (c : committee) (p : pool) (ec : commitment) (p1 : pool) (ec' : commitment),
    add c p ec = (p1, AOk) ->
    ec_node ec' = ec_node ec -> ec_sched ec' = ec_sched ec -> ec_round ec' = ec_round ec ->
    add c p1 ec' = (p1, AAlreadyCommitted).
Proof. exact one_vote_per_member. Qed.
Print Assumptions one_vote_per_member.

Theorem non_members_never_count :
  forall (c : committee) (p : pool) (ec : commitment),
    is_member c (ec_node ec) = false ->
    exists e, add c p ec = (p, e) /\ (e = ANotInCommittee \/ e = ANotBackup).
Proof. exact add_non_member. Qed.
Print Assumptions non_members_never_count.

Theorem non_backup_rejected_in_resolution :
  forall (c : committee) (p : pool) (ec : commitment),
    disc p = true -> is_backup_worker c (ec_node ec) = false -> add c p ec = (p, ANotBackup).
Proof. exact add_non_backup_in_resolution. Qed.
Print Assumptions non_backup_rejected_in_resolution.

Theorem rank_priority_worse_rejected :
  forall (c : committee) (p : pool) (ec : commitment) (r : N),
    scheduler_rank c (ec_round ec) (ec_sched ec) = Some r -> hr p < r ->
    exists e, add c p ec = (p, e) /\ e <> AOk.
Proof. exact add_worse_rank. Qed.
Print Assumptions rank_priority_worse_rejected.

Theorem rank_priority_own_commit_sets_rank :
  forall (c : committee) (p : pool) (ec : commitment) (p1 : pool) (r : N),
    add c p ec = (p1, AOk) -> ec_node ec = ec_sched ec ->
    scheduler_rank c (ec_round ec) (ec_sched ec) = Some r -> hr p1 = r.
Proof. exact add_own_sets_rank. Qed.
Print Assumptions rank_priority_own_commit_sets_rank.

Theorem rank_priority_monotone :
  forall (c : committee) (ops : list op) (p : pool), hr (run c ops p) <= hr p.
Proof. exact run_hr_mono. Qed.
Print Assumptions rank_priority_monotone.

Theorem rank_priority_ok_is_highest :
  forall (c : committee) (p : pool) (strag : N) (timeout : bool) (p' : pool) (sc : sched_commitment),
    process c p strag timeout = (p', POk sc) -> aget (hr p) (scs p) = Some sc.
Proof. exact process_ok_is_highest. Qed.
Print Assumptions rank_priority_ok_is_highest.

Theorem otherwise_wait_resolve_or_fail :
  forall (c : committee) (p : pool) (strag : N) (timeout : bool),
    outcome_shape c p timeout (fst (process c p strag timeout)) (snd (process c p strag timeout)).
Proof. exact otherwise_wait_resolve_or_fail. Qed.
Print Assumptions otherwise_wait_resolve_or_fail.

Theorem second_process_never_detects :
  forall (c : committee) (p : pool) (strag : N) (timeout : bool),
    disc p = true -> snd (process c p strag timeout) <> PDiscrepancy.
Proof. exact second_process_never_detects. Qed.
Print Assumptions second_process_never_detects.

(* ---- lifted to every history of verified commitments and processing calls ---- *)

Theorem finalize_only_if_rule_history :
  forall (c : committee) (R : N) (ops : list op) (strag : N) (timeout : bool) (p' : pool) (sc : sched_commitment),
    R + N.of_nat (length c) < W64 ->
    Forall (verified_op R) ops ->
    process c (run c ops new_pool) strag timeout = (p', POk sc) ->
    (disc (run c ops new_pool) = false /\ unanimity c strag sc) \/
    (disc (run c ops new_pool) = true /\ backup_majority c sc).
Proof. exact finalize_only_if_rule_history. Qed.
Print Assumptions finalize_only_if_rule_history.

Theorem reachable_invariant :
  forall (c : committee) (R : N) (ops : list op) (p : pool),
    small c -> rank_inj c R -> Forall (verified_op R) ops -> inv c R p -> inv c R (run c ops p).
Proof. exact inv_run. Qed.
Print Assumptions reachable_invariant.

Theorem rank_inj_unless_wraparound :
  forall (c : committee) (R : N), R + N.of_nat (length c) <= W64 -> rank_inj c R.
Proof. exact rank_inj_no_wrap. Qed.
Print Assumptions rank_inj_unless_wraparound.

Theorem no_nil_commitment_dereference_history :
  forall (c : committee) (R : N) (ops : list op) (strag : N) (timeout : bool),
    small c -> rank_inj c R -> Forall (verified_op R) ops ->
    snd (process c (run c ops new_pool) strag timeout) <> PPanic.
Proof. exact no_panic_reachable. Qed.
Print Assumptions no_nil_commitment_dereference_history.

Theorem rank_priority_no_worse_entry_history :
  forall (c : committee) (R : N) (ops : list op) (r : N) (sc : sched_commitment),
    small c -> rank_inj c R -> Forall (verified_op R) ops ->
    aget r (scs (run c ops new_pool)) = Some sc -> r <= hr (run c ops new_pool).
Proof. exact no_worse_reachable. Qed.
Print Assumptions rank_priority_no_worse_entry_history.

(* ---- verify-then-add histories (what the roothash application does) ---- *)

Theorem verify_establishes_verified :
  forall (br bh mm : N) (vc : vcommit),
    verify br bh mm vc = VOk -> verified ((br + 1) mod W64) (vc_ec vc).
Proof. exact verify_ok_verified. Qed.
Print Assumptions verify_establishes_verified.

Theorem verify_ok_header :
  forall (br bh mm : N) (vc : vcommit),
    verify br bh mm vc = VOk ->
    vc_sig_ok vc = true /\ validate_basic vc = true /\
    vc_round vc = (br + 1) mod W64 /\ vc_prev vc = bh.
Proof. exact verify_ok_header. Qed.
Print Assumptions verify_ok_header.

Theorem finalize_only_if_rule_verified_history :
  forall (b : blockinfo) (c : committee) (ops : list vop) (strag : N) (timeout : bool)
         (p' : pool) (sc : sched_commitment),
    next_round b + N.of_nat (length c) < W64 ->
    process c (vrun b c ops new_pool) strag timeout = (p', POk sc) ->
    (disc (vrun b c ops new_pool) = false /\ unanimity c strag sc) \/
    (disc (vrun b c ops new_pool) = true /\ backup_majority c sc).
Proof. exact finalize_only_if_rule_verified_history. Qed.
Print Assumptions finalize_only_if_rule_verified_history.

Theorem rank_priority_verified_history :
  forall (b : blockinfo) (c : committee) (ops : list vop) (strag : N) (timeout : bool)
         (p' : pool) (sc : sched_commitment),
    next_round b + N.of_nat (length c) < W64 ->
    process c (vrun b c ops new_pool) strag timeout = (p', POk sc) ->
    exists ec, sc_commit sc = Some ec /\ ec_node ec = ec_sched ec /\ ec_round ec = next_round b /\
               scheduler_rank c (next_round b) (ec_sched ec) = Some (hr (vrun b c ops new_pool)).
Proof. exact rank_priority_verified_history. Qed.
Print Assumptions rank_priority_verified_history.

Theorem rank_buckets_verified_history :
  forall (b : blockinfo) (c : committee) (ops : list vop) (r : N) (sc : sched_commitment) (ec : commitment),
    aget r (scs (vrun b c ops new_pool)) = Some sc -> sc_commit sc = Some ec ->
    ec_node ec = ec_sched ec /\ ec_round ec = next_round b /\
    scheduler_rank c (next_round b) (ec_sched ec) = Some r.
Proof. exact rank_buckets_verified_history. Qed.
Print Assumptions rank_buckets_verified_history.

Theorem rank_priority_best_committed :
  forall (b : blockinfo) (c : committee) (ops1 : list vop) (vc : vcommit) (ops2 : list vop) (p1 : pool) (r : N),
    verify (blk_round b) (blk_hash b) (blk_max_msgs b) vc = VOk ->
    add c (vrun b c ops1 new_pool) (vc_ec vc) = (p1, AOk) ->
    vc_node vc = vc_sched vc ->
    scheduler_rank c (next_round b) (vc_sched vc) = Some r ->
    hr (vrun b c (ops1 ++ VAdd vc :: ops2) new_pool) <= r.
Proof. exact rank_priority_best_committed. Qed.
Print Assumptions rank_priority_best_committed.

(* ---- the roothash application's finalization (finalization.go, timeout.go, transactions.go) ---- *)

Theorem app_second_process_never_detects :
  forall (H : Z) (prm : rt_params) (c : committee) (p : pool) (st : rt_state) (timeout : bool),
    try_finalize H prm c p st timeout <> TFErrDiscrepancy.
Proof. exact app_second_process_never_detects. Qed.
Print Assumptions app_second_process_never_detects.

Theorem try_finalize_shape :
  forall (H : Z) (prm : rt_params) (c : committee) (p : pool) (st : rt_state) (timeout : bool)
         (st' : rt_state) (evs : list app_event),
    try_finalize H prm c p st timeout = TFOk st' evs -> tf_shape H prm c p st timeout st' evs.
Proof. exact try_finalize_shape. Qed.
Print Assumptions try_finalize_shape.

Theorem normal_block_only_if_rule :
  forall (H : Z) (prm : rt_params) (c : committee) (p : pool) (st : rt_state) (timeout : bool)
         (st' : rt_state) (evs : list app_event),
    hr_entry_ok c p ->
    try_finalize H prm c p st timeout = TFOk st' evs ->
    In (EvFinalized (next_round_of st)) evs -> rs_htype st' = HNormal ->
    exists sc ec,
      snd (process c (fst (deciding H prm c p timeout)) (rp_strag prm) (snd (deciding H prm c p timeout))) = POk sc /\
      sc_commit sc = Some ec /\
      rs_root st' = lookup (ec_vote ec) (rp_roots prm) /\
      rule c (rp_strag prm) (disc (fst (deciding H prm c p timeout))) sc.
Proof. exact normal_block_only_if_rule. Qed.
Print Assumptions normal_block_only_if_rule.

Theorem failed_round_keeps_state_root :
  forall (H : Z) (prm : rt_params) (c : committee) (p : pool) (st : rt_state) (timeout : bool)
         (st' : rt_state) (evs : list app_event),
    try_finalize H prm c p st timeout = TFOk st' evs ->
    rs_htype st' = HRoundFailed -> In (EvFinalized (next_round_of st)) evs ->
    rs_root st' = rs_root st /\ rs_round st' = next_round_of st /\
    rs_pool st' = Some new_pool /\ rs_next_timeout st' = TimeoutNever.
Proof. exact failed_round_keeps_state_root. Qed.
Print Assumptions failed_round_keeps_state_root.

Theorem state_root_changes_only_with_normal_block :
  forall (H : Z) (prm : rt_params) (c : committee) (p : pool) (st : rt_state) (timeout : bool)
         (st' : rt_state) (evs : list app_event),
    try_finalize H prm c p st timeout = TFOk st' evs ->
    rs_root st' <> rs_root st -> rs_htype st' = HNormal /\ rs_round st' = next_round_of st.
Proof. exact state_root_changes_only_with_normal_block. Qed.
Print Assumptions state_root_changes_only_with_normal_block.

Theorem timeout_never_keeps_waiting :
  forall (H : Z) (prm : rt_params) (c : committee) (p : pool) (st st' : rt_state) (evs : list app_event),
    try_finalize H prm c p st true = TFOk st' evs ->
    (forall r, ~ In (EvFinalized r) evs) ->
    exists rank,
      evs = [EvDiscrepancy (next_round_of st) rank true] /\
      snd (process c p (rp_strag prm) true) = PDiscrepancy /\
      rs_next_timeout st' = (H + rp_round_timeout prm * 15 / 10)%Z /\
      rs_next_timeout st' <> H.
Proof. exact timeout_never_keeps_waiting. Qed.
Print Assumptions timeout_never_keeps_waiting.

Theorem suspended_runtime_has_no_armed_timeout :
  forall (prm : rt_params) (bs : list ablock) (round root : N),
    rs_suspended (app_states prm (new_runtime prm round root) bs) = true ->
    rs_next_timeout (app_states prm (new_runtime prm round root) bs) = TimeoutNever.
Proof. exact suspended_runtime_has_no_armed_timeout. Qed.
Print Assumptions suspended_runtime_has_no_armed_timeout.

Theorem armed_timeout_only_for_active_runtime :
  forall (prm : rt_params) (bs : list ablock) (st : rt_state),
    armed_ok st -> armed_ok (app_states prm st bs).
Proof. exact app_states_armed_ok. Qed.
Print Assumptions armed_timeout_only_for_active_runtime.

Theorem end_block_never_fails_on_inactive_runtime :
  forall (prm : rt_params) (st : rt_state) (b : ablock),
    armed_ok st -> (0 < ab_height b)%Z -> bo_halt (snd (app_block prm st b)) <> 1.
Proof. exact end_block_never_fails_on_inactive_runtime. Qed.
Print Assumptions end_block_never_fails_on_inactive_runtime.

Theorem process_ignores_non_member_votes :
  forall (c : committee) (p : pool) (sc sc' : sched_commitment) (strag : N) (timeout : bool),
    aget (hr p) (scs p) = Some sc ->
    sc_commit sc' = sc_commit sc ->
    (forall n, is_member c n = true -> aget n (sc_votes sc') = aget n (sc_votes sc)) ->
    outcome_code (process_inner c (mkPool (hr p) (aset (hr p) sc' (scs p)) (disc p)) strag timeout)
    = outcome_code (process_inner c p strag timeout).
Proof. exact process_ignores_non_member_votes. Qed.
Print Assumptions process_ignores_non_member_votes.

Theorem early_detection_equals_final :
  forall (hr0 strag : N) (timeout : bool) (votes : list (N * option N)) (ms : committee),
    (gather false hr0 strag timeout votes ms tally0 = None <->
     exit_enabled hr0 timeout = true /\ bad strag (gather_all false votes ms tally0) = true)
    /\ (forall t, gather false hr0 strag timeout votes ms tally0 = Some t ->
                  t = gather_all false votes ms tally0).
Proof. exact early_detection_equals_final. Qed.
Print Assumptions early_detection_equals_final.

(* ---- member order, Go map order ---- *)

Theorem process_member_order_irrelevant :
  forall (c c' : committee) (p : pool) (strag : N) (timeout : bool),
    Permutation c c' ->
    fst (process c p strag timeout) = fst (process c' p strag timeout) /\
    outcome_code (snd (process c p strag timeout)) = outcome_code (snd (process c' p strag timeout)) /\
    chosen (snd (process c p strag timeout)) = chosen (snd (process c' p strag timeout)).
Proof. exact process_member_order_irrelevant_full. Qed.
Print Assumptions process_member_order_irrelevant.

Theorem resolution_map_order_irrelevant :
  forall (total commits : N) (timeout : bool) (sc : sched_commitment) (l l' : list (N * N)),
    Permutation l l' -> NoDup (keys l) -> vpos l -> vsum l <= total ->
    resolution_code total commits timeout sc l = resolution_code total commits timeout sc l'.
Proof. exact resolution_map_order_irrelevant. Qed.
Print Assumptions resolution_map_order_irrelevant.

Theorem process_inner_is_resolution_code :
  forall (c : committee) (p : pool) (strag : N) (timeout : bool) (sc : sched_commitment) (t : tally),
    aget (hr p) (scs p) = Some sc -> disc p = true ->
    gather true (hr p) strag timeout (sc_votes sc) c tally0 = Some t ->
    outcome_code (process_inner c p strag timeout) = resolution_code (t_total t) (t_commits t) timeout sc (t_votes t)
    /\ (forall sc', process_inner c p strag timeout = POk sc' -> sc' = sc).
Proof. exact process_inner_resolution. Qed.
Print Assumptions process_inner_is_resolution_code.

(* ---- multi-commitment transactions ---- *)

Theorem executor_commit_all_or_nothing :
  forall (H : Z) (prm : rt_params) (st : rt_state) (vcs : list vcommit),
    snd (fst (executor_commit H prm st vcs)) <> 0 ->
    fst (fst (executor_commit H prm st vcs)) = st /\ snd (executor_commit H prm st vcs) = false.
Proof. exact executor_commit_all_or_nothing. Qed.
Print Assumptions executor_commit_all_or_nothing.

Theorem commit_all_ok :
  forall (round bh mm : N) (c : committee) (vcs : list vcommit) (p p1 : pool),
    commit_all round bh mm c p vcs = (p1, 0) ->
    Forall (fun vc => verify round bh mm vc = VOk) vcs /\
    p1 = fold_left (fun q vc => fst (add c q (vc_ec vc))) vcs p.
Proof. exact commit_all_ok. Qed.
Print Assumptions commit_all_ok.

(* ---- equivocation evidence ---- *)

Theorem valid_evidence_means_double_vote :
  forall (a b : ecommit),
    exec_evidence_check a b = EvOk ->
    vc_node (e_vc a) = vc_node (e_vc b) /\ vc_sched (e_vc a) = vc_sched (e_vc b) /\
    vc_round (e_vc a) = vc_round (e_vc b) /\
    vc_sig_ok (e_vc a) = true /\ vc_sig_ok (e_vc b) = true /\
    validate_basic (e_vc a) = true /\ validate_basic (e_vc b) = true /\
    (vc_fcode (e_vc a) <> vc_fcode (e_vc b) \/ vc_vote (e_vc a) <> vc_vote (e_vc b)) /\
    ((vc_fcode (e_vc a) = 0 /\ vc_fcode (e_vc b) = 0 /\
      (vc_prev (e_vc a) <> vc_prev (e_vc b) \/ e_io a <> e_io b \/ e_state a <> e_state b \/ e_mh a <> e_mh b))
     \/ vc_fcode (e_vc a) <> vc_fcode (e_vc b)).
Proof. exact valid_evidence_means_double_vote. Qed.
Print Assumptions valid_evidence_means_double_vote.

Theorem honest_node_never_accused :
  forall (n : N) (signed : vcommit -> Prop),
    (forall vc, vc_node vc = n -> vc_sig_ok vc = true -> signed vc) ->
    (forall x y, signed x -> signed y -> vc_round x = vc_round y -> vc_sched x = vc_sched y ->
                 vc_fcode x = vc_fcode y /\ vc_vote x = vc_vote y) ->
    forall (a b : ecommit), vc_node (e_vc a) = n -> exec_evidence_check a b <> EvOk.
Proof. exact honest_node_never_accused. Qed.
Print Assumptions honest_node_never_accused.

Theorem valid_proposal_evidence_means_double_proposal :
  forall (a b : proposal),
    prop_evidence_check a b = PvOk ->
    pr_node a = pr_node b /\ pr_round a = pr_round b /\
    pr_sig_ok a = true /\ pr_sig_ok b = true /\
    (pr_prev a <> pr_prev b \/ pr_batch_hash a <> pr_batch_hash b).
Proof. exact valid_proposal_evidence_means_double_proposal. Qed.
Print Assumptions valid_proposal_evidence_means_double_proposal.

Theorem honest_proposer_never_accused :
  forall (n : N) (proposed : proposal -> Prop),
    (forall p, pr_node p = n -> pr_sig_ok p = true -> proposed p) ->
    (forall x y, proposed x -> proposed y -> pr_round x = pr_round y ->
                 pr_prev x = pr_prev y /\ pr_batch_hash x = pr_batch_hash y) ->
    forall (a b : proposal), pr_node a = n -> prop_evidence_check a b <> PvOk.
Proof. exact honest_proposer_never_accused. Qed.
Print Assumptions honest_proposer_never_accused.

Theorem submit_evidence_spec :
  forall (st : rt_state) (store : list N) (slashes : bool) (max_age : N) (e : evidence) (id : N) (registered : bool),
    let r := submit_evidence st store slashes max_age e id registered in
    (snd r = 0 ->
       evidence_valid e = true /\ ~ In id store /\ fst r = id :: store /\ registered = true /\
       slashes = true /\ rs_suspended st = false) /\
    (snd r <> 0 -> fst r = store).
Proof. exact submit_evidence_spec. Qed.
Print Assumptions submit_evidence_spec.

(* ---- round 3: the application over arbitrary histories, liveness, membership ---- *)

Theorem normal_block_only_if_rule_history :
  forall (prm : rt_params) (bs : list ablock) (b : ablock) (round root : N),
    history_ok round (bs ++ [b]) ->
    let st := app_states prm (new_runtime prm round root) bs in
    let st' := fst (app_block prm st b) in
    let o := snd (app_block prm st b) in
    fin_count (bo_end o) = 1 -> rs_htype st' = HNormal ->
    exists c, rs_committee st' = Some c /\ normal_justified prm c st'.
Proof. exact normal_block_only_if_rule_history. Qed.
Print Assumptions normal_block_only_if_rule_history.

Theorem app_pool_invariant_history :
  forall (prm : rt_params) (bs : list ablock) (st : rt_state),
    pool_ok st -> committee_ok st -> history_ok (rs_round st) bs ->
    pool_ok (app_states prm st bs) /\ committee_ok (app_states prm st bs).
Proof. exact app_states_inv. Qed.
Print Assumptions app_pool_invariant_history.

Theorem failed_round_header :
  forall (H : Z) (prm : rt_params) (c : committee) (p : pool) (st : rt_state) (timeout : bool)
         (st' : rt_state) (evs : list app_event),
    try_finalize H prm c p st timeout = TFOk st' evs ->
    rs_htype st' = HRoundFailed -> In (EvFinalized (next_round_of st)) evs ->
    rs_root st' = rs_root st /\ rs_io st' = rp_empty prm /\ rs_msgs st' = rp_empty prm /\
    rs_prev st' = lookup (rs_round st) (rp_hashes prm) /\ rs_round st' = next_round_of st.
Proof. exact failed_round_header. Qed.
Print Assumptions failed_round_header.

Theorem epoch_and_suspend_blocks_keep_state :
  forall (prm : rt_params) (st : rt_state) (ep : option (option committee)),
    pool_ok st -> committee_ok st -> rs_round st + 2 < ROUND_BOUND ->
    (forall c, ep = Some (Some c) -> small_c c) ->
    let st1 := fst (begin_block prm st ep) in
    let e := snd (begin_block prm st ep) in
    pool_ok st1 /\ committee_ok st1 /\ fin_count e <= 1 /\ rs_round st1 = rs_round st + fin_count e /\
    (fin_count e = 1 -> rs_htype st1 <> HNormal /\ rs_root st1 = rs_root st /\ rs_io st1 = rp_empty prm /\
                        rs_msgs st1 = rp_empty prm /\ rs_prev st1 = lookup (rs_round st) (rp_hashes prm)).
Proof. exact begin_block_spec. Qed.
Print Assumptions epoch_and_suspend_blocks_keep_state.

Theorem rounds_increase_by_one_per_block :
  forall (prm : rt_params) (bs : list ablock) (st : rt_state),
    pool_ok st -> committee_ok st -> history_ok (rs_round st) bs ->
    rs_round (app_states prm st bs) =
    rs_round st + fold_right (fun o acc => fin_count (bo_begin o) + fin_count (bo_end o) + acc) 0 (app_run prm st bs).
Proof. exact rounds_increase_by_one_per_block. Qed.
Print Assumptions rounds_increase_by_one_per_block.

Theorem stale_commit_rejected :
  forall (H : Z) (prm : rt_params) (st : rt_state) (vcs : list vcommit) (vc : vcommit),
    In vc vcs -> vc_round vc <> next_round_of st ->
    snd (fst (executor_commit H prm st vcs)) <> 0 /\ fst (fst (executor_commit H prm st vcs)) = st.
Proof. exact stale_commit_rejected. Qed.
Print Assumptions stale_commit_rejected.

Theorem no_stale_commit_after_block :
  forall (H : Z) (prm : rt_params) (c : committee) (p : pool) (st : rt_state) (timeout : bool)
         (st' : rt_state) (evs : list app_event) (vcs : list vcommit) (vc : vcommit),
    round_ok st ->
    try_finalize H prm c p st timeout = TFOk st' evs -> fin_count evs = 1 ->
    In vc vcs -> vc_round vc = next_round_of st ->
    rs_pool st' = Some new_pool /\
    snd (fst (executor_commit H prm st' vcs)) <> 0 /\ fst (fst (executor_commit H prm st' vcs)) = st'.
Proof. exact no_stale_commit_after_block. Qed.
Print Assumptions no_stale_commit_after_block.

Theorem finalize_normal_liveness :
  forall (prm : rt_params) (c : committee) (s : rt_state) (p2 : pool) (lv : liveness)
         (sc : sched_commitment) (ec : commitment) (st2 : rt_state) (e2 : list app_event),
    finalize_normal prm c s p2 lv sc ec = Some (st2, e2) -> live_ok c lv ->
    exists lv' good bad,
      rs_live st2 = Some lv' /\ rs_results st2 = (good, bad) /\ live_ok c lv' /\
      lv_total lv' = lv_total lv + 1 /\
      lsum (lv_fin lv') + lsum (lv_miss lv') = lsum (lv_fin lv) + lsum (lv_miss lv) + 1 /\
      lsum (lv_live lv') = lsum (lv_live lv) + N.of_nat (length good) /\
      (forall n, is_member c n = true -> aget n (sc_votes sc) = Some (Some (ec_vote ec)) -> In n good) /\
      (forall n, aget n (sc_votes sc) = Some (Some (ec_vote ec)) -> ~ In n bad) /\
      (forall n, In n good -> is_member c n = true /\ aget n (sc_votes sc) = Some (Some (ec_vote ec))) /\
      (forall n, In n bad -> is_member c n = true /\
                             exists v, aget n (sc_votes sc) = Some (Some v) /\ v <> ec_vote ec).
Proof. exact finalize_normal_liveness. Qed.
Print Assumptions finalize_normal_liveness.

Theorem fail_round_liveness :
  forall (prm : rt_params) (c : committee) (s : rt_state) (p2 : pool) (lv : liveness)
         (st2 : rt_state) (e2 : list app_event),
    fail_round prm c s p2 lv = Some (st2, e2) -> live_ok c lv ->
    exists lv', rs_live st2 = Some lv' /\ live_ok c lv' /\
      lv_total lv' = lv_total lv /\ lv_live lv' = lv_live lv /\ lv_fin lv' = lv_fin lv /\
      lsum (lv_miss lv') = lsum (lv_miss lv) + 1.
Proof. exact fail_round_liveness. Qed.
Print Assumptions fail_round_liveness.

Theorem liveness_consistent_history :
  forall (prm : rt_params) (bs : list ablock) (round root : N),
    live_inv (app_states prm (new_runtime prm round root) bs).
Proof. exact liveness_consistent_history. Qed.
Print Assumptions liveness_consistent_history.

Theorem add_checks_membership_and_role :
  forall (c : committee) (p : pool) (ec : commitment) (p1 : pool),
    add c p ec = (p1, AOk) ->
    (disc p = false -> is_member c (ec_node ec) = true) /\
    (disc p = true -> is_backup_worker c (ec_node ec) = true) /\
    is_member c (ec_node ec) = true /\
    exists r, scheduler_rank c (ec_round ec) (ec_sched ec) = Some r /\
              In (ec_sched ec) (primary_nodes c) /\ r <= hr p /\ (disc p = true -> r = hr p) /\
              exists sc, aget r (scs p1) = Some sc /\
                         aget (ec_node ec) (sc_votes sc) = Some (if ec_fail ec then None else Some (ec_vote ec)).
Proof. exact add_ok_roles. Qed.
Print Assumptions add_checks_membership_and_role.

Theorem only_members_vote_history :
  forall (c : committee) (ops : list op) (r : N) (sc : sched_commitment) (n : N) (v : option N),
    aget r (scs (run c ops new_pool)) = Some sc -> aget n (sc_votes sc) = Some v -> is_member c n = true.
Proof. exact votes_members_reachable. Qed.
Print Assumptions only_members_vote_history.

Theorem executor_commit_is_the_only_writer_and_checks :
  forall (H : Z) (prm : rt_params) (st : rt_state) (vcs : list vcommit),
    pool_ok st -> committee_ok st -> round_ok st ->
    pool_ok (fst (fst (executor_commit H prm st vcs))).
Proof. exact executor_commit_pool_ok. Qed.
Print Assumptions executor_commit_is_the_only_writer_and_checks.
