(* C08 — A failed transaction changes nothing but fee and nonce.
   Only statements; proofs are in Atomic/Proofs.v. The model (Atomic/Model.v) ports
   the multiplexer's per-transaction pipeline, the authentication handler and the
   overlay / transaction-layer machinery; the handlers of the individual apps are
   ARBITRARY programs over the context interface (they are not modelled one by one). *)
From Verif Require Import Lib.Base Atomic.Model Atomic.Proofs Atomic.Handlers Atomic.GenCheck Gen.AtomicConsts.
From Verif Require Ledger.State Ledger.Ops Ledger.TxAtomic.

(* Writes made inside a transaction layer (ctx.NewTransaction) that is not
   committed are invisible afterwards: dropping the layer gives back LITERALLY the
   tree that was there before, for any body program (any reads, writes, removals,
   gas use and nested transaction layers, committed or not). *)
Theorem overlay_tx_atomic_discard : forall body g t r g1 t1,
  run body g (copen t) = (r, g1, t1) -> cdiscard t1 = t.
Proof. exact tx_discard_literal. Qed.
Print Assumptions overlay_tx_atomic_discard.

(* After Commit exactly the body's writes are applied: result, gas and the view of
   every key equal those of running the body directly on the parent. *)
Theorem overlay_tx_atomic_commit : forall body g t r g1 t1 r' g1' t2,
  run body g (copen t) = (r, g1, t1) -> run body g t = (r', g1', t2) ->
  r = r' /\ g1 = g1' /\ forall k, cget k (ccommit t1) = cget k t2.
Proof. exact tx_commit_exact. Qed.
Print Assumptions overlay_tx_atomic_commit.

(* Whatever a program does, it writes only the innermost layer: the layers below
   and the committed base tree are untouched. *)
Theorem program_writes_innermost_layer_only : forall p g t r g' t',
  run p g t = (r, g', t') -> frame t t'.
Proof. exact run_frame. Qed.
Print Assumptions program_writes_innermost_layer_only.

(* Between decoding and the handler the only change is: fee moved from the signer's
   general balance to the block fee accumulator and nonce + 1 (mod 2^64) in the
   signer's account record; every other key reads as before. *)
Theorem auth_only_pre_execution_write : forall P t fa x t1 fa1 g1,
  auth P Deliver t fa x = inr (t1, fa1, g1) ->
  let a := signer_acct t x in
  fa1 = fa + tx_fee x /\
  cget (tx_signer x) t1 =
    Some (VAcct (mkAcct ((a_nonce a + 1) mod two64) (a_bal a - tx_fee x) (a_rest a))) /\
  (forall k, k <> tx_signer x -> cget k t1 = cget k t) /\
  frame t t1 /\
  a_nonce a = tx_nonce x /\ tx_fee x + p_min_transact P <= a_bal a.
Proof. exact Proofs.auth_only_pre_execution_write. Qed.
Print Assumptions auth_only_pre_execution_write.

(* The multiplexer does not wrap the handler in a transaction layer and does not
   roll back (mux.go:703-750). Hence, for an ARBITRARY app, the statement needs the
   premise that the handler selected for the transaction is atomic (an error
   leaves the tree it was given); under it a failing delivered transaction leaves
   either exactly the previous state or exactly the post-authentication state.
   The premise is needed on EVERY path that reaches a handler (there is no path on
   which the multiplexer supplies the rollback); it is not needed for decode,
   routing, authentication, transaction-size gas and minimum-gas-price failures. *)
Theorem failed_tx_effect_generic : forall P exec dec size s e g s',
  deliver P exec dec size s = (Err e, g, s') ->
  (forall x h, dec = Some x -> exec Deliver x = Some h -> atomic h) ->
  s' = s \/
  (exists x g1 t1 fa1, dec = Some x /\ tx_critical x = false /\
     auth P Deliver (m_tree s) (m_feeacc s) x = inr (t1, fa1, g1) /\
     s' = post_auth_state s x).
Proof. exact Proofs.failed_tx_effect_generic. Qed.
Print Assumptions failed_tx_effect_generic.

(* The premise holds for every handler written in one of the two conventions used
   by the apps: validate and charge gas first / write last, or fallible writes
   inside NewTransaction()...Commit(). *)
Theorem conventions_give_atomic_handlers :
  (forall h, safe h -> atomic (run h)) /\ (forall body, atomic (run (Tx body Ret))).
Proof. exact (conj safe_atomic tx_wrapped_atomic). Qed.
Print Assumptions conventions_give_atomic_handlers.

Theorem failed_tx_effect_safe_handlers : forall P exec dec size s e g s',
  (forall x h, exec Deliver x = Some h -> exists p, h = run p /\ safe p) ->
  deliver P exec dec size s = (Err e, g, s') ->
  s' = s \/ (exists x, dec = Some x /\ s' = post_auth_state s x).
Proof. exact Proofs.failed_tx_effect_safe_handlers. Qed.
Print Assumptions failed_tx_effect_safe_handlers.

(* Without the premise the statement is false in the model: the multiplexer keeps
   the writes of a handler that fails after writing outside a transaction layer. *)
Theorem mux_rolls_back_refuted :
  exists P exec x size s e g s',
    deliver P exec (Some x) size s = (Err e, g, s') /\ s' <> s /\ s' <> post_auth_state s x.
Proof. exact mux_does_not_roll_back. Qed.
Print Assumptions mux_rolls_back_refuted.

(* A transaction rejected at decoding, routing or authentication changes nothing. *)
Theorem auth_failure_changes_nothing : forall P exec dec size s,
  (dec = None \/
   exists x, dec = Some x /\
     (exec Deliver x = None \/
      (tx_critical x = false /\ exists e, auth P Deliver (m_tree s) (m_feeacc s) x = inl e))) ->
  exists e g, deliver P exec dec size s = (Err e, g, s).
Proof. exact rejected_up_to_auth_changes_nothing. Qed.
Print Assumptions auth_failure_changes_nothing.

(* A delivered transaction (failed or not) never touches the last committed tree
   or the CheckTx tree: it writes the block's proposal overlay only. *)
Theorem deliver_writes_proposal_overlay_only : forall P exec dec size s r g s',
  (forall x h, exec Deliver x = Some h -> framed h) ->
  deliver P exec dec size s = (r, g, s') ->
  frame (m_tree s) (m_tree s') /\ m_check s' = m_check s.
Proof. exact deliver_frame. Qed.
Print Assumptions deliver_writes_proposal_overlay_only.

(* CheckTx works on the separate check tree, EstimateGas on a discarded copy: the
   delivery state (committed tree, proposal overlay, fee accumulator) is unchanged. *)
Theorem check_and_estimate_pure : forall P exec,
  (forall dec size s r g s', check_tx P exec dec size s = (r, g, s') ->
     m_tree s' = m_tree s /\ m_feeacc s' = m_feeacc s) /\
  (forall x size s gas s', estimate_gas P exec x size s = (gas, s') -> s' = s).
Proof. exact Proofs.check_and_estimate_pure. Qed.
Print Assumptions check_and_estimate_pure.

(* ---------- concrete handlers (Atomic/Handlers.v) ----------
   registry registerEntity / deregisterEntity / registerNode / registerRuntime and roothash
   submitMsg ported with their real order of gas charges, checks, NewTransaction(), writes
   (through the received handle or through ctx-built wrappers) and Commit(); keys, records
   and the verdicts of the pure validation routines are universally quantified. *)

(* The discipline: before the first write that dropping the layer does not undo (a write
   while no layer is open, a write through the RECEIVED handle, Commit) a handler only
   reads, charges gas, calls other apps inside its layer and writes into its layer; after
   it, it cannot fail. Such a handler is atomic. *)
Theorem handler_discipline_gives_atomicity : forall p, hsafe false p -> atomic (hrun p false).
Proof. exact hsafe_atomic. Qed.
Print Assumptions handler_discipline_gives_atomicity.

Theorem failed_tx_effect_registry :
  forall k_reg_params k_stake_params k_epoch k_features
         k_entity k_entity_acct k_entity_nodes k_entity_runtimes
         k_node k_node_index k_node_status k_node_lookups k_beacon_params
         k_runtime k_suspended_runtime k_runtime_owner k_old_runtime_owner k_rt_acct k_old_rt_acct
         cost count verify_entity_args signer_ok bypass_stake add_claim remove_claim new_val nonempty
         verify_node_args admission_ok node_expired node_lookup_failed verify_node_update resume_needed
         publish_resumed publish_new publish_updated rt_registration_disabled verify_runtime_args
         verify_runtime_new_or_update rt_signer_ok rt_needs_stake owner_changed
         P dec size s e g s',
  deliver P (registry_exec k_reg_params k_stake_params k_epoch k_features
         k_entity k_entity_acct k_entity_nodes k_entity_runtimes
         k_node k_node_index k_node_status k_node_lookups k_beacon_params
         k_runtime k_suspended_runtime k_runtime_owner k_old_runtime_owner k_rt_acct k_old_rt_acct
         cost count verify_entity_args signer_ok bypass_stake add_claim remove_claim new_val nonempty
         verify_node_args admission_ok node_expired node_lookup_failed verify_node_update resume_needed
         publish_resumed publish_new publish_updated rt_registration_disabled verify_runtime_args
         verify_runtime_new_or_update rt_signer_ok rt_needs_stake owner_changed) dec size s = (Err e, g, s') ->
  s' = s \/ (exists x, dec = Some x /\ s' = post_auth_state s x).
Proof. exact Handlers.failed_tx_effect_registry_l. Qed.
Print Assumptions failed_tx_effect_registry.

Theorem failed_tx_effect_submitmsg :
  forall k_stake_params k_rh_params k_rt_state k_in_meta k_in_msg k_caller_acct k_rt_staking_acct
         cost new_val rt_state_usable max_in_zero fee_below_min transfer_noop move below_min queue_full
         P dec size s e g s',
  deliver P (submitmsg_exec k_stake_params k_rh_params k_rt_state k_in_meta k_in_msg k_caller_acct k_rt_staking_acct
         cost new_val rt_state_usable max_in_zero fee_below_min transfer_noop move below_min queue_full) dec size s = (Err e, g, s') ->
  s' = s \/ (exists x, dec = Some x /\ s' = post_auth_state s x).
Proof. exact Handlers.failed_tx_effect_submitmsg_l. Qed.
Print Assumptions failed_tx_effect_submitmsg.

(* roothash submitEvidence (after the repair 583b4f4: hash record and slashing inside a
   transaction layer, committed only on success) *)
Theorem failed_tx_effect_submitevidence :
  forall (k_rh_params : N) (k_rt_state : tx -> N) (cost : option val -> N -> N) (new_val : tx -> option val -> val)
         (nonempty rt_state_usable : option val -> bool)
         (k_evidence k_accused_node k_accused_acct k_caller_node : tx -> N) (validate_evidence : tx -> bool)
         (rt_slashes : option val -> bool) (evidence_expired : option val -> option val -> tx -> bool)
         (penalty_zero : option val -> bool) (slash_escrow : option val -> tx -> option val)
         (slashed_nothing : option val -> tx -> bool) (distribute : option val -> tx -> prog)
         (P : params) (dec : option tx) (size : N) (s : mstate) (e : N) (g : gasacc) (s' : mstate),
  deliver P
    (submitevidence_exec k_rh_params k_rt_state cost new_val nonempty rt_state_usable k_evidence k_accused_node
       k_accused_acct k_caller_node validate_evidence rt_slashes evidence_expired penalty_zero slash_escrow
       slashed_nothing distribute) dec size s = (Err e, g, s') ->
  s' = s \/ (exists x : tx, dec = Some x /\ s' = post_auth_state s x).
Proof. exact Handlers.failed_tx_effect_submitevidence. Qed.
Print Assumptions failed_tx_effect_submitevidence.

(* The order before the repair (hash stored through the received handle, no layer, then the
   slashing fails for a key that is no registered node) is not atomic: the defect this check
   found, kept as a refuted witness. *)
Theorem submitevidence_old_order_refuted : ~ atomic (hrun evidence_old_handler false).
Proof. exact evidence_old_not_atomic. Qed.
Print Assumptions submitevidence_old_order_refuted.

Theorem gen_submit_evidence_order :
  submit_evidence_events = [8; 8; 1; 8; 8; 8; 8; 8; 8; 8; 8; 8; 8; 2; 7; 5; 8; 5; 8; 3] /\
  layered_handler submit_evidence_events = true.
Proof. exact gen_submit_evidence_order_l. Qed.
Print Assumptions gen_submit_evidence_order.

(* A state wrapper built from ctx.State() BEFORE NewTransaction() writes below the layer:
   submitMsg with that order (the seeded change C08-1) is not atomic. *)
Theorem wrapper_built_before_layer_refuted : ~ atomic (hrun c08_1_handler false).
Proof. exact c08_1_not_atomic. Qed.
Print Assumptions wrapper_built_before_layer_refuted.

(* G: the order of the steps in the source is the one the ports were written against, every
   ctx-built wrapper of a handler with a layer is built inside the layer, no gas is charged
   after a write. *)
Theorem gen_handler_step_order :
  register_entity_events = [8; 8; 1; 8; 1; 8; 8; 7; 8; 5; 8; 4; 8] /\
  deregister_entity_events = [8; 1; 8; 8; 8; 8; 8; 4; 8; 8; 7; 8; 5] /\
  register_node_events =
    [8; 8; 8; 8; 8; 8; 8; 8; 8; 8; 1; 8; 2; 7; 8; 7; 8; 8; 5; 8; 8; 4; 8; 8; 7; 8; 4; 8; 8; 4; 6; 8; 8; 3] /\
  register_runtime_events =
    [8; 8; 8; 8; 8; 8; 8; 1; 8; 8; 8; 8; 8; 8; 8; 8; 2; 7; 8; 5; 8; 5; 8; 8; 6; 8; 6; 8; 4; 8; 4; 8; 4; 8; 4; 8; 4; 8; 3] /\
  submit_msg_events = [8; 1; 8; 8; 8; 8; 2; 8; 7; 5; 8; 8; 8; 4; 8; 4; 8; 3].
Proof. exact gen_handler_step_order_l. Qed.
Print Assumptions gen_handler_step_order.

Theorem gen_wrappers_built_inside_layer :
  forallb captures_inside_layer
    [register_entity_events; deregister_entity_events; register_node_events; register_runtime_events; submit_msg_events] = true /\
  forallb (no_gas_after_write_from false)
    [register_entity_events; deregister_entity_events; register_node_events; register_runtime_events; submit_msg_events] = true.
Proof. exact gen_wrappers_built_inside_layer_l. Qed.
Print Assumptions gen_wrappers_built_inside_layer.

(* ---------- staking / governance-deposit handlers: the ledger model of C05 ----------
   (Ledger/TxAtomic.v, proved by the C05 builder on the ported staking handlers) *)
Theorem failed_tx_effect_staking : forall p s signer n fee g1 g2 b,
  fst (Ledger.Ops.exec_tx p s signer n fee g1 g2 b) <> Ledger.Ops.ROk ->
  snd (Ledger.Ops.exec_tx p s signer n fee g1 g2 b) = s \/
  snd (Ledger.Ops.exec_tx p s signer n fee g1 g2 b) = Ledger.TxAtomic.post_auth p s signer n fee.
Proof. exact Ledger.TxAtomic.failed_tx_effect_staking_l. Qed.
Print Assumptions failed_tx_effect_staking.

Theorem failed_tx_after_auth_staking : forall p s signer n fee g1 g2 b,
  fst (Ledger.Ops.auth p s signer n fee) = Ledger.Ops.ROk ->
  fst (Ledger.Ops.exec_tx p s signer n fee g1 g2 b) <> Ledger.Ops.ROk ->
  snd (Ledger.Ops.exec_tx p s signer n fee g1 g2 b) = Ledger.TxAtomic.post_auth p s signer n fee.
Proof. exact Ledger.TxAtomic.failed_tx_after_auth_l. Qed.
Print Assumptions failed_tx_after_auth_staking.

(* ---------- staking addEscrow / reclaimEscrow / allow / withdraw and the vault handlers
   create / authorizeAction / cancelAction, ported step by step (Atomic/Handlers.v, Section
   Ports2; keys, checks and computed records are universally quantified; the withdraw hook and
   the vault action execution are ARBITRARY programs) ---------- *)
Theorem failed_tx_effect_staking_vault :
  forall (key : N -> tx -> N) (chk : N -> list (option val) -> tx -> bool) (calc : N -> list (option val) -> tx -> option val)
         (newv : N -> list (option val) -> tx -> val) (gcost : option val -> N) (withdraw_hook execute_action : tx -> prog)
         (P : params) (dec : option tx) (size : N) (s : mstate) (e : N) (g : gasacc) (s' : mstate),
  deliver P (staking_vault_exec key chk calc newv gcost withdraw_hook execute_action) dec size s = (Err e, g, s') ->
  s' = s \/ (exists x : tx, dec = Some x /\ s' = post_auth_state s x).
Proof. exact Handlers.failed_tx_effect_staking_vault. Qed.
Print Assumptions failed_tx_effect_staking_vault.

(* withdraw with the hook published BEFORE the layer is opened (the seeded change C08-4) is not
   atomic: the hook's write stays when the transfer fails *)
Theorem withdraw_hook_before_layer_refuted : ~ atomic (hrun c08_4_handler false).
Proof. exact c08_4_not_atomic. Qed.
Print Assumptions withdraw_hook_before_layer_refuted.

Theorem gen_staking_vault_step_order :
  add_escrow_events = [8; 1; 8; 8; 8; 8; 8; 8; 8; 8; 8; 8; 4; 8; 4; 8; 4; 8] /\
  reclaim_escrow_events = [8; 8; 1; 8; 8; 8; 8; 8; 8; 8; 8; 8; 8; 8; 8; 4; 8; 4; 8; 4; 8; 4; 8] /\
  allow_events = [8; 1; 8; 8; 8; 8; 8; 8; 8; 8; 8; 8; 4; 8] /\
  withdraw_events = [8; 1; 8; 8; 8; 8; 8; 2; 8; 6; 8; 8; 8; 8; 8; 8; 8; 4; 8; 4; 8; 3] /\
  vault_create_events = [7; 8; 8; 1; 8; 2; 7; 8; 4; 8; 3] /\
  vault_authorize_events = [7; 8; 8; 8; 8; 8; 1; 8; 2; 8; 8; 4; 8; 3; 8; 4; 8; 4; 8; 3] /\
  vault_cancel_events = [8; 7; 8; 8; 8; 8; 1; 8; 2; 8; 8; 4; 8; 4; 8; 3].
Proof. exact gen_staking_vault_step_order_l. Qed.
Print Assumptions gen_staking_vault_step_order.

Theorem gen_withdraw_layer_before_hook :
  no_write_before_open withdraw_events = true /\
  forallb (no_gas_after_write_from false)
    [add_escrow_events; reclaim_escrow_events; allow_events; withdraw_events; vault_create_events; vault_authorize_events; vault_cancel_events] = true /\
  forallb (fun l => (last l 0 =? COMMIT) && no_write_before_open l)
    [withdraw_events; vault_create_events; vault_authorize_events; vault_cancel_events] = true.
Proof. exact gen_withdraw_layer_before_hook_l. Qed.
Print Assumptions gen_withdraw_layer_before_hook.

(* every transaction method of every app (read from the ExecuteTx switches) is either ported
   with a failed_tx_effect theorem or listed as covered by the twin-replica stream only; a new
   method in neither list breaks this obligation *)
Theorem gen_every_method_covered :
  forallb method_covered all_tx_methods = true /\
  forallb (fun p => existsb (pair_eqb p) all_tx_methods) ported_methods = true /\
  List.length all_tx_methods = 30%nat.
Proof. exact gen_every_method_covered_l. Qed.
Print Assumptions gen_every_method_covered.

(* every md.Publish call and every subscription of the apps, as read from the source; every
   (publishing transaction handler, subscriber) pair has a failing class in the twin stream (or
   cannot fail) *)
Theorem gen_publish_sites : all_publishes = expected_publishes /\ all_subscriptions = expected_subscriptions.
Proof. exact gen_publish_sites_l. Qed.
Print Assumptions gen_publish_sites.

Theorem gen_publish_pairs_covered : publishes_covered = true.
Proof. exact gen_publish_pairs_covered_l. Qed.
Print Assumptions gen_publish_pairs_covered.

(* The mux-level failures after authentication (transaction-size gas, consensus minimum gas price)
   are decided before the handler runs: for ANY handler the state is exactly the
   post-authentication state. *)
Theorem mux_level_failures_precede_handler : forall P exec x h size s t1 fa1 g1,
  tx_critical x = false ->
  exec Deliver x = Some h ->
  auth P Deliver (m_tree s) (m_feeacc s) x = inr (t1, fa1, g1) ->
  ((exists e, use_gas ((size * p_byte_cost P) mod two64) g1 = inl e) \/
   ((0 <? p_min_gas_price P) = true /\ (gas_price x <? p_min_gas_price P) = true)) ->
  exists e g, deliver P exec (Some x) size s = (Err e, g, post_auth_state s x).
Proof. exact Proofs.mux_level_failures_precede_handler. Qed.
Print Assumptions mux_level_failures_precede_handler.

(* G: in the source the minimum-gas-price check precedes app.ExecuteTx *)
Theorem gen_process_tx_order : process_tx_steps = [21; 22; 1; 23; 24; 25].
Proof. exact gen_process_tx_order_l. Qed.
Print Assumptions gen_process_tx_order.
