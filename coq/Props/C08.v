(* C08 — A failed transaction changes nothing but fee and nonce.
   Only statements; proofs are in Atomic/Proofs.v. The model (Atomic/Model.v) ports
   the multiplexer's per-transaction pipeline, the authentication handler and the
   overlay / transaction-layer machinery; the handlers of the individual apps are
   ARBITRARY programs over the context interface (they are not modelled one by one). *)
From Verif Require Import Lib.Base Atomic.Model Atomic.Proofs.

(* Writes made inside a transaction layer (ctx.NewTransaction) that is not
   committed are invisible afterwards: dropping the layer gives back LITERALLY the
   tree that was there before, for any body program (any reads, writes, removals,
   gas use and nested transaction layers, committed or not). *)
Theorem overlay_tx_atomic_discard : forall body g t r g1 t1,
  run body g (copen t) = (r, g1, t1) -> cdiscard t1 = t.
Proof. exact tx_discard_literal. Qed.
Print Assumptions overlay_tx_atomic_discard.

(* After Commit exactly the body's writes are applied: result, gas and the view of
   every key equal those of running the body directly on the parent. *)
Theorem overlay_tx_atomic_commit : forall body g t r g1 t1 r' g1' t2,
  run body g (copen t) = (r, g1, t1) -> run body g t = (r', g1', t2) ->
  r = r' /\ g1 = g1' /\ forall k, cget k (ccommit t1) = cget k t2.
Proof. exact tx_commit_exact. Qed.
Print Assumptions overlay_tx_atomic_commit.

(* Whatever a program does, it writes only the innermost layer: the layers below
   and the committed base tree are untouched. *)
Theorem program_writes_innermost_layer_only : forall p g t r g' t',
  run p g t = (r, g', t') -> frame t t'.
Proof. exact run_frame. Qed.
Print Assumptions program_writes_innermost_layer_only.

(* Between decoding and the handler the only change is: fee moved from the signer's
   general balance to the block fee accumulator and nonce + 1 (mod 2^64) in the
   signer's account record; every other key reads as before. *)
Theorem auth_only_pre_execution_write : forall P t fa x t1 fa1 g1,
  auth P Deliver t fa x = inr (t1, fa1, g1) ->
  let a := signer_acct t x in
  fa1 = fa + tx_fee x /\
  cget (tx_signer x) t1 =
    Some (VAcct (mkAcct ((a_nonce a + 1) mod two64) (a_bal a - tx_fee x) (a_rest a))) /\
  (forall k, k <> tx_signer x -> cget k t1 = cget k t) /\
  frame t t1 /\
  a_nonce a = tx_nonce x /\ tx_fee x + p_min_transact P <= a_bal a.
Proof. exact Proofs.auth_only_pre_execution_write. Qed.
Print Assumptions auth_only_pre_execution_write.

(* The multiplexer does not wrap the handler in a transaction layer and does not
   roll back (mux.go:703-750). Hence, for an ARBITRARY app, the statement needs the
   premise that the handler selected for the transaction is atomic (an error
   leaves the tree it was given); under it a failing delivered transaction leaves
   either exactly the previous state or exactly the post-authentication state.
   The premise is needed on EVERY path that reaches a handler (there is no path on
   which the multiplexer supplies the rollback); it is not needed for decode,
   routing, authentication, transaction-size gas and minimum-gas-price failures. *)
Theorem failed_tx_effect_generic : forall P exec dec size s e g s',
  deliver P exec dec size s = (Err e, g, s') ->
  (forall x h, dec = Some x -> exec Deliver x = Some h -> atomic h) ->
  s' = s \/
  (exists x g1 t1 fa1, dec = Some x /\ tx_critical x = false /\
     auth P Deliver (m_tree s) (m_feeacc s) x = inr (t1, fa1, g1) /\
     s' = post_auth_state s x).
Proof. exact Proofs.failed_tx_effect_generic. Qed.
Print Assumptions failed_tx_effect_generic.

(* The premise holds for every handler written in one of the two conventions used
   by the apps: validate and charge gas first / write last, or fallible writes
   inside NewTransaction()...Commit(). *)
Theorem conventions_give_atomic_handlers :
  (forall h, safe h -> atomic h) /\ (forall body, atomic (Tx body Ret)).
Proof. exact (conj safe_atomic tx_wrapped_atomic). Qed.
Print Assumptions conventions_give_atomic_handlers.

Theorem failed_tx_effect_safe_handlers : forall P exec dec size s e g s',
  (forall x h, exec Deliver x = Some h -> safe h) ->
  deliver P exec dec size s = (Err e, g, s') ->
  s' = s \/ (exists x, dec = Some x /\ s' = post_auth_state s x).
Proof. exact Proofs.failed_tx_effect_safe_handlers. Qed.
Print Assumptions failed_tx_effect_safe_handlers.

(* Without the premise the statement is false in the model: the multiplexer keeps
   the writes of a handler that fails after writing outside a transaction layer. *)
Theorem mux_rolls_back_refuted :
  exists P exec x size s e g s',
    deliver P exec (Some x) size s = (Err e, g, s') /\ s' <> s /\ s' <> post_auth_state s x.
Proof. exact mux_does_not_roll_back. Qed.
Print Assumptions mux_rolls_back_refuted.

(* A transaction rejected at decoding, routing or authentication changes nothing. *)
Theorem auth_failure_changes_nothing : forall P exec dec size s,
  (dec = None \/
   exists x, dec = Some x /\
     (exec Deliver x = None \/
      (tx_critical x = false /\ exists e, auth P Deliver (m_tree s) (m_feeacc s) x = inl e))) ->
  exists e g, deliver P exec dec size s = (Err e, g, s).
Proof. exact rejected_up_to_auth_changes_nothing. Qed.
Print Assumptions auth_failure_changes_nothing.

(* A delivered transaction (failed or not) never touches the last committed tree
   or the CheckTx tree: it writes the block's proposal overlay only. *)
Theorem deliver_writes_proposal_overlay_only : forall P exec dec size s r g s',
  deliver P exec dec size s = (r, g, s') ->
  frame (m_tree s) (m_tree s') /\ m_check s' = m_check s.
Proof. exact deliver_frame. Qed.
Print Assumptions deliver_writes_proposal_overlay_only.

(* CheckTx works on the separate check tree, EstimateGas on a discarded copy: the
   delivery state (committed tree, proposal overlay, fee accumulator) is unchanged. *)
Theorem check_and_estimate_pure : forall P exec,
  (forall dec size s r g s', check_tx P exec dec size s = (r, g, s') ->
     m_tree s' = m_tree s /\ m_feeacc s' = m_feeacc s) /\
  (forall x size s gas s', estimate_gas P exec x size s = (gas, s') -> s' = s).
Proof. exact Proofs.check_and_estimate_pure. Qed.
Print Assumptions check_and_estimate_pure.
