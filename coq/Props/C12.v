(* C12 — Checkpoints restore to exactly the checkpointed state.
   Only statements; proofs are in Ckpt/*.v.  Model: Ckpt/Model.v. *)
From Verif Require Import Lib.Base Mkvs.Trie Mkvs.TrieProofs Mkvs.HashProofs
  Ckpt.Model Ckpt.Proofs Ckpt.ParProofs Ckpt.RestoreProofs Ckpt.Examples Ckpt.Main.

(* sequential chunker: the key runs visited by the chunks, concatenated, are
   exactly the contents in order (no key twice, none missing) *)
Theorem chunks_cover_seq : forall size t, concat (seq_runs size t) = contents t.
Proof. exact seq_runs_concat. Qed.
Print Assumptions chunks_cover_seq.

(* both chunkers, all thread counts: a chunk carries only pairs of the tree,
   and every pair of the tree is carried by some chunk *)
Theorem chunks_cover : forall H size threads t, wf t ->
  (forall c, In c (chunks H size threads t) -> incl (pleaves c) (contents t)) /\
  (forall e, In e (contents t) -> exists c, In c (chunks H size threads t) /\ In e (pleaves c)).
Proof. exact Main.chunks_cover_l. Qed.
Print Assumptions chunks_cover.

(* every chunk recomputes to the checkpoint root, and is accepted by the
   verifier when the tree is at most 128 internal nodes deep *)
Theorem chunks_verify : forall H size threads t c,
  In c (chunks H size threads t) ->
  phash H c = root_hash H t /\
  (tdepth t <= MAX_PROOF_DEPTH -> verify H (root_hash H t) c = true)%nat.
Proof. exact Main.chunks_verify_l. Qed.
Print Assumptions chunks_verify.

(* the depth hypothesis cannot be dropped: a well-formed tree of 130 keys whose
   own checkpoint chunk the verifier (proof.go:349, depth > 128) rejects *)
Theorem chunks_verify_without_depth_bound_refuted :
  exists es, Forall (fun e => valid_bytes (fst e)) es /\ wf (build es) /\
    forall H size, exists c, In c (chunks H size 0 (build es)) /\
                             verify H (root_hash H (build es)) c = false.
Proof. exact deep_tree_chunk_rejected. Qed.
Print Assumptions chunks_verify_without_depth_bound_refuted.

(* restoring the chunks in any order, each any number of times (every
   permutation, duplicates, re-deliveries after a restart), yields exactly the
   contents; the restored tree is the checkpointed tree, with the same root *)
Theorem restore_any_order : forall H size threads t l,
  wf t ->
  (forall c, In c l -> In c (chunks H size threads t)) ->
  (forall c, In c (chunks H size threads t) -> In c l) ->
  fold_left (fun s c => import c s) l [] = contents t /\
  forall t', wf t' -> contents t' = fold_left (fun s c => import c s) l [] ->
             t' = t /\ root_hash H t' = root_hash H t.
Proof. exact Main.restore_any_order_l. Qed.
Print Assumptions restore_any_order.

(* the chunk list (hence the metadata) is a function of the contents, the
   chunk size and the thread count only: not of the insertion history *)
Theorem metadata_deterministic : forall H size threads t1 t2,
  wf t1 -> wf t2 -> contents t1 = contents t2 ->
  chunks H size threads t1 = chunks H size threads t2.
Proof. exact metadata_deterministic_l. Qed.
Print Assumptions metadata_deterministic.

(* termination and progress: the lock-step rounds of the parallel chunker end
   within the fuel for every tree, chunk size and thread count; the sequential
   chunker visits at least one new key per chunk, so it produces at most as
   many chunks as keys (one empty chunk for the empty tree) *)
Theorem chunk_nonempty_progress : forall size threads t,
  snd (par_runs size threads t) = [] /\
  (contents t = [] -> seq_runs size t = [[]]) /\
  (contents t <> [] ->
     Forall (fun r => r <> []) (seq_runs size t) /\
     (length (seq_runs size t) <= length (contents t))%nat).
Proof. exact Main.chunk_nonempty_progress_l. Qed.
Print Assumptions chunk_nonempty_progress.

(* a chunk file whose digest differs from the metadata is refused before
   anything else and nothing is imported; any refused chunk leaves the store
   untouched *)
Theorem bad_chunk_rejected : forall H Hd decode root digest b st,
  (Hd b <> digest -> restore_chunk H Hd decode root digest b st = (RCorrupted, st)) /\
  (fst (restore_chunk H Hd decode root digest b st) <> ROk ->
   snd (restore_chunk H Hd decode root digest b st) = st).
Proof. exact Main.bad_chunk_rejected_l. Qed.
Print Assumptions bad_chunk_rejected.

(* an ACCEPTED chunk is the genuine file (or the digest function collides) and
   makes visible only pairs of the checkpointed tree (or the node hash
   collides): nothing of a chunk of another tree can become visible *)
Theorem accepted_chunk_is_genuine : forall H Hd decode hlen,
  (forall x, length (H x) = hlen) ->
  (forall b p, decode b = Some p -> pbounded hlen p) ->
  forall t digest good b st,
  bounded t -> digest = Hd good ->
  fst (restore_chunk H Hd decode (root_hash H t) digest b st) = ROk ->
  (b = good \/ collision Hd) /\
  ((forall e, In e (snd (restore_chunk H Hd decode (root_hash H t) digest b st)) ->
              In e st \/ In e (contents t)) \/ collision H).
Proof. exact Main.accepted_chunk_is_genuine_l. Qed.
Print Assumptions accepted_chunk_is_genuine.

(* any proof that recomputes to the root carries only pairs of the tree *)
Theorem verified_proof_sound : forall H hlen, (forall x, length (H x) = hlen) ->
  forall p t, pbounded hlen p -> bounded t -> phash H p = root_hash H t ->
  incl (pleaves p) (contents t) \/ collision H.
Proof. exact Main.verified_proof_sound_l. Qed.
Print Assumptions verified_proof_sound.

(* restorer, over every sequence of starts, aborts, good, corrupt and duplicate
   deliveries: a RestoreChunk call that ends the restore (done = true) is the
   call that imports the last outstanding chunk; every other chunk index has
   had a successful import since the restore was started.  (In the model one
   RestoreChunk is one atomic step; the interleaving of concurrent calls is
   exercised by the harness with a blocking reader.) *)
Theorem done_only_after_every_import : forall H Hd decode root digests st0 evs i b s',
  let g := grun H Hd decode root digests st0 evs in
  rstep H Hd decode root digests (fst g) (EChunk i b) = (s', ROk) ->
  active (fst g) = true -> active s' = false ->
  forall j, (j < length digests)%nat -> j = i \/ In j (snd g).
Proof. exact done_only_after_every_import_l. Qed.
Print Assumptions done_only_after_every_import.
