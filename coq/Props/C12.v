(* C12 — Checkpoints restore to exactly the checkpointed state.
   Only statements; proofs are in Ckpt/*.v.  Model: Ckpt/Model.v. *)
From Verif Require Import Lib.Base Mkvs.Trie Mkvs.TrieProofs Mkvs.HashProofs
  Ckpt.Model Ckpt.Proofs Ckpt.ParProofs Ckpt.RestoreProofs Ckpt.Examples Ckpt.Main Ckpt.Stack Ckpt.StackProofs Ckpt.EstProofs Ckpt.StackSim Ckpt.Frame Ckpt.Files Ckpt.Fault Gen.CkptConsts.
From Coq Require Import Permutation.

(* sequential chunker: the key runs visited by the chunks, concatenated, are
   exactly the contents in order (no key twice, none missing) *)
Theorem chunks_cover_seq : forall size t, concat (seq_runs size t) = contents t.
Proof. exact seq_runs_concat. Qed.
Print Assumptions chunks_cover_seq.

(* both chunkers, all thread counts: a chunk carries only pairs of the tree,
   and every pair of the tree is carried by some chunk *)
Theorem chunks_cover : forall H size threads t, wf t ->
  (forall c, In c (chunks H size threads t) -> incl (pleaves c) (contents t)) /\
  (forall e, In e (contents t) -> exists c, In c (chunks H size threads t) /\ In e (pleaves c)).
Proof. exact Main.chunks_cover_l. Qed.
Print Assumptions chunks_cover.

(* every chunk recomputes to the checkpoint root, and is accepted by the
   verifier when the tree is at most 128 internal nodes deep *)
Theorem chunks_verify : forall H size threads t c,
  In c (chunks H size threads t) ->
  phash H c = root_hash H t /\
  (tdepth t <= MAX_PROOF_DEPTH -> verify H (root_hash H t) c = true)%nat.
Proof. exact Main.chunks_verify_l. Qed.
Print Assumptions chunks_verify.

(* the depth hypothesis cannot be dropped: a well-formed tree of 130 keys whose
   own checkpoint chunk the verifier (proof.go:349, depth > 128) rejects *)
Theorem chunks_verify_without_depth_bound_refuted :
  exists es, Forall (fun e => valid_bytes (fst e)) es /\ wf (build es) /\
    forall H size, exists c, In c (chunks H size 0 (build es)) /\
                             verify H (root_hash H (build es)) c = false.
Proof. exact deep_tree_chunk_rejected. Qed.
Print Assumptions chunks_verify_without_depth_bound_refuted.

(* restoring the chunks in any order, each any number of times (every
   permutation, duplicates, re-deliveries after a restart), yields exactly the
   contents; the restored tree is the checkpointed tree, with the same root *)
Theorem restore_any_order : forall H size threads t l,
  wf t ->
  (forall c, In c l -> In c (chunks H size threads t)) ->
  (forall c, In c (chunks H size threads t) -> In c l) ->
  fold_left (fun s c => import c s) l [] = contents t /\
  forall t', wf t' -> contents t' = fold_left (fun s c => import c s) l [] ->
             t' = t /\ root_hash H t' = root_hash H t.
Proof. exact Main.restore_any_order_l. Qed.
Print Assumptions restore_any_order.

(* the chunk list (hence the metadata) is a function of the contents, the
   chunk size and the thread count only: not of the insertion history *)
Theorem metadata_deterministic : forall H size threads t1 t2,
  wf t1 -> wf t2 -> contents t1 = contents t2 ->
  chunks H size threads t1 = chunks H size threads t2.
Proof. exact metadata_deterministic_l. Qed.
Print Assumptions metadata_deterministic.

(* termination and progress: the lock-step rounds of the parallel chunker end
   within the fuel for every tree, chunk size and thread count; the sequential
   chunker visits at least one new key per chunk, so it produces at most as
   many chunks as keys (one empty chunk for the empty tree) *)
Theorem chunk_nonempty_progress : forall size threads t,
  snd (par_runs size threads t) = [] /\
  (contents t = [] -> seq_runs size t = [[]]) /\
  (contents t <> [] ->
     Forall (fun r => r <> []) (seq_runs size t) /\
     (length (seq_runs size t) <= length (contents t))%nat).
Proof. exact Main.chunk_nonempty_progress_l. Qed.
Print Assumptions chunk_nonempty_progress.

(* a chunk file whose digest differs from the metadata is refused before
   anything else and nothing is imported; any refused chunk leaves the store
   untouched *)
Theorem bad_chunk_rejected : forall H Hd decode root digest b st,
  (Hd b <> digest -> restore_chunk H Hd decode root digest b st = (RCorrupted, st)) /\
  (fst (restore_chunk H Hd decode root digest b st) <> ROk ->
   snd (restore_chunk H Hd decode root digest b st) = st).
Proof. exact Main.bad_chunk_rejected_l. Qed.
Print Assumptions bad_chunk_rejected.

(* an ACCEPTED chunk is the genuine file (or the digest function collides) and
   makes visible only pairs of the checkpointed tree (or the node hash
   collides): nothing of a chunk of another tree can become visible *)
Theorem accepted_chunk_is_genuine : forall H Hd decode hlen,
  (forall x, length (H x) = hlen) ->
  (forall b p, decode b = Some p -> pbounded hlen p) ->
  forall t digest good b st,
  bounded t -> digest = Hd good ->
  fst (restore_chunk H Hd decode (root_hash H t) digest b st) = ROk ->
  (b = good \/ collision Hd) /\
  ((forall e, In e (snd (restore_chunk H Hd decode (root_hash H t) digest b st)) ->
              In e st \/ In e (contents t)) \/ collision H).
Proof. exact Main.accepted_chunk_is_genuine_l. Qed.
Print Assumptions accepted_chunk_is_genuine.

(* any proof that recomputes to the root carries only pairs of the tree *)
Theorem verified_proof_sound : forall H hlen, (forall x, length (H x) = hlen) ->
  forall p t, pbounded hlen p -> bounded t -> phash H p = root_hash H t ->
  incl (pleaves p) (contents t) \/ collision H.
Proof. exact Main.verified_proof_sound_l. Qed.
Print Assumptions verified_proof_sound.

(* restorer, over every sequence of starts, aborts, good, corrupt and duplicate
   deliveries: a RestoreChunk call that ends the restore (done = true) is the
   call that imports the last outstanding chunk; every other chunk index has
   had a successful import since the restore was started.  (In the model one
   RestoreChunk is one atomic step; the interleaving of concurrent calls is
   exercised by the harness with a blocking reader.) *)
Theorem done_only_after_every_import : forall H Hd decode root digests st0 evs i b s',
  let g := grun H Hd decode root digests st0 evs in
  rstep H Hd decode root digests (fst g) (EChunk i b) = (s', ROk) ->
  active (fst g) = true -> active s' = false ->
  forall j, (j < length digests)%nat -> j = i \/ In j (snd g).
Proof. exact done_only_after_every_import_l. Qed.
Print Assumptions done_only_after_every_import.

(* G: the constants read from the source are the ones the statements were
   written for (depth limit 128 with a strict comparison, 10 split iterations,
   the sequential chunker continues while Size() < chunkSize, V0 proofs, node
   prefixes and the widths of the length fields that enter the size estimate) *)
Theorem gen_consts_expected :
  max_proof_depth = 128 /\ proof_depth_guard_is_gt = true /\ split_iters = 10 /\
  seq_continue_is_lt = true /\ par_break_is_ge_and_lastleaf = true /\
  seq_err_checked_after_loop = true /\ seq_err_checked_after_peek = true /\ chunk_proof_version = 0 /\
  (prefix_leaf, prefix_internal, prefix_nil) = (0, 1, 2) /\ depth_size = 2 /\ value_length_size = 4.
Proof. exact Main.gen_consts_expected_l. Qed.
Print Assumptions gen_consts_expected.

(* every chunk of the parallel chunker visits at least one key *)
Theorem par_runs_nonempty : forall size threads t,
  wf t -> t <> Nil -> Forall (fun r => r <> []) (fst (par_runs size threads t)).
Proof. exact Main.par_runs_nonempty_l. Qed.
Print Assumptions par_runs_nonempty.

(* createChunks runs the tasks of a lock-step round concurrently: in whatever
   order they run (any permutation of the slots) every slot gets the same
   chunk and the same successor task *)
Theorem round_order_irrelevant : forall size sched ts,
  Permutation sched (seq 0 (length ts)) ->
  round_sched size sched ts = (map (advance size) ts, map (task_run size) ts).
Proof. exact round_order_irrelevant_l. Qed.
Print Assumptions round_order_irrelevant.

(* whole restore histories: for ANY sequence of StartRestore / AbortRestore /
   RestoreChunk events (genuine, corrupt, duplicate, out-of-order deliveries,
   aborted and restarted restores) into an empty database, with the metadata
   of the checkpoint of a well-formed tree: what is visible is always part of
   the checkpointed contents, and the delivery that ends the restore (done)
   leaves exactly the checkpointed contents -- or the digest function collides *)
Theorem restore_history_exact : forall H Hd decode enc,
  (forall c, decode (enc c) = Some c) ->
  forall size threads t, wf t -> forall evs,
  let cs := chunks H size threads t in
  let digests := map (fun c => Hd (enc c)) cs in
  let s := rrun H Hd decode (root_hash H t) digests (mkr false [] []) evs in
  (incl (db s) (contents t) /\
   forall i b s', rstep H Hd decode (root_hash H t) digests s (EChunk i b) = (s', ROk) ->
                  active s' = false -> db s' = contents t \/ collision Hd)
  \/ collision Hd.
Proof. exact restore_history_exact_l. Qed.
Print Assumptions restore_history_exact.

(* second model layer: the port of the parallel chunker's subtree{path,pending}
   stack machine with the proof builder's included set and size estimate
   (Ckpt/Stack.v: nextChunk incl. the break rule and trim, split, splitTasks
   with its iteration bound and early return, lock-step rounds, hasNext)
   REFINES the count abstraction, for every well-formed non-empty tree, chunk
   size and thread count: it terminates within its fuel, every chunk it emits
   (the proof built from the included set) is the chunk of the count model and
   the leaves it visits are the model's runs.  The representation relation
   (pending stack after trim = the canonical chain of partially visited
   ancestors of the next key; path = chain of ancestors of the subtree root)
   and the three one-step facts are in Ckpt/StackSim.v. *)
Theorem par_stack_refines_count : forall H t, wf t -> forall size threads, t <> Nil ->
  exists res,
    s_par H size threads t = Some (res, []) /\
    map snd res = fst (par_runs size threads t) /\
    map fst res = par_chunks H size threads t.
Proof. exact par_stack_refines_count_l. Qed.
Print Assumptions par_stack_refines_count.

(* ... hence chunks_cover, chunks_verify, restore_any_order,
   restore_history_exact and metadata_deterministic are statements about the
   chunk list of the ported stack machine *)
Theorem stack_port_chunks : forall H t, wf t -> forall size n, t <> Nil ->
  exists res, s_par H size (S n) t = Some (res, []) /\ map fst res = chunks H size (S n) t.
Proof. exact Main.stack_port_chunks_l. Qed.
Print Assumptions stack_port_chunks.

(* the size estimate.  (a) the proof builder port: after any sequence of
   Include calls the estimate is the sum of 1 + len(serialized) over the
   distinct included nodes (an inline leaf that was also visited is counted
   twice: Example double_count_of_inline_leaf in Ckpt/EstProofs.v) *)
Theorem proof_builder_size_is_sum : forall ns,
  let pb := fold_left (fun pb n => include n pb) ns (mkpb [] 0) in
  NoDup (inc pb) /\ psize pb = nsize_sum (inc pb) /\
  forall m, In m (inc pb) <-> (In m ns /\ m <> Nil).
Proof. exact pb_size_is_sum_l. Qed.
Print Assumptions proof_builder_size_is_sum.

(* (b) the boundary rule of one chunk over the remaining keys [l] (both
   chunkers): before its last key the estimate was below the chunk size, and
   unless the keys ran out the estimate has reached the chunk size *)
Theorem chunk_boundary_rule : forall size l,
  let n := length (next_run size l) in
  ((2 <= n)%nat -> run_est (firstn (n - 1) l) < size) /\
  ((n < length l)%nat -> size <= run_est (firstn n l)) /\
  (l <> [] -> (1 <= n)%nat).
Proof. exact next_run_bound_l. Qed.
Print Assumptions chunk_boundary_rule.

(* (c) the bound the chunker relies on: the estimate of a chunk is below
   chunk size + the cost of the root-to-leaf path of its last key; a one-key
   chunk costs exactly that path *)
Theorem chunk_size_bound : forall size A s d,
  let l := skipn d (annot A s) in
  let n := length (next_run size l) in
  forall a, nth_error l (n - 1) = Some a -> (1 <= n)%nat ->
  (n = 1%nat -> run_est (firstn n l) = afull a) /\
  ((2 <= n)%nat -> run_est (firstn n l) < size + afull a).
Proof. exact chunk_size_bound_l. Qed.
Print Assumptions chunk_size_bound.

(* (d) the sequential chunker is the same rule iterated with a fresh builder *)
Theorem seq_is_iterated_next_run : forall size t,
  contents t <> [] -> seq_runs size t = iter_runs (length (contents t)) size (annot 0 t).
Proof. exact seq_runs_iter_l. Qed.
Print Assumptions seq_is_iterated_next_run.

(* ---- round 3 ---- *)

(* (1) the ported stack machine of the parallel chunker, for EVERY well-formed
   tree (the empty one included), every chunk size and every thread count >= 1:
   it terminates; every chunk it emits recomputes to the root and carries only
   pairs of the tree; every pair of the tree is carried by some chunk; the keys
   it visits are pairwise distinct pairs of the tree (no key is visited twice)
   and every chunk visits them in key order; and restoring its chunks in any
   order, each any number of times, gives exactly the contents *)
Theorem stack_create_restore_exact : forall H t size n, wf t ->
  exists res, s_par H size (S n) t = Some (res, []) /\
    (forall c, In c (map fst res) -> phash H c = root_hash H t /\ incl (pleaves c) (contents t)) /\
    (forall e, In e (contents t) -> exists c, In c (map fst res) /\ In e (pleaves c)) /\
    NoDup (concat (map snd res)) /\ Forall sorted (map snd res) /\
    incl (concat (map snd res)) (contents t) /\
    (forall l, (forall c, In c l -> In c (map fst res)) -> (forall c, In c (map fst res) -> In c l) ->
               fold_left (fun s c => import c s) l [] = contents t).
Proof. exact Main.stack_create_restore_exact_l. Qed.
Print Assumptions stack_create_restore_exact.

Theorem par_runs_disjoint : forall size threads t, wf t ->
  NoDup (concat (fst (par_runs size threads t))) /\
  incl (concat (fst (par_runs size threads t))) (contents t) /\
  Forall sorted (fst (par_runs size threads t)).
Proof. exact Main.par_runs_disjoint_sorted_l. Qed.
Print Assumptions par_runs_disjoint.

(* (2) restorer bookkeeping.  A call answered with ErrChunkCorrupted,
   ErrChunkAlreadyRestored, ErrNoRestoreInProgress or
   ErrRestoreAlreadyInProgress changes neither the restorer nor the database *)
Theorem rejected_delivery_is_noop : forall H Hd decode root digests s e,
  rejected (snd (rstep H Hd decode root digests s e)) -> fst (rstep H Hd decode root digests s e) = s.
Proof. exact rejected_is_noop_l. Qed.
Print Assumptions rejected_delivery_is_noop.

(* a failed proof verification aborts the restorer and imports nothing *)
Theorem proof_failure_aborts : forall H Hd decode root digests s i b,
  snd (rstep H Hd decode root digests s (EChunk i b)) = RProofFail ->
  fst (rstep H Hd decode root digests s (EChunk i b)) = mkr false [] (db s).
Proof. exact proof_failure_aborts_l. Qed.
Print Assumptions proof_failure_aborts.

(* a history with a rejected delivery removed ends in the same state: a
   corrupt chunk never changes what the final state is *)
Theorem history_without_rejected : forall H Hd decode root digests s e1 e e2,
  rejected (snd (rstep H Hd decode root digests (rrun H Hd decode root digests s e1) e)) ->
  rrun H Hd decode root digests s (e1 ++ e :: e2) = rrun H Hd decode root digests s (e1 ++ e2).
Proof. exact history_without_rejected_l. Qed.
Print Assumptions history_without_rejected.

(* any history that ends with done, then Finalize with the checkpoint's root:
   exactly the checkpointed contents; Finalize with another root fails *)
Theorem finalize_after_done_exact : forall H Hd decode enc,
  (forall c, decode (enc c) = Some c) ->
  forall size threads t, wf t -> forall evs,
  let cs := chunks H size threads t in
  let digests := map (fun c => Hd (enc c)) cs in
  let s := rrun H Hd decode (root_hash H t) digests (mkr false [] []) evs in
  forall i b s', rstep H Hd decode (root_hash H t) digests s (EChunk i b) = (s', ROk) ->
                 active s' = false ->
                 rfinalize (root_hash H t) (root_hash H t) s' = Some (contents t) \/ collision Hd.
Proof. exact Main.finalize_after_done_exact_l. Qed.
Print Assumptions finalize_after_done_exact.

Theorem finalize_root_mismatch : forall root r s, r <> root -> rfinalize root r s = None.
Proof. exact finalize_root_mismatch_l. Qed.
Print Assumptions finalize_root_mismatch.

(* (3) framing.  A chunk file whose bytes differ from the created ones is
   refused by the digest check before anything is decoded, verified or
   written, unless the digest function collides on the two files *)
Theorem altered_chunk_rejected : forall H Hd decode root good b st,
  b <> good ->
  restore_chunk H Hd decode root (Hd good) b st = (RCorrupted, st) \/ collision Hd.
Proof. exact altered_chunk_rejected_l. Qed.
Print Assumptions altered_chunk_rejected.

(* the CBOR stream layer: what writeChunk frames parses back to exactly the
   entries written (byte strings shorter than 2^64, nulls) *)
Theorem unframe_frame : forall es fuel,
  (length es < fuel)%nat ->
  Forall (fun e => match e with Some b => N.of_nat (length b) < 2 ^ 64 | None => True end) es ->
  unframe fuel (frame es) = Some es.
Proof. exact unframe_frame_l. Qed.
Print Assumptions unframe_frame.

(* a created chunk file (snappy abstract: any pair with unsnap (snap x) = Some x)
   reads back to exactly the proof entries of its chunk *)
Theorem chunk_file_roundtrip : forall snap unsnap, (forall x, unsnap (snap x) = Some x) ->
  forall p, entries_bounded (entries_of p) -> file_entries unsnap (chunk_file snap p) = Some (entries_of p).
Proof. exact file_roundtrip_l. Qed.
Print Assumptions chunk_file_roundtrip.

(* the size estimate counts exactly the bytes of the full proof entries *)
Theorem entry_sizes_are_costs : forall lbl lf k v,
  N.of_nat (length (1 :: leaf_bin k v)) = leaf_cost k v /\
  N.of_nat (length (1 :: node_bin lbl lf)) = node_cost lbl lf.
Proof. exact Main.entry_sizes_are_costs_l. Qed.
Print Assumptions entry_sizes_are_costs.

(* ---- chunk files in a directory that is not empty ---- *)
(* the files of a checkpoint directory as a map index -> bytes; the creator
   opens every chunk file with create-or-truncate (file.go:236 os.Create).
   Whatever the directory held before (leftovers of an interrupted creation or
   deletion for the same root, with other chunk sizes / thread counts, longer
   or shorter files): what GetCheckpointChunk serves for an index is exactly
   what the creator wrote for it *)
Theorem served_chunk_is_written_chunk : forall files fs0 i0 k,
  (k < length files)%nat ->
  serve (write_chunks fcreate i0 files fs0) (i0 + N.of_nat k) = nth_error files k.
Proof. exact served_is_written_l. Qed.
Print Assumptions served_chunk_is_written_chunk.

(* with overwrite-in-place (no truncation) the statement is false: a stale
   longer file keeps its tail *)
Theorem served_chunk_is_written_chunk_without_truncate_refuted :
  exists fs0 files k, (k < length files)%nat /\
    serve (write_chunks foverwrite 0 files fs0) (N.of_nat k) <> nth_error files k.
Proof. exact overwrite_in_place_refuted. Qed.
Print Assumptions served_chunk_is_written_chunk_without_truncate_refuted.

(* ---- read errors during creation (the sequential chunker) ---- *)
(* the walk over a node database whose reads can fail: [ok j] = the reads that
   reach key number j succeed.  THE CODE (whether it looks at it.Err() after
   the loop and after the peek of the next offset is read from the source by
   the generator): a creation that reports success produced exactly the
   fault-free chunks, which cover the tree *)
Theorem create_success_covers : forall ok size t runs,
  seq_create_code ok size t = Some runs -> runs = seq_runs size t /\ concat runs = contents t.
Proof. exact create_success_covers_code_l. Qed.
Print Assumptions create_success_covers.

(* both checks are needed.  Without the check after the peek (the defect
   repaired by 1164f42) ... *)
Theorem create_success_covers_without_peek_check_refuted :
  exists ok size t runs, wf t /\ seq_create true false ok size t = Some runs /\ concat runs <> contents t.
Proof. exact create_success_covers_without_peek_check_refuted_l. Qed.
Print Assumptions create_success_covers_without_peek_check_refuted.

(* ... and without the check after the loop *)
Theorem create_success_covers_without_loop_check_refuted :
  exists ok size t runs, wf t /\ seq_create false false ok size t = Some runs /\ concat runs <> contents t.
Proof. exact create_success_covers_without_loop_check_refuted_l. Qed.
Print Assumptions create_success_covers_without_loop_check_refuted.

(* what every variant guarantees on success: a prefix of the keys, in order;
   and without faults every variant is the chunker of the model *)
Theorem create_success_prefix : forall c1 c2 ok size t runs,
  seq_create c1 c2 ok size t = Some runs -> exists rest, contents t = concat runs ++ rest.
Proof. exact create_success_prefix_l. Qed.
Print Assumptions create_success_prefix.

Theorem create_no_fault : forall c1 c2 size t,
  seq_create c1 c2 (fun _ => true) size t = Some (seq_runs size t).
Proof. exact create_no_fault_l. Qed.
Print Assumptions create_no_fault.

(* ---- the two failure layers of restoreChunk ---- *)
(* layer 1 is altered_chunk_rejected: bytes that do not match the manifest
   digest => ErrChunkCorrupted (damage in transit: fetch again and retry).
   Layer 2: bytes that MATCH the manifest digest are never answered with the
   retryable error ... *)
Theorem digest_match_never_corrupted : forall H Hd decode root digest b st,
  Hd b = digest -> fst (restore_chunk H Hd decode root digest b st) <> RCorrupted.
Proof. exact digest_match_never_corrupted_l. Qed.
Print Assumptions digest_match_never_corrupted.

(* ... if they do not decode (broken snappy framing at the start or part-way,
   no CBOR) or decode to something that does not verify against the root, the
   answer is the proof failure, nothing is written ... *)
Theorem matching_undecodable_is_proof_failure : forall H Hd decode root digest b st,
  Hd b = digest ->
  (decode b = None \/ exists p, decode b = Some p /\ verify H root p = false) ->
  restore_chunk H Hd decode root digest b st = (RProofFail, st).
Proof. exact matching_undecodable_is_proof_failure_l. Qed.
Print Assumptions matching_undecodable_is_proof_failure.

(* ... and the restorer abandons the checkpoint: the manifest is bad, the
   caller must not fetch the same bytes again *)
Theorem matching_undecodable_aborts : forall H Hd decode root digests s i b,
  active s = true -> existsb (Nat.eqb i) (pend s) = true -> nth_error digests i = Some (Hd b) ->
  (decode b = None \/ exists p, decode b = Some p /\ verify H root p = false) ->
  rstep H Hd decode root digests s (EChunk i b) = (mkr false [] (db s), RProofFail).
Proof. exact matching_undecodable_aborts_l. Qed.
Print Assumptions matching_undecodable_aborts.
