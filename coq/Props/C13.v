From Verif Require Import Lib.Base WriteLog.Model WriteLog.MapFacts WriteLog.Proofs WriteLog.ProofsApply WriteLog.PathLog WriteLog.PathLogProofs WriteLog.PathStore WriteLog.PathStoreProofs WriteLog.LogCodec WriteLog.LogCodecProofs.
From Coq Require Import Permutation.

(* The write log built at commit, applied to the old contents, gives exactly
   the new contents -- for every (sorted) old contents and every batch.
   Bridge to roots: Mkvs [root_depends_only_on_contents]. *)
Theorem writelog_correct : forall (old : kvmap) (ops : list op),
  sorted old ->
  apply_writelog old (commit_writelog (run_batch old ops)) = contents (run_batch old ops).
Proof. exact writelog_correct_lem. Qed.
Print Assumptions writelog_correct.

(* the same binding by binding, without the sortedness premise *)
Theorem writelog_correct_bindings : forall (old : kvmap) (ops : list op) (k : bytes),
  get k (apply_writelog old (commit_writelog (run_batch old ops))) =
  get k (contents (run_batch old ops)).
Proof. exact writelog_correct_ext. Qed.
Print Assumptions writelog_correct_bindings.

Theorem writelog_keys_nodup : forall (old : kvmap) (ops : list op),
  NoDup (map fst (commit_writelog (run_batch old ops))).
Proof. exact writelog_keys_nodup_lem. Qed.
Print Assumptions writelog_keys_nodup.

Theorem writelog_minimal : forall (old : kvmap) (ops : list op) (k : bytes),
  get k old = None -> get k (contents (run_batch old ops)) = None ->
  ~ In k (map fst (commit_writelog (run_batch old ops))).
Proof. exact writelog_minimal_lem. Qed.
Print Assumptions writelog_minimal.

Theorem writelog_entries_sound : forall (old : kvmap) (ops : list op) (k : bytes) (x : option bytes),
  In (k, x) (commit_writelog (run_batch old ops)) ->
  get k (contents (run_batch old ops)) = x /\ (x = None -> get k old <> None).
Proof. exact writelog_entries_sound_lem. Qed.
Print Assumptions writelog_entries_sound.

Theorem writelog_complete : forall (old : kvmap) (ops : list op) (k : bytes),
  get k (contents (run_batch old ops)) <> get k old ->
  In k (map fst (commit_writelog (run_batch old ops))).
Proof. exact writelog_complete_lem. Qed.
Print Assumptions writelog_complete.

(* forks: whichever candidate root of a version is asked for, on either
   backend, before or after finalization, a served log is correct *)
Theorem served_fork_log_correct :
  forall (old : kvmap) (ops : list op) (b : backend) (seq : N) (f : fstate) (wl' : writelog),
  sorted old ->
  serve b seq f (commit_writelog (run_batch old ops)) = Some wl' ->
  apply_writelog old wl' = contents (run_batch old ops).
Proof. exact served_fork_log_correct_lem. Qed.
Print Assumptions served_fork_log_correct.

(* multi-hop answers: the concatenation of the hop logs, oldest hop first *)
Theorem multi_hop_log_correct : forall (path : list (list op)) (old : kvmap),
  sorted old -> apply_writelog old (path_log old path) = run_path old path.
Proof. exact multi_hop_log_correct_lem. Qed.
Print Assumptions multi_hop_log_correct.

(* ApplyWriteLog's pending-log bookkeeping does not change what is applied *)
Theorem apply_writelog_is_fold : forall (old : kvmap) (wl : writelog),
  apply_writelog old wl = fold_left apply_entry wl old.
Proof. exact apply_writelog_simple. Qed.
Print Assumptions apply_writelog_is_fold.

Theorem apply_order_irrelevant : forall (old : kvmap) (wl wl' : writelog),
  sorted old -> NoDup (map fst wl) -> Permutation wl wl' ->
  apply_writelog old wl = apply_writelog old wl'.
Proof. exact apply_order_irrelevant_lem. Qed.
Print Assumptions apply_order_irrelevant.

Theorem revive_roundtrip : forall (old : kvmap) (ops : list op),
  revive (contents (run_batch old ops)) (make_hashed (commit_writelog (run_batch old ops)))
  = Some (commit_writelog (run_batch old ops)).
Proof. exact revive_roundtrip_lem. Qed.
Print Assumptions revive_roundtrip.

(* ---- Apply with a known root; root_of arbitrary, digest equality decidable ---- *)
Theorem apply_known_root :
  forall (digest : Type) (digest_eqb : digest -> digest -> bool),
  (forall a b, digest_eqb a b = true <-> a = b) ->
  forall (root_of : kvmap -> digest) (strict : bool) (fin : option N) (d : db digest) (src dst : root digest) (wl : writelog) (old : kvmap),
  follows digest dst src = true ->
  has_root digest digest_eqb root_of d dst = false ->
  open_root digest digest_eqb root_of d src = Some old ->
  is_finalized fin (r_version dst) = false ->
  (snd (apply digest digest_eqb root_of strict fin d src dst wl) = AOk <->
   root_of (apply_writelog old wl) = r_hash dst).
Proof. exact apply_known_root_lem. Qed.
Print Assumptions apply_known_root.

Theorem apply_error_unchanged :
  forall (digest : Type) (digest_eqb : digest -> digest -> bool),
  (forall a b, digest_eqb a b = true <-> a = b) ->
  forall (root_of : kvmap -> digest) (strict : bool) (fin : option N) (d : db digest) (src dst : root digest) (wl : writelog),
  snd (apply digest digest_eqb root_of strict fin d src dst wl) <> AOk ->
  fst (apply digest digest_eqb root_of strict fin d src dst wl) = d.
Proof. exact apply_error_unchanged_lem. Qed.
Print Assumptions apply_error_unchanged.

Theorem apply_rejected_no_root :
  forall (digest : Type) (digest_eqb : digest -> digest -> bool),
  (forall a b, digest_eqb a b = true <-> a = b) ->
  forall (root_of : kvmap -> digest) (strict : bool) (fin : option N) (d : db digest) (src dst : root digest) (wl : writelog),
  snd (apply digest digest_eqb root_of strict fin d src dst wl) = AMismatch \/
  snd (apply digest digest_eqb root_of strict fin d src dst wl) = AOther ->
  fst (apply digest digest_eqb root_of strict fin d src dst wl) = d /\
  has_root digest digest_eqb root_of (fst (apply digest digest_eqb root_of strict fin d src dst wl)) dst = false.
Proof. exact apply_rejected_no_root_lem. Qed.
Print Assumptions apply_rejected_no_root.

Theorem apply_ok_persisted :
  forall (digest : Type) (digest_eqb : digest -> digest -> bool),
  (forall a b, digest_eqb a b = true <-> a = b) ->
  forall (root_of : kvmap -> digest) (strict : bool) (fin : option N) (d : db digest) (src dst : root digest) (wl : writelog),
  snd (apply digest digest_eqb root_of strict fin d src dst wl) = AOk ->
  has_root digest digest_eqb root_of (fst (apply digest digest_eqb root_of strict fin d src dst wl)) dst = true /\
  (fst (apply digest digest_eqb root_of strict fin d src dst wl) = d \/
   exists old, open_root digest digest_eqb root_of d src = Some old /\
     fst (apply digest digest_eqb root_of strict fin d src dst wl) = d ++ [(dst, apply_writelog old wl)] /\
     root_of (apply_writelog old wl) = r_hash dst).
Proof. exact apply_ok_persisted_lem. Qed.
Print Assumptions apply_ok_persisted.

(* over every history of Apply requests: a stored root is the digest of the
   contents stored under it *)
Theorem stored_roots_hash_to_contents :
  forall (digest : Type) (digest_eqb : digest -> digest -> bool),
  (forall a b, digest_eqb a b = true <-> a = b) ->
  forall (root_of : kvmap -> digest) (strict : bool) (reqs : list (request digest)) (r : root digest) (m : kvmap),
  In (r, m) (apply_all digest digest_eqb root_of strict [] reqs) -> root_of m = r_hash r.
Proof. exact stored_roots_hash_to_contents_lem. Qed.
Print Assumptions stored_roots_hash_to_contents.

Theorem corrupted_log_rejected :
  forall (digest : Type) (digest_eqb : digest -> digest -> bool),
  (forall a b, digest_eqb a b = true <-> a = b) ->
  forall (root_of : kvmap -> digest) (strict : bool) (fin : option N) (d : db digest) (src dst : root digest)
         (wl' : writelog) (old new : kvmap),
  follows digest dst src = true ->
  has_root digest digest_eqb root_of d dst = false ->
  open_root digest digest_eqb root_of d src = Some old ->
  r_hash dst = root_of new ->
  apply_writelog old wl' <> new ->
  (snd (apply digest digest_eqb root_of strict fin d src dst wl') = AMismatch /\
   fst (apply digest digest_eqb root_of strict fin d src dst wl') = d /\
   has_root digest digest_eqb root_of (fst (apply digest digest_eqb root_of strict fin d src dst wl')) dst = false)
  \/ (exists x y : kvmap, x <> y /\ root_of x = root_of y).
Proof. exact corrupted_log_rejected_lem. Qed.
Print Assumptions corrupted_log_rejected.

(* end to end in the model: the log of any batch, in any order, takes a
   database holding the first root to the root of the batch's result *)
Theorem sync_reaches_end_root :
  forall (digest : Type) (digest_eqb : digest -> digest -> bool),
  (forall a b, digest_eqb a b = true <-> a = b) ->
  forall (root_of : kvmap -> digest) (strict : bool) (fin : option N) (d : db digest) (src dst : root digest)
         (old : kvmap) (ops : list op) (wl : writelog),
  sorted old ->
  follows digest dst src = true ->
  open_root digest digest_eqb root_of d src = Some old ->
  is_finalized fin (r_version dst) = false ->
  r_hash dst = root_of (contents (run_batch old ops)) ->
  Permutation (commit_writelog (run_batch old ops)) wl ->
  snd (apply digest digest_eqb root_of strict fin d src dst wl) = AOk /\
  has_root digest digest_eqb root_of (fst (apply digest digest_eqb root_of strict fin d src dst wl)) dst = true /\
  (has_root digest digest_eqb root_of d dst = false ->
   fst (apply digest digest_eqb root_of strict fin d src dst wl) = d ++ [(dst, contents (run_batch old ops))]).
Proof. exact sync_reaches_end_root_lem. Qed.
Print Assumptions sync_reaches_end_root.

(* which corruptions are effective *)
Theorem dropped_entry_differs : forall (old : kvmap) (wl1 : writelog) (e : entry) (wl2 : writelog),
  NoDup (map fst (wl1 ++ e :: wl2)) -> get (fst e) old <> snd e ->
  apply_writelog old (wl1 ++ wl2) <> apply_writelog old (wl1 ++ e :: wl2).
Proof. exact dropped_entry_differs_lem. Qed.
Print Assumptions dropped_entry_differs.

Theorem altered_value_differs :
  forall (old : kvmap) (wl1 : writelog) (k : bytes) (x y : option bytes) (wl2 : writelog),
  NoDup (map fst (wl1 ++ (k, x) :: wl2)) -> x <> y ->
  apply_writelog old (wl1 ++ (k, y) :: wl2) <> apply_writelog old (wl1 ++ (k, x) :: wl2).
Proof. exact altered_value_differs_lem. Qed.
Print Assumptions altered_value_differs.

Theorem appended_entry_differs : forall (old : kvmap) (wl : writelog) (k : bytes) (x : option bytes),
  get k (apply_writelog old wl) <> x ->
  apply_writelog old (wl ++ [(k, x)]) <> apply_writelog old wl.
Proof. exact appended_entry_differs_lem. Qed.
Print Assumptions appended_entry_differs.

(* an Apply from a start root the database does not hold fails, nothing is stored *)
Theorem unknown_start_rejected :
  forall (digest : Type) (digest_eqb : digest -> digest -> bool),
  (forall a b, digest_eqb a b = true <-> a = b) ->
  forall (root_of : kvmap -> digest) (strict : bool) (fin : option N) (d : db digest) (src dst : root digest) (wl : writelog),
  follows digest dst src = true ->
  has_root digest digest_eqb root_of d dst = false ->
  open_root digest digest_eqb root_of d src = None ->
  snd (apply digest digest_eqb root_of strict fin d src dst wl) <> AOk /\
  fst (apply digest digest_eqb root_of strict fin d src dst wl) = d.
Proof. exact unknown_start_rejected_lem. Qed.
Print Assumptions unknown_start_rejected.

(* nothing is stored into a version that is already finalized *)
Theorem finalized_version_rejected :
  forall (digest : Type) (digest_eqb : digest -> digest -> bool),
  (forall a b, digest_eqb a b = true <-> a = b) ->
  forall (root_of : kvmap -> digest) (strict : bool) (fin : option N) (d : db digest) (src dst : root digest) (wl : writelog),
  has_root digest digest_eqb root_of d dst = false ->
  is_finalized fin (r_version dst) = true ->
  snd (apply digest digest_eqb root_of strict fin d src dst wl) <> AOk /\
  fst (apply digest digest_eqb root_of strict fin d src dst wl) = d.
Proof. exact finalized_version_rejected_lem. Qed.
Print Assumptions finalized_version_rejected.

(* hashed log revival in any order *)
Theorem revive_perm : forall (new : kvmap) (hl hl' : list hentry),
  Permutation hl hl' -> forall wl, revive new hl = Some wl ->
  exists wl', revive new hl' = Some wl' /\ Permutation wl wl'.
Proof. exact revive_perm_lem. Qed.
Print Assumptions revive_perm.

Theorem revive_any_order_correct : forall (old : kvmap) (ops : list op) (hl' : list hentry),
  sorted old ->
  Permutation (make_hashed (commit_writelog (run_batch old ops))) hl' ->
  exists wl', revive (contents (run_batch old ops)) hl' = Some wl' /\
              Permutation (commit_writelog (run_batch old ops)) wl' /\
              apply_writelog old wl' = contents (run_batch old ops).
Proof. exact revive_any_order_correct_lem. Qed.
Print Assumptions revive_any_order_correct.

(* ---- pathbadger's path-keyed internal write log ---- *)
Theorem pathbadger_log_roundtrip :
  forall (st : nstore) (rootnode : option snode) (endv : N) (al : list aentry),
  (forall k v p, In (k, Some (v, p)) al ->
     exists n, node_at st rootnode endv p = Some n /\ leaf_from_db n = (k, Some v)) ->
  resolve st rootnode endv (make_internal al) = Some (strip al).
Proof. exact pathbadger_log_roundtrip_lem. Qed.
Print Assumptions pathbadger_log_roundtrip.

Theorem pathbadger_served :
  forall (startv : N) (pos_of : bytes -> dbkey) (rootnode : option snode) (endv : N) (old : kvmap) (ops : list op),
  NoDup (map pos_of (map fst (contents (run_batch old ops)))) ->
  Forall (fun k => pos_of k <> (endv, INDEX_ROOT)) (map fst (contents (run_batch old ops))) ->
  (forall k, In k (map fst (commit_writelog (run_batch old ops))) -> ptr_class old ops k = 0) ->
  pb_served startv pos_of rootnode endv old ops = Some (commit_writelog (run_batch old ops)).
Proof. exact pathbadger_served_lem. Qed.
Print Assumptions pathbadger_served.

(* unservable as soon as one inserted leaf carries the invalid pointer (class 1)
   or the root slot of the start version (class 2) *)
Theorem pathbadger_unservable :
  forall (startv : N) (pos_of : bytes -> dbkey) (rootnode : option snode) (endv : N) (old : kvmap) (ops : list op)
         (k v : bytes),
  Forall (fun k => pos_of k <> invalid_ptr /\ pos_of k <> (startv, INDEX_ROOT))
         (map fst (contents (run_batch old ops))) ->
  endv <> VERSION_INVALID -> startv <> endv ->
  In (k, Some v) (commit_writelog (run_batch old ops)) -> ptr_class old ops k <> 0 ->
  pb_served startv pos_of rootnode endv old ops = None.
Proof. exact pathbadger_unservable_lem. Qed.
Print Assumptions pathbadger_unservable.

(* the known finding: "every committed batch's log can be served" is refuted
   by the faithful port (contents {"c","ca"}, batch Insert("c","") unchanged) *)
Theorem pathbadger_log_unservable_refuted :
  exists (pos_of : bytes -> dbkey) (rootnode : option snode) (endv : N) (old : kvmap) (ops : list op),
    sorted old /\
    NoDup (map pos_of (map fst (contents (run_batch old ops)))) /\
    Forall (fun k => pos_of k <> invalid_ptr /\ pos_of k <> (endv, INDEX_ROOT))
           (map fst (contents (run_batch old ops))) /\
    commit_writelog (run_batch old ops) = [([99], Some [])] /\
    apply_writelog old (commit_writelog (run_batch old ops)) = contents (run_batch old ops) /\
    pb_served 2 pos_of rootnode endv old ops = None.
Proof. exact pathbadger_log_unservable_refuted_lem. Qed.
Print Assumptions pathbadger_log_unservable_refuted.

(* ---- the storage worker's diff sync (go/worker/storage/committee/worker.go) ---- *)
(* an accepted sync, whatever the peer answered (duplicates, wrong order,
   deletes of absent keys, inserts equal to existing, anything): the database
   holds the announced root with contents hashing to it -- the announced
   contents, unless root_of collides *)
Theorem sync_root_sound :
  forall (digest : Type) (digest_eqb : digest -> digest -> bool),
  (forall a b, digest_eqb a b = true <-> a = b) ->
  forall (root_of : kvmap -> digest) (strict : bool) (fin : option N) (d : db digest)
         (prev this : root digest) (peer : writelog),
  db_wf digest root_of d ->
  accepted (snd (sync_root digest digest_eqb root_of strict fin d prev this peer)) = true ->
  db_wf digest root_of (fst (sync_root digest digest_eqb root_of strict fin d prev this peer)) /\
  holds_announced digest digest_eqb root_of
    (fst (sync_root digest digest_eqb root_of strict fin d prev this peer)) this.
Proof. exact sync_root_sound_lem. Qed.
Print Assumptions sync_root_sound.

Theorem sync_root_rejected :
  forall (digest : Type) (digest_eqb : digest -> digest -> bool),
  (forall a b, digest_eqb a b = true <-> a = b) ->
  forall (root_of : kvmap -> digest) (strict : bool) (fin : option N) (d : db digest)
         (prev this : root digest) (peer : writelog),
  accepted (snd (sync_root digest digest_eqb root_of strict fin d prev this peer)) = false ->
  fst (sync_root digest digest_eqb root_of strict fin d prev this peer) = d.
Proof. exact sync_root_rejected_lem. Qed.
Print Assumptions sync_root_rejected.

(* retrying over any sequence of peer answers *)
Theorem sync_with_peers_sound :
  forall (digest : Type) (digest_eqb : digest -> digest -> bool),
  (forall a b, digest_eqb a b = true <-> a = b) ->
  forall (root_of : kvmap -> digest) (strict : bool) (fin : option N) (answers : list writelog)
         (d : db digest) (prev this : root digest),
  db_wf digest root_of d ->
  let res := sync_with_peers digest digest_eqb root_of strict fin d prev this answers in
  db_wf digest root_of (fst res) /\
  (snd res = true -> holds_announced digest digest_eqb root_of (fst res) this) /\
  (snd res = false -> fst res = d).
Proof. exact sync_with_peers_sound_lem. Qed.
Print Assumptions sync_with_peers_sound.

Theorem sync_with_peers_live :
  forall (digest : Type) (digest_eqb : digest -> digest -> bool),
  (forall a b, digest_eqb a b = true <-> a = b) ->
  forall (root_of : kvmap -> digest) (strict : bool) (fin : option N) (answers : list writelog)
         (d : db digest) (prev this : root digest) (old : kvmap) (ops : list op) (wl : writelog),
  db_wf digest root_of d -> sorted old ->
  follows digest this prev = true ->
  open_root digest digest_eqb root_of d prev = Some old ->
  is_finalized fin (r_version this) = false ->
  r_hash this = root_of (contents (run_batch old ops)) ->
  Permutation (commit_writelog (run_batch old ops)) wl ->
  In wl answers ->
  snd (sync_with_peers digest digest_eqb root_of strict fin d prev this answers) = true.
Proof. exact sync_with_peers_live_lem. Qed.
Print Assumptions sync_with_peers_live.

(* ---- pathbadger's write-log storage (PathStore.v) ---- *)
(* the first candidate of a version is served as soon as it is committed *)
Theorem pathbadger_get_after_commit :
  forall (db : pbdb) (b : batch) (al : list aentry),
  is_finalized (d_fin db) (fst (b_end b)) = false ->
  has_rid db (b_end b) = false ->
  follows_v (b_start b) (b_end b) = true ->
  b_log b = make_internal al -> al <> [] ->
  (forall k v p, In (k, Some (v, p)) al ->
     exists n, view_at (view_seq0 db b) (b_root b) (fst (b_end b)) p = Some n /\
               leaf_from_db n = (k, Some v)) ->
  get_writelog (fst (commit db 0 b)) (b_start b) (b_end b) = GServed (strip al).
Proof. exact get_after_commit_seq0_lem. Qed.
Print Assumptions pathbadger_get_after_commit.

(* a later candidate (non-zero sequence number) is refused while pending *)
Theorem pathbadger_pending_refused :
  forall (db : pbdb) (seq : N) (b : batch),
  is_finalized (d_fin db) (fst (b_end b)) = false ->
  has_rid db (b_end b) = false ->
  follows_v (b_start b) (b_end b) = true ->
  seq <> 0 ->
  get_writelog (fst (commit db seq b)) (b_start b) (b_end b) = GNotFound.
Proof. exact get_pending_nonzero_seq_lem. Qed.
Print Assumptions pathbadger_pending_refused.

(* what is served for a pair does not change under any later history *)
Theorem pathbadger_served_log_stable :
  forall (t : list tcall) (db : pbdb) (s e : rid),
  Forall (later_call (fst e)) t ->
  get_writelog (run_calls db t) s e = get_writelog db s e.
Proof. exact served_log_stable_lem. Qed.
Print Assumptions pathbadger_served_log_stable.

(* chains: the log stored for a committed batch is served, after any later
   history, and takes the start contents to the end contents *)
Theorem pathbadger_chain_log_correct :
  forall (db : pbdb) (b : batch) (t : list tcall) (old : kvmap) (ops : list op) (startv : N) (pos_of : bytes -> dbkey),
  sorted old ->
  is_finalized (d_fin db) (fst (b_end b)) = false ->
  has_rid db (b_end b) = false ->
  follows_v (b_start b) (b_end b) = true ->
  b_log b = make_internal (annotate startv pos_of old ops) ->
  commit_writelog (run_batch old ops) <> [] ->
  (forall k v p, In (k, Some (v, p)) (annotate startv pos_of old ops) ->
     exists n, view_at (view_seq0 db b) (b_root b) (fst (b_end b)) p = Some n /\
               leaf_from_db n = (k, Some v)) ->
  Forall (later_call (fst (b_end b))) t ->
  exists wl, get_writelog (run_calls (fst (commit db 0 b)) t) (b_start b) (b_end b) = GServed wl /\
             apply_writelog old wl = contents (run_batch old ops).
Proof. exact chain_log_correct_lem. Qed.
Print Assumptions pathbadger_chain_log_correct.

(* the known finding on the storage model: three versions, the third
   re-inserts the unchanged value of the embedded leaf: GetWriteLog fails *)
Theorem pathbadger_store_unservable_refuted :
  run_trace_case rf_trace =
  [ OSeq 0; ODone; OGet (GServed [([99], Some [])]);
    OSeq 0; ODone; OGet (GServed [([99; 97], Some [])]);
    OSeq 0; ODone; OGet GError ].
Proof. exact pathbadger_store_unservable_refuted_lem. Qed.
Print Assumptions pathbadger_store_unservable_refuted.

(* ---- the stored form of the internal log ---- *)
Theorem decode_encode_log : forall (l : list ientry),
  Forall ientry_wf l ->
  Forall (fun e => N.of_nat (length (enc_entry e)) < 18446744073709551616) l ->
  N.of_nat (length l) < 18446744073709551616 ->
  decode_log (encode_log l) = Some l.
Proof. exact decode_encode_log_lem. Qed.
Print Assumptions decode_encode_log.

Theorem decode_encode_entry : forall (e : ientry), ientry_wf e -> dec_entry (enc_entry e) = e.
Proof. exact dec_entry_enc. Qed.
Print Assumptions decode_encode_entry.

(* ---- pathbadger's per-version sequence counter (uint16) ---- *)
(* sequence numbers granted to the commits of one version are pairwise
   distinct and never MaxUint16, for any history (commits, abandoned batches,
   finalizations, queries) and any number of reservations *)
Theorem pathbadger_seq_numbers_distinct : forall (db : pbdb) (t : list tcall) (v : N),
  NoDup (commit_seqs db t v) /\ Forall (fun s => s <> SEQ_MAX) (commit_seqs db t v).
Proof. exact commit_seqs_distinct_lem. Qed.
Print Assumptions pathbadger_seq_numbers_distinct.

(* at the bound the store refuses rather than reuses *)
Theorem pathbadger_seq_refused_at_max : forall (db : pbdb) (v : N),
  next_of db v = SEQ_MAX -> new_batch db v = None.
Proof. exact seq_refused_at_max_lem. Qed.
Print Assumptions pathbadger_seq_refused_at_max.

(* refuted for a counter that wraps: after 65535 abandoned reservations a
   competing root gets number 0 again, overwrites the first root's nodes, and
   the log served for the first root carries the other root's values; the
   ported counter refuses instead *)
Theorem pathbadger_seq_wrap_refuted :
  run_trace_with new_batch_wrapping empty_db wrap_trace =
    [OSeq 0; OBurn 65535; OSeq 0; OGet (GServed [([97], Some [4]); ([98], Some [4])])] /\
  run_trace_with new_batch empty_db wrap_trace =
    [OSeq 0; OBurn 65534; ORefused; OGet (GServed [([97], Some [1]); ([98], Some [1])])].
Proof. exact seq_wrap_refuted_lem. Qed.
Print Assumptions pathbadger_seq_wrap_refuted.

(* second stored state behind the same finding: a tree of one leaf (the root
   node) whose value is re-inserted unchanged: the log keeps the root slot of
   the start version, which GetWriteLog does not resolve *)
Theorem pathbadger_log_old_root_slot_refuted :
  ptr_class [([99], [])] rf_ops [99] = 2 /\
  commit_writelog (run_batch [([99], [])] rf_ops) = [([99], Some [])] /\
  make_internal (annotate 2 rf_pos [([99], [])] rf_ops) = [IInsert (2, 0)] /\
  pb_served 2 rf_pos (Some (SLeaf [99] [])) 3 [([99], [])] rf_ops = None /\
  commit_writelog (run_batch [([99], [])] []) = [].
Proof. exact pathbadger_log_old_root_slot_refuted_lem. Qed.
Print Assumptions pathbadger_log_old_root_slot_refuted.

(* ---- commit attempts rejected by the node database ---- *)
Theorem rejected_commits_identity : forall (old : kvmap) (hs : list hop),
  run_history old hs = run_batch old (ops_of hs).
Proof. exact run_history_ops_lem. Qed.
Print Assumptions rejected_commits_identity.

(* over histories with arbitrary rejected attempts, the log of the next
   successful commit covers every key changed since the last successful one *)
Theorem history_log_correct : forall (old : kvmap) (hs : list hop), sorted old ->
  apply_writelog old (commit_writelog (run_history old hs)) = contents (run_history old hs) /\
  NoDup (map fst (commit_writelog (run_history old hs))) /\
  (forall k, get k (contents (run_history old hs)) <> get k old ->
             In k (map fst (commit_writelog (run_history old hs)))).
Proof. exact history_log_correct_lem. Qed.
Print Assumptions history_log_correct.
