(* C16 -- Untrusted bytes are decoded or rejected, never crash the node.
   Proof part: the hand-written binary decoders (MKVS keys, depths, leaf and
   internal nodes, node dispatch, the Merkle proof verifier walk).  Every
   theorem is for all byte strings / entry lists / allocation counters. *)
From Verif Require Import Lib.Base Decode.GoSlice Decode.GoSliceFacts Decode.Node Decode.NodeProofs
  Decode.ProofEntries Decode.ProofEntriesProofs Decode.RoundTrip Decode.Quote Decode.QuoteProofs
  Decode.KeyFormat Decode.KeyFormatProofs Decode.Misc Decode.MiscProofs Decode.Cbor Decode.CborProofs
  Decode.More Decode.MoreProofs Decode.StreamDepth Decode.StreamDepthProofs Decode.Coverage Gen.DecoderInventory
  Decode.CborValue Decode.CborValueProofs
  Gen.DecodeConsts Gen.QuoteConsts Gen.MiscConsts.
From Verif Require Decode.Conn Decode.ConnProofs Decode.Evidence Decode.EvidenceProofs.
(* the entry point of the correspondence files: required here so that it is rebuilt with the proofs *)
From Verif Require Decode.Cases.

Theorem gen_layout_expected :
  DepthSize = 2 /\ ValueLengthSize = 4 /\ HashSize = 32 /\
  PrefixLeafNode = 0 /\ PrefixInternalNode = 1 /\ PrefixNilNode = 2 /\
  glen emptyHash = HashSize.
Proof. exact NodeProofs.gen_layout_expected. Qed.
Print Assumptions gen_layout_expected.

Theorem gen_proof_consts_expected :
  maxProofDepth = 128 /\ proofEntryFull = 1 /\ proofEntryHash = 2 /\
  MinimumProofVersion = 0 /\ LatestProofVersion = 1.
Proof. exact ProofEntriesProofs.gen_proof_consts_expected. Qed.
Print Assumptions gen_proof_consts_expected.

Theorem decode_depth_total : forall b s, fst (depth_unmarshal b s) <> Panic.
Proof. exact decode_depth_total_l. Qed.
Print Assumptions decode_depth_total.

Theorem decode_key_total : forall b s, fst (key_sized_unmarshal b s) <> Panic.
Proof. exact decode_key_total_l. Qed.
Print Assumptions decode_key_total.

Theorem decode_leaf_total : forall b s, fst (leaf_sized_unmarshal b s) <> Panic.
Proof. exact decode_leaf_total_l. Qed.
Print Assumptions decode_leaf_total.

Theorem decode_internal_total : forall b s, fst (inode_sized_unmarshal b s) <> Panic.
Proof. exact decode_internal_total_l. Qed.
Print Assumptions decode_internal_total.

Theorem decode_node_total : forall b s, fst (node_unmarshal b s) <> Panic.
Proof. exact decode_node_total_l. Qed.
Print Assumptions decode_node_total.

Theorem decode_key_bounded : forall b s k n s',
  key_sized_unmarshal b s = (Ok (k, n), s') ->
  n <= glen b /\ glen k <= n /\ s' = s + glen k.
Proof. exact decode_key_bounded_l. Qed.
Print Assumptions decode_key_bounded.

Theorem decode_leaf_bounded : forall b s l n s',
  leaf_sized_unmarshal b s = (Ok (l, n), s') ->
  n <= glen b /\ leaf_size l <= n /\ s' = s + leaf_size l.
Proof. exact decode_leaf_bounded_l. Qed.
Print Assumptions decode_leaf_bounded.

Theorem decode_internal_bounded : forall b s nd n s',
  inode_sized_unmarshal b s = (Ok (nd, n), s') ->
  n <= glen b /\ inode_size nd <= n /\ s' <= s + inode_size nd /\
  glen (ilabel nd) = depth_to_bytes (ilbl nd).
Proof. exact decode_internal_bounded_l. Qed.
Print Assumptions decode_internal_bounded.

Theorem decode_node_bounded : forall b s nd s',
  node_unmarshal b s = (Ok nd, s') -> node_size nd <= glen b /\ s' <= s + node_size nd.
Proof. exact decode_node_bounded_l. Qed.
Print Assumptions decode_node_bounded.

(* declared_len_checked: on every path (Ok, Err) the bytes requested through
   make() are at most the input length *)
Theorem decode_alloc_bounded : forall b s,
  snd (key_sized_unmarshal b s) <= s + glen b /\
  snd (leaf_sized_unmarshal b s) <= s + glen b /\
  snd (inode_sized_unmarshal b s) <= s + glen b /\
  snd (node_unmarshal b s) <= s + glen b.
Proof. exact decode_alloc_bounded_l. Qed.
Print Assumptions decode_alloc_bounded.

Theorem truncated_internal_is_err :
  run (inode_sized_unmarshal [1; 64; 0; 170; 187]) = (Err E_NODE, 0) /\
  run (node_unmarshal [1; 64; 0; 170; 187]) = (Err E_NODE, 0).
Proof. exact NodeProofs.truncated_internal_is_err. Qed.
Print Assumptions truncated_internal_is_err.

Theorem verify_walk_total : forall v es idx depth s,
  v <= LatestProofVersion -> depth <= maxProofDepth + 1 ->
  fst (walk (walk_fuel depth) v es idx depth s) <> Panic.
Proof. exact verify_walk_total_l. Qed.
Print Assumptions verify_walk_total.

Theorem verify_depth_bounded : forall v es idx depth s,
  v <= LatestProofVersion -> depth <= maxProofDepth + 1 ->
  fst (walk (walk_fuel depth) v es idx depth s) <> Err E_FUEL.
Proof. exact verify_depth_bounded_l. Qed.
Print Assumptions verify_depth_bounded.

Theorem verify_walk_bounded : forall v es idx depth s idx' p s',
  v <= LatestProofVersion -> depth <= maxProofDepth + 1 ->
  walk (walk_fuel depth) v es idx depth s = (Ok (idx', p), s') ->
  idx < idx' /\ idx' <= elen es /\ ptr_entries v p = idx' - idx /\
  s' + rem es idx' <= s + rem es idx.
Proof. exact verify_walk_bounded_l. Qed.
Print Assumptions verify_walk_bounded.

Theorem verify_opts_total : forall v rm es s,
  fst (verify_opts v rm es s) <> Panic /\ fst (verify_opts v rm es s) <> Err E_FUEL /\
  snd (verify_opts v rm es s) <= s + total_len es.
Proof. exact verify_opts_total_l. Qed.
Print Assumptions verify_opts_total.

Theorem verify_opts_consumes_all : forall v rm es s p s',
  verify_opts v rm es s = (Ok p, s') -> ptr_entries v p = elen es.
Proof. exact verify_opts_consumes_all_l. Qed.
Print Assumptions verify_opts_consumes_all.

Theorem walk_panics_on_unsupported_version :
  fst (run (walk (walk_fuel 0) 2 [Some [1; 1; 0; 0; 2]; None; None] 0 0)) = Panic.
Proof. exact ProofEntriesProofs.walk_panics_on_unsupported_version. Qed.
Print Assumptions walk_panics_on_unsupported_version.

(* ---------- decode (encode n) = Ok (n, length (encode n)) ----------
   Well-formedness: wf_key k := glen k < 2^16;
   wf_leaf l := glen key < 2^16 /\ glen value < 2^32;
   wf_inode n := LabelBitLength < 2^16 /\ glen Label = ToBytes LabelBitLength /\
     the embedded leaf (if any) is wf /\ Left/Right are nil or 32-byte hashes
     different from the empty hash (an empty-hash pointer decodes as nil). *)
Theorem decode_encode_roundtrip_key : forall k rest s, wf_key k ->
  key_sized_unmarshal (key_marshal k ++ rest) s = (Ok (k, 2 + glen k), s + glen k).
Proof. exact key_rt. Qed.
Print Assumptions decode_encode_roundtrip_key.

Theorem decode_encode_roundtrip_leaf : forall l rest s, wf_leaf l ->
  leaf_sized_unmarshal (leaf_marshal l ++ rest) s
  = (Ok (l, 7 + glen (lkey l) + glen (lvalue l)), s + glen (lkey l) + glen (lvalue l)).
Proof. exact leaf_rt. Qed.
Print Assumptions decode_encode_roundtrip_leaf.

Theorem decode_encode_roundtrip_internal : forall n s, wf_inode n ->
  inode_sized_unmarshal (inode_marshal n) s
  = (Ok (n, glen (inode_marshal n)), s + glen (ilabel n) + oleaf_size (ileaf n)).
Proof. exact inode_rt_full. Qed.
Print Assumptions decode_encode_roundtrip_internal.

Theorem decode_encode_roundtrip_compact_v0 : forall n s,
  wf_inode n -> ileft n = None -> iright n = None ->
  inode_sized_unmarshal (inode_compact_marshal_v0 n) s
  = (Ok (n, glen (inode_compact_marshal_v0 n)), s + glen (ilabel n) + oleaf_size (ileaf n)).
Proof. exact inode_rt_compact_v0. Qed.
Print Assumptions decode_encode_roundtrip_compact_v0.

Theorem decode_encode_roundtrip_compact_v1 : forall n s,
  wf_inode n -> ileft n = None -> iright n = None -> ileaf n = None ->
  inode_sized_unmarshal (inode_compact_marshal_v1 n) s
  = (Ok (n, glen (inode_compact_marshal_v1 n)), s + glen (ilabel n)).
Proof. exact inode_rt_compact_v1. Qed.
Print Assumptions decode_encode_roundtrip_compact_v1.

Theorem decode_encode_roundtrip_node : forall n s,
  match n with NLeaf l => wf_leaf l | NInternal i => wf_inode i end ->
  fst (node_unmarshal (node_marshal n) s) = Ok n.
Proof. exact node_rt. Qed.
Print Assumptions decode_encode_roundtrip_node.

Theorem wf_example :
  wf_inode (mkInode 12 [171; 192] (Some (mkLeaf [171; 192] [1; 2; 3])) (Some (repeat 7 32)) None)
  /\ fst (run (inode_sized_unmarshal (inode_marshal
        (mkInode 12 [171; 192] (Some (mkLeaf [171; 192] [1; 2; 3])) (Some (repeat 7 32)) None))))
     = Ok (mkInode 12 [171; 192] (Some (mkLeaf [171; 192] [1; 2; 3])) (Some (repeat 7 32)) None, 81).
Proof. exact RoundTrip.wf_example. Qed.
Print Assumptions wf_example.

(* ---------- PCS quote binary layout (go/common/sgx/pcs/quote.go, report.go) ----------
   [pem_ok] is the observed outcome of the (unmodelled) PEM/X.509 parse of a
   PCK certificate chain; the statements hold for both values. *)
Theorem gen_quote_layout_expected :
  quoteHeaderLen = 48 /\ reportBodySgxLen = 384 /\ reportBodyTdLen = 584 /\
  quoteSigSizeLen = 4 /\ quoteSigEcdsaP256MinLen = 584 /\ ppidDataLen = 404 /\
  quoteVersionV3 = 3 /\ quoteVersionV4 = 4 /\ MrEnclaveSize = 32 /\ MrSignerSize = 32.
Proof. exact QuoteProofs.gen_quote_layout_expected. Qed.
Print Assumptions gen_quote_layout_expected.

Theorem decode_quote_total : forall pem_ok trailing b s,
  fst (quote_unmarshal pem_ok trailing b s) <> Panic.
Proof. exact decode_quote_total_l. Qed.
Print Assumptions decode_quote_total.

Theorem decode_quote_bounded : forall pem_ok trailing b s,
  snd (quote_unmarshal pem_ok trailing b s) <= s + glen b /\
  (forall q n s', quote_unmarshal pem_ok trailing b s = (Ok (q, n), s') ->
     n <= glen b /\ (trailing = false -> n = glen b)).
Proof. exact decode_quote_bounded_l. Qed.
Print Assumptions decode_quote_bounded.

Theorem decode_quote_parts_total : forall pem_ok version b s,
  fst (header_v3 b s) <> Panic /\ fst (header_v4 b s) <> Panic /\
  fst (sgx_report b s) <> Panic /\ fst (td_report b s) <> Panic /\
  fst (ppid b s) <> Panic /\ fst (qe_report pem_ok b s) <> Panic /\
  fst (sig_ecdsa pem_ok version b s) <> Panic.
Proof. exact decode_quote_parts_total_l. Qed.
Print Assumptions decode_quote_parts_total.

Theorem quote_huge_siglen_is_err :
  fst (run (quote_unmarshal true false
    ([3; 0; 2; 0; 0; 0; 0; 0; 0; 0; 0; 0] ++ QEVendorID_Intel ++ repeat 0 20 ++ repeat 0 384
       ++ [255; 255; 255; 255]))) = Err Q_TRAILING.
Proof. exact QuoteProofs.quote_huge_siglen_is_err. Qed.
Print Assumptions quote_huge_siglen_is_err.

(* ---------- database key formats (go/common/keyformat) and fixed-size helpers ---------- *)
(* KeyFormat.Decode as of the pinned tree (fix 4b7c32a): an empty key or a key
   shorter than the format does not match; the only remaining panic is the
   programmer error of passing more values than the layout has. *)
Theorem keyformat_decode_panics_iff : forall prefix layout nvals data s, wf_layout layout ->
  (fst (kf_decode prefix layout nvals data s) = Panic <->
   data <> [] /\ nth 0 data 0 = prefix /\ N.of_nat (length layout) < nvals).
Proof. exact keyformat_decode_panics_iff_l. Qed.
Print Assumptions keyformat_decode_panics_iff.

Theorem keyformat_decode_total : forall prefix layout nvals data s, wf_layout layout ->
  nvals <= N.of_nat (length layout) ->
  fst (kf_decode prefix layout nvals data s) <> Panic.
Proof. exact keyformat_decode_total_l. Qed.
Print Assumptions keyformat_decode_total.

Theorem keyformat_decode_bounded : forall prefix layout nvals data s, wf_layout layout ->
  fst (kf_decode prefix layout nvals data s) <> Panic ->
  snd (kf_decode prefix layout nvals data s) <= s + glen data /\
  (forall e, fst (kf_decode prefix layout nvals data s) <> Err e).
Proof. exact keyformat_decode_bounded_l. Qed.
Print Assumptions keyformat_decode_bounded.

(* the function BEFORE the fix panicked also on an empty key and on a short key
   with the matching prefix: exact characterisation and the witness "T" for
   the transaction key format of the runtime I/O tree *)
Theorem keyformat_decode_original_panics_iff : forall prefix layout nvals data s, wf_layout layout ->
  (fst (kf_decode_original prefix layout nvals data s) = Panic <->
   data = [] \/
   (nth 0 data 0 = prefix /\ (N.of_nat (length layout) < nvals \/ glen data < kf_size layout))).
Proof. exact keyformat_decode_original_panics_iff_l. Qed.
Print Assumptions keyformat_decode_original_panics_iff.

Theorem keyformat_decode_original_total_refuted :
  exists prefix layout nvals data,
    wf_layout layout /\ nvals <= N.of_nat (length layout) /\
    fst (run (kf_decode_original prefix layout nvals data)) = Panic.
Proof. exact keyformat_decode_original_total_refuted_l. Qed.
Print Assumptions keyformat_decode_original_total_refuted.

(* hash.Hash, common.Namespace, address.Address, signature.PublicKey/RawSignature,
   db/api.TypedHash, sgx.MrEnclave/MrSigner, keyformat.PreHashed, artifactKind *)
Theorem fixed_unmarshal_total : forall size kind data s,
  fst (fixed_unmarshal size kind data s) <> Panic /\ snd (fixed_unmarshal size kind data s) = s /\
  (forall d, fst (fixed_unmarshal size kind data s) = Ok d -> d = data /\ glen data = size).
Proof. exact fixed_unmarshal_total_l. Qed.
Print Assumptions fixed_unmarshal_total.

(* ---------- IAS quote body (go/common/sgx/ias/quote.go) ---------- *)
Theorem gen_ias_layout_expected :
  ias_quoteLen = 432 /\ ias_quoteBodyLen = 48 /\ ias_quoteReportLen = 384 /\
  ias_offsetReportReportData = 320.
Proof. exact MiscProofs.gen_ias_layout_expected. Qed.
Print Assumptions gen_ias_layout_expected.

Theorem decode_ias_quote_total : forall b s,
  fst (ias_body b s) <> Panic /\ fst (ias_report b s) <> Panic /\ fst (ias_quote b s) <> Panic /\
  snd (ias_quote b s) <= s.
Proof. exact decode_ias_quote_total_l. Qed.
Print Assumptions decode_ias_quote_total.

(* ---------- checkpoint chunk restore loop (go/storage/mkvs/checkpoint/chunk.go:262-312) ----------
   for every sequence of stream-decoder events (the snappy/CBOR decoder itself is not modelled) *)
Theorem restore_chunk_total : forall digest_ok evs s,
  fst (restore_chunk digest_ok evs s) <> Panic /\
  fst (restore_chunk digest_ok evs s) <> Err (W_CHUNK + E_FUEL) /\
  snd (restore_chunk digest_ok evs s) <= s + events_len evs.
Proof. exact restore_chunk_total_l. Qed.
Print Assumptions restore_chunk_total.

(* ---------- strict CBOR profile: a recogniser as SPECIFICATION (not a verified library) ----------
   cbor_valid follows the validity pass that cbor.Unmarshal runs first (definite
   lengths only, tags forbidden, nesting <= 32, array/map sizes <= 10^7, all
   regenerated from go/common/cbor/cbor.go and the library defaults).  Acceptance
   by the recogniser is NECESSARY for cbor.Unmarshal to accept (checked by the
   correspondence stream), not sufficient. *)
Theorem gen_cbor_profile_expected :
  decOptions_IndefLength_IndefLengthForbidden = true /\ decOptions_TagsMd_TagsForbidden = true /\
  decOptions_DupMapKey_DupMapKeyEnforcedAPF = true /\ decOptions_MaxNestedLevels = 32 /\
  decOptions_MaxArrayElements = 10000000 /\ decOptions_MaxMapPairs = 10000000 /\
  maxMessageSize = 67108864.
Proof. exact CborProofs.gen_cbor_profile_expected. Qed.
Print Assumptions gen_cbor_profile_expected.

(* fuel 2*len+2 (one unit per recursive call) is never exhausted: linear time *)
Theorem cbor_recognizer_total : forall data, cbor_valid data <> WFuel.
Proof. exact cbor_recognizer_total_l. Qed.
Print Assumptions cbor_recognizer_total.

Theorem cbor_recognizer_bounded : forall data off d,
  cbor_valid data = WOk (off, d) ->
  0 < off /\ off <= dlen data /\ d <= decOptions_MaxNestedLevels.
Proof. exact cbor_recognizer_bounded_l. Qed.
Print Assumptions cbor_recognizer_bounded.

Theorem cbor_examples :
  wres_class (cbor_valid [155; 255; 255; 255; 255; 255; 255; 255; 255]) = C_OVERFLOW /\
  wres_class (cbor_valid [154; 0; 152; 150; 129]) = C_ARRAY /\
  wres_class (cbor_valid [154; 0; 152; 150; 128; 1]) = C_UEOF /\
  wres_class (cbor_valid [91; 0; 0; 0; 1; 0; 0; 0; 0]) = C_UEOF /\
  wres_class (cbor_valid [159; 255]) = C_INDEF /\
  wres_class (cbor_valid [192; 0]) = C_TAG /\
  wres_class (cbor_valid (repeat 129 32 ++ [0])) = 0 /\
  wres_class (cbor_valid (repeat 129 33 ++ [0])) = C_NESTED /\
  cbor_valid [162; 1; 2; 1; 3; 255] = WOk (5, 1).
Proof. exact CborProofs.cbor_examples. Qed.
Print Assumptions cbor_examples.

(* ---------- growth round 3 ---------- *)
(* Coverage tie to the source: every hand-written decoder found in go/ by the
   generator (functions named (Sized)Unmarshal{Binary,BinaryWithTrailing,Text,Hex,
   Base64,Bech32,PEM}; functions reading integers with encoding/binary; functions
   indexing or re-slicing a []byte parameter) is either ported (Decode/Coverage.v
   [ported]: model function + totality theorem + correspondence cases) or on the
   reviewed list with its reason.  A new decoder in the source makes this fail,
   and the unification error names it. *)
Theorem decoder_inventory_covered : unclassified = [] /\ stale = [].
Proof. split; vm_compute; reflexivity. Qed.
Print Assumptions decoder_inventory_covered.

Theorem hex_decode_total : forall s,
  hex_decode s <> Panic /\ (forall b, hex_decode s = Ok b -> 2 * glen b = glen s).
Proof. exact hex_decode_total_l. Qed.
Print Assumptions hex_decode_total.

(* X.UnmarshalHex / X.UnmarshalText (base64 outcome = oracle) *)
Theorem decode_text_total : forall size kind b64 text s,
  fst (unmarshal_hex size kind text s) <> Panic /\ snd (unmarshal_hex size kind text s) <= s /\
  fst (unmarshal_b64 size kind b64 s) <> Panic /\
  fst (unmarshal_hex_or_b64 size kind b64 text s) <> Panic.
Proof. exact decode_text_total_l. Qed.
Print Assumptions decode_text_total.

(* EnclaveIdentity hex/text, aesm AttestationKeyID, QEIdentity.verify masks, Quantity binary *)
Theorem decode_sgx_misc_total : forall decoded data rm rf rx ms msm att attm s, decoded <> Panic ->
  fst (enclave_identity decoded s) <> Panic /\ fst (akid data s) <> Panic /\
  fst (qe_masks rm rf rx ms msm att attm s) <> Panic /\ fst (quantity_unmarshal_binary data s) <> Panic.
Proof. exact decode_sgx_misc_total_l. Qed.
Print Assumptions decode_sgx_misc_total.

(* pathbadger node database value format *)
Theorem decode_pathbadger_total : forall data s,
  fst (pb_ptr data s) <> Panic /\ fst (pb_node data s) <> Panic /\
  snd (pb_node data s) <= s + 3 * glen data.
Proof. exact decode_pathbadger_total_l. Qed.
Print Assumptions decode_pathbadger_total.

(* runtime-host / p2p message framing: 4 bytes allocated whatever the prefix declares *)
Theorem frame_read_total : forall stream dec s,
  fst (frame_read stream dec s) <> Panic /\ snd (frame_read stream dec s) <= s + 4 /\
  (forall n, fst (frame_read stream dec s) = Ok n -> n <= maxMessageSize).
Proof. exact frame_read_total_l. Qed.
Print Assumptions frame_read_total.

Theorem enum_text_total : forall table text, enum_text table text <> Panic.
Proof. exact enum_text_total_l. Qed.
Print Assumptions enum_text_total.

Theorem gen_sigstruct_layout_expected :
  sigstructSize = 1808 /\ Forall (fun ow => fst ow + snd ow <= sigstructSize) sigstruct_offs.
Proof. exact MoreProofs.gen_sigstruct_layout_expected. Qed.
Print Assumptions gen_sigstruct_layout_expected.

Theorem sigstruct_reads_total : forall buf s, fst (sigstruct_reads sigstruct_offs buf s) <> Panic.
Proof. exact sigstruct_reads_total_l. Qed.
Print Assumptions sigstruct_reads_total.

(* ---------- nesting depth of the CBOR stream decoder (known finding, by computed depth) ---------- *)
Theorem stream_depth_unbounded : forall need,
  decode_frames (repeat 1 (N.to_nat need)) need 0 = trickle_frames need.
Proof. exact stream_depth_unbounded_l. Qed.
Print Assumptions stream_depth_unbounded.

Theorem stream_depth_le_reads : forall chunks need have,
  decode_frames chunks need have <= N.of_nat (length chunks) + 1.
Proof. exact decode_frames_le_chunks. Qed.
Print Assumptions stream_depth_le_reads.

Theorem death_depth_spec : forall maxstack frame base frames, 0 < frame -> base <= usable_stack maxstack ->
  (overflows maxstack frame base frames = true <-> death_depth maxstack frame base < frames).
Proof. exact death_depth_spec_l. Qed.
Print Assumptions death_depth_spec.

Theorem rhp_stack_overflow_reachable : forall frame base, 9 <= frame ->
  exists need, need <= maxMessageSize /\
    overflows defaultMaxStack frame base (decode_frames (repeat 1 (N.to_nat need)) need 0) = true.
Proof. exact rhp_stack_overflow_reachable_l. Qed.
Print Assumptions rhp_stack_overflow_reachable.

(* ---------- CBOR: accept/reject verdict of cbor.Unmarshal(data, &any) as a total function ----------
   validity pass (Cbor.v) + the checks made while building the value (UTF-8 text,
   hashable and non-duplicate map keys).  SPECIFICATION of the third-party
   decoder, tied to it by the correspondence stream only (exact verdict unless a
   map has a float key, where the model answers None). *)
Theorem cbor_unmarshal_verdict_total : forall data, cbor_unmarshal_verdict data <> WFuel.
Proof. exact cbor_unmarshal_verdict_total_l. Qed.
Print Assumptions cbor_unmarshal_verdict_total.

Theorem cbor_verdict_refines_valid : forall data e,
  cbor_valid data = WErr e -> cbor_unmarshal_verdict data = WOk (Some false).
Proof. exact cbor_verdict_refines_valid_l. Qed.
Print Assumptions cbor_verdict_refines_valid.

Theorem cbor_verdict_examples :
  cbor_unmarshal_verdict [162; 1; 2; 1; 3] = WOk (Some false) /\
  cbor_unmarshal_verdict [162; 1; 2; 24; 1; 3] = WOk (Some false) /\
  cbor_unmarshal_verdict [162; 1; 2; 225; 3] = WOk (Some false) /\
  cbor_unmarshal_verdict [162; 1; 2; 32; 3] = WOk (Some true) /\
  cbor_unmarshal_verdict [161; 65; 0; 1] = WOk (Some false) /\
  cbor_unmarshal_verdict [161; 128; 1] = WOk (Some false) /\
  cbor_unmarshal_verdict [98; 195; 40] = WOk (Some false) /\
  cbor_unmarshal_verdict [98; 195; 169] = WOk (Some true) /\
  cbor_unmarshal_verdict [162; 246; 1; 247; 2] = WOk (Some false) /\
  cbor_unmarshal_verdict [161; 249; 60; 0; 1] = WOk None /\
  cbor_unmarshal_verdict [1; 255; 255] = WOk (Some true).
Proof. exact CborValueProofs.cbor_verdict_examples. Qed.
Print Assumptions cbor_verdict_examples.

(* ---------- runtime-host protocol connection: message handling state machine ----------
   (go/runtime/host/protocol/connection.go handleMessage / workerIncoming / call / Close) for
   EVERY sequence of local calls, inbound frames (responses for any id in any multiplicity,
   requests, unknown types, malformed frames) and Close *)
Theorem conn_no_block : forall evs,
  (forall kv, In kv (Conn.sends (Conn.run true evs)) -> snd kv <= 1) /\
  Conn.blocked (Conn.run true evs) = 0 /\ Conn.close_returns (Conn.run true evs) = true.
Proof. exact ConnProofs.conn_no_block_l. Qed.
Print Assumptions conn_no_block.

Theorem conn_inbound_does_not_grow : forall s m,
  (length (Conn.pending (Conn.step true s (Conn.EFrame m))) <= length (Conn.pending s))%nat.
Proof. exact ConnProofs.conn_inbound_does_not_grow_l. Qed.
Print Assumptions conn_inbound_does_not_grow.

Theorem conn_close_empties : forall del s,
  Conn.pending (Conn.step del s Conn.EClose) = [] /\
  Conn.pending (Conn.step del s (Conn.EFrame Conn.IMalformed)) = [] \/ Conn.closed s = true.
Proof. exact ConnProofs.conn_close_empties_l. Qed.
Print Assumptions conn_close_empties.

Theorem conn_closed_stays_empty : forall del s e, Conn.closed s = true -> Conn.pending s = [] ->
  Conn.closed (Conn.step del s e) = true /\ Conn.pending (Conn.step del s e) = [].
Proof. exact ConnProofs.conn_closed_stays_empty_l. Qed.
Print Assumptions conn_closed_stays_empty.

(* the variant that leaves the deletion to call()'s deferred function blocks a handler
   goroutine forever on the third copy of a response: Close() never returns *)
Theorem conn_nodelete_blocks :
  exists evs, Conn.blocked (Conn.run false evs) = 1 /\ Conn.close_returns (Conn.run false evs) = false /\
              Conn.blocked (Conn.run true evs) = 0.
Proof. exact ConnProofs.conn_nodelete_blocks_l. Qed.
Print Assumptions conn_nodelete_blocks.

(* ---------- roothash equivocation evidence: stateless validation over optional wire fields ----------
   (roothash/api/api.go EquivocationExecutorEvidence.ValidateBasic, commitment/executor.go
   ExecutorCommitment.ValidateBasic, hash.Hash.Equal on a nil receiver = panic) *)
(* the statement order found in the source: MostlyEqual, both ValidateBasic calls, THEN the
   comparisons that dereference IORoot / StateRoot / MessagesHash, then the signatures *)
Theorem gen_evidence_order_expected : evidence_vb_order = Evidence.evidence_vb_order_expected.
Proof. reflexivity. Qed.
Print Assumptions gen_evidence_order_expected.

Theorem evidence_validate_basic_total : forall sigs_ok a b,
  Evidence.evidence_validate_basic sigs_ok a b <> Panic.
Proof. exact EvidenceProofs.evidence_validate_basic_total_l. Qed.
Print Assumptions evidence_validate_basic_total.

Theorem evidence_reordered_panics :
  exists a b, Evidence.evidence_validate_basic_reordered true a b = Panic /\
              Evidence.evidence_validate_basic true a b = Err Evidence.V_COMMIT_A.
Proof. exact EvidenceProofs.evidence_reordered_panics_l. Qed.
Print Assumptions evidence_reordered_panics.

(* ---------- proof walk: the depth counter covers ALL three child positions ---------- *)
(* whatever the fuel, an accepted subtree is never nested deeper than maxProofDepth through
   any combination of leaf / left / right positions (bounded stack of the recursive walk) *)
Theorem verify_nesting_bounded : forall v es idx s idx' p s' fuel,
  v <= LatestProofVersion ->
  walk fuel v es idx 0 s = (Ok (idx', p), s') -> ptr_nesting p <= maxProofDepth.
Proof. exact verify_nesting_bounded_l. Qed.
Print Assumptions verify_nesting_bounded.

Theorem walk_rejects_deep_every_position :
  fst (run (verify_opts 1 true (chain_pos 1 0 200))) = Err E_PROOF_DEPTH /\
  fst (run (verify_opts 1 true (chain_pos 1 1 200))) = Err E_PROOF_DEPTH /\
  fst (run (verify_opts 1 true (chain_pos 1 2 200))) = Err E_PROOF_DEPTH /\
  fst (run (verify_opts 0 true (chain_pos 0 1 200))) = Err E_PROOF_DEPTH /\
  fst (run (verify_opts 0 true (chain_pos 0 2 200))) = Err E_PROOF_DEPTH /\
  match fst (run (verify_opts 1 true (chain_pos 1 0 128))) with Ok p => ptr_nesting p | _ => 0 end = 128.
Proof. exact ProofEntriesProofs.walk_rejects_deep_every_position. Qed.
Print Assumptions walk_rejects_deep_every_position.

(* the variant that does not count the leaf position is refuted: fuel proportional to
   maxProofDepth is exhausted, and with more fuel a nesting of 300 is accepted *)
Theorem walk_leaf_same_depth_unbounded :
  fst (run (walk_leaf_same_depth (walk_fuel 0) 1 (chain_pos 1 0 300) 0 0)) = Err E_FUEL /\
  match fst (run (walk_leaf_same_depth 400 1 (chain_pos 1 0 300) 0 0)) with
  | Ok (_, p) => ptr_nesting p | _ => 0 end = 300 /\
  fst (run (walk (walk_fuel 0) 1 (chain_pos 1 0 300) 0 0)) = Err E_PROOF_DEPTH.
Proof. exact walk_leaf_same_depth_unbounded_l. Qed.
Print Assumptions walk_leaf_same_depth_unbounded.
