(* C05 — Token supply is conserved and share bookkeeping stays consistent.
   Only statements; the model is Ledger/State.v + Ledger/Ops.v, proofs are in
   Ledger/Conserve.v. *)
From Verif Require Import Lib.Base Ledger.SharePool Ledger.State Ledger.Ops Ledger.ConserveMap Ledger.Conserve Ledger.TxAtomic Ledger.InvB Ledger.Total.

(* Inv s: the three key sets are duplicate free, every escrow pool's share total
   equals the sum of the (debonding) delegations into it, and the recorded total
   supply equals general + active + debonding balances + common pool +
   governance deposits + last block fees (while not yet paid out by this
   block's BeginBlock) + the block's fee accumulator. *)

(* every operation (transaction with fee payment, fee disbursement at begin and
   end of block, rewards, slashing, debonding completion, governance deposit
   return/discard), succeeding or failing at any internal point, preserves Inv *)
Theorem op_preserves_inv : forall p s o, Inv s -> Inv (snd (step p s o)).
Proof. exact op_preserves_inv_l. Qed.
Print Assumptions op_preserves_inv.

(* ... hence every operation sequence from every state satisfying Inv *)
Theorem run_preserves_inv : forall p ops s, Inv s -> Inv (run p s ops).
Proof. exact run_preserves_inv_l. Qed.
Print Assumptions run_preserves_inv.

(* ... and at every intermediate point of the sequence *)
Theorem run_prefix_inv : forall p ops1 ops2 s, Inv s -> Inv (run p s ops1) /\ Inv (run p s (ops1 ++ ops2)).
Proof. exact run_prefix_inv_l. Qed.
Print Assumptions run_prefix_inv.

(* a genesis-like state (supply recorded as the sum of its parts, empty
   accumulator) with consistent share totals satisfies Inv *)
Theorem inv_genesis : forall accs dl db cp lbf gov,
  let s := mkSt accs dl db (msum (fun _ x => general x) accs + msum (fun _ x => bal (active x)) accs
                            + msum (fun _ x => bal (debonding x)) accs + cp + gov + lbf) cp lbf gov 0 false in
  WF s -> Inv s.
Proof. exact inv_genesis_l. Qed.
Print Assumptions inv_genesis.

(* at a block boundary (after the end-of-block fee disbursement) Inv is
   literally the equation of the statement plus the two share equations *)
Theorem boundary_equation : forall s, Inv s -> boundary s ->
  total_supply s = sum_general s + sum_active s + sum_debonding s + common_pool s
                   + gov_deposits s + last_block_fees s
  /\ (forall e, tsh (active (acct s e)) = dsum e s)
  /\ (forall e, tsh (debonding (acct s e)) = bsum e s).
Proof. exact boundary_equation_l. Qed.
Print Assumptions boundary_equation.

(* a block = any operations followed by a successful end-of-block fee
   disbursement ends at a boundary: accumulator empty, persisted fees live *)
Theorem block_boundary : forall p s ops pr, Inv s ->
  fst (step p (run p s ops) (OFeesP pr)) = ROk ->
  let s' := run p s (ops ++ [OFeesP pr]) in Inv s' /\ boundary s'.
Proof. exact block_boundary_l. Qed.
Print Assumptions block_boundary.

(* the recorded supply decreases exactly by the amounts explicitly burned
   (successful Burn, successful Transfer to the burn address) ... *)
Theorem supply_exact : forall p ops s, Inv s ->
  total_supply s = total_supply (run p s ops) + burned_run p s ops.
Proof. exact supply_run_l. Qed.
Print Assumptions supply_exact.

Theorem supply_step_exact : forall p s o, Inv s ->
  total_supply s = total_supply (snd (step p s o)) + burned p o (fst (step p s o)).
Proof. exact (fun p s o I => proj2 (step_inv p s o I)). Qed.
Print Assumptions supply_step_exact.

(* ... in particular it never increases *)
Theorem supply_monotone : forall p ops s, Inv s -> total_supply (run p s ops) <= total_supply s.
Proof. exact supply_monotone_l. Qed.
Print Assumptions supply_monotone.

(* quantity.Move / MoveUpTo: debit and credit of the same amount; a failure
   leaves both sides untouched; the aliasing cases dst == src and src == n *)
Theorem move_conserves : forall dst src n d' s',
  qmove dst src n = Some (d', s') -> d' + s' = dst + src /\ d' = dst + n /\ s' + n = src.
Proof. exact move_conserves_l. Qed.
Print Assumptions move_conserves.

Theorem move_fail_unchanged : forall dst src n, qmove dst src n = None <-> src < n.
Proof. exact move_fail_unchanged_l. Qed.
Print Assumptions move_fail_unchanged.

Theorem move_alias : forall x n, (qmove_alias x n = None <-> x < n) /\ (n <= x -> qmove_alias x n = Some x).
Proof. exact move_alias_l. Qed.
Print Assumptions move_alias.

Theorem move_all : forall dst src, qmove_all dst src = Some (dst + src, 0).
Proof. exact move_all_l. Qed.
Print Assumptions move_all.

Theorem move_up_to_amount : forall dst src n d' s' a,
  qmove_up_to dst src n = (d', s', a) -> a = N.min src n /\ d' = dst + a /\ s' + a = src /\ d' + s' = dst + src.
Proof. exact move_up_to_l. Qed.
Print Assumptions move_up_to_amount.

(* a failed authentication leaves the state untouched *)
Theorem auth_fail_leaves_state : forall p s signer n fee,
  fst (auth p s signer n fee) <> ROk -> snd (auth p s signer n fee) = s.
Proof. exact auth_fail_unchanged. Qed.
Print Assumptions auth_fail_leaves_state.

(* ---- failed transactions (discharges the premise C08 leaves abstract, for the staking and
   governance-deposit handlers) ---- *)
(* the handler part of EVERY transaction body (transfer, burn, add escrow, reclaim escrow,
   allow, withdraw, governance submit at the deposit level, ledger-neutral ones such as
   vote / amend commission): a failing handler has written nothing, i.e. the state is the
   one authentication left *)
Theorem tx_fail_leaves_post_auth_state : forall p s signer b gas_ok,
  fst (exec_body p s signer b gas_ok) <> ROk -> snd (exec_body p s signer b gas_ok) = s.
Proof. exact tx_fail_leaves_post_auth_state_l. Qed.
Print Assumptions tx_fail_leaves_post_auth_state.

(* a successful authenticate-and-pay does exactly: nonce matched, fee moved from the signer's
   general balance to the block's accumulator, nonce + 1 (mod 2^64) *)
Theorem auth_ok_effect : forall p s signer n fee,
  fst (auth p s signer n fee) = ROk ->
  let a := acct s signer in
  nonce a = n /\ fee <= general a /\
  post_auth p s signer n fee =
    set_acct signer (with_nonce (with_general a (general a - fee)) ((nonce a + 1) mod two64))
             (with_feeacc s (fee_acc s + fee)).
Proof. exact auth_ok_effect_l. Qed.
Print Assumptions auth_ok_effect.

(* a transaction whose result is not ok changed nothing, or nothing but fee and nonce *)
Theorem failed_tx_effect_staking : forall p s signer n fee size_gas_ok gas_ok b,
  fst (exec_tx p s signer n fee size_gas_ok gas_ok b) <> ROk ->
  snd (exec_tx p s signer n fee size_gas_ok gas_ok b) = s \/
  snd (exec_tx p s signer n fee size_gas_ok gas_ok b) = post_auth p s signer n fee.
Proof. exact failed_tx_effect_staking_l. Qed.
Print Assumptions failed_tx_effect_staking.

Theorem failed_tx_after_auth : forall p s signer n fee size_gas_ok gas_ok b,
  fst (auth p s signer n fee) = ROk ->
  fst (exec_tx p s signer n fee size_gas_ok gas_ok b) <> ROk ->
  snd (exec_tx p s signer n fee size_gas_ok gas_ok b) = post_auth p s signer n fee.
Proof. exact failed_tx_after_auth_l. Qed.
Print Assumptions failed_tx_after_auth.

(* ---- the invariant is decidable by the executable [inv_b], which the correspondence cases
   evaluate on every dump of the real state ---- *)
Theorem inv_b_correct : forall s, inv_b s = true <-> Inv s.
Proof. exact inv_b_correct_l. Qed.
Print Assumptions inv_b_correct.

(* ---- totality: no block-aborting error under the parameter sanity conditions ---- *)
Theorem slash_never_fatal : forall s addr amount, fst (slash s addr amount) = ROk.
Proof. exact slash_never_fatal_l. Qed.
Print Assumptions slash_never_fatal.

(* rates are bounded by the commission denominator (commission.go:162) *)
Theorem rewards_never_fatal : forall s scale factor who,
  (forall a r, In (a, r) who -> r <= commission_den) -> fst (add_rewards s scale factor who) = ROk.
Proof. exact add_rewards_never_fatal_l. Qed.
Print Assumptions rewards_never_fatal.

Theorem reward_single_never_fatal : forall s scale factor num den addr rate,
  den <> 0 -> rate <= commission_den -> fst (add_reward_single s scale factor num den addr rate) = ROk.
Proof. exact add_reward_single_never_fatal_l. Qed.
Print Assumptions reward_single_never_fatal.

(* TransferFromCommon incl. the dead-pool branch of the repaired code *)
Theorem transfer_from_common_never_fatal : forall s to amount rate esc,
  rate <= commission_den -> fst (transfer_from_common s to amount rate esc) = ROk.
Proof. exact transfer_from_common_never_fatal_l. Qed.
Print Assumptions transfer_from_common_never_fatal.

(* BeginBlock fee disbursement: a non-empty commit when fees are pending (CometBFT), at most
   as many voters as eligible validators; any weights (zero vote+next weight is guarded) *)
Theorem fees_vq_never_fatal : forall p s pr n voters,
  vq_done s = false -> (last_block_fees s <> 0 -> n <> 0) -> N.of_nat (length voters) <= n ->
  fst (fees_vq p s pr n voters) = ROk.
Proof. exact fees_vq_never_fatal_l. Qed.
Print Assumptions fees_vq_never_fatal.

(* EndBlock fee disbursement: not all three weights zero (ConsensusParameters.SanityCheck) *)
Theorem fees_p_never_fatal : forall p s pr,
  vq_done s = true -> p_w_propose p + p_w_vote p + p_w_next p <> 0 -> fst (fees_p p s pr) = ROk.
Proof. exact fees_p_never_fatal_l. Qed.
Print Assumptions fees_p_never_fatal.

(* consistency is what makes debonding completion total: with Inv the
   epoch-change loop never fails (no block-aborting error) *)
Theorem debond_all_never_fatal : forall s ep, Inv s -> fst (debond_all s ep) = ROk.
Proof. exact debond_all_never_fatal_l. Qed.
Print Assumptions debond_all_never_fatal.

(* non-vacuity: a concrete 4-account state satisfies Inv, and a one-block
   history with fees, reward, slash, burn, reclaim, escrow, a failing transfer,
   allowance + withdrawal, governance deposit + discard and a debonding
   completion ends with supply 11957 - 20 *)
Theorem example_state_inv : Inv ex_s0.
Proof. exact ex_inv. Qed.
Print Assumptions example_state_inv.

Theorem example_history :
  fst (run_rc ex_p ex_s0 ex_ops) = [ROk; ROk; ROk; ROk; ROk; ROk; ROk; RFail 3; ROk; ROk; ROk; ROk; ROk; ROk]
  /\ total_supply (run ex_p ex_s0 ex_ops) = 11937
  /\ burned_run ex_p ex_s0 ex_ops = 20
  /\ common_pool (run ex_p ex_s0 ex_ops) = 10189
  /\ debdeleg (run ex_p ex_s0 ex_ops) = [((1, 2, 6), 101)]
  /\ fee_acc (run ex_p ex_s0 ex_ops) = 0 /\ vq_done (run ex_p ex_s0 ex_ops) = false.
Proof. exact ex_run. Qed.
Print Assumptions example_history.

(* ---- SlashEscrow for an arbitrary penalty and arbitrary balances (incl. penalty > active +
   debonding, where slashPool's MoveUpTo caps): the common pool gains exactly what the two
   pools lose, never more than the penalty; shares, general balance, every other account and
   the recorded supply are untouched; a penalty covering both pools empties both ---- *)
Theorem slash_exact : forall s addr amount,
  let s' := snd (slash s addr amount) in
  let a := acct s addr in let a' := acct s' addr in
  common_pool s' + bal (active a') + bal (debonding a') = common_pool s + bal (active a) + bal (debonding a)
  /\ common_pool s <= common_pool s' /\ common_pool s' - common_pool s <= amount
  /\ bal (active a') <= bal (active a) /\ bal (debonding a') <= bal (debonding a)
  /\ tsh (active a') = tsh (active a) /\ tsh (debonding a') = tsh (debonding a) /\ general a' = general a
  /\ (bal (active a) + bal (debonding a) <= amount -> bal (active a') = 0 /\ bal (debonding a') = 0)
  /\ (forall e, e <> addr -> acct s' e = acct s e)
  /\ total_supply s' = total_supply s.
Proof. exact slash_exact_l. Qed.
Print Assumptions slash_exact.

(* 150 active + 50 debonding, penalty 120 three times: 120, the remaining 80, nothing *)
Theorem slash_repeated :
  let s0 := mkSt [(1, mkAcct 0 0 (mkPool 150 150) (mkPool 50 50) [])] [((1, 1), 150)] [((1, 1, 9), 50)] 1200 1000 0 0 0 false in
  let s3 := run ex_p s0 [OSlash 1 120; OSlash 1 120; OSlash 1 120] in
  Inv s0 /\ common_pool s3 = 1200 /\ bal (active (acct s3 1)) = 0 /\ bal (debonding (acct s3 1)) = 0 /\ total_supply s3 = 1200.
Proof. exact slash_repeated_example. Qed.
Print Assumptions slash_repeated.

(* ---- parameter changes (governance ChangeParameters taking effect) between operations: every
   operation carries the parameters in force when it runs; the change itself touches no
   balance (parameters are not part of the ledger state) ---- *)
Theorem run_params_preserves_inv : forall ops s, Inv s -> Inv (run_params s ops).
Proof. exact run_params_preserves_inv_l. Qed.
Print Assumptions run_params_preserves_inv.

Theorem supply_exact_params : forall ops s, Inv s ->
  total_supply s = total_supply (run_params s ops) + burned_run_params s ops.
Proof. exact supply_run_params_l. Qed.
Print Assumptions supply_exact_params.

(* fee disbursement at begin and end of block conserves for ALL weights, zero sums included *)
Theorem fee_disbursement_conserves : forall p s pr n vs, Inv s ->
  (Inv (snd (fees_vq p s pr n vs)) /\ total_supply (snd (fees_vq p s pr n vs)) = total_supply s) /\
  (Inv (snd (fees_p p s pr)) /\ total_supply (snd (fees_p p s pr)) = total_supply s).
Proof. exact fee_disbursement_conserves_l. Qed.
Print Assumptions fee_disbursement_conserves.

(* with vote + next-propose weight = 0, fees still pending from the previous block all go to
   the common pool (nothing is dropped) *)
Theorem fees_vq_zero_weights : forall p s pr n vs,
  vq_done s = false -> p_w_vote p + p_w_next p = 0 -> n <> 0 ->
  snd (fees_vq p s pr n vs) = with_common (with_lbf s (last_block_fees s) true) (common_pool s + last_block_fees s)
  /\ fst (fees_vq p s pr n vs) = ROk.
Proof. exact fees_vq_zero_weights_l. Qed.
Print Assumptions fees_vq_zero_weights.

(* ---- withdrawals with source = caller (also for accounts with a withdraw hook, i.e. vaults,
   and whatever the hook answers): rejected, nothing changes ---- *)
Theorem withdraw_self_noop : forall p s a amt hook_ok gas_ok,
  (fst (withdraw_op p s a a amt gas_ok) <> ROk /\ snd (withdraw_op p s a a amt gas_ok) = s) /\
  (fst (withdraw_hooked p s a a amt hook_ok gas_ok) <> ROk /\ snd (withdraw_hooked p s a a amt hook_ok gas_ok) = s).
Proof. exact withdraw_self_noop_l. Qed.
Print Assumptions withdraw_self_noop.
