(* C10 -- No block content can halt block execution.
   Theorems about the executable ports in NoHalt/Model.v of the arithmetic whose
   errors are fatal (an error returned from BeginBlock/EndBlock is turned into a
   panic by the multiplexer).  [Fatal] = the Go function returns an error. *)
From Verif Require Import Lib.Base NoHalt.Model NoHalt.Proofs NoHalt.SeqProofs NoHalt.TallyProofs.
From Verif Require Import Sched.Elect NoHalt.ElectProofs NoHalt.GovProofs NoHalt.UpdProofs NoHalt.InMsgProofs.

(* disburseFeesP never fails, for any fee total and any weights that pass
   ConsensusParameters.SanityCheck (not all three zero), proposer known or not *)
Theorem disburse_p_total :
  forall total wP wV wQ known,
    wP + wV + wQ <> 0 -> is_fatal (fee_p total wP wV wQ known) = false.
Proof. exact fee_p_total. Qed.
Print Assumptions disburse_p_total.

(* disburseFeesP distributes exactly the block's fees *)
Theorem disburse_p_conserves :
  forall total wP wV wQ known a b c,
    fee_p total wP wV wQ known = Ok (a, b, c) -> a + b + c = total.
Proof. exact fee_p_conserves. Qed.
Print Assumptions disburse_p_conserves.

(* disburseFeesVQ (as repaired by commit c9cfe37) never fails for any persisted
   fees, ALL weights and ANY vote pattern (0 <= voters <= entries, including all
   absent) when the commit info is non-empty *)
Theorem disburse_vq_total :
  forall last nEV nVE wV wQ known,
    0 < nEV -> nVE <= nEV ->
    is_fatal (fee_vq last nEV nVE wV wQ known) = false.
Proof. exact fee_vq_total. Qed.
Print Assumptions disburse_vq_total.

(* next proposer + every voter's share + common pool = pending fees *)
Theorem disburse_vq_conserves :
  forall last nEV nVE wV wQ known a b c,
    0 < nEV -> nVE <= nEV ->
    fee_vq last nEV nVE wV wQ known = Ok (a, b, c) -> a + b * nVE + c = last.
Proof. exact fee_vq_conserves. Qed.
Print Assumptions disburse_vq_conserves.

(* at the initial height (empty commit info) the persisted fees are zero and
   nothing is divided *)
Theorem disburse_vq_initial_height :
  forall nEV nVE wV wQ known, fee_vq 0 nEV nVE wV wQ known = Ok (0, 0, 0).
Proof. exact fee_vq_zero_fees. Qed.
Print Assumptions disburse_vq_initial_height.

(* end-of-block split under the OLD weights followed by the next block's split
   under ANY NEW weights never fails (a parameter change may happen in between) *)
Theorem disburse_p_then_vq_total :
  forall total wP wV wQ known persist b c nEV nVE wV' wQ' known',
    fee_p total wP wV wQ known = Ok (persist, b, c) ->
    0 < nEV -> nVE <= nEV ->
    is_fatal (fee_vq persist nEV nVE wV' wQ' known') = false.
Proof. exact fee_p_then_vq_total. Qed.
Print Assumptions disburse_p_then_vq_total.

(* The ORIGINAL disburseFeesVQ (before c9cfe37; definition fee_vq_original) is
   REFUTED under the sanity check alone: weights (P,V,Q) = (w,0,0) pass the check,
   and with non-zero persisted fees it fails where the repaired function does not.
   A revert of the repair makes the correspondence check disagree on exactly such cases. *)
Theorem disburse_vq_total_original_refuted :
  exists last nEV nVE wP wV wQ known,
    wP + wV + wQ <> 0 /\ 0 < nEV /\ nVE <= nEV /\ last <> 0 /\
    fee_vq_original last nEV nVE wV wQ known = Fatal /\
    is_fatal (fee_vq last nEV nVE wV wQ known) = false.
Proof. exact fee_vq_original_refuted. Qed.
Print Assumptions disburse_vq_total_original_refuted.

Theorem disburse_vq_original_fatal_zero_weights :
  forall last nEV nVE known, last <> 0 -> fee_vq_original last nEV nVE 0 0 known = Fatal.
Proof. exact fee_vq_original_fatal_zero_weights. Qed.
Print Assumptions disburse_vq_original_fatal_zero_weights.

(* outside the zero-weight case the repair changes nothing *)
Theorem disburse_vq_original_agrees :
  forall last nEV nVE wV wQ known,
    wV + wQ <> 0 -> fee_vq_original last nEV nVE wV wQ known = fee_vq last nEV nVE wV wQ known.
Proof. exact fee_vq_original_agrees. Qed.
Print Assumptions disburse_vq_original_agrees.

(* AddRewards / AddRewardSingleAttenuated never fail for any escrow, factor,
   scale, pool (including a depleted one) and vote count, when the attenuation
   denominator (number of commit-info entries) is non-zero and the commission
   rate is at most 100 % *)
Theorem rewards_total :
  forall rden cden bal ts factor scale num den pool rate,
    rden <> 0 -> cden <> 0 -> den <> 0 -> rate <= cden ->
    is_fatal (reward rden cden bal ts factor scale num den pool rate) = false.
Proof. exact reward_total. Qed.
Print Assumptions rewards_total.

(* the first-block guard (no epoch => no proposer reward) is necessary *)
Theorem rewards_fatal_on_empty_commit_info :
  forall rden cden bal ts factor scale num pool rate,
    rden <> 0 -> reward rden cden bal ts factor scale num 0 pool rate = Fatal.
Proof. exact reward_fatal_den_zero. Qed.
Print Assumptions rewards_fatal_on_empty_commit_info.

(* the epoch-end AddRewards LOOP (entities share one common-pool value, an entity whose
   reward does not fit is skipped, the pool is written once) never fails: for any pool
   -- also one that runs dry in the middle of the loop --, any stakes -- also dead pools
   (zero balance, shares outstanding) --, any factor/scale and any commission rates up to
   100 %; it yields one entry per entity and the pool decreases by exactly what was paid *)
Theorem rewards_sequence_total :
  forall rden cden factor scale accts pool,
    rden <> 0 -> cden <> 0 -> rates_ok cden accts ->
    exists l p, rewards_seq rden cden factor scale accts pool = Ok (l, p) /\
                length l = length accts /\ p + paid l = pool.
Proof. exact rewards_seq_ok. Qed.
Print Assumptions rewards_sequence_total.

(* the proposer-reward path end to end: total because the commit info can be empty only
   at the first block, where no epoch is known and the path returns early *)
Theorem proposer_reward_path_total :
  forall rden cden known epoch_valid scale bal ts factor nVE nEV pool rate,
    rden <> 0 -> cden <> 0 -> rate <= cden -> (epoch_valid = true -> nEV <> 0) ->
    is_fatal (proposer_path rden cden known epoch_valid scale bal ts factor nVE nEV pool rate) = false.
Proof. exact proposer_path_total. Qed.
Print Assumptions proposer_reward_path_total.

(* the signing-reward path end to end (threshold test with its overflow guards, then
   AddRewards over the eligible entities): never fails while the counters fit in 64 bits,
   and conserves the pool *)
Theorem signing_reward_path_total :
  forall rden cden tnum tden total factor scale ents pool,
    rden <> 0 -> cden <> 0 -> signing_ok cden tnum tden total ents ->
    exists l p, signing_path rden cden tnum tden total factor scale ents pool = Ok (l, p) /\
                p + paid l = pool.
Proof. exact signing_path_ok. Qed.
Print Assumptions signing_reward_path_total.

(* TransferFromCommon(escrow=true) (as repaired by commit c3a21ab) never fails, for ANY
   destination pool -- including one slashed to zero with shares outstanding -- any pool,
   amount and commission rate up to 100 % *)
Theorem transfer_from_common_escrow_total :
  forall cden bal ts pool amount rate,
    cden <> 0 -> rate <= cden ->
    is_fatal (transfer_from_common_escrow cden bal ts pool amount rate) = false.
Proof. exact tfc_total. Qed.
Print Assumptions transfer_from_common_escrow_total.

(* the common pool decreases by exactly what the escrow (rem + com) and the general
   balance (gen) of the destination receive, and by no more than it holds *)
Theorem transfer_from_common_escrow_conserves :
  forall cden bal ts pool amount rate rem com sh gen,
    cden <> 0 -> rate <= cden ->
    transfer_from_common_escrow cden bal ts pool amount rate = Ok (Some (rem, com, sh, gen)) ->
    rem + com + gen = N.min pool amount /\ N.min pool amount <= pool.
Proof. exact tfc_conserves. Qed.
Print Assumptions transfer_from_common_escrow_conserves.

(* The ORIGINAL function (before c3a21ab; definition transfer_from_common_escrow_original)
   is REFUTED: a destination slashed to zero with shares outstanding and a 100 % commission
   rate makes it fail (caller: roothash distributeSlashedFunds, run from EndBlock -- the halt
   was reproduced on the real multiplexer), where the repaired function does not. *)
Theorem transfer_from_common_escrow_original_refuted :
  exists cden bal ts pool amount rate,
    cden <> 0 /\ rate <= cden /\
    transfer_from_common_escrow_original cden bal ts pool amount rate = Fatal /\
    is_fatal (transfer_from_common_escrow cden bal ts pool amount rate) = false.
Proof. exact tfc_original_refuted. Qed.
Print Assumptions transfer_from_common_escrow_original_refuted.

(* every such state fails in the original; the repair leaves the commission in the general balance *)
Theorem transfer_from_common_escrow_original_fatal_dead_pool :
  forall cden ts pool amount,
    cden <> 0 -> ts <> 0 -> pool <> 0 -> amount <> 0 ->
    transfer_from_common_escrow_original cden 0 ts pool amount cden = Fatal /\
    transfer_from_common_escrow cden 0 ts pool amount cden = Ok (Some (0, 0, 0, N.min pool amount)).
Proof. exact tfc_original_fatal_full_commission. Qed.
Print Assumptions transfer_from_common_escrow_original_fatal_dead_pool.

(* outside the dead-pool case the repair changes nothing *)
Theorem transfer_from_common_escrow_original_agrees :
  forall cden bal ts pool amount rate,
    cden <> 0 -> rate <= cden -> (ts = 0 \/ bal <> 0 \/ rate < cden) ->
    transfer_from_common_escrow_original cden bal ts pool amount rate =
    transfer_from_common_escrow cden bal ts pool amount rate.
Proof. exact tfc_original_agrees. Qed.
Print Assumptions transfer_from_common_escrow_original_agrees.

(* SlashEscrow never fails and never takes more than each pool holds *)
Theorem slash_total :
  forall active deb amount,
    exists sa sd, slash_escrow active deb amount = Ok (sa, sd) /\ sa <= active /\ sd <= deb.
Proof. exact NoHalt.Proofs.slash_total. Qed.
Print Assumptions slash_total.

(* a penalty of at least the whole escrow slashes to exactly zero *)
Theorem slash_to_zero :
  forall active deb amount,
    active + deb <= amount -> slash_escrow active deb amount = Ok (active, deb).
Proof. exact NoHalt.Proofs.slash_to_zero. Qed.
Print Assumptions slash_to_zero.

(* completing a debonding delegation never fails under the share invariant of the debonding pool *)
Theorem debonding_completion_total :
  forall bal ts shares,
    shares <= ts -> exists base, debond_complete bal ts shares = Ok base /\ base <= bal.
Proof. exact debond_total. Qed.
Print Assumptions debonding_completion_total.

(* the overflow guards of the signing-reward eligibility do not fire while the
   products fit in 64 bits *)
Theorem epoch_signing_total :
  forall total count tnum tden,
    total * tnum <= u64max -> count * tden <= u64max ->
    is_fatal (signing_eligible total count tnum tden) = false.
Proof. exact signing_eligible_total. Qed.
Print Assumptions epoch_signing_total.

(* for ANY vote list with one vote per account and ARBITRARY uint8 vote values (castVote
   accepts any value, the tally keeps one entry per value), under the ledger share
   invariant, the tally's share subtraction never underflows and the voted stake (summed
   over all 256 possible values) never exceeds the total voting stake *)
Theorem tally_never_exceeds_total :
  forall validators delegs votes,
    votes_ok votes -> NoDup (map fst votes) -> ledger_inv validators delegs ->
    exists rs, tally_results validators delegs votes = Ok rs /\
               sh_sum rs <= total_voting_stake validators.
Proof. exact tally_never_exceeds_total_l. Qed.
Print Assumptions tally_never_exceeds_total.

(* closing a proposal is fatal EXACTLY when every validator entity has zero active escrow *)
Theorem tally_fatal_exactly_when_no_voting_stake :
  forall validators delegs votes threshold,
    votes_ok votes -> NoDup (map fst votes) -> ledger_inv validators delegs ->
    (tally validators delegs votes threshold = Fatal <->
     Forall (fun v => snd (fst v) = 0) validators).
Proof. exact tally_fatal_iff_l. Qed.
Print Assumptions tally_fatal_exactly_when_no_voting_stake.

(* the share invariant is necessary: without it the tally's internal error is reachable *)
Theorem tally_needs_share_invariant :
  exists validators delegs votes threshold,
    votes_ok votes /\ total_voting_stake validators <> 0 /\
    tally validators delegs votes threshold = Fatal.
Proof. exact tally_needs_invariant. Qed.
Print Assumptions tally_needs_share_invariant.

(* the tally's StakeForShares never fails: it is the total function used by the model *)
Theorem stake_for_shares_total :
  forall bal ts shares, stake_for_shares bal ts shares = Ok (stake_pure bal ts shares).
Proof. exact stake_for_shares_pure. Qed.
Print Assumptions stake_for_shares_total.

(* ---- the validator election (fatal by design; model: Verif.Sched.Elect) ---- *)

(* VotingPowerFromStake (linear distribution) fails exactly from 2^67 base units on *)
Theorem voting_power_overflow_exactly :
  forall stake, voting_power false stake = None <-> 2 ^ 67 <= stake.
Proof. exact voting_power_linear_none_iff. Qed.
Print Assumptions voting_power_overflow_exactly.

(* which the genesis bound on the total supply (its power is at most MaxInt64/8) excludes *)
Theorem voting_power_defined_under_genesis_bound :
  forall stake supply,
    stake <= supply -> supply / 16 <= (2 ^ 63 - 1) / 8 -> voting_power false stake <> None.
Proof. exact voting_power_defined_under_supply_bound. Qed.
Print Assumptions voting_power_defined_under_genesis_bound.

(* With unique consensus keys and no voting-power overflow among the candidates, the
   election fails EXACTLY when there is no stake-eligible validator candidate ("failed to
   elect any validators") or fewer of them than MinValidators after the MaxValidators cut
   ("insufficient validators"); otherwise it succeeds *)
Theorem election_fails_exactly :
  forall p ents perm_e cands sh,
    let seq := cand_seq_sh p ents perm_e cands sh in
    powers_defined p ents seq -> NoDup (map n_cons seq) ->
    match seq with
    | [] => elect_core p ents perm_e cands sh = VErrNone
    | _ =>
        let k := N.min (len seq) (N.max (p_max p) 1) in
        if k <? p_min p
        then elect_core p ents perm_e cands sh = VErrInsufficient
        else exists vals vents, elect_core p ents perm_e cands sh = VOk vals vents
    end.
Proof. exact election_outcome. Qed.
Print Assumptions election_fails_exactly.

(* the documented precondition: enough stake-eligible validators remain => no failure *)
Theorem election_total_under_precondition :
  forall p ents perm_e cands sh,
    let seq := cand_seq_sh p ents perm_e cands sh in
    powers_defined p ents seq -> NoDup (map n_cons seq) ->
    seq <> [] -> p_min p <= len seq -> p_min p <= N.max (p_max p) 1 ->
    exists vals vents, elect_core p ents perm_e cands sh = VOk vals vents.
Proof. exact election_succeeds_under_precondition. Qed.
Print Assumptions election_total_under_precondition.

(* the only remaining failure is a voting-power conversion error inside the loop *)
Theorem election_power_error_exactly :
  forall p ents perm_e cands sh,
    elect_core p ents perm_e cands sh = VErrPower <->
    fill p ents (cand_seq_sh p ents perm_e cands sh) [] [] = None.
Proof. exact election_power_error_iff. Qed.
Print Assumptions election_power_error_exactly.

(* ---- scheduler parameter changes (after commit 2b1f48e) ---- *)

(* accepted changes keep MinValidators / MaxValidators positive and consistent, for any
   sequence of proposed changes (refused ones change nothing) *)
Theorem scheduler_changes_keep_parameters_consistent :
  forall cs pmin pmax,
    sched_consistent pmin pmax ->
    sched_consistent (fst (sched_run cs pmin pmax)) (snd (sched_run cs pmin pmax)).
Proof. exact sched_run_consistent. Qed.
Print Assumptions scheduler_changes_keep_parameters_consistent.

(* so the "insufficient validators" failure is unreachable through parameter changes alone:
   with the resulting parameters the election succeeds whenever MinValidators stake-eligible
   candidates exist *)
Theorem election_not_insufficient_by_parameter_changes :
  forall cs pmin0 pmax0 p ents perm_e cands sh,
    sched_consistent pmin0 pmax0 ->
    Z.of_N (p_min p) = fst (sched_run cs pmin0 pmax0) ->
    Z.of_N (p_max p) = snd (sched_run cs pmin0 pmax0) ->
    let seq := cand_seq_sh p ents perm_e cands sh in
    powers_defined p ents seq -> NoDup (map n_cons seq) ->
    p_min p <= len seq ->
    exists vals vents, elect_core p ents perm_e cands sh = VOk vals vents.
Proof. exact election_not_insufficient_by_parameters. Qed.
Print Assumptions election_not_insufficient_by_parameter_changes.

(* the ORIGINAL handler (before 2b1f48e) accepted {min 2, max 1}, after which an election
   with two eligible validators fails with "insufficient validators" *)
Theorem scheduler_change_original_refuted :
  sched_change_original (Some 2%Z) (Some 1%Z) 1 100 = Some (2%Z, 1%Z) /\
  sched_change (Some 2%Z) (Some 1%Z) 1 100 = None /\
  elect_core (mkParams 2 1 1 true false) [] [0; 1] [ex_node 1; ex_node 2] [ex_node 1; ex_node 2] = VErrInsufficient /\
  exists vals vents,
    elect_core (mkParams 1 100 1 true false) [] [0; 1] [ex_node 1; ex_node 2] [ex_node 1; ex_node 2] = VOk vals vents.
Proof. exact sched_change_original_refuted. Qed.
Print Assumptions scheduler_change_original_refuted.

(* ---- governance deposits ---- *)

(* For ANY history of proposal submissions, parameter changes (the minimum deposit may go up
   or down at any time) and proposal closings, starting from a state where the deposits pool
   equals the recorded deposits of the open proposals: no closing ever asks the pool for more
   than it holds, and the pool keeps being exactly the sum of the open proposals' deposits *)
Theorem governance_deposits_total :
  forall ops st, ginv st -> exists st', grun ops st = Ok st' /\ ginv st'.
Proof. exact grun_ok. Qed.
Print Assumptions governance_deposits_total.

Theorem governance_deposits_initial_state : forall min, ginv (ginit min).
Proof. exact ginit_inv. Qed.
Print Assumptions governance_deposits_initial_state.

(* one EndBlock: closing proposals whose recorded deposits are part of the pool pays out
   exactly those deposits and leaves the rest *)
Theorem governance_close_total :
  forall pool deps rest,
    pool = fold_right N.add rest deps ->
    exists l, gov_close pool deps = Ok (l, rest) /\ map (fun x => fst (fst x)) l = deps.
Proof. exact gov_close_ok. Qed.
Print Assumptions governance_close_total.

(* refunding the CURRENT minimum deposit instead of the recorded one is refuted: raising the
   minimum while a proposal is open makes its closing fail (a halt), lowering it leaves money
   behind *)
Theorem governance_refund_of_current_minimum_refuted :
  exists ops, grun_current_min ops (ginit 100) = Fatal /\
              exists st, grun ops (ginit 100) = Ok st /\ g_pool st = 0.
Proof. exact current_min_refund_refuted. Qed.
Print Assumptions governance_refund_of_current_minimum_refuted.

Theorem governance_refund_of_current_minimum_breaks_invariant :
  exists ops st, grun_current_min ops (ginit 100) = Ok st /\ g_open st = [] /\ g_pool st <> 0.
Proof. exact current_min_refund_breaks_invariant. Qed.
Print Assumptions governance_refund_of_current_minimum_breaks_invariant.

(* ---- validator updates handed to the consensus engine ---- *)

(* stakes below one power unit (16 base units) still get voting power 1 *)
Theorem voting_power_floor_is_one :
  forall stake, stake < 16 -> voting_power false stake = Some 1.
Proof. exact voting_power_small_stake. Qed.
Print Assumptions voting_power_floor_is_one.

(* every elected validator has voting power at least 1, so no entry of the new set is read
   as a removal by the consensus engine *)
Theorem elected_validator_power_at_least_one :
  forall p ents epoch nodes pe pn vals vents,
    elect_validators p ents epoch nodes pe pn = VOk vals vents ->
    Forall (fun kv => 1 <= snd kv) (powers_of vals).
Proof. exact elected_power_ge_1. Qed.
Print Assumptions elected_validator_power_at_least_one.

(* for every election: the update list returned by EndBlock only removes validators of the
   current set, never empties the set, and turns the current set into exactly the elected one *)
Theorem validator_updates_acceptable :
  forall p ents epoch nodes pe pn vals vents cur,
    elect_validators p ents epoch nodes pe pn = VOk vals vents ->
    NoDup (map fst cur) -> NoDup (map fst (powers_of vals)) -> vals <> [] ->
    let ups := diff_validators cur (powers_of vals) in
    (forall k, In (k, 0) ups -> In k (map fst cur)) /\
    (exists k v, aget k (apply_updates cur ups) = Some v /\ v <> 0) /\
    (forall k, aget k (apply_updates cur ups) = aget k (powers_of vals)).
Proof. exact election_updates_acceptable. Qed.
Print Assumptions validator_updates_acceptable.

(* applying the "zero power -> 1" floor BEFORE the linear scaling is refuted: a stake of
   1..15 base units then gets power 0, i.e. the removal of a validator the engine does not know *)
Theorem voting_power_floor_before_scaling_refuted :
  (forall s, 0 < s -> s < 16 -> voting_power_floor_first s = Some 0) /\
  exists cur pend k,
    NoDup (map fst cur) /\ NoDup (map fst pend) /\
    voting_power_floor_first 10 = Some (match aget k pend with Some v => v | None => 1 end) /\
    In (k, 0) (diff_validators cur pend) /\ ~ In k (map fst cur).
Proof. split; [exact floor_first_zero_power|exact floor_first_refuted]. Qed.
Print Assumptions voting_power_floor_before_scaling_refuted.

(* ---- incoming runtime messages at round finalization ---- *)

(* for a queue whose size counter equals its (distinct) stored messages, finalization never
   fails FATALLY whatever in-message count the committee committed -- 0, the queue size, more
   than the queue holds, 2^32-1 --: with a matching hash the first min(count, size) messages
   are removed and the invariant is kept, with a mismatching hash the round fails *)
Theorem incoming_messages_finalization_total :
  forall r count hash_ok,
    rq_ok r ->
    (hash_ok = false /\ finalize_inmsgs r count hash_ok = Ok None) \/
    exists r1, finalize_inmsgs r count hash_ok = Ok (Some r1) /\ rq_ok r1 /\
               q_msgs r1 = skipn (N.to_nat count) (q_msgs r).
Proof. exact finalize_inmsgs_ok. Qed.
Print Assumptions incoming_messages_finalization_total.

(* SubmitMsg keeps the queue invariant *)
Theorem incoming_messages_submit_keeps_invariant :
  forall maxq r r1, rq_ok r -> rq_submit maxq r = Some r1 -> rq_ok r1.
Proof. exact rq_submit_ok. Qed.
Print Assumptions incoming_messages_submit_keeps_invariant.

(* finalizing one runtime never fails fatally and never changes another runtime's queue *)
Theorem incoming_messages_runtimes_independent :
  forall sys id count hash_ok,
    (forall r, aget id sys = Some r -> rq_ok r) ->
    is_fatal (sys_finalize sys id count hash_ok) = false /\
    forall sys1 other, other <> id -> sys_finalize sys id count hash_ok = Ok sys1 ->
                       aget other sys1 = aget other sys.
Proof.
  split; [apply sys_finalize_total; assumption|].
  apply sys_finalize_independent.
Qed.
Print Assumptions incoming_messages_runtimes_independent.

(* a fetch that runs on into the next runtime's queue is refuted: the size counter reaches zero
   with messages left -- the fatal "inconsistent queue size" error *)
Theorem incoming_messages_overrun_refuted :
  exists r foreign count, rq_ok r /\ finalize_inmsgs_overrun r foreign count = Fatal /\
                          is_fatal (finalize_inmsgs r count true) = false.
Proof. exact overrun_refuted. Qed.
Print Assumptions incoming_messages_overrun_refuted.

(* ---- distribution of slashed funds (roothash) ---- *)

(* with a reward percentage of at most 100 -- what the runtime descriptor validity check
   enforces at registration -- distributeSlashedFunds never fails and hands out no more than
   was slashed *)
Theorem distribute_slashed_funds_total :
  forall total pct n,
    pct <= 100 -> exists r e, distribute_slashed total pct n = Ok (r, e) /\ r + e * n <= total.
Proof. exact distribute_slashed_total. Qed.
Print Assumptions distribute_slashed_funds_total.

Theorem runtime_percent_validity :
  forall pe pb, rt_percent_valid pe pb = true <-> pe <= 100 /\ pb <= 100.
Proof. exact rt_percent_valid_spec. Qed.
Print Assumptions runtime_percent_validity.

(* above 100 it is fatal as soon as at least 100 base units were slashed and somebody else is rewarded *)
Theorem distribute_slashed_funds_fatal_above_100 :
  forall total pct n,
    100 < pct -> 100 <= total -> n <> 0 -> distribute_slashed total pct n = Fatal.
Proof. exact distribute_slashed_fatal_above_100. Qed.
Print Assumptions distribute_slashed_funds_fatal_above_100.

(* a validity check that tests the equivocation percentage twice (copy/paste) is refuted *)
Theorem runtime_percent_copy_paste_refuted :
  exists pe pb total n,
    rt_percent_valid_copy_paste pe pb = true /\ rt_percent_valid pe pb = false /\
    distribute_slashed total pb n = Fatal.
Proof. exact rt_percent_copy_paste_refuted. Qed.
Print Assumptions runtime_percent_copy_paste_refuted.

(* ---- fee checks of transaction delivery ---- *)

(* Fee.GasPrice is total: gas 0 gives price 0, never a division *)
Theorem gas_price_is_total :
  forall amount gas, exists p, gas_price amount gas = Ok p /\ (gas = 0 -> p = 0).
Proof. exact gas_price_total. Qed.
Print Assumptions gas_price_is_total.

(* the minimum gas price check never fails fatally for any fee shape and any minimum *)
Theorem process_tx_fee_checks_total :
  forall min_price fee, is_fatal (fee_check min_price fee) = false.
Proof. exact fee_check_total. Qed.
Print Assumptions process_tx_fee_checks_total.

Theorem process_tx_zero_gas_fee_rejected :
  forall min_price amount, min_price <> 0 -> fee_check min_price (Some (amount, 0)) = Ok false.
Proof. exact fee_check_zero_gas. Qed.
Print Assumptions process_tx_zero_gas_fee_rejected.

(* with && instead of || in GasPrice's guard a fee {amount > 0, gas 0} divides by zero (a panic) *)
Theorem gas_price_guard_with_and_refuted :
  forall amount, amount <> 0 -> gas_price_and amount 0 = Fatal.
Proof. exact gas_price_and_refuted. Qed.
Print Assumptions gas_price_guard_with_and_refuted.

(* ---- validator election with the VRF beacon backend ---- *)

(* proofs submitted by nodes that are not validator candidates (compute nodes, observers,
   frozen / expired / under-staked validators) never change the election *)
Theorem vrf_election_ignores_proofs_of_other_nodes :
  forall p ents epoch nodes pe pn beta beta',
    (forall n, In n (vcands p ents epoch nodes) -> beta (n_id n) = beta' (n_id n)) ->
    elect_validators_vrf p ents epoch nodes pe pn beta = elect_validators_vrf p ents epoch nodes pe pn beta'.
Proof. exact vrf_election_ignores_other_proofs. Qed.
Print Assumptions vrf_election_ignores_proofs_of_other_nodes.

(* when fewer than MinValidators candidates have a proof the election IS the entropy-path
   election, which succeeds under the documented precondition (election_total_under_precondition) *)
Theorem vrf_election_falls_back_without_validator_proofs :
  forall p ents epoch nodes pe pn beta,
    len (filter (has_pi beta) (vcands p ents epoch nodes)) < p_min p ->
    elect_validators_vrf p ents epoch nodes pe pn beta = elect_validators p ents epoch nodes pe pn.
Proof. exact vrf_election_falls_back. Qed.
Print Assumptions vrf_election_falls_back_without_validator_proofs.

(* counting the proofs of ALL nodes in the fallback test is refuted: two eligible validators
   without proofs and two foreign proofs elect nobody *)
Theorem vrf_fallback_on_all_proofs_refuted :
  let p := mkParams 2 100 1 true false in
  let nodes := [ex_node 1; ex_node 2] in
  elect_validators_vrf_any_proofs p [] 1 nodes [0; 1] [0; 1] (fun _ => None) 2 = VErrNone /\
  exists vals vents, elect_validators_vrf p [] 1 nodes [0; 1] [0; 1] (fun _ => None) = VOk vals vents /\ len vals = 2.
Proof. exact vrf_any_proofs_refuted. Qed.
Print Assumptions vrf_fallback_on_all_proofs_refuted.
