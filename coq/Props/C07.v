From Verif Require Import Lib.Base NodeDB.Spec NodeDB.Badger NodeDB.BadgerProofs.

Theorem crash_safe_commit_partial :
  forall d ps ver, inv d -> inv (mkb (b_meta d) (b_aux d) (write_all ps ver true (b_store d))).
Proof. exact crash_after_commit_flush. Qed.
Print Assumptions crash_safe_commit_partial.
