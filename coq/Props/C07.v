From Verif Require Import Lib.Base NodeDB.Spec NodeDB.Badger NodeDB.BadgerProofs NodeDB.Crash NodeDB.CrashProofs NodeDB.Multipart NodeDB.MultipartProofs.

Theorem crash_hyps_hold_after_every_history :
  forall h, ok_run bdb0 h = true -> inv (c_b (c_run cdb0 h)) /\ rk_inv (c_run cdb0 h).
Proof. exact crash_hyps_after_history. Qed.
Print Assumptions crash_hyps_hold_after_every_history.

Theorem step_lists_are_the_operations :
  forall c o, rk_inv c ->
    fst (run_all c o) = fst (b_step (c_b c) o) /\ c_b (snd (run_all c o)) = snd (b_step (c_b c) o).
Proof. exact run_all_b. Qed.
Print Assumptions step_lists_are_the_operations.

Theorem crash_safe_commit :
  forall c ver typ rid old ws puts removed reach inl0 k,
  let o := OCommit ver typ rid old ws puts removed reach inl0 in
  inv (c_b c) -> (k < length (snd (plan c o)))%nat ->
  let c1 := reopen (run_until k c o) in
  inv (c_b c1) /\ b_meta (c_b c1) = b_meta (c_b c) /\ b_aux (c_b c1) = b_aux (c_b c) /\
  (forall r t, visible r t (c_rk c) = true -> visible r t (c_rk c1) = true) /\
  fst (retry c1 o) = fst (run_all c o) /\ cequiv (snd (retry c1 o)) (snd (run_all c o)).
Proof. exact crash_safe_commit_l. Qed.
Print Assumptions crash_safe_commit.

Theorem crash_safe_finalize :
  forall c ver rids k,
  let o := OFinalize ver rids in
  inv (c_b c) -> (k < length (snd (plan c o)))%nat ->
  let c1 := reopen (run_until k c o) in
  b_meta (c_b c1) = b_meta (c_b c) /\ b_aux (c_b c1) = b_aux (c_b c) /\ c_rk c1 = c_rk c /\
  (forall v r, last_geb (b_meta (c_b c)) v = true -> d_earliest (b_meta (c_b c)) <= v ->
     has_rid r (roots_at (b_meta (c_b c)) v) = true ->
     forall n, In n (a_reach (aux_get v r (b_aux (c_b c)))) -> visible n v (b_store (c_b c1)) = true) /\
  fst (retry c1 o) = fst (run_all c o) /\ cequiv (snd (retry c1 o)) (snd (run_all c o)).
Proof. exact crash_safe_finalize_l. Qed.
Print Assumptions crash_safe_finalize.

Theorem crash_safe_prune_original_refuted :
  let c := c_run cdb0 h_prune_crash in
  fst (run_all_orig c (OPrune 1)) = EOk /\
  let c1 := reopen (run_until_orig 1 c (OPrune 1)) in
  fst (retry_orig c1 (OPrune 1)) = ERootNotFound /\ snd (retry_orig c1 (OPrune 1)) = c1 /\
  d_earliest (b_meta (c_b c1)) = 1 /\ inv (c_b c) /\ prune_safe (c_b c) 1 = true.
Proof. exact crash_safe_prune_refuted_l. Qed.
Print Assumptions crash_safe_prune_original_refuted.

Theorem crash_safe_prune :
  forall c ver k,
  let o := OPrune ver in
  inv (c_b c) -> rk_inv c -> prune_safe (c_b c) ver = true ->
  (k < length (snd (plan c o)))%nat ->
  let c1 := reopen (run_until k c o) in
  b_meta (c_b c1) = b_meta (c_b c) /\ b_aux (c_b c1) = b_aux (c_b c) /\
  (forall v r, ver < v -> has_rid r (roots_at (b_meta (c_b c)) v) = true ->
     visible r v (c_rk c1) = true /\
     forall n, In n (a_reach (aux_get v r (b_aux (c_b c)))) -> visible n v (b_store (c_b c1)) = true) /\
  fst (run_all c1 o) = EOk /\ snd (run_all c1 o) = snd (run_all c o).
Proof. exact crash_safe_prune_alt_l. Qed.
Print Assumptions crash_safe_prune.

Theorem crash_safe_prune_on_witness :
  let c := c_run cdb0 h_prune_crash in
  let c1 := reopen (run_until 1 c (OPrune 1)) in
  fst (retry c1 (OPrune 1)) = EOk /\ snd (retry c1 (OPrune 1)) = snd (run_all c (OPrune 1)) /\
  snd (run_all c (OPrune 1)) = snd (run_all_orig c (OPrune 1)).
Proof. exact crash_prune_alt_witness. Qed.
Print Assumptions crash_safe_prune_on_witness.

Theorem multipart_invisible :
  forall m0 v chunks o k,
  m_mp m0 = 0 -> m_log m0 = [] -> v <> 0 -> Forall (chunk_at v) chunks -> chunk_at v o ->
  let m1 := m_run m0 (MStart v :: chunks) in
  d_last (m_meta m1) = d_last (m_meta m0) /\
  (forall j, d_last (m_meta (m_run_until j m1 o)) = d_last (m_meta m0)) /\
  let m2 := m_reopen (m_run_until k m1 o) in
  m_mp m2 = 0 /\ m_log m2 = [] /\ d_last (m_meta m2) = d_last (m_meta m0) /\
  forall n, visible n v (m_store m2) = visible n v (m_store m0).
Proof. exact multipart_invisible_l. Qed.
Print Assumptions multipart_invisible.

Theorem badger_restore_finalize_crash_refuted :
  let m := m_run mdb0 h_restore in
  m_status m 3 2 = 1 /\ d_last (m_meta m) = None /\
  m_status (m_reopen (snd (m_run_all m (MFinalize 3 [2])))) 3 2 = 1 /\
  let m2 := m_reopen (m_run_until 2 m (MFinalize 3 [2])) in
  d_last (m_meta m2) = Some 3 /\ m_status m2 3 2 = 3 /\ b_status (c_b (m_c m2)) 3 2 = 2.
Proof. exact badger_restore_finalize_crash_refuted_l. Qed.
Print Assumptions badger_restore_finalize_crash_refuted.

Theorem aborted_restore_root_listed_not_finalized :
  let m := snd (m_run_all (m_run mdb0 h_restore) MAbort) in
  has_rid 2 (roots_at (m_meta m) 3) = true /\ d_last (m_meta m) = None /\ m_status m 3 2 = 3.
Proof. exact abort_leaves_root_listed. Qed.
Print Assumptions aborted_restore_root_listed_not_finalized.

Theorem restore_then_normal_operation :
  let m1 := m_reopen (m_run mdb0 h_local) in
  has_rid 4 (roots_at (m_meta m1) 3) = true /\ d_last (m_meta m1) = Some 2 /\
  a_puts (aux_get 3 4 (b_aux (c_b (m_c m1)))) = [] /\
  let m2 := m_run m1 h_continue in
  d_last (m_meta m2) = Some 3 /\ has_rid 4 (roots_at (m_meta m2) 3) = false /\
  m_status m2 3 5 = 1 /\ m_status m2 2 3 = 1 /\ m_status m2 1 2 = 1.
Proof. exact restore_then_normal_operation_l. Qed.
Print Assumptions restore_then_normal_operation.
