(* C19 - Stateless nodes return provider data only if bound to a verified header.
   Theorems about Verif.Stateless.Merkle (CometBFT simple Merkle tree and
   transaction inclusion proofs) and Verif.Stateless.Bind (the field-binding
   checks of go/consensus/cometbft/stateless/core.go).  H is an arbitrary hash
   function with a fixed output length; it is never assumed injective
   (collision H := exists x y, x <> y /\ H x = H y). *)
From Verif Require Import Lib.Base Stateless.Merkle Stateless.Proofs Stateless.Bind Stateless.BindProofs
  Stateless.Cache Stateless.CacheProofs Gen.StatelessApi Stateless.Api.

Theorem proof_complete (H : bytes -> bytes) (hlen : nat) (H_len : forall x, length (H x) = hlen) (txs : list bytes) (i : nat) (p : proof) :
  length (snd (proofs_for_txs H txs)) = length txs /\
  (nth_error (snd (proofs_for_txs H txs)) i = Some p ->
   verify_tx H (Some p) (Some (fst (proofs_for_txs H txs))) (nth i txs []) = MOk).
Proof. exact (proof_complete_l H hlen H_len txs i p). Qed.
Print Assumptions proof_complete.

Theorem proof_sound_member (H : bytes -> bytes) (hlen : nat) (H_len : forall x, length (H x) = hlen) (txs : list bytes) (p : option proof) (tx : bytes) :
  verify_tx H p (Some (tx_root H txs)) tx = MOk -> In tx txs \/ collision H.
Proof. exact (proof_sound_member_l H hlen H_len txs p tx). Qed.
Print Assumptions proof_sound_member.

Theorem proof_sound (H : bytes -> bytes) (hlen : nat) (H_len : forall x, length (H x) = hlen) (txs : list bytes) (p : proof) (tx : bytes) :
  verify_tx H (Some p) (Some (tx_root H txs)) tx = MOk ->
  p_total p = Z.of_nat (length txs) ->
  ((0 <= p_index p < Z.of_nat (length txs))%Z /\ nth_error txs (Z.to_nat (p_index p)) = Some tx) \/ collision H.
Proof. exact (proof_sound_l H hlen H_len txs p tx). Qed.
Print Assumptions proof_sound.

Theorem index_not_bound_without_total (H : bytes -> bytes) (a b c : bytes) :
  verify H (Some (root H [a; b; c]))
    (mkProof 2 1 (leaf_hash H c) [inner_hash H (leaf_hash H a) (leaf_hash H b)]) c = MOk.
Proof. exact (index_not_bound_without_total_l H a b c). Qed.
Print Assumptions index_not_bound_without_total.

Theorem merkle_root_injective (H : bytes -> bytes) (hlen : nat) (H_len : forall x, length (H x) = hlen) (xs ys : list bytes) :
  root H xs = root H ys -> xs = ys \/ collision H.
Proof. exact (merkle_root_injective_l H hlen H_len xs ys). Qed.
Print Assumptions merkle_root_injective.

Theorem tx_root_injective (H : bytes -> bytes) (hlen : nat) (H_len : forall x, length (H x) = hlen) (txs1 txs2 : list bytes) :
  tx_root H txs1 = tx_root H txs2 -> txs1 = txs2 \/ collision H.
Proof. exact (tx_root_injective_l H hlen H_len txs1 txs2). Qed.
Print Assumptions tx_root_injective.

Theorem verify_block_binds (H : bytes -> bytes) (b : block) (lb : light_block) :
  verify_block H b lb = BOk ->
  b_height b = lb_height lb /\
  b_hash b = lb_hash lb /\
  (b_time_s b = lb_time_s lb /\ b_time_ns b = 0%Z) /\
  (b_sr_ns b = zero_namespace /\
   b_sr_version b = ((wrap64 (lb_height lb) + 2 ^ 64 - 1) mod 2 ^ 64)%N /\
   b_sr_type b = root_type_state /\
   b_sr_hash b = lb_app_hash lb) /\
  exists m c, b_meta b = Some m /\ m_header m = lb_header_bytes lb /\
              m_last_commit m = Some c /\ root H (c_sigs c) = lb_last_commit_hash lb.
Proof. exact (verify_block_binds_l H b lb). Qed.
Print Assumptions verify_block_binds.

Theorem verify_block_agree (H : bytes -> bytes) (hlen : nat) (H_len : forall x, length (H x) = hlen) (b1 b2 : block) (lb : light_block) :
  verify_block H b1 lb = BOk -> verify_block H b2 lb = BOk ->
  block_bound b1 = block_bound b2 \/ collision H.
Proof. exact (verify_block_agree_l H hlen H_len b1 b2 lb). Qed.
Print Assumptions verify_block_agree.

Theorem block_unbound_fields (H : bytes -> bytes) (b : block) (lb : light_block) (size : N) (h r : Z) (bid : bytes) :
  verify_block H (set_block_unbound b size h r bid) lb = verify_block H b lb.
Proof. exact (block_unbound_fields_l H b lb size h r bid). Qed.
Print Assumptions block_unbound_fields.

Theorem altered_height_rejected (H : bytes -> bytes) (lb : light_block) :
  (forall b, b_height b <> lb_height lb -> verify_block H b lb = BHeight) /\
  (forall rs rh, rs_height rs <> lb_height lb -> verify_block_results H rs rh lb = BHeight) /\
  (forall lt rs nrh, rs_height rs <> lb_height lb ->
     core_verify_block_results H lt rs nrh lb = BHeight \/ core_verify_block_results H lt rs nrh lb = BOther) /\
  (forall pm sp, pm_height pm <> lb_height lb -> verify_parameters H pm sp lb = BHeight) /\
  (forall vs, vs_height vs <> wrap_i64 (lb_height lb + 1) -> verify_next_validators H vs lb = BHeight).
Proof. exact (altered_height_rejected_l H lb). Qed.
Print Assumptions altered_height_rejected.

Theorem verify_results_binds (H : bytes -> bytes) (hlen : nat) (H_len : forall x, length (H x) = hlen) (rs1 rs2 : results) (rh : option bytes) (lb : light_block) :
  verify_block_results H rs1 rh lb = BOk -> verify_block_results H rs2 rh lb = BOk ->
  rs_height rs1 = lb_height lb /\ rs_height rs2 = lb_height lb /\
  exists t1 e1 t2 e2, rs_meta rs1 = Some (t1, e1) /\ rs_meta rs2 = Some (t2, e2) /\
    (map r_det t1 = map r_det t2 \/ collision H).
Proof. exact (verify_results_binds_l H hlen H_len rs1 rs2 rh lb). Qed.
Print Assumptions verify_results_binds.

Theorem results_unbound_fields (H : bytes -> bytes) (hlen : nat) (H_len : forall x, length (H x) = hlen) (h : Z) (txr : list tx_result) (ev ev' : bytes) (rest' : list bytes) (rh : option bytes) (lb : light_block) :
  length rest' = length txr ->
  verify_block_results H (mkResults h (Some (map (fun p => mkTxResult (r_det (fst p)) (snd p)) (combine txr rest'), ev'))) rh lb
  = verify_block_results H (mkResults h (Some (txr, ev))) rh lb.
Proof. exact (results_unbound_fields_l H hlen H_len h txr ev ev' rest' rh lb). Qed.
Print Assumptions results_unbound_fields.

Theorem core_results_below_latest (H : bytes -> bytes) (lt : Z) (rs : results) (nrh : option (option bytes)) (lb : light_block) :
  (lb_height lb < lt)%Z -> core_verify_block_results H lt rs nrh lb = BOk ->
  exists rh, nrh = Some rh /\ verify_block_results H rs rh lb = BOk.
Proof. exact (core_results_below_latest_l H lt rs nrh lb). Qed.
Print Assumptions core_results_below_latest.

Theorem core_results_latest_not_verified (H : bytes -> bytes) (lt : Z) (rs : results) (nrh : option (option bytes)) (lb : light_block) m :
  (lt <= lb_height lb)%Z -> rs_height rs = lb_height lb -> rs_meta rs = Some m ->
  core_verify_block_results H lt rs nrh lb = BOk.
Proof. exact (core_results_latest_not_verified_l H lt rs nrh lb m). Qed.
Print Assumptions core_results_latest_not_verified.

Theorem core_tx_results_binds (H : bytes -> bytes) (lt : Z) (txs : list bytes) (rs : results) (nrh : option (option bytes)) (ok : bool) (lb : light_block) :
  core_get_transactions_with_results H (verify_transactions H txs lb) lt rs nrh ok lb = BOk ->
  verify_transactions H txs lb = BOk /\ core_verify_block_results H lt rs nrh lb = BOk.
Proof. exact (core_tx_results_binds_l H lt txs rs nrh ok lb). Qed.
Print Assumptions core_tx_results_binds.

Theorem verify_transactions_binds (H : bytes -> bytes) (hlen : nat) (H_len : forall x, length (H x) = hlen) (txs1 txs2 : list bytes) (lb : light_block) :
  verify_transactions H txs1 lb = BOk -> verify_transactions H txs2 lb = BOk ->
  txs1 = txs2 \/ collision H.
Proof. exact (verify_transactions_binds_l H hlen H_len txs1 txs2 lb). Qed.
Print Assumptions verify_transactions_binds.

Theorem verify_transaction_proof_binds (H : bytes -> bytes) (hlen : nat) (H_len : forall x, length (H x) = hlen) (p : option proof) (tx : bytes) (txs : list bytes) (lb : light_block) :
  verify_transaction_proof H p tx lb = BOk -> verify_transactions H txs lb = BOk ->
  In tx txs \/ collision H.
Proof. exact (verify_transaction_proof_binds_l H hlen H_len p tx txs lb). Qed.
Print Assumptions verify_transaction_proof_binds.

Theorem verify_next_validators_binds (H : bytes -> bytes) (hlen : nat) (H_len : forall x, length (H x) = hlen) (v1 v2 : validators) (lb : light_block) :
  verify_next_validators H v1 lb = BOk -> verify_next_validators H v2 lb = BOk ->
  vs_height v1 = wrap_i64 (lb_height lb + 1) /\ vs_height v2 = wrap_i64 (lb_height lb + 1) /\
  exists l1 s1 l2 s2, vs_set v1 = Some (l1, s1) /\ vs_set v2 = Some (l2, s2) /\
    (map v_bytes l1 = map v_bytes l2 \/ collision H).
Proof. exact (verify_next_validators_binds_l H hlen H_len v1 v2 lb). Qed.
Print Assumptions verify_next_validators_binds.

Theorem verify_parameters_binds (H : bytes -> bytes) (p1 p2 : parameters) (sp : option bytes) (lb : light_block) :
  verify_parameters H p1 sp lb = BOk -> verify_parameters H p2 sp lb = BOk ->
  pm_height p1 = lb_height lb /\ pm_height p2 = lb_height lb /\
  pm_params_cbor p1 = pm_params_cbor p2 /\ sp = Some (pm_params_cbor p1) /\
  exists c1 c2, pm_meta p1 = Some c1 /\ pm_meta p2 = Some c2 /\
    (cp_hashed c1 = cp_hashed c2 \/ collision H).
Proof. exact (verify_parameters_binds_l H p1 p2 sp lb). Qed.
Print Assumptions verify_parameters_binds.

Theorem state_root_bound (H : bytes -> bytes) (hlen : nat) (H_len : forall x, length (H x) = hlen) (decode_meta_tx : bytes -> meta_tx) (lb_next : option light_block) (lb : light_block) (txs1 txs2 : list bytes) (h1 h2 : bytes) :
  fetch_state_root H decode_meta_tx lb_next lb txs1 = SrOk h1 ->
  fetch_state_root H decode_meta_tx lb_next lb txs2 = SrOk h2 ->
  h1 = h2 \/ collision H.
Proof. exact (state_root_bound_l H hlen H_len decode_meta_tx lb_next lb txs1 txs2 h1 h2). Qed.
Print Assumptions state_root_bound.

Theorem core_get_block_binds (H : bytes -> bytes) (lbo : option light_block) (b : block) :
  core_get_block H lbo b = BOk -> exists lb, lbo = Some lb /\ verify_block H b lb = BOk.
Proof. exact (core_get_block_binds_l H lbo b). Qed.
Print Assumptions core_get_block_binds.

Theorem core_get_transactions_binds (H : bytes -> bytes) (lbo : option light_block) (txs : list bytes) :
  core_get_transactions H lbo txs = BOk -> exists lb, lbo = Some lb /\ verify_transactions H txs lb = BOk.
Proof. exact (core_get_transactions_binds_l H lbo txs). Qed.
Print Assumptions core_get_transactions_binds.

Theorem core_get_transactions_with_proofs_binds (H : bytes -> bytes) (hlen : nat) (H_len : forall x, length (H x) = hlen) (lbo : option light_block) (txs : list bytes) (ret : list proof) :
  core_get_transactions_with_proofs H lbo txs ret = BOk ->
  exists lb, lbo = Some lb /\ verify_transactions H txs lb = BOk /\ length ret = length txs /\
    forall d, lb_data_hash lb = Some d ->
    forall i p, nth_error ret i = Some p -> verify_transaction_proof H (Some p) (nth i txs []) lb = BOk.
Proof. exact (core_get_transactions_with_proofs_binds_l H hlen H_len lbo txs ret). Qed.
Print Assumptions core_get_transactions_with_proofs_binds.

Theorem core_get_parameters_binds (H : bytes -> bytes) (lbo : option light_block) (pm : parameters) (sp : option bytes) :
  core_get_parameters H lbo pm sp = BOk -> exists lb, lbo = Some lb /\ verify_parameters H pm sp lb = BOk.
Proof. exact (core_get_parameters_binds_l H lbo pm sp). Qed.
Print Assumptions core_get_parameters_binds.

Theorem core_get_validators_binds (H : bytes -> bytes) (lbo : option light_block) (height : Z) (lbp : option light_block) (vs : validators) :
  core_get_validators H lbo height lbp vs = BOk ->
  (exists lb, lbo = Some lb) \/
  (lbo = None /\ (2 <= height)%Z /\ exists p, lbp = Some p /\ verify_next_validators H vs p = BOk).
Proof. exact (core_get_validators_binds_l H lbo height lbp vs). Qed.
Print Assumptions core_get_validators_binds.

Theorem core_submit_tx_with_proof_binds (H : bytes -> bytes) (hlen : nat) (H_len : forall x, length (H x) = hlen) (lbo : option light_block) (p : option proof) (tx : bytes) (txs : list bytes) :
  core_submit_tx_with_proof H lbo p tx = BOk ->
  exists lb, lbo = Some lb /\ verify_transaction_proof H p tx lb = BOk /\
    (verify_transactions H txs lb = BOk -> In tx txs \/ collision H).
Proof. exact (core_submit_tx_with_proof_binds_l H hlen H_len lbo p tx txs). Qed.
Print Assumptions core_submit_tx_with_proof_binds.

Theorem stateless_api_covered :
  stateless_provider_backed = expected_provider_backed /\
  map fst api_coverage = map fst stateless_provider_backed /\
  stateless_verification_path = expected_verification_path.
Proof. exact stateless_api_covered_l. Qed.
Print Assumptions stateless_api_covered.

Theorem history_bound (H : bytes -> bytes) (dec : bytes -> meta_tx)
        (V : Z -> light_block -> Prop) (R : Z -> option bytes -> Prop)
        (ops : list cop) (st st' : cstate) (answers : list canswer) :
  inv H dec V R st -> Forall (op_wf V R) ops -> crun H dec st ops = (st', answers) ->
  inv H dec V R st' /\ Forall2 (answer_ok H dec V R) ops answers.
Proof. exact (history_bound_l H dec V R ops st st' answers). Qed.
Print Assumptions history_bound.

Theorem history_from_init_bound (H : bytes -> bytes) (dec : bytes -> meta_tx)
        (V : Z -> light_block -> Prop) (R : Z -> option bytes -> Prop)
        (ops : list cop) (st' : cstate) (answers : list canswer) :
  Forall (op_wf V R) ops -> crun H dec cstate_init ops = (st', answers) ->
  inv H dec V R st' /\ Forall2 (answer_ok H dec V R) ops answers.
Proof. exact (history_bound_l H dec V R ops cstate_init st' answers (inv_init H dec V R)). Qed.
Print Assumptions history_from_init_bound.

Theorem state_root_unique (H : bytes -> bytes) (hlen : nat) (H_len : forall x, length (H x) = hlen)
        (dec : bytes -> meta_tx) (V : Z -> light_block -> Prop) (h : Z) (r1 r2 : bytes) :
  (forall k l1 l2, V k l1 -> V k l2 -> l1 = l2) ->
  (forall n l txs r, V (h + 1)%Z n -> V h l -> verify_transactions H txs l = BOk ->
     state_root_from_block_txs dec txs = SrOk r -> state_root_from_light_block n = SrOk r) ->
  sr_bound H dec V h r1 -> sr_bound H dec V h r2 -> r1 = r2 \/ collision H.
Proof. exact (state_root_unique_l H hlen H_len dec V h r1 r2). Qed.
Print Assumptions state_root_unique.

Theorem lru_capacity_respected (V : Type) (cap : nat) (k : Z) (v : V) (l : list (Z * V)) :
  (1 <= cap)%nat -> (length (lru_put cap k v l) <= cap)%nat.
Proof. exact (lru_put_length cap k v l). Qed.
Print Assumptions lru_capacity_respected.

Theorem core_validators_binds (H : bytes -> bytes) (height : Z) (lbp : option light_block) (vs : validators) :
  core_get_validators H None height lbp vs = BOk ->
  (2 <= height)%Z /\
  exists p l s, lbp = Some p /\ vs_set vs = Some (l, s) /\ vs_height vs = wrap_i64 (lb_height p + 1) /\
    root H (map v_bytes l) = lb_next_validators_hash p.
Proof. exact (core_validators_binds_l H height lbp vs). Qed.
Print Assumptions core_validators_binds.
