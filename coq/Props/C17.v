From Verif Require Import Lib.Base Registry.Model Registry.Lemmas Registry.Proofs Registry.ProofsRt Registry.ProofsAddr Registry.ProofsStatus Registry.Sanity Registry.ProofsR3 Gen.RegistryConsts.

(* G: the SetNode of the CURRENT source performs all key-map removals before the
   first insertion (read from the source by harness/cmd/gen registryconsts) ... *)
Theorem current_setnode_removes_first : setnode_removals_first = true.
Proof. reflexivity. Qed.
Print Assumptions current_setnode_removes_first.

(* ... hence, for the current source, the key map and nodes-by-entity mirror the
   node records after EVERY history of transactions and epoch transitions,
   including updates that rotate or exchange P2P/TLS/VRF keys among themselves. *)
Theorem Inv_index_current_source :
  forall (addr : N -> N) (maxexp debond : N) (ops : list op) (s : state),
    Inv_index s -> forallb tx_op ops = true ->
    Inv_index (run addr setnode_removals_first maxexp debond ops s).
Proof. exact run_inv_fixed. Qed.
Print Assumptions Inv_index_current_source.

(* History: the order the code had before the repair (per-kind remove-then-insert)
   is refuted below; kept so that a revert is named precisely. *)

(* The ORIGINAL SetNode (per-kind remove-then-insert, state.go:566-617 before the fix) does NOT
   keep the key map consistent: from a consistent state, an accepted
   RegisterNode transaction that exchanges the P2P and TLS keys of a node
   leads to a state where the node is not found under its current P2P key. *)
Theorem Inv_index_refuted :
  forall addr : N -> N,
  exists s o, Inv_index s /\ tx_op o = true /\
              fst (step addr false 5 2 s o) = COk /\
              ~ Inv_index (snd (step addr false 5 2 s o)).
Proof. exact Inv_index_refuted_l. Qed.
Print Assumptions Inv_index_refuted.

(* For every history of transactions / epoch transitions in which no accepted
   node update takes, as the new key of an earlier kind (consensus, P2P, VRF,
   TLS), the old changed key of a later kind, the indexes mirror the records. *)
Theorem Inv_index_holds_without_exchange :
  forall (addr : N -> N) (maxexp debond : N) (ops : list op) (s : state),
    Inv_index s -> forallb tx_op ops = true -> no_exchange_run addr maxexp debond ops s ->
    Inv_index (run addr false maxexp debond ops s).
Proof. exact run_inv_no_exchange. Qed.
Print Assumptions Inv_index_holds_without_exchange.

(* With all removals before all insertions the indexes mirror the records after
   every history, exchanges included. *)
Theorem Inv_index_reordered_setnode :
  forall (addr : N -> N) (maxexp debond : N) (ops : list op) (s : state),
    Inv_index s -> forallb tx_op ops = true ->
    Inv_index (run addr true maxexp debond ops s).
Proof. exact run_inv_fixed. Qed.
Print Assumptions Inv_index_reordered_setnode.

Theorem Inv_index_initial : Inv_index st0.
Proof. exact Inv_st0. Qed.
Print Assumptions Inv_index_initial.

Theorem no_key_maps_to_two_nodes :
  forall s id1 id2 n1 n2 k,
    Inv_index s -> aget id1 (s_nodes s) = Some n1 -> aget id2 (s_nodes s) = Some n2 ->
    In k (keys n1) -> In k (keys n2) -> id1 = id2.
Proof. exact no_key_two_nodes. Qed.
Print Assumptions no_key_maps_to_two_nodes.

Theorem registered_node_found_under_each_key :
  forall s id n k,
    Inv_index s -> aget id (s_nodes s) = Some n -> In k (keys n) -> node_by_subkey s k = Some n.
Proof. exact found_under_each_key. Qed.
Print Assumptions registered_node_found_under_each_key.

Theorem subkey_resolves_only_to_its_holder :
  forall s k n,
    Inv_index s -> node_by_subkey s k = Some n ->
    In k (keys n) /\ aget (n_id n) (s_nodes s) = Some n.
Proof. exact subkey_resolves_to_holder. Qed.
Print Assumptions subkey_resolves_only_to_its_holder.

Theorem nodes_by_entity_mirrors_records :
  forall s e,
    Inv_index s ->
    (has_entity_nodes s e = true <-> exists id n, aget id (s_nodes s) = Some n /\ n_ent n = e).
Proof. exact entity_nodes_mirror. Qed.
Print Assumptions nodes_by_entity_mirrors_records.

(* A node record changes only by a RegisterNode transaction signed by the node
   key, whose descriptor carries valid signatures of the node, consensus, P2P,
   VRF and TLS keys, with the node in the node list of its registered entity
   (entity and consensus key of an existing record unchanged) -- or it is
   removed by an epoch transition after expiry plus the debonding interval. *)
Theorem authority_node :
  forall (addr : N -> N) (fixed : bool) (maxexp debond : N) s o s' id,
    tx_op o = true -> IDS (s_nodes s) -> step addr fixed maxexp debond s o = (COk, s') ->
    aget id (s_nodes s') <> aget id (s_nodes s) ->
    (exists txs n signers,
        o = TRegNode txs n signers true /\ n_id n = id /\ txs = id /\
        (forall k, In k (id :: keys n) -> In k signers) /\
        (exists ent, aget (n_ent n) (s_ents s) = Some ent /\ In id (e_nodes ent)) /\
        (forall cur, aget id (s_nodes s) = Some cur -> n_ent cur = n_ent n /\ n_cons cur = n_cons n) /\
        aget id (s_nodes s') = Some n)
    \/ (exists e n, o = TEpoch e /\ aget id (s_nodes s) = Some n /\
                    aget id (s_nodes s') = None /\ n_exp n + debond < e).
Proof. exact authority_node. Qed.
Print Assumptions authority_node.

Theorem node_ids_well_formed_along_histories :
  forall (addr : N -> N) (fixed : bool) (maxexp debond : N) s o,
    tx_op o = true -> IDS (s_nodes s) -> IDS (s_nodes (snd (step addr fixed maxexp debond s o))).
Proof. exact step_ids. Qed.
Print Assumptions node_ids_well_formed_along_histories.

(* An entity record changes only by a transaction signed by the entity key:
   a registration whose descriptor is validly signed by that same key, or a
   deregistration while the entity owns neither nodes nor runtimes. *)
Theorem authority_entity :
  forall (addr : N -> N) (fixed : bool) (maxexp debond : N) s o s' e,
    tx_op o = true -> step addr fixed maxexp debond s o = (COk, s') ->
    aget e (s_ents s') <> aget e (s_ents s) ->
    (exists ent, o = TRegEntity e ent e true /\ e_id ent = e /\ ~ has_dup (e_nodes ent) = true /\
                 aget e (s_ents s') = Some ent)
    \/ (o = TDeregEntity e /\ has_entity_nodes s e = false /\ has_entity_runtimes s e = false /\
        aget e (s_ents s') = None).
Proof. exact authority_entity. Qed.
Print Assumptions authority_entity.

Theorem rejected_operation_leaves_state_unchanged :
  forall (addr : N -> N) (fixed : bool) (maxexp debond : N) s o c s',
    step addr fixed maxexp debond s o = (c, s') -> c <> COk -> s' = s.
Proof. exact reject_unchanged. Qed.
Print Assumptions rejected_operation_leaves_state_unchanged.

Theorem missing_signature_rejected :
  forall (addr : N -> N) (fixed : bool) (maxexp debond : N) s txs n signers ok k,
    In k (n_id n :: keys n) -> ~ In k signers ->
    fst (step addr fixed maxexp debond s (TRegNode txs n signers ok)) <> COk /\
    snd (step addr fixed maxexp debond s (TRegNode txs n signers ok)) = s.
Proof. exact missing_signature_rejected. Qed.
Print Assumptions missing_signature_rejected.

Theorem wrong_tx_signer_rejected :
  forall (addr : N -> N) (fixed : bool) (maxexp debond : N) s txs n signers ok,
    txs <> n_id n ->
    fst (step addr fixed maxexp debond s (TRegNode txs n signers ok)) <> COk /\
    snd (step addr fixed maxexp debond s (TRegNode txs n signers ok)) = s.
Proof. exact wrong_tx_signer_rejected. Qed.
Print Assumptions wrong_tx_signer_rejected.

Theorem node_not_in_entity_list_rejected :
  forall (addr : N -> N) (fixed : bool) (maxexp debond : N) s txs n signers ok,
    (forall ent, aget (n_ent n) (s_ents s) = Some ent -> ~ In (n_id n) (e_nodes ent)) ->
    fst (step addr fixed maxexp debond s (TRegNode txs n signers ok)) <> COk /\
    snd (step addr fixed maxexp debond s (TRegNode txs n signers ok)) = s.
Proof. exact not_in_entity_list_rejected. Qed.
Print Assumptions node_not_in_entity_list_rejected.

Theorem entity_not_removable_while_owning_nodes :
  forall (addr : N -> N) (fixed : bool) (maxexp debond : N) s e id n,
    Inv_index s -> aget id (s_nodes s) = Some n -> n_ent n = e ->
    step addr fixed maxexp debond s (TDeregEntity e) = (CEntityHasNodes, s).
Proof. exact entity_not_removable_while_owning_nodes. Qed.
Print Assumptions entity_not_removable_while_owning_nodes.

Theorem entity_not_removable_while_owning_runtimes :
  forall (addr : N -> N) (fixed : bool) (maxexp debond : N) s e rt,
    pmem (e, rt) (s_rtown s) = true -> has_entity_nodes s e = false ->
    step addr fixed maxexp debond s (TDeregEntity e) = (CEntityHasRuntimes, s).
Proof. exact entity_not_removable_while_owning_runtimes. Qed.
Print Assumptions entity_not_removable_while_owning_runtimes.

(* ---- re-registrations: entity constancy, nodes-by-entity and stake claims over histories ---- *)

(* Along every history of transactions and epoch transitions (either SetNode
   order), as long as the record of a node id exists after every operation --
   in particular while the node is expired but still held during the debonding
   interval -- its entity id never changes. *)
Theorem node_entity_never_changes :
  forall (addr : N -> N) (fixed : bool) (maxexp debond : N) (ops : list op) s id n n',
    forallb tx_op ops = true -> IDS (s_nodes s) ->
    aget id (s_nodes s) = Some n -> exists_throughout addr fixed maxexp debond id ops s ->
    aget id (s_nodes (run addr fixed maxexp debond ops s)) = Some n' ->
    n_ent n' = n_ent n.
Proof. exact entity_const_hist. Qed.
Print Assumptions node_entity_never_changes.

(* After every history from the initial state, HasEntityNodes(e) holds exactly
   when some registered node has entity e (no stale nodes-by-entity entry). *)
Theorem nodes_by_entity_mirrors_records_along_histories :
  forall (addr : N -> N) (fixed : bool) (maxexp debond : N) (ops : list op) e,
    forallb tx_op ops = true ->
    (has_entity_nodes (run addr fixed maxexp debond ops st0) e = true <->
     exists id n, aget id (s_nodes (run addr fixed maxexp debond ops st0)) = Some n /\ n_ent n = e).
Proof. exact byent_mirror_hist. Qed.
Print Assumptions nodes_by_entity_mirrors_records_along_histories.

(* After every history from the initial state, account e holds claim c exactly
   when c is the entity claim and e is a registered entity, or c is the node
   claim of a registered node whose entity is e. *)
Theorem claims_mirror :
  forall (addr : N -> N) (fixed : bool) (maxexp debond : N) (ops : list op) e c,
    forallb tx_op ops = true ->
    (pmem (e, c) (s_claims (run addr fixed maxexp debond ops st0)) = true <->
     (c = 0 /\ exists ent, aget e (s_ents (run addr fixed maxexp debond ops st0)) = Some ent) \/
     (exists id n, c = id + 1 /\
                   aget id (s_nodes (run addr fixed maxexp debond ops st0)) = Some n /\ n_ent n = e)).
Proof. exact claims_mirror_hist. Qed.
Print Assumptions claims_mirror.

(* ---- growth round: runtimes, consensus-address index, claim kinds, exactness ---- *)

(* A runtime descriptor (active or suspended) changes only by a RegisterRuntime
   whose caller is the staking account controlling the EXISTING descriptor
   (entity governance: the owning entity; runtime governance: the runtime's own
   account), or the new descriptor's controlling account if the runtime is new;
   the kind and the genesis are kept, governance may only go from entity to
   runtime, a key manager reference once set is neither removed nor changed,
   deployments that have started are kept as they are and the active one stays;
   a new runtime has no deployment that is already active. *)
Theorem authority_runtime :
  forall (addr : N -> N) (fixed : bool) (maxexp debond : N) s o s' r,
    tx_op o = true -> Inv_rt s -> step addr fixed maxexp debond s o = (COk, s') ->
    any_runtime s' r <> any_runtime s r ->
    exists caller rt,
      o = TRegRuntime caller rt /\ r_id rt = r /\ any_runtime s' r = Some rt /\
      (r_gov rt = 1 \/ r_gov rt = 2) /\
      match any_runtime s r with
      | Some old => rt_acct old = Some caller /\ r_kind old = r_kind rt /\
                    (r_gov old = r_gov rt \/ (r_gov old = 1 /\ r_gov rt = 2)) /\
                    km_changed (r_km old) (r_km rt) = false /\
                    r_genesis old = r_genesis rt /\
                    deps_update_ok (s_epoch s) (r_deps old) (r_deps rt) = true /\
                    active_kept (s_epoch s) (r_deps old) (r_deps rt) = true
      | None => rt_acct rt = Some caller /\ active_deployment (s_epoch s) (r_deps rt) = None
      end.
Proof. exact authority_runtime. Qed.
Print Assumptions authority_runtime.

Theorem runtime_invariant_along_histories :
  forall (addr : N -> N) (fixed : bool) (maxexp debond : N) (ops : list op) s,
    Inv_rt s -> forallb tx_op ops = true -> Inv_rt (run addr fixed maxexp debond ops s).
Proof. exact run_rt. Qed.
Print Assumptions runtime_invariant_along_histories.

Theorem wrong_runtime_caller_rejected :
  forall (addr : N -> N) (fixed : bool) (maxexp debond : N) s caller rt,
    (match any_runtime s (r_id rt) with
     | Some old => rt_acct old <> Some caller
     | None => rt_acct rt <> Some caller
     end) ->
    fst (step addr fixed maxexp debond s (TRegRuntime caller rt)) <> COk /\
    snd (step addr fixed maxexp debond s (TRegRuntime caller rt)) = s.
Proof. exact wrong_runtime_caller_rejected. Qed.
Print Assumptions wrong_runtime_caller_rejected.

(* After every history from the initial state, HasEntityRuntimes(e) holds exactly
   when some runtime record (active or suspended) names e as its entity. *)
Theorem runtime_by_entity_mirrors_records :
  forall (addr : N -> N) (fixed : bool) (maxexp debond : N) (ops : list op) e,
    forallb tx_op ops = true ->
    (has_entity_runtimes (run addr fixed maxexp debond ops st0) e = true <->
     exists r rt, any_runtime (run addr fixed maxexp debond ops st0) r = Some rt /\ r_ent rt = e).
Proof. exact rt_by_entity_hist. Qed.
Print Assumptions runtime_by_entity_mirrors_records.

(* claims_mirror, runtime part: account a (2e = entity e, 2r+1 = runtime r) holds
   the claim of runtime r exactly when r is registered and a controls it. *)
Theorem claims_mirror_runtimes :
  forall (addr : N -> N) (fixed : bool) (maxexp debond : N) (ops : list op) a r,
    forallb tx_op ops = true ->
    (pmem (a, r) (s_rtclaims (run addr fixed maxexp debond ops st0)) = true <->
     exists rt, any_runtime (run addr fixed maxexp debond ops st0) r = Some rt /\ rt_acct rt = Some a).
Proof. exact rt_claims_hist. Qed.
Print Assumptions claims_mirror_runtimes.

(* claims_mirror, threshold kinds: the kinds stored with the claim of node id
   are those implied by the roles and runtimes of its current record. *)
Theorem claims_mirror_node_kinds :
  forall (addr : N -> N) (fixed : bool) (maxexp debond : N) (ops : list op) id,
    forallb tx_op ops = true ->
    aget id (s_nthr (run addr fixed maxexp debond ops st0)) =
    option_map node_kinds (aget id (s_nodes (run addr fixed maxexp debond ops st0))).
Proof. exact node_claim_kinds_hist. Qed.
Print Assumptions claims_mirror_node_kinds.

(* Along every history, an entity that a runtime record names as owner cannot deregister. *)
Theorem entity_not_removable_while_owning_runtime_records :
  forall (addr : N -> N) (fixed : bool) (maxexp debond : N) (ops : list op) e r rt,
    forallb tx_op ops = true ->
    any_runtime (run addr fixed maxexp debond ops st0) r = Some rt -> r_ent rt = e ->
    fst (step addr fixed maxexp debond (run addr fixed maxexp debond ops st0) (TDeregEntity e)) <> COk /\
    snd (step addr fixed maxexp debond (run addr fixed maxexp debond ops st0) (TDeregEntity e))
    = run addr fixed maxexp debond ops st0.
Proof. exact dereg_hist. Qed.
Print Assumptions entity_not_removable_while_owning_runtime_records.

(* The consensus-address index mirrors the node records after every history of
   the current source (removals-first SetNode), or the address function collides. *)
Theorem cons_addr_index_mirrors_records :
  forall (addr : N -> N) (maxexp debond : N) (ops : list op),
    forallb tx_op ops = true ->
    AD_ok addr (run addr true maxexp debond ops st0) \/ collision addr.
Proof.
  exact (fun addr maxexp debond ops H =>
           run_ad addr maxexp debond ops st0 Inv_st0 (ad_st0 addr) H).
Qed.
Print Assumptions cons_addr_index_mirrors_records.

Theorem node_by_consensus_address_correct :
  forall (addr : N -> N) s,
    IDS (s_nodes s) -> AD_ok addr s ->
    (forall id n, aget id (s_nodes s) = Some n -> node_by_addr s (addr (n_cons n)) = Some n) /\
    (forall a n, node_by_addr s a = Some n -> addr (n_cons n) = a /\ aget (n_id n) (s_nodes s) = Some n).
Proof. exact node_by_addr_correct. Qed.
Print Assumptions node_by_consensus_address_correct.

(* For the record: the side condition of Inv_index_holds_without_exchange is exact. *)
Theorem exchange_condition_exact :
  forall (addr : N -> N) maxexp debond s txs n signers ok old,
    Inv_index s -> aget (n_id n) (s_nodes s) = Some old -> exchange old n = true ->
    fst (step addr false maxexp debond s (TRegNode txs n signers ok)) = COk ->
    ~ Inv_index (snd (step addr false maxexp debond s (TRegNode txs n signers ok))).
Proof. exact exchange_breaks_inv. Qed.
Print Assumptions exchange_condition_exact.

(* ---- round 2: source order of VerifyNodeUpdate, node status, genesis sanity check ---- *)

(* G: the checks of VerifyNodeUpdate appear in the CURRENT source in the order the
   model ports: node id, entity id, consensus id, THEN the early return for an
   expired current node, then runtime changes and roles. *)
Theorem verify_node_update_order_as_modelled :
  verify_node_update_order = verify_node_update_order_modelled.
Proof. reflexivity. Qed.
Print Assumptions verify_node_update_order_as_modelled.

(* After every history from the initial state a status record exists exactly
   for the registered nodes (created at registration, deleted at removal). *)
Theorem status_mirrors_nodes :
  forall (addr : N -> N) (fixed : bool) (maxexp debond : N) (ops : list op) id,
    forallb tx_op ops = true ->
    ((exists st, aget id (s_status (run addr fixed maxexp debond ops st0)) = Some st) <->
     (exists n, aget id (s_nodes (run addr fixed maxexp debond ops st0)) = Some n)).
Proof. exact status_mirrors_nodes_hist. Qed.
Print Assumptions status_mirrors_nodes.

(* The freeze end of a status record that exists before and after an operation
   changes only by the freezing environment, or by an UnfreezeNode transaction
   signed by the node's entity once the freeze end has passed (then it is 0);
   in particular re-registration -- renewal or after expiry -- keeps it. *)
Theorem authority_unfreeze :
  forall (addr : N -> N) (fixed : bool) (maxexp debond : N) s o s' id st st',
    tx_op o = true -> IDS (s_nodes s) -> Inv_status s ->
    step addr fixed maxexp debond s o = (COk, s') ->
    aget id (s_status s) = Some st -> aget id (s_status s') = Some st' ->
    st_freeze st' <> st_freeze st ->
    (exists e, o = LFreeze id e /\ st_freeze st' = e) \/
    (exists txs n, o = TUnfreeze txs id /\ aget id (s_nodes s) = Some n /\ txs = n_ent n /\
                   st_freeze st <= s_epoch s /\ st_freeze st' = 0).
Proof. exact authority_unfreeze. Qed.
Print Assumptions authority_unfreeze.

Theorem status_invariant_along_histories :
  forall (addr : N -> N) (fixed : bool) (maxexp debond : N) (ops : list op) s,
    IDS (s_nodes s) -> Inv_status s -> forallb tx_op ops = true ->
    Inv_status (run addr fixed maxexp debond ops s).
Proof. exact status_hist. Qed.
Print Assumptions status_invariant_along_histories.

(* Genesis sanity check (node part, ported): if it accepts a list of exported
   node descriptors with distinct ids, every node avoids -- with its consensus,
   P2P, VRF and TLS keys -- the consensus, P2P and TLS keys of all earlier
   nodes.  (It does not compare VRF keys of different nodes: see the Example
   sanity_misses_shared_vrf_key in Registry/Sanity.v.) *)
Theorem sanity_check_implies_inv :
  forall maxexp l st st',
    s_nodes st = [] -> s_keymap st = [] -> NoDup (map n_id (map node_of l)) ->
    sanity_nodes maxexp st l = Some st' -> pairwise_ok [] (map node_of l).
Proof.
  exact (fun maxexp l st st' _ _ Hnd H =>
           sanity_pairwise maxexp l st st' [] (fun m (Hm : In m []) => match Hm with end) Hnd H).
Qed.
Print Assumptions sanity_check_implies_inv.

(* ... and every accepted node names an exported entity that lists it, with valid
   signatures of its node, consensus, P2P, VRF and TLS keys. *)
Theorem sanity_check_each_node :
  forall maxexp l st st',
    sanity_nodes maxexp st l = Some st' ->
    s_ents st' = s_ents st /\
    Forall (fun x => let n := node_of x in
                     exists ent, aget (n_ent n) (s_ents st) = Some ent /\ In (n_id n) (e_nodes ent) /\
                                 snd x = true /\
                                 forall k, In k (n_id n :: keys n) -> In k (snd (fst x))) l.
Proof. exact sanity_each. Qed.
Print Assumptions sanity_check_each_node.

(* ---- round 3: runtime fields, no bypass, admission limits, key reuse, removal ---- *)

(* Along every history, a registered runtime stays registered and its protected
   fields never change: kind, genesis, a key manager reference once set; the
   governance model only from entity (1) to runtime (2). *)
Theorem runtime_protected_fields_never_change :
  forall (addr : N -> N) (fixed : bool) (maxexp debond : N) (ops : list op) s r rt0,
    forallb tx_op ops = true -> Inv_rt s -> RT_ids s -> any_runtime s r = Some rt0 ->
    exists rt1, any_runtime (run addr fixed maxexp debond ops s) r = Some rt1 /\ protected rt0 rt1.
Proof. exact run_protected. Qed.
Print Assumptions runtime_protected_fields_never_change.

(* One handler for transactions and runtime messages, no bypass: an accepted
   RegisterRuntime with caller account 2k (transaction signed by k) is for a
   runtime whose controlling descriptor is entity-governed by k; with caller
   2r+1 (message emitted by runtime r) it is for runtime r itself under runtime
   governance. *)
Theorem runtime_registration_no_bypass :
  forall s caller rt,
    RT_ids s -> reg_runtime_check s caller rt = COk ->
    let ctl := match any_runtime s (r_id rt) with Some old => old | None => rt end in
    (exists k, caller = 2 * k /\ r_gov ctl = 1 /\ r_ent ctl = k) \/
    (exists r, caller = 2 * r + 1 /\ r_gov ctl = 2 /\ r_id rt = r).
Proof. exact no_bypass. Qed.
Print Assumptions runtime_registration_no_bypass.

Theorem accepted_runtime_deployments_valid :
  forall s caller rt,
    reg_runtime_check s caller rt = COk ->
    validate_deployments (s_epoch s) rt = COk /\
    (0 < length (r_deps rt))%nat /\ N.of_nat (length (r_deps rt)) <= max_deployments /\
    N.of_nat (length (filter (fun d => s_epoch s <? d_from d) (r_deps rt))) <= 1.
Proof. exact accepted_deployments_all. Qed.
Print Assumptions accepted_runtime_deployments_valid.

(* While a node record exists -- live, or expired and still held during the
   debonding interval -- none of its keys can be registered by another node id. *)
Theorem key_of_registered_node_not_reusable :
  forall (addr : N -> N) (fixed : bool) (maxexp debond : N) s id m k txs n signers ok,
    Inv_index s -> aget id (s_nodes s) = Some m -> In k (keys m) ->
    n_id n <> id -> In k (keys n) ->
    fst (step addr fixed maxexp debond s (TRegNode txs n signers ok)) <> COk /\
    snd (step addr fixed maxexp debond s (TRegNode txs n signers ok)) = s.
Proof. exact key_of_registered_node_not_reusable. Qed.
Print Assumptions key_of_registered_node_not_reusable.

Theorem unheld_key_is_free :
  forall s k,
    Inv_index s -> (forall id m, aget id (s_nodes s) = Some m -> ~ In k (keys m)) ->
    aget k (s_keymap s) = None.
Proof. exact unheld_key_is_free. Qed.
Print Assumptions unheld_key_is_free.

(* An epoch transition removes exactly the nodes expired for longer than the
   debonding interval -- whatever their status (frozen or not) -- and keeps
   every other record unchanged. *)
Theorem epoch_removal_exact :
  forall (addr : N -> N) (fixed : bool) (maxexp debond : N) s e id,
    IDS (s_nodes s) ->
    aget id (s_nodes (snd (step addr fixed maxexp debond s (TEpoch e)))) =
    match aget id (s_nodes s) with
    | Some n => if removable debond e n then None else Some n
    | None => None
    end.
Proof. exact epoch_removal_exact. Qed.
Print Assumptions epoch_removal_exact.

(* An accepted node registration respects the per-role limits in force: the
   entity's other non-expired nodes with that role in that runtime, plus the
   new one, do not exceed the entity whitelist's / per-role policy's maximum. *)
Theorem whitelist_limit_respected :
  forall maxexp s txs n signers ok r x wl mn role,
    reg_node_check maxexp s txs n signers ok = COk ->
    In r (n_rts n) -> any_runtime s r = Some x -> r_wl x = Some wl ->
    aget (n_ent n) wl = Some mn -> mn <> [] ->
    In role all_roles -> has_role (n_roles n) role = true ->
    exists mx l, aget role mn = Some mx /\ entity_node_records s (n_ent n) = Some l /\
                 N.of_nat (length (filter (counted (s_epoch s) (n_id n) (r_id x) role) l)) + 1 <= mx.
Proof. exact whitelist_limit_respected. Qed.
Print Assumptions whitelist_limit_respected.

Theorem per_role_limit_respected :
  forall maxexp s txs n signers ok r x role ents,
    reg_node_check maxexp s txs n signers ok = COk ->
    In r (n_rts n) -> any_runtime s r = Some x ->
    In role all_roles -> has_role (n_roles n) role = true -> aget role (r_pr x) = Some ents ->
    exists mx, aget (n_ent n) ents = Some mx /\
      (mx = 0 \/ exists l, entity_node_records s (n_ent n) = Some l /\
                 N.of_nat (length (filter (counted (s_epoch s) (n_id n) (r_id x) role) l)) + 1 <= mx).
Proof. exact per_role_limit_respected. Qed.
Print Assumptions per_role_limit_respected.

(* After every history from the initial state, the entity of every registered
   node (live, or expired and still held) is a registered entity: the guard of
   DeregisterEntity is "no registered node names this entity" over the node
   table (nodes-by-entity index), not the entity descriptor's node list. *)
Theorem registered_node_entity_always_registered :
  forall (addr : N -> N) (fixed : bool) (maxexp debond : N) (ops : list op) id n,
    forallb tx_op ops = true ->
    aget id (s_nodes (run addr fixed maxexp debond ops st0)) = Some n ->
    exists ent, aget (n_ent n) (s_ents (run addr fixed maxexp debond ops st0)) = Some ent.
Proof. exact owner_from_initial. Qed.
Print Assumptions registered_node_entity_always_registered.
