(* C04 — Merkle proofs are complete and cannot be made to lie.
   Only statements; definitions are in MkvsProof/Model.v (verifier, builder,
   partial-tree lookups; ports of go/storage/mkvs/syncer/proof.go, lookup.go,
   cache.go) and Mkvs/Trie.v (the trie); proofs in MkvsProof/{Sound,Complete,
   Examples,Final}.v.

   [H] is an arbitrary hash function with 32-byte output; it is never assumed
   injective: conclusions are "... \/ collision H", the collision being built
   from the concrete pre-images.  Entry lists are arbitrary lists of decoded
   entries (so: altered, truncated, extended, reordered, spliced, fabricated
   proofs of either version); [entry_wire] only says that decoded length fields
   fit the fixed-width wire fields they were read from (uint16 label bit length,
   uint32 key/value lengths). *)
From Verif Require Import Lib.Base Mkvs.Trie Mkvs.HashProofs Gen.ProofConsts
  MkvsProof.Model MkvsProof.Sound MkvsProof.Complete MkvsProof.Examples MkvsProof.Final
  MkvsProof.Remote MkvsProof.Iter MkvsProof.IterProofs MkvsProof.IterSound MkvsProof.IterFinal MkvsProof.Evict
  Mkvs.Overlay Mkvs.Iter.

(* G: the constants read from syncer/proof.go are the ones the model was
   written for (the depth limit itself is USED by the model, so a changed value
   changes verify_depth_bounded / get_proof_complete as well) *)
Theorem gen_consts_expected :
  max_proof_depth = 128 /\ min_proof_version = 0 /\ latest_proof_version = 1 /\
  proof_entry_full = 1 /\ proof_entry_hash = 2 /\ MAX_PROOF_DEPTH = max_proof_depth.
Proof. exact gen_consts_expected_l. Qed.
Print Assumptions gen_consts_expected.

(* An accepted proof is the real tree with some subtrees / leaf pointers replaced
   by their hashes — whatever the entries were. *)
Theorem verify_sound : forall (H : bytes -> bytes), (forall x, length (H x) = HASH_SIZE) ->
  forall ver untrusted es p t,
  verify H ver (root_hash H t) untrusted es = ROk p ->
  Forall entry_wire es -> bounded t ->
  prunes H p t \/ collision H.
Proof. exact verify_sound_l. Qed.
Print Assumptions verify_sound.

(* Any partial tree whose recomputed hash is the root prunes the real tree
   (the core of soundness, independent of the entry format). *)
Theorem hash_prunes : forall (H : bytes -> bytes), (forall x, length (H x) = HASH_SIZE) ->
  forall p t, pwf p -> bounded t -> phash H p = root_hash H t -> prunes H p t \/ collision H.
Proof. exact Sound.hash_prunes. Qed.
Print Assumptions hash_prunes.

(* What a pruned tree says about a key is true: found values are the stored
   values, absence is real absence; the only other answer is Unknown. *)
Theorem plookup_sound : forall (H : bytes -> bytes), (forall x, length (H x) = HASH_SIZE) ->
  forall p t d k,
  prunes H p t ->
  (forall v, plookup (N.of_nat d) k p = Found v -> lookup d k t = Some v) /\
  (plookup (N.of_nat d) k p = Absent -> lookup d k t = None).
Proof. exact plookup_sound_l. Qed.
Print Assumptions plookup_sound.

(* The same for the walk the Go tree performs over a merged subtree
   (doGet + derefNodePtr, with its empty-hash and hash-only-leaf rules). *)
Theorem plookup_go_sound : forall (H : bytes -> bytes), (forall x, length (H x) = HASH_SIZE) ->
  forall p t fresh d k,
  prunes H p t ->
  ((forall v, plookup_go H fresh (N.of_nat d) k p = Found v -> lookup d k t = Some v) /\
   (plookup_go H fresh (N.of_nat d) k p = Absent -> lookup d k t = None)) \/ collision H.
Proof. exact plookup_go_sound_l. Qed.
Print Assumptions plookup_go_sound.

(* Combined: no accepted entry list makes any key appear with a value, or appear
   absent, contrary to the contents under the trusted root. *)
Theorem proof_cannot_lie : forall (H : bytes -> bytes), (forall x, length (H x) = HASH_SIZE) ->
  forall ver untrusted es p t,
  verify H ver (root_hash H t) untrusted es = ROk p ->
  Forall entry_wire es -> wf t -> bounded t ->
  (forall k, agrees t k (plookup 0 k p) /\ agrees t k (plookup_go H true 0 k p)) \/ collision H.
Proof. exact proof_cannot_lie_l. Qed.
Print Assumptions proof_cannot_lie.

(* VerifyProofToWriteLog: every pair of the write log is a real entry. *)
Theorem verify_to_writelog_sound : forall (H : bytes -> bytes), (forall x, length (H x) = HASH_SIZE) ->
  forall ver untrusted es wl t,
  verify_to_writelog H ver (root_hash H t) untrusted es = Some wl ->
  Forall entry_wire es -> bounded t ->
  incl wl (contents t) \/ collision H.
Proof. exact writelog_sound_l. Qed.
Print Assumptions verify_to_writelog_sound.

(* Acceptance means: the pre-order reconstruction consumed every entry (nothing
   left over, nothing missing), and the rebuilt hash is the trusted root. *)
Theorem verify_consumes_all : forall (H : bytes -> bytes), (forall x, length (H x) = HASH_SIZE) ->
  forall ver root untrusted es p,
  verify H ver root untrusted es = ROk p ->
  exists p0, vp VP_FUEL ver 0 es = VOk p0 [] /\ phash H p0 = root.
Proof. exact verify_consumes_all_l. Qed.
Print Assumptions verify_consumes_all.

(* each recursive call consumes a non-empty prefix of what it was given *)
Theorem verify_step_consumes : forall fuel ver depth es p rest,
  vp fuel ver depth es = VOk p rest -> exists used, es = used ++ rest /\ used <> [].
Proof. exact vp_suffix. Qed.
Print Assumptions verify_step_consumes.

(* The recursion depth is bounded by maxProofDepth + 2 frames on every input:
   the model's fuel is never the reason for a rejection. *)
Theorem verify_depth_bounded : forall (H : bytes -> bytes), (forall x, length (H x) = HASH_SIZE) ->
  forall ver root untrusted es, verify H ver root untrusted es <> RErr EFuel.
Proof. exact verify_never_out_of_fuel. Qed.
Print Assumptions verify_depth_bounded.

(* Completeness of key-lookup proofs: for every tree of at most 129 entry
   levels, every key (present, absent, prefix or extension of a present key),
   both versions, siblings on or off, the proof SyncGet builds is accepted for
   the tree's root and determines the key — with the true answer. *)
Theorem get_proof_complete : forall (H : bytes -> bytes), (forall x, length (H x) = HASH_SIZE) ->
  forall ver sib k t,
  ver <= 1 -> (height t <= 129)%nat ->
  exists p, verify H ver (root_hash H t) (root_hash H t) (build_get_proof H ver sib k t) = ROk p /\
            plookup 0 k p <> Unknown /\
            (plookup 0 k p = of_opt (tlookup k t) \/ collision H).
Proof. exact get_proof_complete_l. Qed.
Print Assumptions get_proof_complete.

(* ... and for version 0 (the version the Go tree requests) the Go walk itself
   resolves the key without a further fetch. *)
Theorem get_proof_complete_go_v0 : forall (H : bytes -> bytes), (forall x, length (H x) = HASH_SIZE) ->
  forall sib k t,
  (height t <= 129)%nat ->
  exists p, verify H 0 (root_hash H t) (root_hash H t) (build_get_proof H 0 sib k t) = ROk p /\
            plookup_go H true 0 k p <> Unknown /\
            (plookup_go H true 0 k p = of_opt (tlookup k t) \/ collision H).
Proof. exact get_proof_complete_go_v0_l. Qed.
Print Assumptions get_proof_complete_go_v0.

(* Without the height bound completeness is FALSE for the code as written:
   130 keys each a prefix of the next give a well-formed tree whose honest
   proof for the longest (present) key is rejected with "max proof depth
   exceeded" (proof.go:20, :354), in both versions, siblings on or off. *)
Theorem get_proof_complete_unbounded_refuted :
  exists H t k v, (forall x, length (H x) = HASH_SIZE) /\ wf t /\ tlookup k t = Some v /\
    forall ver sib, ver <= 1 ->
      verify H ver (root_hash H t) (root_hash H t) (build_get_proof H ver sib k t) = RErr EDepth.
Proof. exact get_proof_complete_unbounded_refuted_l. Qed.
Print Assumptions get_proof_complete_unbounded_refuted.

(* ---------------- iterate / prefix proofs ---------------- *)
(* ProofBuilder.build over ANY set of included pointer positions gives a proof
   that is accepted for the tree's root and describes a pruning of the tree. *)
Theorem included_set_proof_verifies : forall (H : bytes -> bytes), (forall x, length (H x) = HASH_SIZE) ->
  forall ver inc t,
  ver <= 1 -> (height t <= 129)%nat ->
  exists p, verify H ver (root_hash H t) (root_hash H t) (gbuild H ver inc [] t) = ROk p /\
            (prunes H p t \/ collision H) /\
            (p = gprune H ver inc [] t \/ (p = PNil /\ root_hash H t = H [])).
Proof. exact gbuild_verifies. Qed.
Print Assumptions included_set_proof_verifies.

(* The builders are ports of treeIterator.doNext / Next (the machine of
   Mkvs/Iter.v, which Mkvs/IterLift.v proves equal to al_seek on the contents)
   re-stated over partial trees ([pdo], [pit_next]: a hash-only pointer stops
   the walk; every dereferenced pointer is recorded) and compared
   entry-for-entry with the real proofs by the harness.

   iterate_proof_complete: for every well-formed tree of at most 129 entry
   levels, every key, prefetch n and both versions, the proof SyncIterate builds
   is accepted for the tree's root, and a reader walking the verified partial
   tree with the ported iterator (Seek + n Next) meets no hash and obtains
   exactly the first n+1 entries >= key of the contents. *)
Theorem iterate_proof_complete : forall (H : bytes -> bytes), (forall x, length (H x) = HASH_SIZE) ->
  forall ver t key n,
  ver <= 1 -> (height t <= 129)%nat -> wf t -> valid_bytes key ->
  exists p, verify H ver (root_hash H t) (root_hash H t) (build_iter_proof H ver t key n) = ROk p /\
            (piter p key n = Some (firstn (S n) (al_seek key (contents t))) \/ collision H).
Proof. exact iterate_proof_complete_l. Qed.
Print Assumptions iterate_proof_complete.

(* On ANY pruning of the tree the partial iterator either stops at a hash
   (None) or yields exactly the first n+1 entries >= key. *)
Theorem piter_sound : forall (H : bytes -> bytes) p t key n,
  prunes H p t -> wf t -> valid_bytes key ->
  piter p key n = None \/ piter p key n = Some (firstn (S n) (al_seek key (contents t))).
Proof. exact piter_sound_l. Qed.
Print Assumptions piter_sound.

(* prefix_proof_complete: the proof SyncGetPrefixes builds is accepted, and the
   prefix loop of prefetch.go:93-113 run over the verified partial tree meets no
   hash and obtains exactly what the same loop obtains on the full replica
   (each prefix's stream there being al_seek of the contents by piter_sound /
   doNext_refines_seek; the result is stated relative to that loop, not expanded
   into a closed-form list). *)
Theorem prefix_proof_complete : forall (H : bytes -> bytes), (forall x, length (H x) = HASH_SIZE) ->
  forall ver t prefixes limit,
  ver <= 1 -> (height t <= 129)%nat ->
  exists p, verify H ver (root_hash H t) (root_hash H t) (build_prefixes_proof H ver t prefixes limit) = ROk p /\
            ((pprefixes p prefixes limit = pprefixes (full t) prefixes limit /\
              pprefixes (full t) prefixes limit <> None) \/ collision H).
Proof. exact prefix_proof_complete_l. Qed.
Print Assumptions prefix_proof_complete.

(* ---------------- the remote-backed reader ---------------- *)
(* A reader that starts from the trusted root only and applies ANY sequence of
   responses -- each handled as cache.remoteSync does: accepted only if it
   verifies for the hash of the pointer being dereferenced or for the root,
   then merged by hash equality -- and evictions of whole subtrees (unbounded
   cache: no partial removal, [step_ok]) answers every Get with the full
   replica's answer or with no answer (Unknown = error), or a collision of H
   is exhibited. *)
Theorem remote_tree_safe : forall (H : bytes -> bytes), (forall x, length (H x) = HASH_SIZE) ->
  forall t steps,
  wf t -> bounded t -> Forall step_ok steps ->
  (forall fresh k, agrees t k (plookup_go H fresh 0 k (run_steps H (root_hash H t) steps)) /\
                   agrees t k (plookup 0 k (run_steps H (root_hash H t) steps))) \/ collision H.
Proof. exact remote_tree_safe_l. Qed.
Print Assumptions remote_tree_safe.

(* the executable Get loop (answer from the cache, else one fetch for the pointer
   the walk stopped at, any list of responses): safe answer and the invariant is kept *)
Theorem remote_get_safe : forall (H : bytes -> bytes), (forall x, length (H x) = HASH_SIZE) ->
  forall t rs p k,
  wf t -> bounded t -> Forall resp_ok rs -> prunes H p t ->
  (agrees t k (fst (rget H (root_hash H t) p k rs)) /\ prunes H (snd (rget H (root_hash H t) p k rs)) t)
  \/ collision H.
Proof. exact rget_safe_l. Qed.
Print Assumptions remote_get_safe.

(* Iteration, in order: over the reader's cache after ANY sequence of responses
   and evictions (unbounded cache) Seek + n Next yields exactly the full
   replica's first n+1 entries >= key, or stops at a hash (= the Go tree
   fetches again or returns an error), or a collision of H is exhibited. *)
Theorem remote_tree_iteration_safe : forall (H : bytes -> bytes), (forall x, length (H x) = HASH_SIZE) ->
  forall t steps key n,
  wf t -> bounded t -> valid_bytes key -> Forall (step_ok) steps ->
  piter (run_steps H (root_hash H t) steps) key n = None \/
  piter (run_steps H (root_hash H t) steps) key n = Some (firstn (S n) (al_seek key (contents t))) \/
  collision H.
Proof. exact remote_tree_iteration_safe_l. Qed.
Print Assumptions remote_tree_iteration_safe.

(* every pair visible in the reader's cache is a real pair *)
Theorem remote_tree_leaves_safe : forall (H : bytes -> bytes), (forall x, length (H x) = HASH_SIZE) ->
  forall t steps,
  bounded t -> Forall step_ok steps ->
  incl (pleaves (run_steps H (root_hash H t) steps)) (contents t) \/ collision H.
Proof. exact remote_tree_leaves_safe_l. Qed.
Print Assumptions remote_tree_leaves_safe.

(* The excluded case is real: with the partial removal cache.tryRemoveNode
   performs when it meets the locked pointer (bounded cache; finding
   C04:bounded-cache-remote-tree-wrong-answer) a present key resolves absent. *)
Theorem remote_tree_safe_bounded_cache_refuted :
  exists H t steps k v,
    (forall x, length (H x) = HASH_SIZE) /\ wf t /\ bounded t /\
    tlookup k t = Some v /\
    plookup_go H true 0 k (run_steps H (root_hash H t) steps) = Absent.
Proof. exact remote_tree_safe_bounded_cache_refuted_l. Qed.
Print Assumptions remote_tree_safe_bounded_cache_refuted.

(* ---------------- bounded cache: what the lock guarantees ---------------- *)
(* cache.tryRemoveNode with the check order of the code (lock test before the
   "not yet in the LRU" test), for ANY victim, any set of committed nodes (any
   capacity >= 1) with the path from the victim down to the locked pointer
   committed (they were dereferenced by the running query) and the locked
   pointer itself possibly not yet committed: the attempt aborts, and the locked
   subtree as well as every sibling to the right of the path -- all that the
   running Get / in-order iteration still has to read -- is untouched.  What IS
   cleared (LeafNode / Left links of path nodes) lies behind the running query;
   it is the known bounded-cache finding and only affects later operations of
   the same reader (remote_tree_safe_bounded_cache_refuted).  Not mechanised:
   the induction over a whole fresh query that composes this step with
   remote_get_safe / piter_sound; the harness checks it on the implementation
   (fresh reader per query, node capacities 2..6). *)
Theorem lock_protects_remainder : forall committed locked rel p pid cur,
  locked = pid ++ rel ->
  sub_at p rel = Some cur -> has_node cur = true ->
  (forall pre suf, rel = pre ++ suf -> suf <> [] -> committed (pid ++ pre) = true) ->
  snd (try_remove committed locked false p pid) = false /\
  sub_at (fst (try_remove committed locked false p pid)) rel = Some cur /\
  remainder (fst (try_remove committed locked false p pid)) rel = remainder p rel.
Proof. exact lock_protects_remainder_l. Qed.
Print Assumptions lock_protects_remainder.

(* With the two tests swapped the guarantee is false: the attempt succeeds on the
   not-yet-committed locked pointer, the right sibling is cleared, and an
   iterator frame resuming at the victim reports the end of the tree although a
   present entry remains (with the code's order the same frame finds it). *)
Theorem swapped_lock_order_refuted :
  snd (try_remove ev_committed ev_locked false ev_p []) = false /\
  remainder (fst (try_remove ev_committed ev_locked false ev_p [])) ev_locked = remainder ev_p ev_locked /\
  snd (try_remove ev_committed ev_locked true ev_p []) = true /\
  remainder (fst (try_remove ev_committed ev_locked true ev_p [])) ev_locked <> remainder ev_p ev_locked /\
  fst (pit_next [1; 2; 4] [mkP VAtLeft [] ev_p 0 []]) = F3 ([128], [13]) [mkP VAfter [] ev_p 0 []] /\
  fst (pit_next [1; 2; 4] [mkP VAtLeft [] (fst (try_remove ev_committed ev_locked false ev_p [])) 0 []])
    = F3 ([128], [13]) [mkP VAfter [] (fst (try_remove ev_committed ev_locked false ev_p [])) 0 []] /\
  fst (pit_next [1; 2; 4] [mkP VAtLeft [] (fst (try_remove ev_committed ev_locked true ev_p [])) 0 []]) = N3 /\
  tlookup [128] Examples.ex_t = Some [13].
Proof. exact swapped_lock_order_refuted_l. Qed.
Print Assumptions swapped_lock_order_refuted.
