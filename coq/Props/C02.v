From Verif Require Import Lib.Base Mkvs.Trie Mkvs.BitsProofs Mkvs.AlistProofs Mkvs.TrieProofs Mkvs.HashProofs Mkvs.Overlay Mkvs.Corr Mkvs.CorrProofs Mkvs.Key Mkvs.KeySweep Mkvs.KeyProofs Mkvs.KeyLift.

(* C02 - MKVS root hash depends only on the key/value contents.
   [wf] = path-prefix discipline + canonical compression; [valid_bytes] = every
   byte < 256; [al_set]/[al_del]/[al_get] = sorted association list = the
   abstract map; [run ops] = the tree after a history of inserts / overwrites /
   removals starting from the empty tree (commit points do not change the
   model tree: the root at a commit is [root_hash H] of the current tree). *)

Theorem insert_wf : forall t k v, valid_bytes k -> wf t -> wf (tinsert k v t).
Proof. exact TrieProofs.insert_wf. Qed.
Print Assumptions insert_wf.

Theorem remove_wf : forall t k, wf t -> wf (fst (fst (tremove k t))).
Proof. exact TrieProofs.remove_wf. Qed.
Print Assumptions remove_wf.

Theorem contents_sorted : forall t, wf t -> sorted (contents t).
Proof. exact TrieProofs.contents_sorted. Qed.
Print Assumptions contents_sorted.

Theorem insert_contents :
  forall t k v, valid_bytes k -> wf t -> contents (tinsert k v t) = al_set k v (contents t).
Proof. exact TrieProofs.insert_contents. Qed.
Print Assumptions insert_contents.

Theorem remove_contents :
  forall t k, wf t ->
    contents (fst (fst (tremove k t))) = al_del k (contents t) /\
    snd (tremove k t) = al_get k (contents t) /\
    snd (fst (tremove k t)) = (match al_get k (contents t) with Some _ => true | None => false end).
Proof. exact TrieProofs.remove_contents. Qed.
Print Assumptions remove_contents.

Theorem lookup_contents : forall t k, wf t -> tlookup k t = al_get k (contents t).
Proof. exact TrieProofs.lookup_contents. Qed.
Print Assumptions lookup_contents.

Theorem canonical : forall t1 t2, wf t1 -> wf t2 -> contents t1 = contents t2 -> t1 = t2.
Proof. exact TrieProofs.canonical. Qed.
Print Assumptions canonical.

Theorem run_wf : forall ops, Forall op_valid ops -> wf (run ops).
Proof. exact TrieProofs.run_wf. Qed.
Print Assumptions run_wf.

Theorem run_contents :
  forall ops, Forall op_valid ops -> contents (run ops) = fold_left apply_op_spec ops [].
Proof. exact TrieProofs.run_contents. Qed.
Print Assumptions run_contents.

Theorem root_depends_only_on_contents :
  forall ops1 ops2, Forall op_valid ops1 -> Forall op_valid ops2 ->
    contents (run ops1) = contents (run ops2) ->
    run ops1 = run ops2 /\
    hash_expr (run ops1) = hash_expr (run ops2) /\
    forall H : bytes -> bytes, root_hash H (run ops1) = root_hash H (run ops2).
Proof. exact TrieProofs.root_depends_only_on_contents. Qed.
Print Assumptions root_depends_only_on_contents.

Theorem root_depends_only_on_map :
  forall ops1 ops2, Forall op_valid ops1 -> Forall op_valid ops2 ->
    fold_left apply_op_spec ops1 [] = fold_left apply_op_spec ops2 [] ->
    forall H : bytes -> bytes, root_hash H (run ops1) = root_hash H (run ops2).
Proof. exact TrieProofs.root_depends_only_on_map. Qed.
Print Assumptions root_depends_only_on_map.

Theorem hash_injective :
  forall (H : bytes -> bytes) (hlen : nat), (forall x, length (H x) = hlen) ->
  forall t1 t2, bounded t1 -> bounded t2 ->
    root_hash H t1 = root_hash H t2 -> t1 = t2 \/ collision H.
Proof. exact HashProofs.hash_injective. Qed.
Print Assumptions hash_injective.

Theorem root_sensitive :
  forall (H : bytes -> bytes) (hlen : nat), (forall x, length (H x) = hlen) ->
  forall t1 t2, wf t1 -> wf t2 ->
    entries_bounded (contents t1) -> entries_bounded (contents t2) ->
    root_hash H t1 = root_hash H t2 -> contents t1 = contents t2 \/ collision H.
Proof. exact HashProofs.root_sensitive. Qed.
Print Assumptions root_sensitive.

Theorem root_changes_with_any_key :
  forall (H : bytes -> bytes) (hlen : nat), (forall x, length (H x) = hlen) ->
  forall t1 t2 k, wf t1 -> wf t2 ->
    entries_bounded (contents t1) -> entries_bounded (contents t2) ->
    tlookup k t1 <> tlookup k t2 ->
    root_hash H t1 <> root_hash H t2 \/ collision H.
Proof. exact HashProofs.root_changes_with_any_key. Qed.
Print Assumptions root_changes_with_any_key.

(* histories WITH commit markers, as replayed by the correspondence runs
   ([c02_go] is the function evaluated on the recorded cases): commits do not
   change the tree and the root reported by a final commit depends only on the
   final contents, wherever the earlier commits were placed *)
Theorem batching_irrelevant :
  forall tab ops1 ops2,
    Forall op_valid (cops_strip ops1) -> Forall op_valid (cops_strip ops2) ->
    contents (snd (c02_go tab Nil ops1)) = contents (snd (c02_go tab Nil ops2)) ->
    snd (c02_go tab Nil ops1) = snd (c02_go tab Nil ops2) /\
    last (fst (c02_go tab Nil (ops1 ++ [CCommit]))) [] = last (fst (c02_go tab Nil (ops2 ++ [CCommit]))) [].
Proof. exact CorrProofs.batching_irrelevant. Qed.
Print Assumptions batching_irrelevant.

(* ---- the byte-wise key functions of node/key.go (Mkvs/Key.v) against the bit
   lists of the trie model.  General for BitLength and GetBit; for Split,
   Merge, AppendBit and CommonPrefixLen exhaustive over all packed bit strings
   up to the stated lengths (partial: the lifting to all lengths is open). ---- *)
Theorem k_bitlen_bits : forall k, k_bitlen k = N.of_nat (length (bits_of k)).
Proof. exact KeyProofs.k_bitlen_bits. Qed.
Print Assumptions k_bitlen_bits.

Theorem k_getbit_bits :
  forall k, valid_bytes k -> forall i : nat, (i < 8 * length k)%nat ->
    k_getbit k (N.of_nat i) = bit (bits_of k) i.
Proof. exact KeyProofs.k_getbit_bits. Qed.
Print Assumptions k_getbit_bits.

Theorem key_split_partial :
  forall p sp, (length p <= 12)%nat -> (sp <= length p)%nat ->
    k_split (pack p) (N.of_nat sp) (N.of_nat (length p)) = (pack (firstn sp p), pack (skipn sp p)).
Proof. exact KeyProofs.key_split_spec. Qed.
Print Assumptions key_split_partial.

Theorem key_merge_partial :
  forall a b, (length a + length b <= 11)%nat ->
    k_merge (pack a) (N.of_nat (length a)) (pack b) (N.of_nat (length b)) = pack (a ++ b).
Proof. exact KeyProofs.key_merge_spec. Qed.
Print Assumptions key_merge_partial.

Theorem key_appendbit_partial :
  forall p v, (length p <= 14)%nat ->
    k_appendbit (pack p) (N.of_nat (length p)) v = pack (p ++ [v]).
Proof. exact KeyProofs.key_appendbit_spec. Qed.
Print Assumptions key_appendbit_partial.

Theorem key_cpl_partial :
  forall a b, (length a <= 7)%nat -> (length b <= 7)%nat ->
    k_cpl (pack a) (N.of_nat (length a)) (pack b) (N.of_nat (length b)) = N.of_nat (lcp a b).
Proof. exact KeyProofs.key_cpl_spec. Qed.
Print Assumptions key_cpl_partial.

Theorem key_cpl_cross_byte_partial :
  forall a j m, (length a <= 11)%nat -> (j < length a)%nat -> (m <= length a)%nat ->
    let b := firstn m (flip_at j a) in
    k_cpl (pack a) (N.of_nat (length a)) (pack b) (N.of_nat (length b)) = N.of_nat (lcp a b).
Proof. exact KeyProofs.key_cpl_spec2. Qed.
Print Assumptions key_cpl_cross_byte_partial.

(* ---- the same four, for ALL lengths (Mkvs/KeyLift.v: per-byte tables over
   (byte, byte, shift) lifted by induction over whole bytes) ---- *)
Theorem key_split :
  forall (p : path) sp, (sp <= length p)%nat ->
    k_split (pack p) (N.of_nat sp) (N.of_nat (length p)) = (pack (firstn sp p), pack (skipn sp p)).
Proof. exact KeyLift.key_split_general. Qed.
Print Assumptions key_split.

Theorem key_merge :
  forall a b : path,
    k_merge (pack a) (N.of_nat (length a)) (pack b) (N.of_nat (length b)) = pack (a ++ b).
Proof. exact KeyLift.key_merge_general. Qed.
Print Assumptions key_merge.

Theorem key_appendbit :
  forall (p : path) v, k_appendbit (pack p) (N.of_nat (length p)) v = pack (p ++ [v]).
Proof. exact KeyLift.key_appendbit_general. Qed.
Print Assumptions key_appendbit.

Theorem key_cpl :
  forall a b : path,
    k_cpl (pack a) (N.of_nat (length a)) (pack b) (N.of_nat (length b)) = N.of_nat (lcp a b).
Proof. exact KeyLift.key_cpl_general. Qed.
Print Assumptions key_cpl.

(* ---- extension of the quantifier to FAULTS: histories in which some operations
   fail (return an error) and are retried.  On the functional model a failed
   operation is the identity by construction, so this is immediate; the
   implementation side is checked by the fault-injection twins of the harness
   (a node database read error in the middle of an operation, retry, same root
   as the fault-free history). ---- *)
Theorem failed_op_leaves_tree : forall t o, apply_fop t (FFailed o) = t.
Proof. exact CorrProofs.failed_op_leaves_tree. Qed.
Print Assumptions failed_op_leaves_tree.

Theorem root_depends_only_on_contents_with_faults :
  forall fs1 fs2, Forall op_valid (succeeded fs1) -> Forall op_valid (succeeded fs2) ->
    contents (run_f fs1) = contents (run_f fs2) ->
    run_f fs1 = run_f fs2 /\ forall H : bytes -> bytes, root_hash H (run_f fs1) = root_hash H (run_f fs2).
Proof. exact CorrProofs.root_depends_only_on_contents_with_faults. Qed.
Print Assumptions root_depends_only_on_contents_with_faults.

(* ---- CommitKnown (commit.go:29-40): commit iff the computed root equals the
   expected one; it never changes the tree, so a FAILED CommitKnown is the
   identity on the contents and on every later root (goes with
   failed_op_leaves_tree; immediate on the functional model — the implementation
   side is the "commitknown_bad" operations and "nobadknown" twins of the harness). ---- *)
Theorem commit_known_ok :
  forall H t, commit_known H (root_hash H t) t = (t, Some (snd (commit H t))).
Proof. exact CorrProofs.commit_known_ok. Qed.
Print Assumptions commit_known_ok.

Theorem commit_known_bad :
  forall H e t, e <> root_hash H t -> snd (commit_known H e t) = None /\ fst (commit_known H e t) = t.
Proof. exact CorrProofs.commit_known_bad_full. Qed.
Print Assumptions commit_known_bad.

Theorem failed_commit_known_leaves_tree :
  forall tab ops,
    snd (c02_go tab Nil (drop_known ops)) = snd (c02_go tab Nil ops) /\
    last (fst (c02_go tab Nil (drop_known ops ++ [CCommit]))) [] = last (fst (c02_go tab Nil (ops ++ [CCommit]))) [].
Proof. exact CorrProofs.failed_commit_known_leaves_tree. Qed.
Print Assumptions failed_commit_known_leaves_tree.
