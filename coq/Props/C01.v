From Coq Require Import Permutation.
From Verif Require Import Lib.Base Gen.MuxOrder Abci.Mux Abci.MuxProofs Gen.MuxSorts Abci.MapOrder Abci.MapOrderProofs Gen.MuxMapSites Abci.MapSites Abci.LocalOracle Abci.ParamsCache.

(* C01 -- replicas compute identical state and results for identical blocks.
   All statements are about the generic multiplexer model Verif.Abci.Mux, for every
   signature S (state type, transaction decoder, auth handler, applications ...). *)

(* One block: new committed state and all outputs (per-tx results and events, begin/end
   events, validator updates, events root; the metadata check is inside exec_block) are
   equal for all local configurations, registration orders and execution paths. *)
Theorem exec_block_deterministic :
  forall (S : msig) (base : list (app S)) (n1 n2 : node S) (p1 p2 : path S) (b : block),
    NoDup (map (a_name S) base) ->
    Permutation base (n_apps S n1) -> Permutation base (n_apps S n2) ->
    n_cache S n1 = None -> n_cache S n2 = None ->
    n_committed S n1 = n_committed S n2 ->
    path_ok S base b p1 -> path_ok S base b p2 ->
    option_map (fun r => (n_committed S (fst r), snd r)) (run_path S p1 n1 b)
    = option_map (fun r => (n_committed S (fst r), snd r)) (run_path S p2 n2 b).
Proof. exact MuxProofs.exec_block_deterministic. Qed.
Print Assumptions exec_block_deterministic.

(* Histories: two replicas fed the same blocks agree on the list of outputs (one per
   height) and on the committed state, whatever paths, configurations, restarts,
   interleaved CheckTx / simulation / pruning each of them went through. *)
Theorem replicas_agree :
  forall (S : msig) (base : list (app S)) (n1 n2 : node S) (ops1 ops2 : list (op S)),
    NoDup (map (a_name S) base) ->
    Permutation base (n_apps S n1) -> Permutation base (n_apps S n2) ->
    n_cache S n1 = None -> n_cache S n2 = None ->
    n_committed S n1 = n_committed S n2 ->
    ops_ok S base ops1 -> ops_ok S base ops2 ->
    blocks_of S ops1 = blocks_of S ops2 ->
    observe S (run S n1 ops1) = observe S (run S n2 ops2).
Proof. exact MuxProofs.replicas_agree. Qed.
Print Assumptions replicas_agree.

Theorem replicas_agree_at_every_height :
  forall (S : msig) (base : list (app S)) (n1 n2 : node S) (ops1 ops2 : list (op S)) (k1 k2 : nat),
    NoDup (map (a_name S) base) ->
    Permutation base (n_apps S n1) -> Permutation base (n_apps S n2) ->
    n_cache S n1 = None -> n_cache S n2 = None ->
    n_committed S n1 = n_committed S n2 ->
    ops_ok S base (firstn k1 ops1) -> ops_ok S base (firstn k2 ops2) ->
    blocks_of S (firstn k1 ops1) = blocks_of S (firstn k2 ops2) ->
    observe S (run S n1 (firstn k1 ops1)) = observe S (run S n2 (firstn k2 ops2)).
Proof. exact MuxProofs.replicas_agree_at_every_height. Qed.
Print Assumptions replicas_agree_at_every_height.

(* Every path equals the reference execution of the block on the committed state. *)
Theorem path_reference :
  forall (S : msig) (p : path S) (n : node S) (b : block) (base : list (app S)),
    n_cache S n = None -> path_ok S base b p ->
    run_path S p n b = reference S (path_cfg S p n) (path_regs S p n) (n_committed S n) b.
Proof. exact MuxProofs.path_reference. Qed.
Print Assumptions path_reference.

(* Block execution ignores the node-local configuration (min gas price, own signer,
   pruning, backend, checkpointer): the only read of it is in CheckTx mode. *)
Theorem exec_block_ignores_local_config :
  forall (S : msig) (c1 c2 : localcfg) (apps : list (app S)) (proposing : bool) (s : sg_state S) (b : block),
    exec_block S c1 apps proposing s b = exec_block S c2 apps proposing s b.
Proof. exact MuxProofs.exec_block_local. Qed.
Print Assumptions exec_block_ignores_local_config.

(* The proposer's cache: if ProcessProposal reuses the prepared proposal, the cached tree
   and results equal re-execution -- under the NAMED hypothesis that the block carries the
   commit info given to PrepareProposal (isEqual does not compare it). *)
Theorem cached_equals_reexecution :
  forall (S : msig) (n : node S) (key : bytes) (hd : header) (cands : list bytes) (cm : list vote)
         (ms : list misb) (b : block) (n1 : node S) (txs : list bytes),
    prepare S n key hd cands cm ms = (n1, txs) ->
    process_reuses (snapshot S n1) (b_header b) (b_txs b) (b_misb b) = true ->
    b_commit b = cm ->
    meta_wf S key (h_proposer hd) ->
    exists c, n_cache S n1 = Some c /\
      exec_block S (n_cfg S n) (dispatch S n) false (n_committed S n) b = Some (pc_tree S c, pc_out S c).
Proof. exact MuxProofs.cached_equals_reexecution. Qed.
Print Assumptions cached_equals_reexecution.

(* ... and without that hypothesis the statement is false in the model (witness). *)
Theorem cached_equals_reexecution_without_commit_info_refuted :
  exists (n : node toy) key hd cands cm ms b n1 txs c,
    prepare toy n key hd cands cm ms = (n1, txs) /\
    process_reuses (snapshot toy n1) (b_header b) (b_txs b) (b_misb b) = true /\
    meta_wf toy key (h_proposer hd) /\
    b_commit b <> cm /\
    n_cache toy n1 = Some c /\
    exec_block toy (n_cfg toy n) (dispatch toy n) false (n_committed toy n) b <> Some (pc_tree toy c, pc_out toy c).
Proof. exact MuxProofs.cached_differs_without_commit_hypothesis. Qed.
Print Assumptions cached_equals_reexecution_without_commit_info_refuted.

(* isEqual accepts exactly the remembered header, transactions and misbehavior. *)
Theorem is_equal_sound :
  forall (p : proposal) (hd : header) (txs : list bytes) (ms : list misb),
    is_equal p hd txs ms = true -> p_header p = Some hd /\ p_txs p = txs /\ p_misb p = ms.
Proof. exact MuxProofs.is_equal_sound. Qed.
Print Assumptions is_equal_sound.

(* Applications are dispatched in sorted-name order whatever the registration order. *)
Theorem app_order_irrelevant_to_registration_order :
  forall (S : msig) (regs1 regs2 : list (app S)),
    NoDup (map (a_name S) regs1) -> Permutation regs1 regs2 ->
    sort_by (a_name S) regs1 = sort_by (a_name S) regs2.
Proof. exact (fun S => MuxProofs.sort_by_canonical (a_name S)). Qed.
Print Assumptions app_order_irrelevant_to_registration_order.

(* CheckTx / simulation / pruning never influence delivery. *)
Theorem check_does_not_touch_delivery_state :
  forall (S : msig) (base : list (app S)) (n : node S) (ops : list (op S)),
    NoDup (map (a_name S) base) -> Permutation base (n_apps S n) -> n_cache S n = None -> ops_ok S base ops ->
    observe S (run S n ops) = observe S (run S n (only_blocks S ops)).
Proof. exact MuxProofs.check_does_not_touch_delivery_state. Qed.
Print Assumptions check_does_not_touch_delivery_state.

Theorem check_step_keeps_node :
  forall (S : msig) (n : node S) (cs : sg_state S) (outs : list (outputs S)) (raw : bytes),
    exists cs', step S (Some ((n, cs), outs)) (OpCheck S raw) = Some ((n, cs'), outs).
Proof. exact MuxProofs.check_step_keeps_node. Qed.
Print Assumptions check_step_keeps_node.

(* Failed consensus rounds (own proposals prepared, foreign proposals processed) leave a
   cache behind; every path still computes the reference result, given the commit-info
   hypothesis at each reuse -- or two different blocks share a block hash. *)
Theorem stale_rounds_harmless :
  forall (S : msig) (base : list (app S)) (n : node S) (sts : list (stale S)) (p : path S) (b : block),
    n_cache S n = None -> stale_ok S n sts -> path_ok S base b p -> b_hash b <> [] ->
    commit_as_prepared S (fold_left (apply_stale S) sts n) b ->
    run_path S p (fold_left (apply_stale S) sts n) b
      = reference S (path_cfg S p n) (path_regs S p n) (n_committed S n) b
    \/ collision.
Proof. exact MuxProofs.stale_rounds_harmless. Qed.
Print Assumptions stale_rounds_harmless.

(* Block functions that iterate Go maps (RuntimesToFinalize, the stake-ordered entity slice
   and the MaxValidators cutoff of the validator election, the reward address list, the
   signing-reward eligible entities) give the same result for EVERY iteration order of the
   map -- because the model sorts exactly where harness/cmd/gen muxsorts finds the code
   sorting (Gen/MuxSorts.v); a removed or guarded sort makes this unprovable. *)
Theorem map_order_irrelevant :
  forall (shuffle : list bytes -> list bytes) (balance : bytes -> N),
    (forall iter1 iter2, NoDup iter1 -> Permutation iter1 iter2 ->
       runtimes_to_finalize iter1 = runtimes_to_finalize iter2) /\
    (forall bypass maxv iter1 iter2, NoDup iter1 -> Permutation iter1 iter2 ->
       stake_slice shuffle balance bypass iter1 = stake_slice shuffle balance bypass iter2 /\
       elected shuffle balance bypass maxv iter1 = elected shuffle balance bypass maxv iter2) /\
    (forall iter1 iter2, NoDup iter1 -> Permutation iter1 iter2 ->
       reward_order iter1 = reward_order iter2) /\
    (forall total num den (iter1 iter2 : list (bytes * N)), NoDup (map fst iter1) -> Permutation iter1 iter2 ->
       eligible_entities total num den iter1 = eligible_entities total num den iter2).
Proof. exact MapOrderProofs.map_order_irrelevant. Qed.
Print Assumptions map_order_irrelevant.

(* ... lifted to whole blocks of a concrete ledger instance of the multiplexer signature. *)
Theorem map_order_irrelevant_block :
  forall (iter1 iter2 : list bytes) (cfg1 cfg2 : localcfg) (proposing : bool) (s : sg_state ledger) (b : block),
    NoDup iter1 -> Permutation iter1 iter2 ->
    exec_block ledger cfg1 (sort_by (a_name ledger) (ledger_apps iter1)) proposing s b
    = exec_block ledger cfg2 (sort_by (a_name ledger) (ledger_apps iter2)) proposing s b.
Proof. exact MapOrderProofs.map_order_irrelevant_block. Qed.
Print Assumptions map_order_irrelevant_block.

(* With a sort that is only conditional the election result depends on the map order (witness). *)
Theorem unsorted_map_order_matters_refuted :
  exists (shuffle : list bytes -> list bytes) (balance : bytes -> N) iter1 iter2,
    NoDup iter1 /\ Permutation iter1 iter2 /\
    firstn 1 (let sh := shuffle (collect_sorted SortConditional false iter1) in stable_desc balance sh)
    <> firstn 1 (let sh := shuffle (collect_sorted SortConditional false iter2) in stable_desc balance sh).
Proof. exact MapOrderProofs.unsorted_map_order_matters_refuted. Qed.
Print Assumptions unsorted_map_order_matters_refuted.

(* replicas_agree for histories that also contain failed consensus rounds (OpStale: own
   proposals prepared, foreign proposals processed, never committed), each replica with its
   own; the step conditions (ops_ok_from) are honest metadata, the commit-info hypothesis at
   every reuse, and non-empty block hashes. *)
Theorem replicas_agree_with_failed_rounds :
  forall (S : msig) (base : list (app S)) (n1 n2 : node S) (ops1 ops2 : list (op S)),
    NoDup (map (a_name S) base) ->
    Permutation base (n_apps S n1) -> Permutation base (n_apps S n2) ->
    n_cache S n1 = None -> n_cache S n2 = None ->
    n_committed S n1 = n_committed S n2 ->
    ops_ok_from S base n1 ops1 -> ops_ok_from S base n2 ops2 ->
    blocks_of S ops1 = blocks_of S ops2 ->
    observe S (run S n1 ops1) = observe S (run S n2 ops2) \/ collision.
Proof. exact MuxProofs.replicas_agree_with_failed_rounds. Qed.
Print Assumptions replicas_agree_with_failed_rounds.

(* Step order of abciMux.BeginBlock/EndBlock as read from the source (harness/cmd/gen
   muxorder): upgrade handlers before the system-transaction (block metadata) validation.
   exec_block is defined with this order and cached_equals_reexecution is proved under it. *)
Theorem mux_step_order :
  endblock_upgrade_before_validate = true /\ endblock_apps_before_validate = true /\
  beginblock_upgrade_before_apps = true.
Proof. exact MuxProofs.mux_step_order. Qed.
Print Assumptions mux_step_order.

(* ---- exhaustive enumeration of map iterations / nondeterminism sources ---- *)
(* Every `range` over a map-typed expression, every maps.Keys/Values/All call, and every
   time.Now / rand / go / select / os.Getenv / config / debug-flag read in the packages that
   run inside block processing (type-checked enumeration by harness/cmd/gen muxmapsites) is in
   the hand-reviewed table with exactly the statement text it was reviewed with. *)
Theorem all_sites_reviewed : forallb reviewed sites = true.
Proof. exact MapSites.all_sites_reviewed. Qed.
Print Assumptions all_sites_reviewed.

(* class OrderInsensitive: a fold whose step commutes gives the same result for every
   iteration order (sums, counts, max/min; instances sum_perm, max_perm, count_perm). *)
Theorem fold_over_map_order_irrelevant :
  forall (A B : Type) (f : A -> B -> A),
    (forall a x y, f (f a x) y = f (f a y) x) ->
    forall l1 l2, Permutation l1 l2 -> forall a, fold_left f l1 a = fold_left f l2 a.
Proof. exact @MapSites.fold_left_perm. Qed.
Print Assumptions fold_over_map_order_irrelevant.

(* ... independent per-key writes: every lookup in the resulting map is order-independent *)
Theorem per_key_writes_order_irrelevant :
  forall (V : Type) (l1 l2 : list (N * V)) (m : list (N * V)),
    Permutation l1 l2 -> NoDup (map fst l1) -> forall k, aget k (write_all l1 m) = aget k (write_all l2 m).
Proof. exact @MapSites.per_key_writes_perm. Qed.
Print Assumptions per_key_writes_order_irrelevant.

(* ... universal / existential tests and delete-by-predicate *)
Theorem tests_over_map_order_irrelevant :
  forall (B : Type) (p : B -> bool) (l1 l2 : list B), Permutation l1 l2 ->
    forallb p l1 = forallb p l2 /\ existsb p l1 = existsb p l2 /\ Permutation (filter p l1) (filter p l2).
Proof. exact (fun B p l1 l2 H => conj (MapSites.all_perm p l1 l2 H) (conj (MapSites.any_perm p l1 l2 H) (MapSites.delete_by_predicate_perm p l1 l2 H))). Qed.
Print Assumptions tests_over_map_order_irrelevant.

(* ... the arg-max loop of the commitment pool: the maximum is order-independent, and the
   winning key is too whenever it is used (strict majority of the votes). *)
Theorem majority_argmax_unique :
  forall l1 l2 : list (N * N), NoDup (map fst l1) -> Permutation l1 l2 ->
    snd (argmax l1) = snd (argmax l2) /\ (vsum l1 < 2 * snd (argmax l1) -> fst (argmax l1) = fst (argmax l2)).
Proof. exact MapSites.majority_argmax_unique. Qed.
Print Assumptions majority_argmax_unique.

(* ---- system transactions and the upgrade handler, explicitly ---- *)
(* A block accepted by a validating / replaying node carries a block-metadata transaction
   whose state root is the root of the committed state and whose events root covers all the
   block's events; that state already includes the upgrade handler's EndBlock writes. *)
Theorem accepted_block_binds_metadata_and_upgrade :
  forall (S : msig) (cfg : localcfg) (apps : list (app S)) (s : sg_state S) (b : block) (s' : sg_state S) (o : outputs S),
    exec_block S cfg apps false s b = Some (s', o) ->
    meta_in S (b_txs b) (sg_root S s', o_events_root S o) /\
    o_events_root S o = sg_evroot S (all_events S o) /\
    exists s3 uev eev, sg_upgrade_end S (b_header b) s3 = Some (s', uev) /\ o_end_events S o = eev ++ uev.
Proof. exact MuxProofs.accepted_block_binds_metadata_and_upgrade. Qed.
Print Assumptions accepted_block_binds_metadata_and_upgrade.

(* History level (complements replicas_agree): after any history every replica holds exactly
   the state announced by the last block's metadata transaction, post-upgrade. *)
Theorem replicas_hold_the_announced_state :
  forall (S : msig) (base : list (app S)) (n : node S) (ops : list (op S)) (n' : node S) (cs : sg_state S) (outs : list (outputs S)),
    NoDup (map (a_name S) base) -> Permutation base (n_apps S n) -> n_cache S n = None -> ops_ok S base ops ->
    run S n ops = Some ((n', cs), outs) -> blocks_of S ops <> [] ->
    exists b o, In b (blocks_of S ops) /\ last (blocks_of S ops) b = b /\
      meta_in S (b_txs b) (sg_root S (n_committed S n'), o_events_root S o) /\
      o_events_root S o = sg_evroot S (all_events S o) /\
      (exists s3 uev eev, sg_upgrade_end S (b_header b) s3 = Some (n_committed S n', uev) /\ o_end_events S o = eev ++ uev) /\
      exists pre, outs = pre ++ [o].
Proof. exact MuxProofs.replicas_hold_the_announced_state. Qed.
Print Assumptions replicas_hold_the_announced_state.

(* ---- node-local mutable stores consulted during execution (class LoggedOnly) ---- *)
(* Execution with an ARBITRARY node-local store/oracle whose answers are only logged (the
   upgrade manager's SubmitDescriptor / CancelUpgrade in governance) equals execution without
   it: same committed state and outputs for every oracle, store content and log. *)
Theorem exec_block_ignores_local_oracle :
  forall (S : msig) (L Q Ans : Type) (oracle : L -> Q -> L * Ans) (cfg : localcfg) (apps : list (oracle_app S Q))
         (proposing : bool) (s : sg_state S) (b : block) (l : L) (log : list Ans),
    fst (fst (exec_block_o S L Q Ans oracle cfg apps proposing s b l log))
    = exec_block S cfg (map (oa_app S Q) apps) proposing s b.
Proof. exact LocalOracle.exec_block_ignores_local_oracle. Qed.
Print Assumptions exec_block_ignores_local_oracle.

Theorem replicas_with_different_local_stores_agree :
  forall (S : msig) (L Q Ans : Type) (oracle : L -> Q -> L * Ans) (cfg1 cfg2 : localcfg) (apps : list (oracle_app S Q))
         (proposing : bool) (s : sg_state S) (b : block) (l1 l2 : L) (log1 log2 : list Ans),
    fst (fst (exec_block_o S L Q Ans oracle cfg1 apps proposing s b l1 log1))
    = fst (fst (exec_block_o S L Q Ans oracle cfg2 apps proposing s b l2 log2)).
Proof. exact LocalOracle.replicas_with_different_local_stores_agree. Qed.
Print Assumptions replicas_with_different_local_stores_agree.

(* If the answer is USED (seeded C01-4 returned the error), replicas differing only in their
   local store diverge (witness). *)
Theorem local_answer_used_refuted :
  exists (l1 l2 : bool) (s : sg_state toy),
    fst (end_all_leaky toy bool N bool submit_descriptor (fun e => e) (fun s => s + 1000) [toy_gov] s l1)
    <> fst (end_all_leaky toy bool N bool submit_descriptor (fun e => e) (fun s => s + 1000) [toy_gov] s l2).
Proof. exact LocalOracle.local_answer_used_refuted. Qed.
Print Assumptions local_answer_used_refuted.

(* ---- rounds aborted by a recovered panic (transient node-local fault) ---- *)
Theorem aborted_round_resets_cache :
  forall (S : msig) (n : node S) (b' : block) (dirty : sg_state S),
    n_cache S (apply_stale S n (StaleAborted S b' dirty)) = None /\
    same_base S n (apply_stale S n (StaleAborted S b' dirty)).
Proof. exact MuxProofs.aborted_round_resets_cache. Qed.
Print Assumptions aborted_round_resets_cache.

(* After a ProcessProposal that panicked at an arbitrary point (any dirty working tree), every
   path executes any block -- in particular the very block that was being processed -- exactly
   as a replica without the fault. (stale_rounds_harmless / replicas_agree_with_failed_rounds
   cover aborted rounds mixed with the other failed rounds as well.) *)
Theorem aborted_round_harmless :
  forall (S : msig) (base : list (app S)) (n : node S) (b' : block) (dirty : sg_state S) (p : path S) (b : block),
    path_ok S base b p ->
    run_path S p (apply_stale S n (StaleAborted S b' dirty)) b
    = reference S (path_cfg S p n) (path_regs S p n) (n_committed S n) b.
Proof. exact MuxProofs.aborted_round_harmless. Qed.
Print Assumptions aborted_round_harmless.

(* both deferred panic handlers end with resetProposal() (read from mux.go by gen muxorder) *)
Theorem mux_panic_handlers_reset :
  process_panic_handler_resets = true /\ prepare_panic_handler_resets = true.
Proof. exact MuxProofs.mux_panic_handlers_reset. Qed.
Print Assumptions mux_panic_handlers_reset.

(* without the reset the decided block is executed on the half-executed tree (witness) *)
Theorem aborted_round_without_reset_refuted :
  exists (n : node toy) (b : block) (dirty : sg_state toy),
    n_cache toy n = None /\
    finalize toy (abort_round toy false n b dirty) b
    <> reference toy (n_cfg toy n) (n_apps toy n) (n_committed toy n) b /\
    finalize toy (abort_round toy true n b dirty) b
    = reference toy (n_cfg toy n) (n_apps toy n) (n_committed toy n) b /\
    reference toy (n_cfg toy n) (n_apps toy n) (n_committed toy n) b <> None.
Proof. exact MuxProofs.aborted_round_without_reset_refuted. Qed.
Print Assumptions aborted_round_without_reset_refuted.

(* ---- the cached consensus parameters ---- *)
(* After any history of commits and restarts the cached consensus parameters (blockParams) are
   those of the committed state -- given that doCommit refreshes them after the state root
   advanced (read from state.go by gen muxorder). *)
Theorem params_cache_is_function_of_committed_state :
  forall (state params : Type) (params_of : state -> params) (s0 : state) (ops : list (pop state)),
    cache_fresh state params params_of (fold_left (pstep state params params_of) ops (init state params params_of s0)).
Proof. exact ParamsCache.params_cache_is_function_of_committed_state. Qed.
Print Assumptions params_cache_is_function_of_committed_state.

Theorem replicas_hold_same_params :
  forall (state params : Type) (params_of : state -> params) (s0 : state) (ops1 ops2 : list (pop state)),
    p_committed state params (fold_left (pstep state params params_of) ops1 (init state params params_of s0))
    = p_committed state params (fold_left (pstep state params params_of) ops2 (init state params params_of s0)) ->
    p_params state params (fold_left (pstep state params params_of) ops1 (init state params params_of s0))
    = p_params state params (fold_left (pstep state params params_of) ops2 (init state params params_of s0)).
Proof. exact ParamsCache.replicas_hold_same_params. Qed.
Print Assumptions replicas_hold_same_params.

(* with the refresh before the commit the running node lags behind a restarted one (witness) *)
Theorem lagging_params_cache_refuted :
  exists (s0 s1 : N),
    let params_of := fun s : N => 32768 + 1000 * s in
    let running := fold_left (pstep_with N N params_of false) [PCommit N s1] (init N N params_of s0) in
    let restarted := fold_left (pstep_with N N params_of false) [PCommit N s1; PRestart N] (init N N params_of s0) in
    p_committed N N running = p_committed N N restarted /\ p_params N N running <> p_params N N restarted.
Proof. exact ParamsCache.lagging_params_cache_refuted. Qed.
Print Assumptions lagging_params_cache_refuted.
