From Verif Require Import Lib.Base Mkvs.Trie Mkvs.BitsProofs Mkvs.AlistProofs Mkvs.TrieProofs Mkvs.Overlay Mkvs.OverlayProofs Mkvs.Key Mkvs.Iter Mkvs.IterProofs Mkvs.Lazy Mkvs.LazyProofs Mkvs.IterLift Mkvs.Step Mkvs.StepProofs Mkvs.Fork Mkvs.ForkProofs.

(* C03 - MKVS tree and overlays behave as an ordered map.
   [s_run] = the model of the tree object (pending write log, Insert, Remove,
   RemoveExisting, Get, Commit, Close+NewWithRoot) under a stack of overlays
   (overlay.go) with the merged iterator; [a_run] = the abstract machine: a
   stack of sorted association lists (top view, views below, committed map);
   [abs_of] = the abstraction function; [st_inv] = the representation
   invariant (well-formed trie, sound pending write log, overlay keys are
   dirty); [sop_valid] = inserted keys consist of bytes < 256. *)

Theorem tree_refines_map :
  forall (use_log : bool) (ops : list sop), Forall sop_valid ops ->
    snd (s_run (t_init use_log, []) ops) = snd (a_run a_init ops) /\
    abs_of (fst (s_run (t_init use_log, []) ops)) = fst (a_run a_init ops).
Proof. exact OverlayProofs.tree_refines_map. Qed.
Print Assumptions tree_refines_map.

Theorem overlay_stack_refines_map :
  forall (ops : list sop) (st : store), Forall sop_valid ops -> st_inv st ->
    st_inv (fst (s_run st ops)) /\
    abs_of (fst (s_run st ops)) = fst (a_run (abs_of st) ops) /\
    snd (s_run st ops) = snd (a_run (abs_of st) ops).
Proof. exact OverlayProofs.run_refines. Qed.
Print Assumptions overlay_stack_refines_map.

Theorem tree_get_refines_map :
  forall s k, t_inv s -> t_get k s = al_get k (contents (tr s)).
Proof. exact OverlayProofs.t_get_spec. Qed.
Print Assumptions tree_get_refines_map.

Theorem tree_insert_refines_map :
  forall s k v, valid_bytes k -> t_inv s ->
    t_inv (t_insert k v s) /\
    contents (tr (t_insert k v s)) = al_set k v (contents (tr s)) /\
    committed (t_insert k v s) = committed s.
Proof. exact OverlayProofs.t_insert_spec. Qed.
Print Assumptions tree_insert_refines_map.

Theorem tree_remove_existing_refines_map :
  forall s k, t_inv s ->
    t_inv (fst (t_remove_existing k s)) /\
    contents (tr (fst (t_remove_existing k s))) = al_del k (contents (tr s)) /\
    snd (t_remove_existing k s) = al_get k (contents (tr s)) /\
    committed (fst (t_remove_existing k s)) = committed s.
Proof. exact OverlayProofs.t_remove_existing_spec. Qed.
Print Assumptions tree_remove_existing_refines_map.

Theorem iterator_refines_map :
  forall s os k, t_inv s -> Forall o_inv os ->
    s_iter k s os = al_seek k (s_abs s os) /\
    sorted (s_iter k s os) /\
    forall e, In e (s_iter k s os) <-> In e (s_abs s os) /\ bytes_cmp (fst e) k <> Lt.
Proof. exact OverlayProofs.iterator_refines_map. Qed.
Print Assumptions iterator_refines_map.

Theorem overlay_refines_map :
  forall s o rest k v, valid_bytes k -> st_inv (s, o :: rest) ->
    let m := s_abs s (o :: rest) in
    s_get k s (o :: rest) = al_get k m /\
    s_abs (fst (s_insert k v (s, o :: rest))) (snd (s_insert k v (s, o :: rest))) = al_set k v m /\
    s_abs (fst (s_remove k (s, o :: rest))) (snd (s_remove k (s, o :: rest))) = al_del k m /\
    s_abs (fst (fst (s_remove_existing k (s, o :: rest)))) (snd (fst (s_remove_existing k (s, o :: rest)))) = al_del k m /\
    snd (s_remove_existing k (s, o :: rest)) = al_get k m /\
    fst (s_insert k v (s, o :: rest)) = s /\ tl (snd (s_insert k v (s, o :: rest))) = rest /\
    fst (s_remove k (s, o :: rest)) = s /\ tl (snd (s_remove k (s, o :: rest))) = rest.
Proof. exact OverlayProofs.overlay_refines_map. Qed.
Print Assumptions overlay_refines_map.

Theorem overlay_commit_refines_map :
  forall s o rest, st_inv (s, o :: rest) ->
    let st' := s_commit_top (s, o :: rest) in
    st_inv st' /\
    s_abs (fst st') (snd st') = s_abs s (o :: rest) /\
    views (fst st') (snd st') = s_abs s (o :: rest) :: views s rest /\
    committed (fst st') = committed s.
Proof. exact OverlayProofs.overlay_commit_refines_map. Qed.
Print Assumptions overlay_commit_refines_map.

Theorem merged_iterator_sorted_complete :
  forall o m k, o_inv o -> sorted m ->
    merge_iter (dirty o) (al_seek k m) (al_seek k (ov o)) = al_seek k (apply_overlay o m).
Proof. exact OverlayProofs.merge_iter_spec. Qed.
Print Assumptions merged_iterator_sorted_complete.

(* ---- the byte-level port of treeIterator.doNext (Mkvs/Iter.v; this is what the
   correspondence runs evaluate).  The general theorem doNext_refines_seek is at
   the end of this file; the two statements below are the earlier finite-domain
   instance (kept as a regression of the port by evaluation) and the conditional
   bridge. ---- *)
Theorem doNext_refines_seek_partial :
  forall ks k, In ks (sublists iter_universe) -> In k iter_seeks ->
    port_iter k (build_keys ks) = al_seek k (contents (build_keys ks)).
Proof. exact IterProofs.doNext_refines_seek_partial. Qed.
Print Assumptions doNext_refines_seek_partial.

Theorem port_run_eq_spec_run :
  forall ops st, port_agrees_along st ops -> s_run_p st ops = s_run st ops.
Proof. exact IterProofs.port_run_eq_spec_run. Qed.
Print Assumptions port_run_eq_spec_run.

(* ---- the node cache (Mkvs/Lazy.v): partial trees, eviction, derefNodePtr ---- *)
Theorem eviction_invisible :
  forall (H : bytes -> bytes) ops p, trace_ok H p ops ->
    snd (lazy_run H p ops) = snd (eager_run H (view p) ops) /\
    view (fst (lazy_run H p ops)) = fst (eager_run H (view p) ops).
Proof. exact LazyProofs.eviction_invisible. Qed.
Print Assumptions eviction_invisible.

Theorem eviction_f1_refuted :
  evict f1_before f1_after /\ ~ safe f1_after /\
  lazy_get [97] f1_before = Some [1] /\ lazy_get [97] f1_after = None /\
  lazy_get [97; 98] f1_before = Some [3] /\ lazy_get [97; 98] f1_after = None /\
  lazy_get [98] f1_after = Some [2] /\
  contents (view (fst (lazy_commit (fun x => x) (lazy_insert [122] [9] f1_after)))) = [([98], [2]); ([122], [9])].
Proof. exact LazyProofs.eviction_f1_refuted. Qed.
Print Assumptions eviction_f1_refuted.

(* ---- CLOSED: the byte-level port of treeIterator (Seek, then Next until
   invalid) yields exactly the specification iterator's sequence on every
   well-formed tree and every seek key; hence the runner evaluated by the
   correspondence check ([s_run_p]) refines the abstract ordered map. ---- *)
Theorem doNext_refines_seek :
  forall t k, wf t -> valid_bytes k -> port_iter k t = al_seek k (contents t).
Proof. exact IterLift.doNext_refines_seek. Qed.
Print Assumptions doNext_refines_seek.

Theorem port_run_refines :
  forall ops st, Forall sop_valid_p ops -> st_inv st -> s_run_p st ops = s_run st ops.
Proof. exact IterLift.port_run_refines. Qed.
Print Assumptions port_run_refines.

Theorem tree_refines_map_port :
  forall (use_log : bool) ops, Forall sop_valid_p ops ->
    snd (s_run_p (t_init use_log, []) ops) = snd (a_run a_init ops).
Proof. exact IterLift.tree_refines_map_port. Qed.
Print Assumptions tree_refines_map_port.

(* ---- evictions BETWEEN the steps of one doInsert descent (Mkvs/Step.v): the
   frames are the internal nodes on the Go call stack.  Evictions that do not
   touch the call stack are invisible; evicting a (still clean) node that is on
   the stack is a legal cache event and loses the subtree (finding F2). ---- *)
Theorem insert_eviction_off_path_invisible :
  forall k v es s, frames_ok (frames_of s) -> legal_run k v s es -> Forall off_path es ->
    whole k v (irun k v s es) = whole k v s.
Proof. exact StepProofs.insert_eviction_off_path_invisible. Qed.
Print Assumptions insert_eviction_off_path_invisible.

Theorem insert_descent_correct :
  forall k v p es res, legal_run k v (IDown [] 0 p) es -> Forall off_path es ->
    irun k v (IDown [] 0 p) es = IDone res -> view res = tinsert k v (view p).
Proof. exact StepProofs.insert_descent_correct. Qed.
Print Assumptions insert_descent_correct.

Theorem eviction_f2_refuted :
  (exists res, irun [32] [9] (IDown [] 0 f2_tree) f2_events_ok = IDone res /\
               contents (view res) = [([0], [1]); ([32], [9]); ([64], [2]); ([128], [3])]) /\
  legal_run [32] [9] (IDown [] 0 f2_tree) f2_events_bad /\
  (exists res, irun [32] [9] (IDown [] 0 f2_tree) f2_events_bad = IDone res /\ contents (view res) = []).
Proof. exact StepProofs.eviction_f2_refuted. Qed.
Print Assumptions eviction_f2_refuted.

(* ---- the doRemove descent as repaired in 8b362ab: pre-dereference of both
   children before the descent (remove.go:88-95), store on success (:99-116),
   and the two sibling dereferences on the way up (:118-131): off-path evictions that never hit the embedded leaf of a
   dirty node are invisible; an eviction of such a leaf BETWEEN the dereference
   of n.Left and of n.Right makes the parent collapse the branch away even for
   an absent key (the transient variant of finding F1). ---- *)
Theorem remove_eviction_off_path_invisible :
  forall k es s, inv_r k s -> rlegal_run k evicts s es -> whole_r k (rrun k s es) = whole_r k s.
Proof. exact StepProofs.remove_eviction_off_path_invisible. Qed.
Print Assumptions remove_eviction_off_path_invisible.

Theorem remove_descent_correct :
  forall k p es res, rlegal_run k evicts (RDown [] 0 p) es -> rrun k (RDown [] 0 p) es = RDone res ->
    view res = fst (fst (tremove k (view p))).
Proof. exact StepProofs.remove_descent_correct. Qed.
Print Assumptions remove_descent_correct.

Theorem eviction_f1_transient_refuted :
  (exists res, rrun [128; 1] (RDown [] 0 f1t_tree) (f1t_steps 14) = RDone res /\
               contents (view res) = [([0; 1; 0], [2]); ([128], [1]); ([128; 255; 1; 128], [3])]) /\
  (exists fs lbl lf l r lp, f1t_mid = RCol1 fs lbl lf l r lp /\ evict r f1t_evicted) /\
  (exists res, rrun [128; 1] f1t_mid [REvictR f1t_evicted; RStep; RStep] = RDone res /\
               contents (view res) = [([0; 1; 0], [2])]).
Proof. exact StepProofs.eviction_f1_transient_refuted. Qed.
Print Assumptions eviction_f1_transient_refuted.

(* ---- treeOverlay.Copy (Mkvs/Fork.v): an overlay A and its copy B over the same
   inner stack.  Every answer on either side is the ordered map's answer for that
   side's view (its own writes and removals over the shared inner map); local
   operations (insert, remove, remove-existing, get, iterate) on one side leave
   every observation (Get and Seek results for every key) of the other side
   unchanged; right after Copy both sides observe the same map.  A commit of one
   side writes into the shared inner tree and is seen by the other side through
   its own delta (that is the specified behaviour, covered by fork_refines_map). ---- *)
Theorem fork_refines_map :
  forall ops fs, f_inv fs -> f_ok_run fs ops ->
    snd (f_run fs ops) = f_spec_run fs ops /\ f_inv (fst (f_run fs ops)).
Proof. exact ForkProofs.fork_refines_map. Qed.
Print Assumptions fork_refines_map.

Theorem fork_run_refines_init :
  forall (use_log : bool) ops, f_ok_run ((t_init use_log, []), None) ops ->
    snd (f_run ((t_init use_log, []), None) ops) = f_spec_run ((t_init use_log, []), None) ops.
Proof. exact ForkProofs.fork_run_refines_init. Qed.
Print Assumptions fork_run_refines_init.

Theorem copy_independent_a :
  forall fs o k, local_fb o -> obs_a (fst (f_step fs o)) k = obs_a fs k.
Proof. exact ForkProofs.copy_independent_a. Qed.
Print Assumptions copy_independent_a.

Theorem copy_independent_b :
  forall fs o k, local_fa o -> snd (fst fs) <> [] -> obs_b (fst (f_step fs o)) k = obs_b fs k.
Proof. exact ForkProofs.copy_independent_b. Qed.
Print Assumptions copy_independent_b.

Theorem copy_same_view :
  forall fs k, snd fs = None -> snd (fst fs) <> [] ->
    obs_b (fst (f_step fs FFork)) k = Some (obs_a fs k).
Proof. exact ForkProofs.copy_same_view. Qed.
Print Assumptions copy_same_view.

Theorem copy_independent_a_run :
  forall ops fs k, Forall local_fb ops -> obs_a (fst (f_run fs ops)) k = obs_a fs k.
Proof. exact ForkProofs.copy_independent_a_run. Qed.
Print Assumptions copy_independent_a_run.

Theorem copy_independent_b_run :
  forall ops fs k, Forall local_fa ops -> snd (fst fs) <> [] ->
    obs_b (fst (f_run fs ops)) k = obs_b fs k.
Proof. exact ForkProofs.copy_independent_b_run. Qed.
Print Assumptions copy_independent_b_run.
