(* NodeDB/MultipartProofs.v — a checkpoint restore is invisible until its Finalize. *)
From Verif Require Import Lib.Base NodeDB.Spec NodeDB.Badger NodeDB.BadgerProofs NodeDB.Crash NodeDB.CrashProofs NodeDB.Multipart.

Definition chunk_at (v : N) (o : mop) : Prop :=
  match o with MChunk ver _ _ _ _ _ _ => ver = v | _ => False end.

(* the state during a restore at version v, relative to the node key space st0 and the last
   finalized version l0 at the moment the restore started *)
Definition rinv (st0 : store) (l0 : option N) (v : N) (m : mdb) : Prop :=
  m_mp m = v /\ d_last (m_meta m) = l0 /\
  (forall n, visible n v st0 = true -> visible n v (m_store m) = true) /\
  (forall n, visible n v (m_store m) = true -> visible n v st0 = true \/ In (false, n) (m_log m)) /\
  (forall n, In (false, n) (m_log m) -> visible n v st0 = false).

Lemma visible_puts_inv n v ps st :
  visible n v (write_all ps v true st) = true -> visible n v st = true \/ In n ps.
Proof.
  unfold visible. rewrite best_write_all. destruct (nmem n ps && (v <=? v)) eqn:C.
  - apply andb_true_iff in C as [C _]. apply nmem_In in C. intros _. right. exact C.
  - intros H. left. exact H.
Qed.

Lemma in_log_nodes n l : In n (log_nodes l) <-> In (false, n) l.
Proof.
  unfold log_nodes. rewrite in_flat_map. split.
  - intros [[b x] [HI Hx]]. cbn [fst snd] in Hx. destruct b; [destruct Hx|].
    destruct Hx as [->|[]]. exact HI.
  - intros HI. exists (false, n). split; [exact HI|left; reflexivity].
Qed.

(* a chunk commit interrupted after any number of its steps keeps the restore invariant: the
   log is flushed BEFORE the nodes, so every node the restore made visible is logged *)
Lemma chunk_prefix st0 l0 v m o k :
  rinv st0 l0 v m -> chunk_at v o -> rinv st0 l0 v (m_run_until k m o).
Proof.
  intros [MP [DL [R2 [R3 R4]]]] CA. destruct o as [| |ver typ rid cont puts reach inl0| |]; cbn in CA; try contradiction. subst ver.
  unfold m_run_until, mplan.
  destruct ((m_mp m =? 0) || negb (m_mp m =? v)); [destruct k; repeat split; assumption|].
  destruct (last_geb (b_meta (c_b (m_c m))) v); [destruct k; repeat split; assumption|].
  cbn [snd].
  set (es := (true, rid) :: map (fun n => (false, n)) (filter (fun n => negb (visible n v (b_store (c_b (m_c m))))) puts)).
  assert (E4 : forall n, In (false, n) (es ++ m_log m) -> visible n v st0 = false).
  { intros n HI. apply in_app_or in HI as [HI|HI]; [|exact (R4 n HI)].
    destruct HI as [HI|HI]; [discriminate|]. apply in_map_iff in HI as [x [Hx HI]]. injection Hx as ->.
    apply filter_In in HI as [_ HI]. apply negb_true_iff in HI.
    destruct (visible n v st0) eqn:V0; [|reflexivity]. pose proof (R2 n V0) as X. unfold m_store in X. rewrite X in HI. discriminate. }
  assert (E3 : forall n, visible n v (write_all puts v true (m_store m)) = true ->
                         visible n v st0 = true \/ In (false, n) (es ++ m_log m)).
  { intros n HV. destruct (visible_puts_inv _ _ _ _ HV) as [HV'|HP].
    - destruct (R3 n HV') as [A|A]; [left; exact A|right; apply in_or_app; right; exact A].
    - destruct (visible n v (m_store m)) eqn:VS.
      + destruct (R3 n VS) as [A|A]; [left; exact A|right; apply in_or_app; right; exact A].
      + right. apply in_or_app. left. right. apply in_map_iff. exists n. split; [reflexivity|].
        apply filter_In. split; [exact HP|]. unfold m_store in VS. rewrite VS. reflexivity. }
  unfold apply_msteps. destruct k as [|[|[|k]]]; cbn [firstn]; try rewrite firstn_nil; cbn [fold_left apply_mstep].
  - repeat split; assumption.
  - split; [exact MP|]. split; [exact DL|]. split; [exact R2|]. split; [|exact E4].
    intros n HV. cbn [m_log]. destruct (R3 n HV) as [A|A]; [left; exact A|right; apply in_or_app; right; exact A].
  - split; [exact MP|]. split; [exact DL|].
    split; [intros n H0; apply visible_puts; exact (R2 n H0)|]. split; [exact E3|exact E4].
  - split; [exact MP|]. split.
    + unfold m_meta. cbn [apply_step m_c c_b b_meta]. destruct (has_rid rid (roots_at (b_meta (c_b (m_c m))) v)); [exact DL|exact DL].
    + split; [intros n H0; apply visible_puts; exact (R2 n H0)|]. split; [exact E3|exact E4].
Qed.

Lemma chunk_full st0 l0 v m o :
  rinv st0 l0 v m -> chunk_at v o -> rinv st0 l0 v (snd (m_run_all m o)).
Proof.
  intros R CA. pose proof (chunk_prefix st0 l0 v m o (length (snd (mplan m o))) R CA) as H.
  unfold m_run_until in H. rewrite firstn_all in H. exact H.
Qed.

Lemma chunks_run st0 l0 v l : forall m, rinv st0 l0 v m -> Forall (chunk_at v) l -> rinv st0 l0 v (m_run m l).
Proof.
  induction l as [|o t IH]; intros m R F; [exact R|]. inversion F as [|? ? F1 F2]; subst.
  unfold m_run. cbn [fold_left]. apply IH; [apply chunk_full; assumption|exact F2].
Qed.

(* reopening during a restore: log and multipart version cleared, and the node key space at the
   restore timestamp is EXACTLY what it was before the restore started - nodes that existed
   before are untouched, nodes inserted only by the restore are gone *)
Lemma reopen_restores st0 l0 v m :
  v <> 0 -> rinv st0 l0 v m ->
  m_mp (m_reopen m) = 0 /\ m_log (m_reopen m) = [] /\ d_last (m_meta (m_reopen m)) = l0 /\
  forall n, visible n v (m_store (m_reopen m)) = visible n v st0.
Proof.
  intros NZ [MP [DL [R2 [R3 R4]]]]. unfold m_reopen, clean_steps. rewrite MP.
  destruct (v =? 0) eqn:E; [apply N.eqb_eq in E; congruence|].
  cbn [apply_msteps fold_left apply_mstep m_mp m_log]. split; [reflexivity|]. split; [reflexivity|].
  split; [exact DL|]. intros n. unfold m_store. cbn [apply_step m_c c_b b_store].
  fold (m_store m). destruct (visible n v st0) eqn:V0.
  - unfold visible. rewrite best_dels_notin; [exact (R2 n V0)|].
    intros HI. apply in_log_nodes in HI. rewrite (R4 n HI) in V0. discriminate.
  - destruct (in_dec N.eq_dec n (log_nodes (m_log m))) as [HI|HN].
    + apply visible_deleted. exact HI.
    + unfold visible. rewrite best_dels_notin by exact HN. fold (visible n v (m_store m)).
      destruct (visible n v (m_store m)) eqn:VS; [|reflexivity].
      destruct (R3 n VS) as [A|A]; [congruence|]. exfalso. apply HN. apply in_log_nodes. exact A.
Qed.

Lemma multipart_invisible_l m0 v chunks o k :
  m_mp m0 = 0 -> m_log m0 = [] -> v <> 0 -> Forall (chunk_at v) chunks -> chunk_at v o ->
  let m1 := m_run m0 (MStart v :: chunks) in
  (* no root written by chunk commits is finalized: last finalized is unchanged at every point *)
  d_last (m_meta m1) = d_last (m_meta m0) /\
  (forall j, d_last (m_meta (m_run_until j m1 o)) = d_last (m_meta m0)) /\
  (* a crash anywhere inside a further chunk commit (or none: k = 0), then reopen *)
  let m2 := m_reopen (m_run_until k m1 o) in
  m_mp m2 = 0 /\ m_log m2 = [] /\ d_last (m_meta m2) = d_last (m_meta m0) /\
  forall n, visible n v (m_store m2) = visible n v (m_store m0).
Proof.
  intros MP ML NZ F CA.
  assert (R0 : rinv (m_store m0) (d_last (m_meta m0)) v (snd (m_run_all m0 (MStart v)))).
  { unfold m_run_all, mplan. rewrite MP. destruct (v =? 0) eqn:E; [apply N.eqb_eq in E; congruence|].
    rewrite N.eqb_refl. cbn [snd apply_msteps fold_left apply_mstep]. split; [reflexivity|]. split; [reflexivity|].
    split; [intros n H; exact H|]. split; [intros n H; left; exact H|].
    cbn [m_log m_c]. intros n HI. rewrite ML in HI. destruct HI. }
  assert (R1 : rinv (m_store m0) (d_last (m_meta m0)) v (m_run m0 (MStart v :: chunks))).
  { unfold m_run. cbn [fold_left]. apply (chunks_run _ _ _ chunks _ R0 F). }
  cbv zeta. split; [exact (proj1 (proj2 R1))|].
  split; [intros j; exact (proj1 (proj2 (chunk_prefix _ _ _ _ o j R1 CA)))|].
  apply reopen_restores; [exact NZ|apply chunk_prefix; assumption].
Qed.

(* ---------------- the known finding: Finalize of a restore is not crash-safe ---------------- *)
Definition h_restore : list mop :=
  [MStart 3; MChunk 3 1 2 [(1, 1); (2, 1)] [1; 2] [3; 1; 2] []; MChunk 3 1 2 [(1, 1); (2, 1)] [3] [3; 1; 2] []].

(* the restored root is complete and readable before Finalize; an uninterrupted Finalize keeps
   it; a crash after Finalize committed "last finalized = 3" but before the restore log was
   cleared makes the reopen cleanup delete the nodes of the now FINALIZED version *)
Lemma badger_restore_finalize_crash_refuted_l :
  let m := m_run mdb0 h_restore in
  m_status m 3 2 = 1 /\ d_last (m_meta m) = None /\
  m_status (m_reopen (snd (m_run_all m (MFinalize 3 [2])))) 3 2 = 1 /\
  let m2 := m_reopen (m_run_until 2 m (MFinalize 3 [2])) in
  d_last (m_meta m2) = Some 3 /\ m_status m2 3 2 = 3 /\ b_status (c_b (m_c m2)) 3 2 = 2.
Proof. vm_compute. repeat split; reflexivity. Qed.

(* abort: the root stays listed in the roots metadata although its nodes are gone *)
Lemma abort_leaves_root_listed :
  let m := snd (m_run_all (m_run mdb0 h_restore) MAbort) in
  has_rid 2 (roots_at (m_meta m) 3) = true /\ d_last (m_meta m) = None /\ m_status m 3 2 = 3.
Proof. vm_compute. repeat split; reflexivity. Qed.

(* ---------------- continuing with ordinary operation after an interrupted restore ---------- *)
(* finalized local versions 1 and 2; a chunk of a checkpoint for version 3 whose nodes 1, 2
   already exist locally and whose node 6 is new; the process dies, reopens, and then commits and
   finalizes its OWN root for version 3.  The abandoned checkpoint root is still listed for
   version 3 (the abort does not clean the roots metadata) with an EMPTY updated-nodes index
   (badger.go:1073-1079), so discarding it at Finalize deletes nothing: every finalized root
   stays readable.  (An index naming the chunk's nodes would delete the shared nodes 1 and 2.) *)
Definition h_local : list mop :=
  [MBase (OCommit 1 1 2 None [(1, 1); (2, 1)] [1; 2; 3] [] [3; 1; 2] []); MBase (OFinalize 1 [2]);
   MBase (OCommit 2 1 3 (Some (1, 2)) [(3, 1)] [4; 5] [3] [5; 1; 2; 4] []); MBase (OFinalize 2 [3]);
   MStart 3; MChunk 3 1 4 [(1, 1)] [1; 2; 6] [7; 6; 1; 2; 4; 8] []].

Definition h_continue : list mop :=
  [MBase (OCommit 3 1 5 (Some (2, 3)) [(4, 1)] [9; 10] [5] [10; 1; 2; 4; 9] []); MBase (OFinalize 3 [5])].

Lemma restore_then_normal_operation_l :
  let m1 := m_reopen (m_run mdb0 h_local) in
  has_rid 4 (roots_at (m_meta m1) 3) = true /\ d_last (m_meta m1) = Some 2 /\
  a_puts (aux_get 3 4 (b_aux (c_b (m_c m1)))) = [] /\
  let m2 := m_run m1 h_continue in
  d_last (m_meta m2) = Some 3 /\ has_rid 4 (roots_at (m_meta m2) 3) = false /\
  m_status m2 3 5 = 1 /\ m_status m2 2 3 = 1 /\ m_status m2 1 2 = 1.
Proof. vm_compute. repeat split; reflexivity. Qed.
