(* NodeDB/BadgerProofs.v — invariants of the badger model and its refinement of the spec. *)
From Verif Require Import Lib.Base NodeDB.Spec NodeDB.Badger.

(* ------------------------------------------------------------------ *)
(* store lemmas                                                        *)
(* ------------------------------------------------------------------ *)

Lemma best_cons n t n' ts b st :
  best n t ((n', ts, b) :: st) =
  if (n' =? n) && (ts <=? t)
  then match best n t st with
       | Some (ts', b') => if ts' <=? ts then Some (ts, b) else best n t st
       | None => Some (ts, b)
       end
  else best n t st.
Proof.
  cbn [best]. destruct ((n' =? n) && (ts <=? t)); [|reflexivity].
  destruct (best n t st) as [[ts' b']|]; reflexivity.
Qed.

Lemma best_in n t st ts b : best n t st = Some (ts, b) -> In (n, ts, b) st /\ ts <= t.
Proof.
  induction st as [|[[n' ts'] b'] r IH]; [discriminate|].
  rewrite best_cons. destruct ((n' =? n) && (ts' <=? t)) eqn:C.
  - apply andb_true_iff in C as [C1 C2]. apply N.eqb_eq in C1. apply N.leb_le in C2. subst n'.
    destruct (best n t r) as [[a ab]|] eqn:R.
    + destruct (a <=? ts') eqn:E; intros H.
      * injection H as <- <-. split; [left; reflexivity|exact C2].
      * destruct (IH H) as [HI HB]. split; [right; exact HI|exact HB].
    + intros H. injection H as <- <-. split; [left; reflexivity|exact C2].
  - intros H. destruct (IH H) as [HI HB]. split; [right; exact HI|exact HB].
Qed.

Lemma best_none n t st ts b : best n t st = None -> In (n, ts, b) st -> ts <= t -> False.
Proof.
  induction st as [|[[n' ts'] b'] r IH]; [intros _ []|].
  rewrite best_cons. destruct ((n' =? n) && (ts' <=? t)) eqn:C.
  - destruct (best n t r) as [[a ab]|]; [destruct (a <=? ts')|]; discriminate.
  - intros HN [HI|HI] Hle.
    + injection HI as -> -> ->. rewrite N.eqb_refl in C. cbn in C. apply N.leb_gt in C. lia.
    + exact (IH HN HI Hle).
Qed.

Lemma best_max n t st ts b :
  best n t st = Some (ts, b) -> forall ts2 b2, In (n, ts2, b2) st -> ts2 <= t -> ts2 <= ts.
Proof.
  revert ts b. induction st as [|[[n' ts'] b'] r IH]; [discriminate|].
  intros ts b. rewrite best_cons. destruct ((n' =? n) && (ts' <=? t)) eqn:C.
  - apply andb_true_iff in C as [C1 C2]. apply N.eqb_eq in C1. apply N.leb_le in C2. subst n'.
    destruct (best n t r) as [[a ab]|] eqn:R.
    + destruct (a <=? ts') eqn:E; intros H ts2 b2 [HI|HI] Hle.
      * injection H as <- <-. injection HI as -> ->. lia.
      * injection H as <- <-. apply N.leb_le in E. specialize (IH a ab eq_refl ts2 b2 HI Hle). lia.
      * injection H as <- <-. injection HI as -> ->. apply N.leb_gt in E. lia.
      * exact (IH ts b H ts2 b2 HI Hle).
    + intros H ts2 b2 [HI|HI] Hle.
      * injection H as <- <-. injection HI as -> ->. lia.
      * exfalso. exact (best_none n t r ts2 b2 R HI Hle).
  - intros H ts2 b2 [HI|HI] Hle.
    + injection HI as -> -> ->. rewrite N.eqb_refl in C. cbn in C. apply N.leb_gt in C. lia.
    + exact (IH ts b H ts2 b2 HI Hle).
Qed.

Lemma best_ts_mono n t t' st ts b ts' b' :
  t <= t' -> best n t st = Some (ts, b) -> best n t' st = Some (ts', b') -> ts <= ts'.
Proof.
  intros Hle H1 H2. destruct (best_in _ _ _ _ _ H1) as [HI HB].
  apply (best_max _ _ _ _ _ H2 ts b HI). lia.
Qed.

(* deletions at timestamp d *)
Lemma best_dels_notin n t d ds st :
  ~ In n ds -> best n t (write_all ds d false st) = best n t st.
Proof.
  unfold write_all. induction ds as [|m ds IH]; intros HN; [reflexivity|].
  cbn [map app]. rewrite best_cons.
  destruct (m =? n) eqn:E; [apply N.eqb_eq in E; subst; exfalso; apply HN; left; reflexivity|].
  cbn [andb]. apply IH. intros HI. apply HN. right. exact HI.
Qed.

Lemma best_dels_before n t d ds st :
  t < d -> best n t (write_all ds d false st) = best n t st.
Proof.
  intros Hlt. unfold write_all. induction ds as [|m ds IH]; [reflexivity|].
  cbn [map app]. rewrite best_cons.
  replace (d <=? t) with false by (symmetry; apply N.leb_gt; exact Hlt).
  rewrite andb_false_r. exact IH.
Qed.

Lemma best_dels_newer n t d ds st ts b :
  best n t st = Some (ts, b) -> d < ts -> best n t (write_all ds d false st) = Some (ts, b).
Proof.
  intros HB Hlt. unfold write_all. induction ds as [|m ds IH]; [exact HB|].
  cbn [map app]. rewrite best_cons. rewrite IH.
  destruct ((m =? n) && (d <=? t)); [|reflexivity].
  replace (ts <=? d) with false by (symmetry; apply N.leb_gt; exact Hlt). reflexivity.
Qed.

(* puts never hide a node *)
Lemma visible_puts n t ps v st :
  visible n t st = true -> visible n t (write_all ps v true st) = true.
Proof.
  unfold write_all. induction ps as [|m ps IH]; intros HV; [exact HV|].
  cbn [map app]. specialize (IH HV). unfold visible in *. rewrite best_cons.
  destruct ((m =? n) && (v <=? t)); [|exact IH].
  destruct (best n t (map (fun n0 => (n0, v, true)) ps ++ st)) as [[a ab]|]; [|reflexivity].
  destruct (a <=? v); [reflexivity|exact IH].
Qed.

Lemma visible_put_new n t ps v st :
  In n ps -> (forall ts b, In (n, ts, b) st -> ts <= v) -> v <= t ->
  visible n t (write_all ps v true st) = true.
Proof.
  unfold write_all. induction ps as [|m ps IH]; intros HI Hb Hle; [destruct HI|].
  cbn [map app]. unfold visible. rewrite best_cons.
  destruct (m =? n) eqn:E.
  - apply N.eqb_eq in E. subst m.
    replace (v <=? t) with true by (symmetry; apply N.leb_le; exact Hle). cbn [andb].
    destruct (best n t (map (fun n0 => (n0, v, true)) ps ++ st)) as [[a ab]|] eqn:R; [|reflexivity].
    destruct (best_in _ _ _ _ _ R) as [HIn _].
    assert (Ha : a <= v).
    { apply in_app_or in HIn as [HIn|HIn].
      - apply in_map_iff in HIn as [x [Hx _]]. injection Hx as _ <- _. lia.
      - exact (Hb _ _ HIn). }
    replace (a <=? v) with true by (symmetry; apply N.leb_le; exact Ha). reflexivity.
  - cbn [andb]. destruct HI as [HI|HI]; [subst; rewrite N.eqb_refl in E; discriminate|].
    exact (IH HI Hb Hle).
Qed.

Lemma nmem_In x l : nmem x l = true <-> In x l.
Proof.
  unfold nmem. rewrite existsb_exists. split.
  - intros [y [HI HE]]. apply N.eqb_eq in HE. subst. exact HI.
  - intros HI. exists x. split; [exact HI|apply N.eqb_refl].
Qed.

(* ------------------------------------------------------------------ *)
(* metadata lemmas                                                     *)
(* ------------------------------------------------------------------ *)

Lemma roots_at_set e l vs v l' v' :
  roots_at (mkdb e l (aset v l' vs)) v' = if v =? v' then l' else roots_at (mkdb e l vs) v'.
Proof.
  unfold roots_at. cbn [d_vers]. destruct (v =? v') eqn:E.
  - apply N.eqb_eq in E. subst. rewrite aget_aset_same. reflexivity.
  - rewrite aget_aset_other; [reflexivity|]. apply N.eqb_neq in E. congruence.
Qed.

Lemma has_rid_app rid l x :
  has_rid rid (l ++ [x]) = has_rid rid l || (r_id x =? rid).
Proof.
  unfold has_rid. induction l as [|r t IH]; cbn [app find_root].
  - destruct (r_id x =? rid); reflexivity.
  - destruct (r_id r =? rid); [reflexivity|exact IH].
Qed.

Lemma has_rid_add_derived rid o n l : has_rid rid (add_derived o n l) = has_rid rid l.
Proof.
  unfold has_rid. induction l as [|r t IH]; cbn [add_derived find_root]; [reflexivity|].
  destruct (r_id r =? o) eqn:E; cbn [find_root r_id].
  - destruct (r_id r =? rid); reflexivity.
  - destruct (r_id r =? rid); [reflexivity|exact IH].
Qed.

Lemma has_rid_filter rid f l : has_rid rid (filter f l) = true -> has_rid rid l = true.
Proof.
  unfold has_rid. induction l as [|r t IH]; cbn [filter find_root]; [intros H; exact H|].
  destruct (f r); cbn [find_root].
  - destruct (r_id r =? rid); [reflexivity|exact IH].
  - intros H. destruct (r_id r =? rid); [reflexivity|exact (IH H)].
Qed.

Lemma find_root_in rid l r : find_root rid l = Some r -> In r l /\ r_id r = rid.
Proof.
  induction l as [|x t IH]; cbn [find_root]; [discriminate|].
  destruct (r_id x =? rid) eqn:E.
  - intros H. injection H as <-. apply N.eqb_eq in E. split; [left; reflexivity|exact E].
  - intros H. destruct (IH H) as [HI HE]. split; [right; exact HI|exact HE].
Qed.

Lemma has_rid_filter_in rid f l :
  has_rid rid (filter f l) = true -> exists r, In r l /\ r_id r = rid /\ f r = true.
Proof.
  unfold has_rid. destruct (find_root rid (filter f l)) as [r|] eqn:E; [|discriminate].
  intros _. destruct (find_root_in _ _ _ E) as [HI HE]. apply filter_In in HI as [HI Hf].
  exists r. auto.
Qed.

(* what a successful commit does to the metadata *)
Lemma s_commit_ok m ver typ rid old ws m' :
  s_commit m ver typ rid old ws = (EOk, m') ->
  d_earliest m' = d_earliest m /\ d_last m' = d_last m /\ last_geb m ver = false /\
  (has_rid rid (roots_at m ver) = true -> m' = m) /\
  (forall v r, has_rid r (roots_at m' v) = true ->
               has_rid r (roots_at m v) = true \/ (v = ver /\ r = rid)) /\
  (has_rid rid (roots_at m ver) = false ->
   forall over orid, old = Some (over, orid) -> is_empty_rid orid = false ->
     (ver = over \/ ver = over + 1) /\ has_rid orid (roots_at m over) = true /\
     (d_earliest m <= over \/ over = ver)).
Proof.
  unfold s_commit. destruct m as [ea la vs]. cbn [d_earliest d_last].
  match goal with |- context [apply_writes ws ?c] => generalize c end. intros oc.
  match goal with |- (match ?pre with EOk => _ | _ => _ end) = _ -> _ => destruct pre eqn:PRE; try discriminate end.
  match goal with |- (if ?c then _ else _) = _ -> _ => destruct c eqn:FOL; [intros H; discriminate|] end.
  destruct (last_geb (mkdb ea la vs) ver) eqn:LG; [intros H; discriminate|].
  destruct (has_rid rid (roots_at (mkdb ea la vs) ver)) eqn:HR.
  - intros H. injection H as <-.
    split; [reflexivity|split; [reflexivity|split; [reflexivity|split; [reflexivity|split]]]].
    + intros v r Hh. left. exact Hh.
    + discriminate.
  - assert (A : forall v r, has_rid r (roots_at (mkdb ea la (set_roots (mkdb ea la vs) ver
                 (roots_at (mkdb ea la vs) ver ++ [mkroot rid typ (apply_writes ws oc) []]))) v) = true ->
                 has_rid r (roots_at (mkdb ea la vs) v) = true \/ (v = ver /\ r = rid)).
    { intros v r. unfold set_roots. cbn [d_vers]. rewrite roots_at_set.
      destruct (ver =? v) eqn:E.
      - apply N.eqb_eq in E. subst v. rewrite has_rid_app. cbn [r_id]. intros Hh.
        apply orb_true_iff in Hh as [Hh|Hh]; [left; exact Hh|right].
        apply N.eqb_eq in Hh. split; [reflexivity|symmetry; exact Hh].
      - intros Hh. left. exact Hh. }
    destruct old as [[over orid]|].
    + destruct (is_empty_rid orid) eqn:EM.
      * intros H. injection H as <-. cbn [d_earliest d_last].
        split; [reflexivity|split; [reflexivity|split; [reflexivity|split; [discriminate|split]]]].
        -- exact A.
        -- intros _ o2 r2 Ho. injection Ho as <- <-. rewrite EM. discriminate.
      * destruct ((over <? ea) && negb (over =? ver)) eqn:PM; [intros H; discriminate|].
        destruct (negb (has_rid orid (roots_at (mkdb ea la vs) over))) eqn:HO; [intros H; discriminate|].
        intros H. injection H as <-. cbn [d_earliest d_last].
        split; [reflexivity|split; [reflexivity|split; [reflexivity|split; [discriminate|split]]]].
        -- intros v r. unfold set_roots at 1. cbn [d_vers]. rewrite roots_at_set.
           destruct (over =? v) eqn:E.
           ++ apply N.eqb_eq in E. subst v. rewrite has_rid_add_derived. apply A.
           ++ apply A.
        -- intros _ o2 r2 Ho _. injection Ho as <- <-. split; [|split].
           ++ apply negb_false_iff in FOL.
              apply orb_true_iff in FOL. destruct FOL as [F|F]; apply N.eqb_eq in F; [left|right]; exact F.
           ++ apply negb_false_iff in HO. exact HO.
           ++ apply andb_false_iff in PM as [P|P].
              ** left. apply N.ltb_ge in P. exact P.
              ** right. apply negb_false_iff in P. apply N.eqb_eq in P. exact P.
    + intros H. injection H as <-. cbn [d_earliest d_last].
      split; [reflexivity|split; [reflexivity|split; [reflexivity|split; [discriminate|split]]]].
      * exact A.
      * intros _ o2 r2 Ho. discriminate.
Qed.

(* ------------------------------------------------------------------ *)
(* the invariant                                                       *)
(* ------------------------------------------------------------------ *)

Definition after_last (m : sdb) (v : N) : Prop :=
  match d_last m with Some l => l <= v | None => True end.

(* every root the metadata lists in a retained version has all its nodes visible at its
   version, and - as long as its version is not below the last finalized one - at every
   later timestamp as well (successors inherit the nodes) *)
Definition inv_read (d : bdb) : Prop :=
  forall v rid, d_earliest (b_meta d) <= v -> has_rid rid (roots_at (b_meta d) v) = true ->
    forall n, In n (a_reach (aux_get v rid (b_aux d))) ->
      visible n v (b_store d) = true /\
      (after_last (b_meta d) v -> forall t, v <= t -> visible n t (b_store d) = true).

Definition inv_meta (d : bdb) : Prop := d_last (b_meta d) = None -> d_earliest (b_meta d) = 0.

Definition inv (d : bdb) : Prop := inv_read d /\ inv_meta d.

Lemma inv0 : inv bdb0.
Proof. split; [intros v rid _ H; discriminate|intros _; reflexivity]. Qed.

(* ---- side conditions (all decidable on the current state) ---- *)

Definition old_reach (d : bdb) (old : option (N * N)) : list N :=
  match old with
  | Some (over, orid) => if is_empty_rid orid then [] else a_reach (aux_get over orid (b_aux d))
  | None => []
  end.

(* histories in the domain of the property: versions are committed in order, and the tree layer
   passes consistent node sets (a node of the new root was written by this commit or belongs to
   the old root and was not reported removed) *)
Definition wf_step (d : bdb) (o : op) : bool :=
  match o with
  | OCommit ver typ rid old ws puts removed reach inl0 =>
      match d_last (b_meta d) with Some l => ver =? l + 1 | None => true end &&
      forallb (fun e => snd (fst e) <=? ver) (b_store d) &&
      forallb (fun n => nmem n puts || (nmem n (old_reach d old) && negb (nmem n removed))) reach
  | OFinalize ver rids => forallb (fun p => fst p <=? ver) (d_vers (b_meta d))
  | OPrune ver => true
  end.

(* the sharing conditions under which badger keeps every listed root readable *)
Definition fin_safe (d : bdb) (ver : N) (rids : list N) : bool :=
  let fin := fin_set (roots_at (b_meta d) ver) rids in
  let dels := fin_dels d ver fin in
  forallb (fun r => negb (nmem (r_id r) fin) ||
                    forallb (fun n => negb (nmem n dels)) (a_reach (aux_get ver (r_id r) (b_aux d))))
          (roots_at (b_meta d) ver).

Definition prune_safe (d : bdb) (ver : N) : bool :=
  forallb (fun r => negb (is_empty_rid (r_id r))) (lone_roots d ver) &&
  forallb (fun n =>
    forallb (fun p =>
      (fst p <=? ver) ||
      forallb (fun r => negb (nmem n (a_reach (aux_get (fst p) (r_id r) (b_aux d)))) ||
                        match best n (fst p) (b_store d) with Some (ts, _) => ver <? ts | None => false end)
              (roots_at (b_meta d) (fst p)))
      (d_vers (b_meta d)))
    (prune_dels d ver).

Definition safe_step (d : bdb) (o : op) : bool :=
  match o with
  | OCommit _ _ _ _ _ _ _ _ _ => true
  | OFinalize ver rids => fin_safe d ver rids
  | OPrune ver => prune_safe d ver
  end.

Fixpoint ok_run (d : bdb) (h : list op) : bool :=
  match h with
  | [] => true
  | o :: t => wf_step d o && safe_step d o && ok_run (snd (b_step d o)) t
  end.

Lemma roots_key m v : roots_at m v <> [] -> In v (map fst (d_vers m)).
Proof.
  unfold roots_at. generalize (d_vers m). intros l. induction l as [|[k x] r IH]; cbn [aget].
  - intros H. exfalso. apply H. reflexivity.
  - destruct (k =? v) eqn:E.
    + apply N.eqb_eq in E. subst. intros _. left. reflexivity.
    + intros H. right. exact (IH H).
Qed.

Lemma has_rid_nonempty rid l : has_rid rid l = true -> l <> [].
Proof. destruct l; [discriminate|intros _ H; discriminate]. Qed.

Lemma aux_get_cons v r a l v' r' :
  aux_get v' r' (((v, r), a) :: l) = if (v =? v') && (r =? r') then a else aux_get v' r' l.
Proof. reflexivity. Qed.

(* ---------------- Commit ---------------- *)
Lemma inv_commit d ver typ rid old ws puts removed reach inl0 :
  inv d -> wf_step d (OCommit ver typ rid old ws puts removed reach inl0) = true ->
  inv (snd (b_commit d ver typ rid old ws puts removed reach inl0)).
Proof.
  intros [IR IM] WF. unfold b_commit.
  destruct (s_commit (b_meta d) ver typ rid old ws) as [e m'] eqn:SC.
  destruct e; try (split; assumption).
  destruct (negb (has_rid rid (roots_at (b_meta d) ver))) eqn:FR; [|split; assumption].
  apply negb_true_iff in FR.
  destruct (s_commit_ok _ _ _ _ _ _ _ SC) as [HE [HL [LG [_ [HR HO]]]]].
  cbn [wf_step] in WF. apply andb_true_iff in WF as [WF W3]. apply andb_true_iff in WF as [W1 W2].
  split.
  - intros v r Hev Hh n Hn. cbn [snd b_meta b_aux b_store] in *. rewrite HE in Hev.
    rewrite aux_get_cons in Hn.
    destruct ((ver =? v) && (rid =? r)) eqn:K.
    + (* the new root *)
      apply andb_true_iff in K as [K1 K2]. apply N.eqb_eq in K1. apply N.eqb_eq in K2. subst v r.
      cbn [a_reach] in Hn.
      assert (G : forall t, ver <= t -> visible n t (write_all puts ver true (b_store d)) = true).
      { intros t Ht. rewrite forallb_forall in W3. specialize (W3 n Hn).
        apply orb_true_iff in W3 as [P|P].
        - apply nmem_In in P. apply visible_put_new; [exact P| |exact Ht].
          intros ts b HI. rewrite forallb_forall in W2. specialize (W2 _ HI). cbn in W2.
          apply N.leb_le in W2. exact W2.
        - apply andb_true_iff in P as [P1 P2]. apply nmem_In in P1.
          apply visible_puts. unfold old_reach in P1.
          destruct old as [[over orid]|]; [|destruct P1].
          destruct (is_empty_rid orid) eqn:EM; [destruct P1|].
          destruct (HO FR over orid eq_refl EM) as [HV [HH HEA]].
          assert (Hov : d_earliest (b_meta d) <= over) by (destruct HEA; lia).
          destruct (IR over orid Hov HH n P1) as [_ HA].
          apply HA; [|lia].
          unfold after_last. destruct (d_last (b_meta d)) as [l|] eqn:DL; [|exact I].
          apply N.eqb_eq in W1. lia. }
      split; [apply G; lia|intros _; exact G].
    + (* an existing root *)
      destruct (HR v r Hh) as [Hh'|[-> ->]].
      2:{ rewrite !N.eqb_refl in K. discriminate. }
      destruct (IR v r Hev Hh' n Hn) as [A B]. split.
      * apply visible_puts. exact A.
      * intros AL t Ht. apply visible_puts. apply B; [|exact Ht].
        unfold after_last in *. rewrite HL in AL. exact AL.
  - unfold inv_meta. cbn [snd b_meta]. rewrite HL, HE. exact IM.
Qed.

(* ---------------- Finalize ---------------- *)
Lemma s_finalize_ok m ver rids m' :
  s_finalize m ver rids = (EOk, m') ->
  d_last m' = Some ver /\ last_geb m ver = false /\
  d_earliest m' = (match d_last m with None => ver | Some _ => d_earliest m end) /\
  (forall v, v <> ver -> roots_at m' v = roots_at m v) /\
  roots_at m' ver = filter (fun r => nmem (r_id r) (fin_set (roots_at m ver) rids)) (roots_at m ver).
Proof.
  unfold s_finalize. destruct rids as [|r0 rs]; [discriminate|].
  destruct (match d_last m with Some l => (0 <? ver) && (l + 1 <? ver) | None => false end); [discriminate|].
  destruct (last_geb m ver) eqn:LG; [discriminate|].
  destruct (negb (forallb _ _)); [discriminate|].
  intros H. injection H as <-. cbn [d_last d_earliest]. repeat split.
  - intros v Hv. unfold set_roots. destruct m as [e l vs]. cbn [d_vers]. rewrite roots_at_set.
    destruct (ver =? v) eqn:E; [apply N.eqb_eq in E; congruence|]. reflexivity.
  - unfold set_roots. destruct m as [e l vs]. cbn [d_vers]. rewrite roots_at_set.
    rewrite N.eqb_refl. reflexivity.
Qed.

Lemma inv_finalize d ver rids :
  inv d -> wf_step d (OFinalize ver rids) = true -> fin_safe d ver rids = true ->
  inv (snd (b_finalize d ver rids)).
Proof.
  intros [IR IM] WF FS. unfold b_finalize.
  destruct (s_finalize (b_meta d) ver rids) as [e m'] eqn:SF.
  destruct e; try (split; assumption).
  destruct (s_finalize_ok _ _ _ _ SF) as [HL [LG [HE [HO HV]]]].
  cbn [wf_step] in WF. rewrite forallb_forall in WF.
  assert (OLDE : d_earliest (b_meta d) <= d_earliest m').
  { rewrite HE. destruct (d_last (b_meta d)) eqn:DL; [lia|]. rewrite (IM DL). lia. }
  split.
  - intros v r Hev Hh n Hn. cbn [snd b_meta b_aux b_store] in *.
    destruct (N.eq_dec v ver) as [->|NE].
    + (* a kept root of the finalized version *)
      rewrite HV in Hh. destruct (has_rid_filter_in _ _ _ Hh) as [x [HI [HX HF]]].
      assert (Hh' : has_rid r (roots_at (b_meta d) ver) = true) by (eapply has_rid_filter; exact Hh).
      assert (ND : ~ In n (fin_dels d ver (fin_set (roots_at (b_meta d) ver) rids))).
      { unfold fin_safe in FS. rewrite forallb_forall in FS. specialize (FS x HI).
        rewrite HF in FS. cbn [negb orb] in FS. rewrite forallb_forall in FS.
        rewrite HX in FS. specialize (FS n Hn). apply negb_true_iff in FS.
        intros C. apply nmem_In in C. congruence. }
      destruct (IR ver r (N.le_trans _ _ _ OLDE Hev) Hh' n Hn) as [A B].
      unfold visible. split.
      * rewrite best_dels_notin; [exact A|exact ND].
      * intros _ t Ht. rewrite best_dels_notin; [|exact ND]. apply B; [|exact Ht].
        unfold after_last. unfold last_geb in LG. destruct (d_last (b_meta d)) as [l|]; [|exact I].
        apply N.leb_gt in LG. lia.
    + rewrite (HO v NE) in Hh.
      assert (Hlt : v < ver).
      { assert (K : In v (map fst (d_vers (b_meta d)))) by (apply roots_key; eapply has_rid_nonempty; exact Hh).
        apply in_map_iff in K as [p [Hp1 Hp2]]. specialize (WF p Hp2). apply N.leb_le in WF. lia. }
      destruct (IR v r (N.le_trans _ _ _ OLDE Hev) Hh n Hn) as [A _]. unfold visible. split.
      * rewrite best_dels_before; [exact A|exact Hlt].
      * unfold after_last. rewrite HL. intros AL. lia.
  - unfold inv_meta. cbn [snd b_meta]. rewrite HL. discriminate.
Qed.

(* ---------------- Prune ---------------- *)
Lemma roots_at_adel e l vs v v' :
  v <> v' -> roots_at (mkdb e l (adel v vs)) v' = roots_at (mkdb e l vs) v'.
Proof. intros NE. unfold roots_at. cbn [d_vers]. rewrite aget_adel_other; [reflexivity|congruence]. Qed.

Lemma inv_prune d ver :
  inv d -> prune_safe d ver = true -> inv (snd (b_prune d ver)).
Proof.
  intros [IR IM] PS. unfold b_prune.
  destruct (s_prune_check (b_meta d) ver) eqn:PC; try (split; assumption).
  destruct (visit_all d ver (lone_roots d ver)); try (split; assumption).
  assert (PCK : exists l, d_last (b_meta d) = Some l /\ ver = d_earliest (b_meta d) /\ ver < l).
  { unfold s_prune_check in PC. destruct (d_last (b_meta d)) as [l|]; [|discriminate].
    destruct (l <? ver) eqn:E1; [discriminate|].
    destruct (negb (ver =? d_earliest (b_meta d))) eqn:E2; [discriminate|].
    destruct (ver =? l) eqn:E3; [discriminate|].
    exists l. apply N.ltb_ge in E1. apply negb_false_iff in E2. apply N.eqb_eq in E2.
    apply N.eqb_neq in E3. repeat split; [exact E2|lia]. }
  destruct PCK as [l [DL [EV LT]]].
  unfold prune_safe in PS. apply andb_true_iff in PS as [_ PS]. rewrite forallb_forall in PS.
  split.
  - intros v r Hev Hh n Hn. cbn [snd b_meta b_aux b_store s_prune_do d_earliest d_vers] in *.
    assert (NE : ver <> v) by lia.
    destruct (b_meta d) as [e la vs] eqn:BM. unfold s_prune_do in *. cbn [d_earliest d_last d_vers] in *.
    rewrite roots_at_adel in Hh by exact NE.
    assert (Hev' : d_earliest (b_meta d) <= v) by (rewrite BM; cbn [d_earliest]; lia).
    assert (Hh2 : has_rid r (roots_at (b_meta d) v) = true) by (rewrite BM; exact Hh).
    destruct (IR v r Hev' Hh2 n Hn) as [A B].
    assert (ALeq : after_last (mkdb (ver + 1) la vs) v -> after_last (b_meta d) v)
      by (rewrite BM; unfold after_last; cbn [d_last]; intros X; exact X).
    destruct (in_dec N.eq_dec n (prune_dels d ver)) as [HD|HD].
    + (* n is deleted at the pruned timestamp: a newer write shadows the deletion *)
      specialize (PS n HD). rewrite forallb_forall in PS.
      assert (K : In v (map fst vs)).
      { change vs with (d_vers (mkdb e la vs)). apply roots_key. eapply has_rid_nonempty. exact Hh. }
      apply in_map_iff in K as [p [Hp1 Hp2]]. specialize (PS p Hp2).
      rewrite Hp1 in PS. apply orb_true_iff in PS as [PS|PS]; [apply N.leb_le in PS; lia|].
      rewrite forallb_forall in PS.
      pose proof Hh2 as Hh3. rewrite BM in Hh3. unfold has_rid in Hh3.
      destruct (find_root r (roots_at (mkdb e la vs) v)) as [x|] eqn:FX; [|discriminate].
      destruct (find_root_in _ _ _ FX) as [HI HX]. specialize (PS x HI). rewrite HX in PS.
      apply orb_true_iff in PS as [PS|PS].
      { apply negb_true_iff in PS. apply nmem_In in Hn. congruence. }
      destruct (best n v (b_store d)) as [[ts0 b0]|] eqn:B0; [|discriminate].
      apply N.ltb_lt in PS.
      assert (G : forall t, v <= t -> visible n t (b_store d) = true ->
                  visible n t (write_all (prune_dels d ver) ver false (b_store d)) = true).
      { intros t Ht Vt. unfold visible in *.
        destruct (best n t (b_store d)) as [[ts1 b1]|] eqn:B1; [|discriminate].
        assert (ts0 <= ts1) by (eapply best_ts_mono; [exact Ht|exact B0|exact B1]).
        rewrite (best_dels_newer n t ver _ _ ts1 b1 B1); [exact Vt|lia]. }
      split; [apply G; [lia|exact A]|].
      intros AL t Ht. apply G; [exact Ht|]. apply B; [exact (ALeq AL)|exact Ht].
    + unfold visible. split.
      * rewrite best_dels_notin; [exact A|exact HD].
      * intros AL t Ht. rewrite best_dels_notin; [|exact HD]. apply B; [exact (ALeq AL)|exact Ht].
  - unfold inv_meta. cbn [snd b_meta s_prune_do d_last]. rewrite DL. discriminate.
Qed.

Lemma inv_step d o : inv d -> wf_step d o = true -> safe_step d o = true -> inv (snd (b_step d o)).
Proof.
  intros I W S. destruct o as [ver typ rid old ws puts removed reach inl0|ver rids|ver]; cbn [b_step].
  - apply inv_commit; assumption.
  - apply inv_finalize; assumption.
  - apply inv_prune; assumption.
Qed.

Lemma inv_run h : forall d, inv d -> ok_run d h = true -> inv (b_run d h).
Proof.
  induction h as [|o t IH]; intros d I OK; [exact I|].
  cbn [ok_run] in OK. apply andb_true_iff in OK as [OK O3]. apply andb_true_iff in OK as [O1 O2].
  unfold b_run. cbn [fold_left]. apply IH; [apply inv_step; assumption|exact O3].
Qed.

(* ------------------------------------------------------------------ *)
(* reads under the invariant                                            *)
(* ------------------------------------------------------------------ *)

Lemma inv_readable d v rid :
  inv d -> d_earliest (b_meta d) <= v -> has_rid rid (roots_at (b_meta d) v) = true ->
  b_readable d v rid = true.
Proof.
  intros [IR _] Hev Hh. unfold b_readable, all_visible. apply forallb_forall. intros n Hn.
  unfold a_need in Hn. apply filter_In in Hn as [Hn _]. exact (proj1 (IR v rid Hev Hh n Hn)).
Qed.

Lemma inv_status d v rid :
  inv d -> s_has (b_meta d) v rid = true ->
  b_status d v rid = 1 /\ b_read d v rid = s_read (b_meta d) v rid.
Proof.
  intros I Hs. unfold b_status, b_read. rewrite Hs.
  destruct (is_empty_rid rid) eqn:EM; cbn [orb].
  - split; [reflexivity|]. destruct (s_read (b_meta d) v rid); reflexivity.
  - unfold s_has in Hs. rewrite EM in Hs. cbn [orb] in Hs. apply andb_true_iff in Hs as [H1 H2].
    apply N.leb_le in H1. rewrite (inv_readable d v rid I H1 H2).
    split; [reflexivity|]. destruct (s_read (b_meta d) v rid); reflexivity.
Qed.

Lemma status_absent d v rid : s_has (b_meta d) v rid = false -> b_status d v rid = 0.
Proof. intros H. unfold b_status. rewrite H. reflexivity. Qed.

(* ------------------------------------------------------------------ *)
(* refinement of the spec                                               *)
(* ------------------------------------------------------------------ *)

Lemma s_commit_err m ver typ rid old ws e m' :
  s_commit m ver typ rid old ws = (e, m') -> e <> EOk -> m' = m.
Proof.
  unfold s_commit.
  match goal with |- (match ?pre with EOk => _ | _ => _ end) = _ -> _ => destruct pre end;
    try (intros H; injection H as <- <-; reflexivity).
  repeat match goal with
         | |- (if ?c then _ else _) = _ -> _ => destruct c
         | |- (match ?o with Some _ => _ | None => _ end) = _ -> _ => destruct o as [[? ?]|]
         end;
    intros H; injection H as <- <-; intros NE; try reflexivity; exfalso; apply NE; reflexivity.
Qed.

Lemma s_finalize_err m ver rids e m' : s_finalize m ver rids = (e, m') -> e <> EOk -> m' = m.
Proof.
  unfold s_finalize. destruct rids; [intros H; injection H as <- <-; reflexivity|].
  repeat match goal with |- (if ?c then _ else _) = _ -> _ => destruct c end;
    intros H; injection H as <- <-; intros NE; try reflexivity; exfalso; apply NE; reflexivity.
Qed.

Lemma visit_nodes_ok ns il t st : all_visible ns t st = true -> visit_nodes ns il t st EOk = EOk.
Proof.
  induction ns as [|n r IH]; cbn [all_visible forallb visit_nodes]; [reflexivity|].
  intros H. apply andb_true_iff in H as [H1 H2]. rewrite H1. destruct (nmem n il); apply IH; exact H2.
Qed.

Lemma visit_all_ok d ver l :
  (forall r, In r l -> visit_root d ver r = EOk) -> visit_all d ver l = EOk.
Proof.
  induction l as [|r t IH]; intros H; cbn [visit_all]; [reflexivity|].
  rewrite (H r (or_introl eq_refl)). apply IH. intros x Hx. apply H. right. exact Hx.
Qed.

Lemma in_has_rid r l : In r l -> has_rid (r_id r) l = true.
Proof.
  unfold has_rid. induction l as [|x t IH]; [intros []|]. cbn [find_root]. intros [->|HI].
  - rewrite N.eqb_refl. reflexivity.
  - destruct (r_id x =? r_id r); [reflexivity|exact (IH HI)].
Qed.

(* every operation of the concrete model returns the spec's class and leaves the spec's
   metadata, as long as the state satisfies the invariant and the step is safe *)
Lemma b_step_refines d o :
  inv d -> safe_step d o = true ->
  fst (b_step d o) = fst (s_step (b_meta d) o) /\
  b_meta (snd (b_step d o)) = snd (s_step (b_meta d) o).
Proof.
  intros I S. destruct o as [ver typ rid old ws puts removed reach inl0|ver rids|ver]; cbn [b_step s_step].
  - unfold b_commit. destruct (s_commit (b_meta d) ver typ rid old ws) as [e m'] eqn:SC.
    assert (ER : e <> EOk -> m' = b_meta d) by (apply (s_commit_err _ _ _ _ _ _ _ _ SC)).
    destruct e; cbn [fst snd]; try (split; [reflexivity|symmetry; apply ER; discriminate]).
    destruct (negb (has_rid rid (roots_at (b_meta d) ver))) eqn:FR; cbn [fst snd b_meta]; [split; reflexivity|].
    apply negb_false_iff in FR. destruct (s_commit_ok _ _ _ _ _ _ _ SC) as [_ [_ [_ [HM _]]]].
    split; [reflexivity|symmetry; exact (HM FR)].
  - unfold b_finalize. destruct (s_finalize (b_meta d) ver rids) as [e m'] eqn:SF.
    assert (ER : e <> EOk -> m' = b_meta d) by (apply (s_finalize_err _ _ _ _ _ SF)).
    destruct e; cbn [fst snd b_meta]; try (split; [reflexivity|symmetry; apply ER; discriminate]).
    split; reflexivity.
  - unfold b_prune, s_prune. destruct (s_prune_check (b_meta d) ver) eqn:PC; cbn [fst snd]; try (split; reflexivity).
    rewrite visit_all_ok; [cbn [fst snd b_meta]; split; reflexivity|].
    intros r Hr. unfold lone_roots in Hr. apply filter_In in Hr as [Hr HL].
    cbn [safe_step] in S. unfold prune_safe in S. apply andb_true_iff in S as [S _].
    rewrite forallb_forall in S.
    assert (HL2 : In r (lone_roots d ver)) by (unfold lone_roots; apply filter_In; split; assumption).
    specialize (S r HL2). apply negb_true_iff in S. unfold visit_root. rewrite S.
    apply visit_nodes_ok. destruct I as [IR _]. unfold all_visible. apply forallb_forall. intros n Hn.
    assert (EV : d_earliest (b_meta d) <= ver).
    { unfold s_prune_check in PC. destruct (d_last (b_meta d)); [|discriminate].
      destruct (n0 <? ver); [discriminate|].
      destruct (negb (ver =? d_earliest (b_meta d))) eqn:E2; [discriminate|].
      apply negb_false_iff in E2. apply N.eqb_eq in E2. lia. }
    exact (proj1 (IR ver (r_id r) EV (in_has_rid r _ Hr) n Hn)).
Qed.

Lemma b_run_refines h : forall d, inv d -> ok_run d h = true ->
  b_meta (b_run d h) = s_run (b_meta d) h.
Proof.
  induction h as [|o t IH]; intros d I OK; [reflexivity|].
  cbn [ok_run] in OK. apply andb_true_iff in OK as [OK O3]. apply andb_true_iff in OK as [O1 O2].
  unfold b_run, s_run. cbn [fold_left].
  destruct (b_step_refines d o I O2) as [_ HM]. rewrite <- HM.
  apply IH; [apply inv_step; assumption|exact O3].
Qed.

(* after every operation of an in-domain, safe history every known root is observed either
   absent (HasRoot false) or exactly readable: never "node missing" *)
Lemma b_observe_exact h : forall d k, inv d -> ok_run d h = true ->
  forall i o, nth_error (b_observe d k h) i = Some o ->
    exists e c ea la rs, o = ((e, c), (ea, la), rs) /\
      forall p hs st, In (p, (hs, st)) rs -> st = (if hs then 1 else 0).
Proof.
  induction h as [|o t IH]; intros d k I OK i ob Hn; [destruct i; discriminate|].
  cbn [ok_run] in OK. apply andb_true_iff in OK as [OK O3]. apply andb_true_iff in OK as [O1 O2].
  cbn [b_observe] in Hn. destruct (b_step d o) as [e d'] eqn:BS.
  assert (I' : inv d') by (replace d' with (snd (b_step d o)) by (rewrite BS; reflexivity); apply inv_step; assumption).
  destruct i as [|i]; cbn [nth_error] in Hn.
  - injection Hn as <-. eexists _, _, _, _, _. split; [reflexivity|].
    intros p hs st HI. apply in_map_iff in HI as [q [HQ _]]. injection HQ as _ <- <-.
    destruct (s_has (b_meta d') (fst q) (snd q)) eqn:SH.
    + exact (proj1 (inv_status d' _ _ I' SH)).
    + exact (status_absent d' _ _ SH).
  - replace d' with (snd (b_step d o)) in * by (rewrite BS; reflexivity).
    exact (IH _ _ I' O3 _ _ Hn).
Qed.

(* ------------------------------------------------------------------ *)
(* C07, first step: a crash of Commit after the node batch was flushed but before the roots
   metadata was committed (badger.go:1126-1131) leaves a state in which every listed root is
   still readable: the flushed node writes are puts, and puts never hide a node.           *)
Lemma crash_after_commit_flush d ps ver :
  inv d -> inv (mkb (b_meta d) (b_aux d) (write_all ps ver true (b_store d))).
Proof.
  intros [IR IM]. split; [|exact IM]. intros v r Hev Hh n Hn. cbn [b_meta b_aux b_store] in *.
  destruct (IR v r Hev Hh n Hn) as [A B]. split; [apply visible_puts; exact A|].
  intros AL t Ht. apply visible_puts. apply B; assumption.
Qed.
