(* NodeDB/Final.v — the statements of Props/C06.v that need more than [exact]. *)
From Verif Require Import Lib.Base NodeDB.Spec NodeDB.Badger NodeDB.BadgerProofs NodeDB.SpecProofs NodeDB.Examples.

Lemma badger_refines_spec_l :
  forall h d, inv d -> ok_run d h = true ->
    b_meta (b_run d h) = s_run (b_meta d) h /\ inv (b_run d h).
Proof. intros h d I OK. split; [exact (b_run_refines h d I OK)|exact (inv_run h d I OK)]. Qed.

Lemma badger_finalized_readable_l :
  forall h, ok_run bdb0 h = true ->
    forall v rid, s_has (b_meta (b_run bdb0 h)) v rid = true ->
      b_status (b_run bdb0 h) v rid = 1 /\
      b_read (b_run bdb0 h) v rid = s_read (s_run sdb0 h) v rid.
Proof.
  intros h OK v rid SH.
  destruct (inv_status _ v rid (inv_run h bdb0 inv0 OK) SH) as [A B].
  split; [exact A|]. rewrite B. rewrite (b_run_refines h bdb0 inv0 OK). reflexivity.
Qed.

Lemma finalized_readable_refuted_l :
  exists h, accepted bdb0 h = true /\
    exists v rid, unreadable_finalized (b_run bdb0 h) v rid = true.
Proof. exists h_prune_shared. split; [apply prune_shared_refutes|]. exists 2, 4. apply prune_shared_refutes. Qed.

Lemma finalized_readable_refuted_at_finalize_l :
  exists h, accepted bdb0 h = true /\
    exists v rid, unreadable_finalized (b_run bdb0 h) v rid = true.
Proof. exists h_finalize_reput. split; [apply finalize_reput_refutes|]. exists 3, 2. apply finalize_reput_refutes. Qed.

Lemma finalized_readable_refuted_same_version_chain_l :
  exists h, accepted bdb0 h = true /\
    exists v rid, unreadable_finalized (b_run bdb0 h) v rid = true.
Proof. exists h_finalize_removed. split; [apply finalize_removed_refutes|]. exists 4, 2. apply finalize_removed_refutes. Qed.

Lemma prune_refines_spec_refuted_l :
  exists h, accepted bdb0 h = true /\
    fst (b_prune (b_run bdb0 h) 0) = ENodeNotFound /\ fst (s_prune (s_run sdb0 h) 0) = EOk.
Proof. exists h_prune_empty. exact prune_empty_refutes. Qed.

