(* NodeDB/PathBadgerProofs.v — witnesses and first facts about the pathbadger model. *)
From Verif Require Import Lib.Base NodeDB.Spec NodeDB.PathBadger.

(* every operation accepted *)
Fixpoint p_accepted (d : pdb) (h : list pop) : bool :=
  match h with
  | [] => true
  | o :: t => eclass_eqb (fst (p_step d o)) EOk && p_accepted (snd (p_step d o)) t
  end.

(* the known finding C06:pathbadger-pipelined-child-of-nonzero-seqno-candidate-misread, recorded
   from the real backend: two candidates of version 2 (the second one holds pending sequence
   number 1, its nodes live in the pending key space of version 2), a child of the SECOND one is
   committed for version 3 before version 2 is finalized: the child is accepted and listed, but
   its inherited nodes are looked up under the child's own sequence number 0, i.e. in the
   finalized key space, where they are not (yet): unreadable until Finalize(2) relocates them *)
Definition h_pipe : list pop :=
  [PCommit 2 1 2 None [(2, 1)] [] [];
   PCommit 2 1 3 None [(3, 1); (6, 1)] [((2, 1), 2); ((2, 2), 3)] [];
   PCommit 3 1 3 (Some (2, 3)) [] [((2, 1), 2); ((2, 2), 3)] []].

Definition h_pipe_spec : list op :=
  [OCommit 2 1 2 None [(2, 1)] [] [] [] [];
   OCommit 2 1 3 None [(3, 1); (6, 1)] [] [] [] [];
   OCommit 3 1 3 (Some (2, 3)) [] [] [] [] []].

Lemma pathbadger_pipelined_nonzero_seqno_refuted_l :
  p_accepted pdb0 h_pipe = true /\
  p_has (p_run pdb0 h_pipe) 3 3 = true /\ p_status (p_run pdb0 h_pipe) 3 3 = 2 /\
  s_read (s_run sdb0 h_pipe_spec) 3 3 = Some [(3, 1); (6, 1)] /\
  (* the parent itself and, once version 2 is finalized with it, the child read back *)
  p_status (p_run pdb0 h_pipe) 2 3 = 1 /\
  p_status (p_run pdb0 (h_pipe ++ [PFinalize 2 [3]])) 3 3 = 1 /\
  (* a child of the FIRST candidate (sequence number 0) is readable at once *)
  p_status (p_run pdb0 [PCommit 2 1 3 None [(3, 1); (6, 1)] [((2, 1), 2); ((2, 2), 3)] [];
                        PCommit 2 1 2 None [(2, 1)] [] [];
                        PCommit 3 1 3 (Some (2, 3)) [] [((2, 1), 2); ((2, 2), 3)] []]) 3 3 = 1.
Proof. vm_compute. repeat split; reflexivity. Qed.

(* Prune succeeds only on the earliest, finalized, non-last version and advances earliest by
   one: the same rule as Spec.s_prune_check *)
Lemma p_prune_rule d v d' :
  p_prune d v = (EOk, d') ->
  exists l, p_last d = Some l /\ v = p_earliest d /\ v < l /\ p_earliest d' = v + 1 /\ p_last d' = Some l.
Proof.
  unfold p_prune. destruct (p_last d) as [l|]; [|discriminate].
  destruct (l <? v) eqn:E1; [discriminate|].
  destruct (negb (v =? p_earliest d)) eqn:E2; [discriminate|].
  destruct (v =? l) eqn:E3; [discriminate|].
  intros H. injection H as <-. exists l. cbn [p_earliest p_last].
  apply N.ltb_ge in E1. apply negb_false_iff in E2. apply N.eqb_eq in E2. apply N.eqb_neq in E3.
  repeat split; try reflexivity; [exact E2|lia].
Qed.

(* Finalize never lists a root it was not asked to keep: after a successful Finalize(v) the
   root-node keys of version v are exactly the requested ones that existed (commit faf4b05) *)
Lemma p_finalize_rootkeys d v rids d' r :
  p_finalize d v rids = (EOk, d') ->
  has_rootkey d' v r = true -> nmem r rids = true /\ has_rootkey d v r = true.
Proof.
  unfold p_finalize. destruct rids as [|r0 rs]; [discriminate|].
  destruct (p_last_geb d v); [discriminate|].
  destruct (match p_last d with Some l => negb (l + 1 =? v) | None => false end); [discriminate|].
  destruct (has_dup_type d v (r0 :: rs) []); [discriminate|].
  destruct (negb (forallb _ (r0 :: rs))); [discriminate|].
  match goal with |- (if ?c then _ else _) = _ -> _ => destruct c; [discriminate|] end.
  intros H. injection H as <-. unfold has_rootkey. cbn [p_rootkeys].
  rewrite !existsb_exists. intros [k [HI HE]]. apply filter_In in HI as [HI HF].
  unfold vr_eqb in HE. cbn [fst snd] in HE. apply andb_true_iff in HE as [E1 E2].
  apply N.eqb_eq in E1. apply N.eqb_eq in E2. destruct k as [kv kr]. cbn [fst snd] in *. subst kv kr.
  rewrite N.eqb_refl in HF. cbn [negb orb] in HF. split; [exact HF|].
  exists (v, r). split; [exact HI|]. unfold vr_eqb. cbn [fst snd]. rewrite !N.eqb_refl. reflexivity.
Qed.
