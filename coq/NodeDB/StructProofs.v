(* NodeDB/StructProofs.v — the semantic side condition prune_safe follows from the structural
   hypothesis of the design (no node shared between a lone root of the pruned version and a root
   of that version that has derived roots), for histories without same-version child roots. *)
From Verif Require Import Lib.Base NodeDB.Spec NodeDB.Badger NodeDB.BadgerProofs NodeDB.SpecProofs.

Definition nonlone (m : sdb) (v rid : N) : Prop :=
  exists x, find_root rid (roots_at m v) = Some x /\ r_derived x <> [].

(* lineage: a node of a listed root was written in the root's own version, or belongs to the
   root's parent in the previous version - which is then still listed, with a derived root *)
Definition lin (d : bdb) : Prop :=
  forall v rid, d_earliest (b_meta d) <= v -> has_rid rid (roots_at (b_meta d) v) = true ->
  forall n, In n (a_reach (aux_get v rid (b_aux d))) ->
    (exists b, In (n, v, b) (b_store d)) \/
    (exists prid, v <> 0 /\
       (d_earliest (b_meta d) <= v - 1 ->
        In n (a_reach (aux_get (v - 1) prid (b_aux d))) /\ nonlone (b_meta d) (v - 1) prid)).

Lemma lin0 : lin bdb0.
Proof. intros v rid _ H. discriminate. Qed.

(* no same-version child roots *)
Definition wf2_step (o : op) : bool :=
  match o with
  | OCommit ver _ _ (Some (over, _)) _ _ _ _ _ => over + 1 =? ver
  | _ => true
  end.

Lemma find_root_has rid l x : find_root rid l = Some x -> has_rid rid l = true.
Proof. unfold has_rid. intros ->. reflexivity. Qed.

Lemma has_find rid l : has_rid rid l = true -> exists x, find_root rid l = Some x.
Proof. unfold has_rid. destruct (find_root rid l) as [x|]; [intros _; exists x; reflexivity|discriminate]. Qed.

Lemma find_root_add_derived_self o n l x :
  find_root o l = Some x -> exists x', find_root o (add_derived o n l) = Some x' /\ r_derived x' <> [].
Proof.
  induction l as [|y t IH]; cbn [find_root add_derived]; [discriminate|].
  destruct (r_id y =? o) eqn:E.
  - intros _. cbn [find_root r_id]. rewrite E. eexists. split; [reflexivity|]. cbn [r_derived].
    destruct (r_derived y); discriminate.
  - intros H. cbn [find_root]. rewrite E. exact (IH H).
Qed.

Lemma find_root_add_derived_keep rid o n l x :
  find_root rid l = Some x -> r_derived x <> [] ->
  exists x', find_root rid (add_derived o n l) = Some x' /\ r_derived x' <> [].
Proof.
  induction l as [|y t IH]; cbn [find_root add_derived]; [discriminate|].
  destruct (r_id y =? o) eqn:E; cbn [find_root r_id].
  - destruct (r_id y =? rid).
    + intros H ND. injection H as <-. eexists. split; [reflexivity|]. cbn [r_derived]. destruct (r_derived y); [congruence|discriminate].
    + intros H ND. exists x. split; assumption.
  - destruct (r_id y =? rid).
    + intros H ND. exists x. split; assumption.
    + exact IH.
Qed.

(* a successful commit keeps every root that has derived roots non-lone, and makes its old root
   non-lone *)
Lemma s_commit_nonlone m ver typ rid old ws m' :
  s_commit m ver typ rid old ws = (EOk, m') ->
  (forall v r, nonlone m v r -> nonlone m' v r) /\
  (has_rid rid (roots_at m ver) = false ->
   forall over orid, old = Some (over, orid) -> is_empty_rid orid = false -> over <> ver ->
   nonlone m' over orid).
Proof.
  unfold s_commit. destruct m as [ea la vs]. cbn [d_earliest d_last].
  match goal with |- context [apply_writes ws ?c] => generalize c end. intros oc.
  match goal with |- (match ?pre with EOk => _ | _ => _ end) = _ -> _ => destruct pre; try discriminate end.
  match goal with |- (if ?c then _ else _) = _ -> _ => destruct c; [intros H; discriminate|] end.
  destruct (last_geb (mkdb ea la vs) ver); [intros H; discriminate|].
  destruct (has_rid rid (roots_at (mkdb ea la vs) ver)) eqn:HR.
  { intros H. injection H as <-. split; [intros v r X; exact X|discriminate]. }
  set (newr := mkroot rid typ (apply_writes ws oc) []).
  assert (A : forall v r, nonlone (mkdb ea la vs) v r ->
                nonlone (mkdb ea la (set_roots (mkdb ea la vs) ver (roots_at (mkdb ea la vs) ver ++ [newr]))) v r).
  { intros v r [x [HF ND]]. exists x. split; [|exact ND]. unfold set_roots. cbn [d_vers]. rewrite roots_at_set.
    destruct (ver =? v) eqn:E; [|exact HF]. apply N.eqb_eq in E. subst v. apply find_root_app. exact HF. }
  destruct old as [[over orid]|].
  - destruct (is_empty_rid orid) eqn:EM.
    + intros H. injection H as <-. split; [exact A|]. intros _ o2 r2 Ho. injection Ho as <- <-. rewrite EM. discriminate.
    + destruct ((over <? ea) && negb (over =? ver)); [intros H; discriminate|].
      destruct (negb (has_rid orid (roots_at (mkdb ea la vs) over))) eqn:HO; [intros H; discriminate|].
      intros H. injection H as <-. apply negb_false_iff in HO. split.
      * intros v r NL. destruct (A v r NL) as [x [HF ND]]. unfold nonlone, set_roots at 1. cbn [d_vers]. rewrite roots_at_set.
        destruct (over =? v) eqn:E; [|exists x; split; assumption].
        apply N.eqb_eq in E. subst v. apply (find_root_add_derived_keep r orid rid _ x HF ND).
      * intros _ o2 r2 Ho _ NE. injection Ho as <- <-. unfold nonlone, set_roots at 1. cbn [d_vers]. rewrite roots_at_set.
        rewrite N.eqb_refl. destruct (has_find _ _ HO) as [x0 HF0].
        assert (HF1 : find_root orid (roots_at (mkdb ea la (set_roots (mkdb ea la vs) ver (roots_at (mkdb ea la vs) ver ++ [newr]))) over) = Some x0).
        { unfold set_roots. cbn [d_vers]. rewrite roots_at_set. destruct (ver =? over) eqn:E; [apply N.eqb_eq in E; congruence|exact HF0]. }
        exact (find_root_add_derived_self orid rid _ x0 HF1).
  - intros H. injection H as <-. split; [exact A|discriminate].
Qed.

Lemma aux_get_other v r a l v' r' : (v, r) <> (v', r') -> aux_get v' r' (((v, r), a) :: l) = aux_get v' r' l.
Proof.
  intros NE. rewrite aux_get_cons. destruct ((v =? v') && (r =? r')) eqn:E; [|reflexivity].
  apply andb_true_iff in E as [E1 E2]. apply N.eqb_eq in E1. apply N.eqb_eq in E2. subst. congruence.
Qed.

(* ---------------- lin is preserved ---------------- *)
Lemma lin_commit d ver typ rid old ws puts removed reach inl0 :
  inv d -> lin d -> wf_step d (OCommit ver typ rid old ws puts removed reach inl0) = true ->
  wf2_step (OCommit ver typ rid old ws puts removed reach inl0) = true ->
  lin (snd (b_commit d ver typ rid old ws puts removed reach inl0)).
Proof.
  intros I L WF W2. unfold b_commit.
  destruct (s_commit (b_meta d) ver typ rid old ws) as [e m'] eqn:SC.
  destruct e; try exact L.
  destruct (negb (has_rid rid (roots_at (b_meta d) ver))) eqn:FR; [|exact L].
  apply negb_true_iff in FR.
  destruct (s_commit_ok _ _ _ _ _ _ _ SC) as [HE [HL [LG [_ [HR HO]]]]].
  destruct (s_commit_nonlone _ _ _ _ _ _ _ SC) as [NL1 NL2].
  cbn [wf_step] in WF. apply andb_true_iff in WF as [WF W3]. apply andb_true_iff in WF as [W1 W2'].
  intros v r Hev Hh n Hn. cbn [snd b_meta b_aux b_store] in *. rewrite HE in *.
  rewrite aux_get_cons in Hn.
  destruct ((ver =? v) && (rid =? r)) eqn:K.
  - apply andb_true_iff in K as [K1 K2]. apply N.eqb_eq in K1. apply N.eqb_eq in K2. subst v r.
    cbn [a_reach] in Hn. rewrite forallb_forall in W3. specialize (W3 n Hn).
    apply orb_true_iff in W3 as [P|P].
    + left. exists true. apply nmem_In in P. unfold write_all. apply in_or_app. left.
      apply in_map_iff. exists n. split; [reflexivity|exact P].
    + right. apply andb_true_iff in P as [P1 _]. apply nmem_In in P1. unfold old_reach in P1.
      destruct old as [[over orid]|]; [|destruct P1].
      destruct (is_empty_rid orid) eqn:EM; [destruct P1|].
      cbn [wf2_step] in W2. apply N.eqb_eq in W2.
      assert (OV : over = ver - 1) by lia. assert (NZ : ver <> 0) by lia.
      exists orid. split; [exact NZ|]. intros _. rewrite <- OV. split.
      * rewrite aux_get_other; [exact P1|]. intros C. injection C as C1 _. lia.
      * apply (NL2 FR over orid eq_refl EM). lia.
  - destruct (HR v r Hh) as [Hh'|[-> ->]].
    2:{ rewrite !N.eqb_refl in K. discriminate. }
    destruct (L v r Hev Hh' n Hn) as [[b HB]|[prid [NZ HP]]].
    + left. exists b. unfold write_all. apply in_or_app. right. exact HB.
    + right. exists prid. split; [exact NZ|]. intros EV. destruct (HP EV) as [HP1 HP2].
      split; [|apply NL1; exact HP2].
      rewrite aux_get_other; [exact HP1|].
      intros C. injection C as C1 C2. subst prid. destruct HP2 as [x [HF _]].
      rewrite <- C1 in HF. apply find_root_has in HF. congruence.
Qed.

Lemma lin_finalize d ver rids :
  inv d -> lin d -> wf_step d (OFinalize ver rids) = true -> lin (snd (b_finalize d ver rids)).
Proof.
  intros [_ IM] L WF. unfold b_finalize.
  destruct (s_finalize (b_meta d) ver rids) as [e m'] eqn:SF.
  destruct e; try exact L.
  destruct (s_finalize_ok _ _ _ _ SF) as [HL [LG [HE [HO HV]]]].
  cbn [wf_step] in WF. rewrite forallb_forall in WF.
  assert (OLDE : d_earliest (b_meta d) <= d_earliest m').
  { rewrite HE. destruct (d_last (b_meta d)) eqn:DL; [lia|]. rewrite (IM DL). lia. }
  assert (KEY : forall v r, has_rid r (roots_at (b_meta d) v) = true -> v <= ver).
  { intros v r Hh. assert (K : In v (map fst (d_vers (b_meta d)))) by (apply roots_key; eapply has_rid_nonempty; exact Hh).
    apply in_map_iff in K as [p [Hp1 Hp2]]. specialize (WF p Hp2). apply N.leb_le in WF. lia. }
  intros v r Hev Hh n Hn. cbn [snd b_meta b_aux b_store] in *.
  assert (Hh' : has_rid r (roots_at (b_meta d) v) = true).
  { destruct (N.eq_dec v ver) as [->|NE]; [rewrite HV in Hh; eapply has_rid_filter; exact Hh|rewrite (HO v NE) in Hh; exact Hh]. }
  destruct (L v r (N.le_trans _ _ _ OLDE Hev) Hh' n Hn) as [[b HB]|[prid [NZ HP]]].
  - left. exists b. unfold write_all. apply in_or_app. right. exact HB.
  - right. exists prid. split; [exact NZ|]. intros EV.
    destruct (HP (N.le_trans _ _ _ OLDE EV)) as [HP1 [x [HF ND]]]. split; [exact HP1|].
    exists x. split; [|exact ND].
    assert (NE : v - 1 <> ver). { pose proof (KEY v r Hh'). lia. }
    rewrite (HO _ NE). exact HF.
Qed.

Lemma roots_at_prune_do m ver u : u <> ver -> roots_at (s_prune_do m ver) u = roots_at m u.
Proof.
  intros NE. unfold s_prune_do, roots_at. cbn [d_vers]. rewrite aget_adel_other; [reflexivity|congruence].
Qed.

Lemma lin_prune d ver : lin d -> lin (snd (b_prune d ver)).
Proof.
  intros L. unfold b_prune.
  destruct (s_prune_check (b_meta d) ver) eqn:PC; try exact L.
  destruct (visit_all d ver (lone_roots d ver)); try exact L.
  assert (EV : ver = d_earliest (b_meta d)).
  { unfold s_prune_check in PC. destruct (d_last (b_meta d)); [|discriminate].
    destruct (n <? ver); [discriminate|].
    destruct (negb (ver =? d_earliest (b_meta d))) eqn:E2; [discriminate|].
    apply negb_false_iff in E2. apply N.eqb_eq in E2. exact E2. }
  intros v r Hev Hh n Hn. cbn [snd b_meta b_aux b_store s_prune_do d_earliest] in *.
  pose proof (roots_at_prune_do (b_meta d) ver) as RA.
  rewrite RA in Hh by lia.
  destruct (L v r ltac:(lia) Hh n Hn) as [[b HB]|[prid [NZ HP]]].
  - left. exists b. unfold write_all. apply in_or_app. right. exact HB.
  - right. exists prid. split; [exact NZ|]. intros EV2.
    destruct (HP ltac:(lia)) as [HP1 [x [HF ND]]]. split; [exact HP1|].
    exists x. split; [|exact ND]. rewrite RA by lia. exact HF.
Qed.

(* ---------------- the structural hypothesis ---------------- *)
Definition no_lone_sharing (d : bdb) (ver : N) : bool :=
  forallb (fun l => negb (is_empty_rid (r_id l)) &&
     forallb (fun r => match r_derived r with
                       | [] => true
                       | _ => forallb (fun n => negb (nmem n (a_reach (aux_get ver (r_id r) (b_aux d)))))
                                      (a_reach (aux_get ver (r_id l) (b_aux d)))
                       end) (roots_at (b_meta d) ver))
    (lone_roots d ver).

(* climbing down the lineage: a node of a listed root of a later version that has no write after
   the pruned version belongs to a root of the pruned version that has derived roots *)
Lemma lineage_down d ver n : lin d -> d_earliest (b_meta d) = ver ->
  forall k v rid, v = ver + 1 + N.of_nat k -> has_rid rid (roots_at (b_meta d) v) = true ->
    In n (a_reach (aux_get v rid (b_aux d))) ->
    (forall t b, In (n, t, b) (b_store d) -> ver < t -> t <= v -> False) ->
    exists prid, In n (a_reach (aux_get ver prid (b_aux d))) /\ nonlone (b_meta d) ver prid.
Proof.
  intros L EA. induction k as [|k IH]; intros v rid Hv Hh Hn NW.
  - destruct (L v rid ltac:(lia) Hh n Hn) as [[b HB]|[prid [NZ HP]]].
    + exfalso. apply (NW v b HB); lia.
    + replace (v - 1) with ver in HP by lia. exists prid. apply HP. lia.
  - destruct (L v rid ltac:(lia) Hh n Hn) as [[b HB]|[prid [NZ HP]]].
    + exfalso. apply (NW v b HB); lia.
    + destruct (HP ltac:(lia)) as [HP1 [x [HF ND]]].
      apply (IH (v - 1) prid); [lia|eapply find_root_has; exact HF|exact HP1|].
      intros t b HI H1 H2. apply (NW t b HI H1). lia.
Qed.

Lemma structural_prune_safe d ver :
  inv d -> lin d -> s_prune_check (b_meta d) ver = EOk -> no_lone_sharing d ver = true ->
  prune_safe d ver = true.
Proof.
  intros [IR _] L PC NS.
  assert (EV : d_earliest (b_meta d) = ver).
  { unfold s_prune_check in PC. destruct (d_last (b_meta d)); [|discriminate].
    destruct (n <? ver); [discriminate|].
    destruct (negb (ver =? d_earliest (b_meta d))) eqn:E2; [discriminate|].
    apply negb_false_iff in E2. apply N.eqb_eq in E2. symmetry. exact E2. }
  unfold no_lone_sharing in NS. rewrite forallb_forall in NS.
  unfold prune_safe. apply andb_true_iff. split.
  - apply forallb_forall. intros l Hl. specialize (NS l Hl). apply andb_true_iff in NS as [NS _]. exact NS.
  - apply forallb_forall. intros n Hn. apply forallb_forall. intros p Hp.
    destruct (fst p <=? ver) eqn:LE; [reflexivity|]. cbn [orb]. apply N.leb_gt in LE.
    apply forallb_forall. intros r Hr.
    destruct (nmem n (a_reach (aux_get (fst p) (r_id r) (b_aux d)))) eqn:NM; [|reflexivity]. cbn [negb orb].
    apply nmem_In in NM.
    assert (Hh : has_rid (r_id r) (roots_at (b_meta d) (fst p)) = true) by (apply in_has_rid; exact Hr).
    destruct (IR (fst p) (r_id r) ltac:(lia) Hh n NM) as [V _]. unfold visible in V.
    destruct (best n (fst p) (b_store d)) as [[ts b]|] eqn:B; [|discriminate].
    destruct (ver <? ts) eqn:LT; [reflexivity|]. exfalso. apply N.ltb_ge in LT.
    (* n is a node of a lone root of the pruned version *)
    unfold prune_dels in Hn. apply in_flat_map in Hn as [l [Hl Hn]]. apply filter_In in Hn as [Hn _].
    destruct (lineage_down d ver n L EV (N.to_nat (fst p - ver - 1)) (fst p) (r_id r) ltac:(lia) Hh NM) as [prid [P1 [x [HF ND]]]].
    { intros t b0 HI H1 H2. pose proof (best_max _ _ _ _ _ B t b0 HI H2). lia. }
    specialize (NS l Hl). apply andb_true_iff in NS as [_ NS]. rewrite forallb_forall in NS.
    destruct (find_root_in _ _ _ HF) as [HI HX]. specialize (NS x HI).
    destruct (r_derived x) as [|d0 ds]; [congruence|].
    rewrite forallb_forall in NS. specialize (NS n Hn). rewrite HX in NS.
    apply negb_true_iff in NS. apply nmem_In in P1. congruence.
Qed.

(* ---------------- histories under the structural conditions ---------------- *)
Definition struct_safe (d : bdb) (o : op) : bool :=
  match o with
  | OCommit _ _ _ _ _ _ _ _ _ => true
  | OFinalize ver rids => fin_safe d ver rids
  | OPrune ver => match s_prune_check (b_meta d) ver with EOk => no_lone_sharing d ver | _ => true end
  end.

Fixpoint ok_run_struct (d : bdb) (h : list op) : bool :=
  match h with
  | [] => true
  | o :: t => wf_step d o && wf2_step o && struct_safe d o && ok_run_struct (snd (b_step d o)) t
  end.

Lemma step_struct d o :
  inv d -> lin d -> wf_step d o = true -> wf2_step o = true -> struct_safe d o = true ->
  inv (snd (b_step d o)) /\ lin (snd (b_step d o)) /\
  fst (b_step d o) = fst (s_step (b_meta d) o) /\ b_meta (snd (b_step d o)) = snd (s_step (b_meta d) o).
Proof.
  intros I L WF W2 SS. destruct o as [ver typ rid old ws puts removed reach inl0|ver rids|ver].
  - split; [apply inv_step; [exact I|exact WF|reflexivity]|].
    split; [apply lin_commit; assumption|]. apply b_step_refines; [exact I|reflexivity].
  - cbn [struct_safe] in SS. split; [apply inv_step; assumption|].
    split; [apply lin_finalize; assumption|]. apply b_step_refines; assumption.
  - cbn [struct_safe] in SS. cbn [b_step s_step].
    destruct (s_prune_check (b_meta d) ver) eqn:PC.
    { pose proof (structural_prune_safe d ver I L PC SS) as PS.
      split; [apply inv_prune; assumption|]. split; [apply lin_prune; exact L|].
      apply (b_step_refines d (OPrune ver) I PS). }
    all: unfold b_prune, s_prune; rewrite PC; cbn [fst snd]; (split; [exact I|split; [exact L|split; reflexivity]]).
Qed.

Lemma run_struct h : forall d, inv d -> lin d -> ok_run_struct d h = true ->
  inv (b_run d h) /\ b_meta (b_run d h) = s_run (b_meta d) h.
Proof.
  induction h as [|o t IH]; intros d I L OK; [split; [exact I|reflexivity]|].
  cbn [ok_run_struct] in OK. apply andb_true_iff in OK as [OK O4]. apply andb_true_iff in OK as [OK O3].
  apply andb_true_iff in OK as [O1 O2].
  destruct (step_struct d o I L O1 O2 O3) as [I' [L' [_ HM]]].
  unfold b_run, s_run. cbn [fold_left]. rewrite <- HM. apply IH; assumption.
Qed.

From Verif Require Import NodeDB.Examples.

Lemma badger_refines_spec_structural_l h :
  ok_run_struct bdb0 h = true ->
  inv (b_run bdb0 h) /\ b_meta (b_run bdb0 h) = s_run sdb0 h /\
  forall v rid, s_has (b_meta (b_run bdb0 h)) v rid = true ->
    b_status (b_run bdb0 h) v rid = 1 /\ b_read (b_run bdb0 h) v rid = s_read (s_run sdb0 h) v rid.
Proof.
  intros OK. destruct (run_struct h bdb0 inv0 lin0 OK) as [I HM]. split; [exact I|]. split; [exact HM|].
  intros v rid SH. destruct (inv_status _ v rid I SH) as [A B]. split; [exact A|]. rewrite B, HM. reflexivity.
Qed.

Example structural_conditions_satisfiable :
  ok_run_struct bdb0 h_good = true /\
  no_lone_sharing (b_run bdb0 (firstn 5 h_prune_shared)) 1 = false.
Proof. vm_compute. split; reflexivity. Qed.
