(* NodeDB/PathBadger.v — the path-keyed backend (go/storage/mkvs/db/pathbadger) at the
   granularity of node positions.

   Executable definitions only.  A non-root node of a tree lives at a POSITION (node version,
   index) assigned by the batch that wrote it (node.go:174-192: every batch numbers its new
   nodes 1,2,... again, so candidates of one version reuse the same positions); attached
   leaves are serialized inside their parent and have no position (node.go:145-157,224-227).
   Key spaces (keyformat.go):
     finalized nodes  (type, position)             written at the batch's version timestamp
                      by a batch with pending sequence number 0 (node.go:245-262), copied
                      there by Finalize for the finalized sequence number;
     pending nodes    (version, type, seqNo, position)   sequence numbers > 0, stored at the
                      metadata timestamp, wiped for the version by its Finalize;
     root nodes       (version, typed hash)        the root node itself; its presence is what
                      HasRoot / GetRootsForVersion / checkRootExists look at;
     updated nodes    (version, typed hash)        positions written / removed by the batch.
   Metadata (metadata.go): earliest, last finalized, NextPendingRootSeq per (version, type),
   PendingRootSeqs per (version, root).
   Ported:
     NewBatch  pathbadger.go:651-741   version rule, no child roots for IO, no same-version
               children, old root must exist, sequence number reserved and committed at once;
     Commit    pathbadger.go:858-962   already finalized; existing root = no-op; pending sequence
               number recorded; updated nodes; nodes; root node last;
     GetNode   node.go:33-115          the nodes of a root are resolved under the ROOT's pending
               sequence number (0 when none is recorded): seqNo 0 -> finalized space, otherwise
               pending space of the root's version first, then finalized space;
     Finalize  pathbadger.go:242-533   one root per type; sequence numbers; copy the written
               nodes of a finalized root with seqNo > 0; delete (removed of finalized + written of
               discarded seqNo-0 roots) minus written of finalized; wipe pending space; remove the
               root nodes of discarded roots (commit faf4b05); last finalized;
     Prune     pathbadger.go:536-650   only IO (NoChildRoots) data of the version and its root
               nodes are deleted; earliest + 1.
   A stored value is abstracted to the id of the node it encodes.  The tree of a root is ghost
   state: the list of (position, node id) of its non-root, non-attached nodes, supplied by the
   history: the list of (position, node id) of its stored nodes - the non-root nodes a reader
   fetches plus the stand-alone copies of attached leaves this batch wrote (a dirty attached leaf
   is numbered and stored as well, commit.go:192-195 / node.go:218-251) - and the positions the
   batch reported removed (RemoveNodes and VisitCleanNode). Not modelled: write logs, multipart restore, namespaces. *)
From Verif Require Import Lib.Base NodeDB.Spec.

Definition pos := (N * N)%type.                       (* node version, index *)
Definition tree := list (pos * N).                    (* position, node id *)

Inductive pop :=
| PCommit (ver typ rid : N) (old : option (N * N)) (writes : list (N * N)) (t : tree) (rem : list pos)
| PFinalize (ver : N) (rids : list N)
| PPrune (ver : N).

Record proot := mkproot { pr_typ : N; pr_cont : contents; pr_tree : tree }.

Record pdb := mkp {
  p_earliest : N;
  p_last : option N;
  p_rootkeys : list (N * N);                           (* (version, rid) present *)
  p_fin : list ((N * pos) * N * option N);             (* ((type, position), timestamp, value), newest first *)
  p_pend : list ((N * N * N * pos) * N);               (* (version, type, seqNo, position) -> node id *)
  p_next : list ((N * N) * N);                         (* (version, type) -> next sequence number *)
  p_pseq : list ((N * N) * N);                         (* (version, rid) -> pending sequence number *)
  p_upd : list ((N * N) * (list pos * list pos));      (* (version, rid) -> written, removed positions *)
  p_ghost : list ((N * N) * proot)                     (* (version, rid) -> what the root is *)
}.

Definition pdb0 : pdb := mkp 0 None [] [] [] [] [] [] [].

Definition pos_eqb (a b : pos) : bool := (fst a =? fst b) && (snd a =? snd b).
Definition vr_eqb (a b : N * N) : bool := (fst a =? fst b) && (snd a =? snd b).
Definition fkey_eqb (a b : N * pos) : bool := (fst a =? fst b) && pos_eqb (snd a) (snd b).
Definition pkey_eqb (a b : N * N * N * pos) : bool :=
  let '(v1, t1, s1, p1) := a in let '(v2, t2, s2, p2) := b in
  (v1 =? v2) && (t1 =? t2) && (s1 =? s2) && pos_eqb p1 p2.

Section Assoc.
  Context {K V : Type} (eqb : K -> K -> bool).
  Fixpoint kget (k : K) (l : list (K * V)) : option V :=
    match l with
    | [] => None
    | (k', v) :: r => if eqb k' k then Some v else kget k r
    end.
  Definition kdel (k : K) (l : list (K * V)) : list (K * V) :=
    filter (fun e => negb (eqb (fst e) k)) l.
  Definition kset (k : K) (v : V) (l : list (K * V)) : list (K * V) := (k, v) :: kdel k l.
End Assoc.

Definition pmem (p : pos) (l : list pos) : bool := existsb (pos_eqb p) l.

(* the finalized-space value visible for a key at timestamp t *)
Fixpoint fbest (k : N * pos) (t : N) (st : list ((N * pos) * N * option N)) : option (N * option N) :=
  match st with
  | [] => None
  | (k', ts, v) :: r =>
      let rec := fbest k t r in
      if fkey_eqb k' k && (ts <=? t)
      then match rec with
           | Some (ts', v') => if ts' <=? ts then Some (ts, v) else rec
           | None => Some (ts, v)
           end
      else rec
  end.

Definition fget (k : N * pos) (t : N) (st : list ((N * pos) * N * option N)) : option N :=
  match fbest k t st with Some (_, v) => v | None => None end.

Definition has_rootkey (d : pdb) (ver rid : N) : bool :=
  existsb (vr_eqb (ver, rid)) (p_rootkeys d).

Definition ghost_of (d : pdb) (ver rid : N) : proot :=
  match kget vr_eqb (ver, rid) (p_ghost d) with Some g => g | None => mkproot 0 [] [] end.

Definition seq_of (d : pdb) (ver rid : N) : N :=
  match kget vr_eqb (ver, rid) (p_pseq d) with Some s => s | None => 0 end.

(* GetNode for a non-root node of root (ver, rid): node.go:69-89 *)
Definition resolve (d : pdb) (ver typ rid : N) (p : pos) : option N :=
  let s := seq_of d ver rid in
  if s =? 0 then fget (typ, p) ver (p_fin d)
  else match kget pkey_eqb (ver, typ, s, p) (p_pend d) with
       | Some n => Some n
       | None => fget (typ, p) ver (p_fin d)
       end.

Definition p_has (d : pdb) (ver rid : N) : bool :=
  is_empty_rid rid || ((p_earliest d <=? ver) && has_rootkey d ver rid).

(* 0 absent, 1 exact, 2 some node missing or not the node the root expects *)
Definition p_status (d : pdb) (ver rid : N) : N :=
  if p_has d ver rid
  then if is_empty_rid rid then 1
       else let g := ghost_of d ver rid in
            if forallb (fun e => match resolve d ver (pr_typ g) rid (fst e) with
                                 | Some n => n =? snd e
                                 | None => false
                                 end) (pr_tree g)
            then 1 else 2
  else 0.

Definition p_last_geb (d : pdb) (v : N) : bool :=
  match p_last d with Some l => v <=? l | None => false end.

(* ---- Commit: tree.Commit = NewBatch + Batch.Commit ---- *)
Definition p_commit (d : pdb) (ver typ rid : N) (old : option (N * N)) (writes : list (N * N)) (t : tree)
           (rem : list pos) : eclass * pdb :=
  let follows := match old with Some (over, _) => (ver =? over) || (ver =? over + 1) | None => true end in
  let old_nonempty := match old with Some (_, orid) => negb (is_empty_rid orid) | None => false end in
  (* applying writes dereferences the old root first (GetNode: earliest, root node) *)
  let readable := match old, writes with
                  | Some (over, orid), _ :: _ =>
                      is_empty_rid orid || ((p_earliest d <=? over) && has_rootkey d over orid)
                  | _, _ => true
                  end in
  if negb readable then (ERootNotFound, d)
  else if negb follows then (EMustFollow, d)                                 (* pathbadger.go:651 *)
  else if old_nonempty && (typ =? 2) then (EOther, d)                         (* 668: IO roots have no children *)
  else if old_nonempty && (match old with Some (over, _) => over =? ver | None => false end)
       then (EOther, d)                                                       (* 671: same-version child *)
  else if old_nonempty && negb (match old with Some (over, orid) => has_rootkey d over orid | None => true end)
       then (ERootNotFound, d)                                                (* 674 *)
  else
    (* a sequence number is reserved and committed by NewBatch (712-716) *)
    let s := match kget vr_eqb (ver, typ) (p_next d) with Some s => s | None => 0 end in
    let d1 := mkp (p_earliest d) (p_last d) (p_rootkeys d) (p_fin d) (p_pend d)
                  (kset vr_eqb (ver, typ) (s + 1) (p_next d)) (p_pseq d) (p_upd d) (p_ghost d) in
    if p_last_geb d ver then (EAlreadyFinalized, d1)                          (* 858 *)
    else if has_rootkey d ver rid then (EOk, d1)                              (* 883-890: no-op *)
    else
      let old_g := match old with Some (over, orid) => ghost_of d over orid | None => mkproot typ [] [] end in
      let written := filter (fun e => fst (fst e) =? ver) t in
      let removed := rem in
      let fin' := if s =? 0
                  then map (fun e => ((typ, fst e), ver, Some (snd e))) written ++ p_fin d
                  else p_fin d in
      let pend' := if s =? 0 then p_pend d
                   else map (fun e => ((ver, typ, s, fst e), snd e)) written ++ p_pend d in
      (EOk, mkp (p_earliest d) (p_last d) ((ver, rid) :: p_rootkeys d) fin' pend'
                (p_next d1) (kset vr_eqb (ver, rid) s (p_pseq d))
                (kset vr_eqb (ver, rid) (map fst written, removed) (p_upd d))
                (kset vr_eqb (ver, rid) (mkproot typ (apply_writes writes (pr_cont old_g)) t) (p_ghost d))).

(* ---- Finalize ---- *)
Definition roots_of (d : pdb) (ver : N) : list N :=
  map snd (filter (fun k => fst k =? ver) (p_rootkeys d)).

Definition upd_of (d : pdb) (ver rid : N) : list pos * list pos :=
  match kget vr_eqb (ver, rid) (p_upd d) with Some u => u | None => ([], []) end.

Fixpoint has_dup_type (d : pdb) (ver : N) (rids : list N) (seen : list N) : bool :=
  match rids with
  | [] => false
  | r :: t => let ty := pr_typ (ghost_of d ver r) in
              if nmem ty seen then true else has_dup_type d ver t (ty :: seen)
  end.

Definition p_finalize (d : pdb) (ver : N) (rids : list N) : eclass * pdb :=
  match rids with
  | [] => (EOther, d)
  | _ =>
    if p_last_geb d ver then (EAlreadyFinalized, d)                                         (* 262 *)
    else if match p_last d with Some l => negb (l + 1 =? ver) | None => false end
         then (ENotFinalized, d)                                                             (* 266 *)
    else if has_dup_type d ver rids [] then (EOther, d)                                     (* 281 *)
    else if negb (forallb (fun r => is_empty_rid r || has_rootkey d ver r) rids) then (ERootNotFound, d)
    else
      let roots := roots_of d ver in
      let isfin r := nmem r rids in
      let typ_of r := pr_typ (ghost_of d ver r) in
      let finseq ty := fold_left (fun acc r => if isfin r && (typ_of r =? ty) then seq_of d ver r else acc) roots 0 in
      let keys f := flat_map (fun r => map (fun p => (typ_of r, p)) (f r)) roots in
      let notlone := keys (fun r => if isfin r then fst (upd_of d ver r) else []) in
      let maybe := keys (fun r => if isfin r then snd (upd_of d ver r)
                                  else if seq_of d ver r =? 0 then fst (upd_of d ver r) else []) in
      let fmem k l := existsb (fkey_eqb k) l in
      (* copy the written nodes of finalized roots with a non-zero sequence number (423-449) *)
      let copies := flat_map (fun k => let s := finseq (fst k) in
                                        if s =? 0 then []
                                        else [(k, kget pkey_eqb (ver, fst k, s, snd k) (p_pend d))]) notlone in
      if existsb (fun c => match snd c with None => true | Some _ => false end) copies then (EOther, d)
      else
        let fin1 := map (fun c => (fst c, ver, snd c)) copies ++ p_fin d in
        let dels := filter (fun k => negb (fmem k notlone)) maybe in
        let fin2 := map (fun k => (k, ver, None)) dels ++ fin1 in
        (EOk, mkp (match p_last d with None => ver | Some _ => p_earliest d end) (Some ver)
                  (filter (fun k => negb (fst k =? ver) || isfin (snd k)) (p_rootkeys d))
                  fin2
                  (filter (fun e => let '(v, _, _, _) := fst e in negb (v =? ver)) (p_pend d))
                  (filter (fun e => negb (fst (fst e) =? ver)) (p_next d))
                  (filter (fun e => negb (fst (fst e) =? ver)) (p_pseq d))
                  (p_upd d) (p_ghost d))
  end.

(* ---- Prune ---- *)
Definition p_prune (d : pdb) (ver : N) : eclass * pdb :=
  match p_last d with
  | None => (ENotFinalized, d)
  | Some l =>
      if l <? ver then (ENotFinalized, d)
      else if negb (ver =? p_earliest d) then (ENotEarliest, d)
      else if ver =? l then (ECannotPruneLatest, d)
      else
        (* all finalized IO nodes written in this version, and the IO root nodes (557-598) *)
        let io_keys := filter (fun k => (fst k =? 2) && (fst (snd k) =? ver))
                              (map (fun e => fst (fst e)) (p_fin d)) in
        (EOk, mkp (ver + 1) (p_last d)
                  (filter (fun k => negb ((fst k =? ver) && (pr_typ (ghost_of d ver (snd k)) =? 2))) (p_rootkeys d))
                  (map (fun k => (k, ver, None)) io_keys ++ p_fin d)
                  (p_pend d) (p_next d) (p_pseq d) (p_upd d) (p_ghost d))
  end.

Definition p_step (d : pdb) (o : pop) : eclass * pdb :=
  match o with
  | PCommit ver typ rid old ws t rem => p_commit d ver typ rid old ws t rem
  | PFinalize ver rids => p_finalize d ver rids
  | PPrune ver => p_prune d ver
  end.

Definition p_run (d : pdb) (h : list pop) : pdb := fold_left (fun d o => snd (p_step d o)) h d.

(* ---- observations (same shape as Spec.obs; commits only accepted / rejected) ---- *)
Definition p_known_step (k : list (N * N)) (o : pop) : list (N * N) :=
  match o with PCommit ver _ rid _ _ _ _ => add_known k ver rid | _ => k end.

Definition p_norm (o : pop) (e : eclass) : eclass :=
  match o, e with
  | PCommit _ _ _ _ _ _ _, EOk => EOk
  | PCommit _ _ _ _ _ _ _, _ => EOther
  | _, e => e
  end.

Definition p_commit_cont (d : pdb) (o : pop) (e : eclass) : contents :=
  match o, e with
  | PCommit ver _ rid _ _ _ _, EOk =>
      if p_status d ver rid =? 1 then (if is_empty_rid rid then [] else pr_cont (ghost_of d ver rid)) else []
  | _, _ => []
  end.

Fixpoint p_observe (d : pdb) (k : list (N * N)) (h : list pop) : list obs :=
  match h with
  | [] => []
  | o :: t =>
      let '(e, d') := p_step d o in
      let k' := p_known_step k o in
      ((p_norm o e, p_commit_cont d' o e), (p_earliest d', p_last d'),
       map (fun p => (p, (p_has d' (fst p) (snd p), p_status d' (fst p) (snd p)))) k')
        :: p_observe d' k' t
  end.
