(* NodeDB/Spec.v — the abstract versioned node database C06/C07 talk about.

   Executable definitions only.  Ported from go/storage/mkvs/db/api/api.go
   (interface, error values) and the checks of go/storage/mkvs/db/badger/badger.go
   (Commit 1015-1140, Finalize 548-733, Prune 735-850, HasRoot 521-546) in the
   order the code performs them.  A root is identified inside a version by its
   typed hash, abstracted to a number [rid] (the harness numbers distinct
   (type, hash) pairs; rid 0 / 1 are the empty-hash state / IO roots, which the
   code treats as implicitly present).  The contents of a root are an
   association list sorted by key; the spec computes them from the old root's
   contents and the write batch.

   Not modelled: namespaces (ErrBadNamespace), read-only mode, multipart
   restore (see Crash.v), write logs, Root.Follows' type comparison (the tree
   API always passes the old root's type). *)
From Verif Require Import Lib.Base.

Inductive eclass :=
| EOk | ENotFinalized | EAlreadyFinalized | EPrevMismatch | ERootNotFound
| EMustFollow | ENotEarliest | ECannotPruneLatest | ENodeNotFound | EOther.

Definition eclass_eqb (a b : eclass) : bool :=
  match a, b with
  | EOk, EOk | ENotFinalized, ENotFinalized | EAlreadyFinalized, EAlreadyFinalized
  | EPrevMismatch, EPrevMismatch | ERootNotFound, ERootNotFound | EMustFollow, EMustFollow
  | ENotEarliest, ENotEarliest | ECannotPruneLatest, ECannotPruneLatest
  | ENodeNotFound, ENodeNotFound | EOther, EOther => true
  | _, _ => false
  end.

(* One operation of a version history.  [puts]/[removed]/[reach] are the
   node-level facts of the commit as observed on the real tree (hashes of the
   nodes passed to Batch.PutNode / Batch.RemoveNodes and of all nodes of the new
   root); the spec ignores them, Badger.v uses them. *)
Inductive op :=
| OCommit (ver typ rid : N) (old : option (N * N)) (writes : list (N * N))
          (puts removed reach inl : list N)
| OFinalize (ver : N) (rids : list N)
| OPrune (ver : N).

Definition contents := list (N * N).

(* sorted insert / replace; value 0 removes the key *)
Fixpoint cset (k v : N) (c : contents) : contents :=
  match c with
  | [] => if v =? 0 then [] else [(k, v)]
  | (k', v') :: r =>
      if k <? k' then (if v =? 0 then c else (k, v) :: c)
      else if k =? k' then (if v =? 0 then r else (k, v) :: r)
      else (k', v') :: cset k v r
  end.

Definition apply_writes (ws : list (N * N)) (c : contents) : contents :=
  fold_left (fun c w => cset (fst w) (snd w) c) ws c.

Record sroot := mkroot { r_id : N; r_typ : N; r_cont : contents; r_derived : list N }.

Record sdb := mkdb {
  d_earliest : N;
  d_last : option N;                  (* last finalized version *)
  d_vers : list (N * list sroot)      (* roots metadata per version (badger.go:44-47) *)
}.

Definition sdb0 : sdb := mkdb 0 None [].

Definition roots_at (s : sdb) (v : N) : list sroot :=
  match aget v (d_vers s) with Some l => l | None => [] end.

Fixpoint find_root (rid : N) (l : list sroot) : option sroot :=
  match l with
  | [] => None
  | r :: t => if r_id r =? rid then Some r else find_root rid t
  end.

Definition has_rid (rid : N) (l : list sroot) : bool :=
  match find_root rid l with Some _ => true | None => false end.

Definition nmem (x : N) (l : list N) : bool := existsb (N.eqb x) l.

(* the empty-hash roots: "An empty root is always implicitly present" (badger.go:526) *)
Definition is_empty_rid (rid : N) : bool := rid <? 2.

Definition last_geb (s : sdb) (v : N) : bool :=
  match d_last s with Some l => v <=? l | None => false end.

Fixpoint add_derived (orid rid : N) (l : list sroot) : list sroot :=
  match l with
  | [] => []
  | r :: t =>
      if r_id r =? orid
      then mkroot (r_id r) (r_typ r) (r_cont r) (r_derived r ++ [rid]) :: t
      else r :: add_derived orid rid t
  end.

Definition set_roots (s : sdb) (v : N) (l : list sroot) : list (N * list sroot) :=
  aset v l (d_vers s).

(* ---- Commit (tree.Commit -> Batch.Commit) ---- *)
Definition s_commit (s : sdb) (ver typ rid : N) (old : option (N * N)) (writes : list (N * N))
  : eclass * sdb :=
  let old_cont :=
    match old with
    | Some (over, orid) =>
        match find_root orid (roots_at s over) with Some r => r_cont r | None => [] end
    | None => []
    end in
  (* applying writes to a non-empty old root dereferences it first: GetNode badger.go:296-306 *)
  let pre :=
    match old, writes with
    | Some (over, orid), _ :: _ =>
        if is_empty_rid orid then EOk
        else if over <? d_earliest s then ENodeNotFound
        else if negb (has_rid orid (roots_at s over)) then ERootNotFound
        else EOk
    | _, _ => EOk
    end in
  match pre with
  | EOk =>
      let follows := match old with
                     | Some (over, _) => (ver =? over) || (ver =? over + 1)
                     | None => true
                     end in
      if negb follows then (EMustFollow, s)                       (* badger.go:1026 *)
      else if last_geb s ver then (EAlreadyFinalized, s)          (* badger.go:1031 *)
      else if has_rid rid (roots_at s ver) then (EOk, s)          (* badger.go:1055-1063: no-op *)
      else
        let newr := mkroot rid typ (apply_writes writes old_cont) [] in
        match old with
        | Some (over, orid) =>
            if is_empty_rid orid
            then (EOk, mkdb (d_earliest s) (d_last s) (set_roots s ver (roots_at s ver ++ [newr])))
            else if (over <? d_earliest s) && negb (over =? ver) then (EPrevMismatch, s) (* 1083 *)
            else if negb (has_rid orid (roots_at s over)) then (ERootNotFound, s)      (* 1093 *)
            else
              let s1 := mkdb (d_earliest s) (d_last s) (set_roots s ver (roots_at s ver ++ [newr])) in
              (EOk, mkdb (d_earliest s) (d_last s)
                         (set_roots s1 over (add_derived orid rid (roots_at s1 over))))
        | None =>
            (EOk, mkdb (d_earliest s) (d_last s) (set_roots s ver (roots_at s ver ++ [newr])))
        end
  | e => (e, s)
  end.

(* ---- Finalize ---- *)
(* one round of "finalization is transitive" (badger.go:598-613) *)
Definition closure_step (roots : list sroot) (fin : list N) : list N :=
  fold_left (fun fin r =>
               if negb (nmem (r_id r) fin) && existsb (fun d => nmem d fin) (r_derived r)
               then r_id r :: fin else fin) roots fin.

Fixpoint closure (fuel : nat) (roots : list sroot) (fin : list N) : list N :=
  match fuel with
  | O => fin
  | S f => closure f roots (closure_step roots fin)
  end.

Definition fin_set (roots : list sroot) (rids : list N) : list N :=
  closure (length roots) roots rids.

Definition s_finalize (s : sdb) (ver : N) (rids : list N) : eclass * sdb :=
  match rids with
  | [] => (EOther, s)                                                   (* badger.go:553 *)
  | _ =>
    let notfin := match d_last s with Some l => (0 <? ver) && (l + 1 <? ver) | None => false end in
    if notfin then (ENotFinalized, s)                                   (* badger.go:574 *)
    else if last_geb s ver then (EAlreadyFinalized, s)                  (* badger.go:578 *)
    else
      let roots := roots_at s ver in
      let fin := fin_set roots rids in
      if negb (forallb (fun i => has_rid i roots || is_empty_rid i) fin)
      then (ERootNotFound, s)                                           (* badger.go:616-621 *)
      else
        let kept := filter (fun r => nmem (r_id r) fin) roots in
        (EOk, mkdb (match d_last s with None => ver | Some _ => d_earliest s end)   (* metadata.go:77 *)
                   (Some ver) (set_roots s ver kept))
  end.

(* ---- Prune ---- *)
Definition s_prune_check (s : sdb) (ver : N) : eclass :=
  match d_last s with
  | None => ENotFinalized
  | Some l =>
      if l <? ver then ENotFinalized                                    (* badger.go:749 *)
      else if negb (ver =? d_earliest s) then ENotEarliest              (* badger.go:753 *)
      else if ver =? l then ECannotPruneLatest                          (* badger.go:757 *)
      else EOk
  end.

Definition s_prune_do (s : sdb) (ver : N) : sdb :=
  mkdb (ver + 1) (d_last s) (adel ver (d_vers s)).

Definition s_prune (s : sdb) (ver : N) : eclass * sdb :=
  match s_prune_check s ver with
  | EOk => (EOk, s_prune_do s ver)
  | e => (e, s)
  end.

Definition s_step (s : sdb) (o : op) : eclass * sdb :=
  match o with
  | OCommit ver typ rid old writes _ _ _ _ => s_commit s ver typ rid old writes
  | OFinalize ver rids => s_finalize s ver rids
  | OPrune ver => s_prune s ver
  end.

Definition s_run (s : sdb) (h : list op) : sdb :=
  fold_left (fun s o => snd (s_step s o)) h s.

(* ---- reads ---- *)
(* HasRoot (badger.go:521-546) *)
Definition s_has (s : sdb) (ver rid : N) : bool :=
  is_empty_rid rid || ((d_earliest s <=? ver) && has_rid rid (roots_at s ver)).

(* "root |-> contents or absent" *)
Definition s_read (s : sdb) (ver rid : N) : option contents :=
  if is_empty_rid rid then Some []
  else if d_earliest s <=? ver
       then match find_root rid (roots_at s ver) with Some r => Some (r_cont r) | None => None end
       else None.

(* ---- observations compared with the implementation ---- *)
Definition robs := ((N * N) * (bool * N))%type.
Definition obs := ((eclass * contents) * (N * option N) * list robs)%type.

Definition s_status (s : sdb) (ver rid : N) : N := if s_has s ver rid then 1 else 0.

Definition add_known (k : list (N * N)) (ver rid : N) : list (N * N) :=
  if existsb (fun p => (fst p =? ver) && (snd p =? rid)) k then k else k ++ [(ver, rid)].

Definition known_step (k : list (N * N)) (o : op) : list (N * N) :=
  match o with
  | OCommit ver _ rid _ _ _ _ _ _ => add_known k ver rid
  | _ => k
  end.

Definition commit_cont (s : sdb) (o : op) (e : eclass) : contents :=
  match o, e with
  | OCommit ver _ rid _ _ _ _ _ _, EOk =>
      match s_read s ver rid with Some c => c | None => [] end
  | _, _ => []
  end.

(* pathbadger performs the commit checks in another order (NewBatch first): only
   accepted / rejected is compared for commits *)
Definition norm_class (o : op) (e : eclass) : eclass :=
  match o, e with
  | OCommit _ _ _ _ _ _ _ _ _, EOk => EOk
  | OCommit _ _ _ _ _ _ _ _ _, _ => EOther
  | _, e => e
  end.

Fixpoint s_observe (s : sdb) (k : list (N * N)) (h : list op) : list obs :=
  match h with
  | [] => []
  | o :: t =>
      let '(e, s') := s_step s o in
      let k' := known_step k o in
      ((norm_class o e, commit_cont s' o e), (d_earliest s', d_last s'),
       map (fun p => (p, (s_has s' (fst p) (snd p), s_status s' (fst p) (snd p)))) k')
        :: s_observe s' k' t
  end.

(* comparison helpers for the case files *)
Definition pair_eqb (a b : N * N) : bool := (fst a =? fst b) && (snd a =? snd b).
Definition optN_eqb (a b : option N) : bool :=
  match a, b with Some x, Some y => x =? y | None, None => true | _, _ => false end.
Definition robs_eqb (a b : robs) : bool :=
  pair_eqb (fst a) (fst b) && Bool.eqb (fst (snd a)) (fst (snd b)) && (snd (snd a) =? snd (snd b)).
Definition obs_eqb (a b : obs) : bool :=
  let '((e1, c1), (ea1, l1), r1) := a in
  let '((e2, c2), (ea2, l2), r2) := b in
  eclass_eqb e1 e2 && list_eqb pair_eqb c1 c2 && (ea1 =? ea2) && optN_eqb l1 l2 && list_eqb robs_eqb r1 r2.
