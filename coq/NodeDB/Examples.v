(* NodeDB/Examples.v — non-vacuity examples and refutation witnesses (vm_compute on concrete
   histories recorded from the real badger backend by harness/cmd/nodedb). *)
From Verif Require Import Lib.Base NodeDB.Spec NodeDB.Badger NodeDB.BadgerProofs.

(* every operation accepted, history in the domain of the property *)
Fixpoint accepted (d : bdb) (h : list op) : bool :=
  match h with
  | [] => true
  | o :: t => wf_step d o && eclass_eqb (fst (b_step d o)) EOk && accepted (snd (b_step d o)) t
  end.

(* a finalized, retained root that the database lists but cannot read *)
Definition unreadable_finalized (d : bdb) (v rid : N) : bool :=
  s_has (b_meta d) v rid && last_geb (b_meta d) v && (b_status d v rid =? 2).

(* section-9 history: state {k,x} and IO {k,y} finalized in version 1 share the leaf k; the
   state root of version 2 changes only x; Prune(1) deletes the shared leaf *)
Definition h_prune_shared : list op :=
  [OCommit 1 1 2 None [(6, 1); (7, 1)] [1; 2; 3] [] [3; 1; 2] [];
   OCommit 1 2 3 None [(6, 1); (8, 1)] [1; 4; 5] [] [5; 1; 4] [];
   OFinalize 1 [2; 3];
   OCommit 2 1 4 (Some (1, 2)) [(7, 2)] [6; 7] [2; 3] [7; 1; 6] [];
   OFinalize 2 [4];
   OPrune 1].

Lemma prune_shared_refutes :
  accepted bdb0 h_prune_shared = true /\
  unreadable_finalized (b_run bdb0 h_prune_shared) 2 4 = true /\
  ok_run bdb0 (firstn 5 h_prune_shared) = true /\
  prune_safe (b_run bdb0 (firstn 5 h_prune_shared)) 1 = false.
Proof. vm_compute. repeat split; reflexivity. Qed.

(* the candidate repair (skip nodes reachable from roots of the pruned version that have
   derived roots) keeps the version-2 root readable on that history *)
Lemma prune_alt_keeps_readable :
  let d := b_run bdb0 (firstn 5 h_prune_shared) in
  fst (b_prune_alt d 1) = EOk /\ b_status (snd (b_prune_alt d 1)) 2 4 = 1.
Proof. vm_compute. split; reflexivity. Qed.

(* a discarded candidate re-wrote (same hash) a node that the finalized candidate inherits
   from the previous version: Finalize deletes it at the version timestamp *)
Definition h_finalize_reput : list op :=
  [OCommit 2 1 2 None [(6, 1)] [1] [] [1] [];
   OFinalize 2 [2];
   OCommit 3 1 2 (Some (2, 2)) [] [] [] [1] [];
   OCommit 3 2 3 None [(6, 1)] [1] [] [1] [];
   OFinalize 3 [2]].

Lemma finalize_reput_refutes :
  accepted bdb0 h_finalize_reput = true /\
  unreadable_finalized (b_run bdb0 h_finalize_reput) 3 2 = true /\
  fin_safe (b_run bdb0 (firstn 4 h_finalize_reput)) 3 [2] = false.
Proof. vm_compute. repeat split; reflexivity. Qed.

(* a same-version chain A -> B: finalizing B keeps A listed (transitive finalization) but
   deletes the nodes B replaced *)
Definition h_finalize_removed : list op :=
  [OCommit 3 2 2 None [(7, 1)] [1] [] [1] [];
   OFinalize 3 [2];
   OCommit 4 2 2 (Some (3, 2)) [] [] [] [1] [];
   OCommit 4 2 3 (Some (4, 2)) [(7, 2)] [2] [1] [2] [];
   OFinalize 4 [3]].

Lemma finalize_removed_refutes :
  accepted bdb0 h_finalize_removed = true /\
  unreadable_finalized (b_run bdb0 h_finalize_removed) 4 2 = true.
Proof. vm_compute. split; reflexivity. Qed.

(* a finalized empty root without successors makes Prune fail where the spec prunes *)
Definition h_prune_empty : list op :=
  [OCommit 0 1 0 None [] [] [] [] []; OFinalize 0 [0];
   OCommit 1 1 0 (Some (0, 0)) [] [] [] [] []; OFinalize 1 [0]].

Lemma prune_empty_refutes :
  accepted bdb0 h_prune_empty = true /\
  fst (b_prune (b_run bdb0 h_prune_empty) 0) = ENodeNotFound /\
  fst (s_prune (s_run sdb0 h_prune_empty) 0) = EOk.
Proof. vm_compute. repeat split; reflexivity. Qed.

(* non-vacuity: three versions, two state candidates per version sharing nodes, one
   discarded, an IO root per version, prune lagging by one: every side condition holds *)
Definition h_good : list op :=
  [OCommit 1 1 2 None [(1, 1); (2, 1)] [1; 2; 3] [] [3; 1; 2] [];
   OCommit 1 1 3 None [(1, 1); (3, 1)] [1; 4; 5] [] [5; 1; 4] [];
   OCommit 1 2 6 None [(8, 1)] [9] [] [9] [];
   OFinalize 1 [2; 6];
   OCommit 2 1 4 (Some (1, 2)) [(2, 2)] [6; 7] [2; 3] [7; 1; 6] [];
   OCommit 2 1 5 (Some (1, 2)) [(3, 1)] [4; 8] [3] [8; 1; 2; 4] [];
   OFinalize 2 [4];
   OPrune 1;
   OCommit 3 1 7 (Some (2, 4)) [] [] [] [7; 1; 6] [];
   OFinalize 3 [7];
   OPrune 2].

Example good_history_ok :
  ok_run bdb0 h_good = true /\ accepted bdb0 h_good = true /\
  b_status (b_run bdb0 h_good) 3 7 = 1 /\ b_status (b_run bdb0 h_good) 2 5 = 0 /\
  d_earliest (b_meta (b_run bdb0 h_good)) = 3.
Proof. vm_compute. repeat split; reflexivity. Qed.
