(* NodeDB/Badger.v — the hash-keyed badger backend (go/storage/mkvs/db/badger/badger.go)
   at the granularity of node sets.

   Executable definitions only.  The store is Badger in managed mode restricted to
   the node key space: a log of writes (node id, timestamp, put?) where the
   timestamp is the MKVS version (versionToTs is a monotone shift, helpers.go:17)
   and a read at timestamp t sees, for a key, the write with the largest
   timestamp <= t, the most recent write winning among equal timestamps.

   The roots metadata, earliest/last-finalized bookkeeping and all argument checks are
   exactly those of Spec.v (the spec ports badger.go's checks), so the metadata
   component of the concrete state IS a Spec state; what this file adds is what
   the property is about: which node keys exist at which timestamps, per
     Commit   badger.go:1155-1174 (PutNode: Set(nodeKey) at versionToTs(version),
              for every dirty node, whether or not the key already exists),
              1103-1107 (updated-nodes index), 1126 (flush);
     Finalize badger.go:623-703 (maybeLone / notLone from the updated-nodes index of
              every root of the version; Delete at the version timestamp);
     Prune    badger.go:772-810 (only roots without derived roots are traversed;
              a node is deleted at the pruned version's timestamp iff the item
              visible at that timestamp was written at that timestamp).
   Trees are abstracted to the set of node ids reachable from a root ([reach]),
   supplied by the history together with the ids passed to PutNode / RemoveNodes.

   Not modelled: root-node keys (0x06; always present for a root listed in the
   metadata in the histories considered), write logs, multipart restore (Crash.v),
   Badger's physical GC (SetDiscardTs only drops versions no read can see). *)
From Verif Require Import Lib.Base NodeDB.Spec NodeDB.PathBadger.

Record raux := mkaux { a_puts : list N; a_removed : list N; a_reach : list N; a_inl : list N }.

(* nodes a reader has to fetch by key: a leaf attached to an internal node is serialized inside it *)
Definition a_need (a : raux) : list N := filter (fun n => negb (nmem n (a_inl a))) (a_reach a).

Definition store := list (N * N * bool).   (* newest write first *)

Record bdb := mkb { b_meta : sdb; b_aux : list ((N * N) * raux); b_store : store }.

Definition bdb0 : bdb := mkb sdb0 [] [].

Fixpoint aux_get (ver rid : N) (l : list ((N * N) * raux)) : raux :=
  match l with
  | [] => mkaux [] [] [] []
  | ((v, r), a) :: t => if (v =? ver) && (r =? rid) then a else aux_get ver rid t
  end.

(* the write visible for node [n] at timestamp [t] *)
Fixpoint best (n t : N) (st : store) : option (N * bool) :=
  match st with
  | [] => None
  | (n', ts, b) :: r =>
      let rec := best n t r in
      if (n' =? n) && (ts <=? t)
      then match rec with
           | Some (ts', b') => if ts' <=? ts then Some (ts, b) else rec
           | None => Some (ts, b)
           end
      else rec
  end.

Definition visible (n t : N) (st : store) : bool :=
  match best n t st with Some (_, true) => true | _ => false end.

Definition all_visible (ns : list N) (t : N) (st : store) : bool :=
  forallb (fun n => visible n t st) ns.

(* item.Version() == version (badger.go:793) *)
Definition written_at (n t : N) (st : store) : bool :=
  match best n t st with Some (ts, true) => ts =? t | _ => false end.

Definition write_all (ns : list N) (t : N) (b : bool) (st : store) : store :=
  map (fun n => (n, t, b)) ns ++ st.

(* ---- Commit ---- *)
Definition b_commit (d : bdb) (ver typ rid : N) (old : option (N * N)) (writes : list (N * N))
           (puts removed reach inl : list N) : eclass * bdb :=
  let fresh := negb (has_rid rid (roots_at (b_meta d) ver)) in
  match s_commit (b_meta d) ver typ rid old writes with
  | (EOk, m') =>
      if fresh
      then (EOk, mkb m' (((ver, rid), mkaux puts removed reach inl) :: b_aux d)
                     (write_all puts ver true (b_store d)))
      else (EOk, d)                              (* ba.Reset(): nothing is flushed *)
  | (e, _) => (e, d)
  end.

(* ---- Finalize ---- *)
Definition fin_dels (d : bdb) (ver : N) (fin : list N) : list N :=
  let roots := roots_at (b_meta d) ver in
  let isfin r := nmem (r_id r) fin in
  let maybe :=
    flat_map (fun r => let a := aux_get ver (r_id r) (b_aux d) in
                       if isfin r then a_removed a else a_puts a) roots in
  let notlone :=
    flat_map (fun r => let a := aux_get ver (r_id r) (b_aux d) in
                       if isfin r then a_puts a else []) roots in
  filter (fun n => negb (nmem n notlone)) maybe.

Definition b_finalize (d : bdb) (ver : N) (rids : list N) : eclass * bdb :=
  match s_finalize (b_meta d) ver rids with
  | (EOk, m') =>
      let fin := fin_set (roots_at (b_meta d) ver) rids in
      (EOk, mkb m' (b_aux d) (write_all (fin_dels d ver fin) ver false (b_store d)))
  | (e, _) => (e, d)
  end.

(* ---- Prune ---- *)
Definition lone_roots (d : bdb) (ver : N) : list sroot :=
  filter (fun r => match r_derived r with [] => true | _ => false end) (roots_at (b_meta d) ver).

(* api.Visit (helpers.go:106-165) at the version's timestamp, in DFS order.  A node that is not
   attached is fetched with GetNode: a missing one aborts the traversal (ErrNodeNotFound).  The
   visitor (badger.go:792-804) looks every visited node up by key again and stores the outcome
   in ONE variable [innerErr] that every later call overwrites; returning false only skips the
   node's children.  An attached leaf whose stand-alone key is gone therefore fails the Prune
   (raw badger error) only if it is the LAST node visited; [acc] is that variable. *)
Fixpoint visit_nodes (ns inl : list N) (t : N) (st : store) (acc : eclass) : eclass :=
  match ns with
  | [] => acc
  | n :: r => if nmem n inl
              then visit_nodes r inl t st (if visible n t st then EOk else EOther)
              else if visible n t st then visit_nodes r inl t st EOk else ENodeNotFound
  end.

Definition visit_root (d : bdb) (ver : N) (r : sroot) : eclass :=
  if is_empty_rid (r_id r) then ENodeNotFound
  else let a := aux_get ver (r_id r) (b_aux d) in visit_nodes (a_reach a) (a_inl a) ver (b_store d) EOk.

(* Go iterates the roots map in random order: any failing root makes Prune fail; when several
   fail the class is that of one of them (the histories considered have at most one class) *)
Fixpoint visit_all (d : bdb) (ver : N) (l : list sroot) : eclass :=
  match l with
  | [] => EOk
  | r :: t => match visit_root d ver r with EOk => visit_all d ver t | e => e end
  end.

Definition prune_dels (d : bdb) (ver : N) : list N :=
  flat_map (fun r => filter (fun n => written_at n ver (b_store d))
                            (a_reach (aux_get ver (r_id r) (b_aux d))))
           (lone_roots d ver).

Definition b_prune (d : bdb) (ver : N) : eclass * bdb :=
  match s_prune_check (b_meta d) ver with
  | EOk =>
      match visit_all d ver (lone_roots d ver) with
      | EOk => (EOk, mkb (s_prune_do (b_meta d) ver) (b_aux d)
                         (write_all (prune_dels d ver) ver false (b_store d)))
      | e => (e, d)                              (* badger.go:800-805; batch cancelled *)
      end
  | e => (e, d)
  end.

Definition b_step (d : bdb) (o : op) : eclass * bdb :=
  match o with
  | OCommit ver typ rid old writes puts removed reach inl0 =>
      b_commit d ver typ rid old writes puts removed reach inl0
  | OFinalize ver rids => b_finalize d ver rids
  | OPrune ver => b_prune d ver
  end.

Definition b_run (d : bdb) (h : list op) : bdb :=
  fold_left (fun d o => snd (b_step d o)) h d.

(* ---- reads: mkvs.NewWithRoot + full iteration = GetNode of every node of the root at
   the root's version timestamp (badger.go:287-333) ---- *)
Definition b_readable (d : bdb) (ver rid : N) : bool :=
  all_visible (a_need (aux_get ver rid (b_aux d))) ver (b_store d).

Definition b_read (d : bdb) (ver rid : N) : option contents :=
  match s_read (b_meta d) ver rid with
  | Some c => if is_empty_rid rid || b_readable d ver rid then Some c else None
  | None => None
  end.

(* 0 absent, 1 exact, 2 node missing *)
Definition b_status (d : bdb) (ver rid : N) : N :=
  if s_has (b_meta d) ver rid
  then (if is_empty_rid rid || b_readable d ver rid then 1 else 2)
  else 0.

Definition b_commit_cont (d : bdb) (o : op) (e : eclass) : contents :=
  match o, e with
  | OCommit ver _ rid _ _ _ _ _ _, EOk =>
      match b_read d ver rid with Some c => c | None => [] end
  | _, _ => []
  end.

Fixpoint b_observe (d : bdb) (k : list (N * N)) (h : list op) : list obs :=
  match h with
  | [] => []
  | o :: t =>
      let '(e, d') := b_step d o in
      let k' := known_step k o in
      ((e, b_commit_cont d' o e), (d_earliest (b_meta d'), d_last (b_meta d')),
       map (fun p => (p, (s_has (b_meta d') (fst p) (snd p), b_status d' (fst p) (snd p)))) k')
        :: b_observe d' k' t
  end.

(* ---- the case files: ((ops, pathbadger ops), (badger obs, pathbadger obs)); the pathbadger
   operation list is empty when pathbadger rejected a shape it does not support ---- *)
Definition run_case (c : list op * list pop) : list obs * list obs :=
  (b_observe bdb0 [] (fst c), p_observe pdb0 [] (snd c)).

(* every case is emitted through this typed constructor, so that empty lists and [None]s inside
   a case always have their type, whatever the shape of the case *)
Definition mk_case (ops : list op) (pops : list pop) (ob op2 : list obs)
  : (list op * list pop) * (list obs * list obs) := ((ops, pops), (ob, op2)).

Definition case_eqb (a b : list obs * list obs) : bool :=
  list_eqb obs_eqb (fst a) (fst b) &&
  (* the recorded pathbadger observations may be a prefix (the harness stops recording them
     once the known pipelining shape of pathbadger occurred in the history) *)
  match snd a with [] => true | l => list_eqb obs_eqb (firstn (length (snd b)) l) (snd b) end.

(* ---- the candidate repair of Prune: do not delete nodes that are reachable from a
   root of the pruned version that has derived roots ---- *)
Definition nonlone_reach (d : bdb) (ver : N) : list N :=
  flat_map (fun r => match r_derived r with
                     | [] => []
                     | _ => a_reach (aux_get ver (r_id r) (b_aux d))
                     end) (roots_at (b_meta d) ver).

Definition b_prune_alt (d : bdb) (ver : N) : eclass * bdb :=
  match s_prune_check (b_meta d) ver with
  | EOk =>
      match visit_all d ver (lone_roots d ver) with
      | EOk => (EOk, mkb (s_prune_do (b_meta d) ver) (b_aux d)
                     (write_all (filter (fun n => negb (nmem n (nonlone_reach d ver))) (prune_dels d ver))
                                ver false (b_store d)))
      | e => (e, d)
      end
  | e => (e, d)
  end.
