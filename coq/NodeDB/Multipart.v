(* NodeDB/Multipart.v — checkpoint (multipart) restore on the badger backend as durable steps.

   Executable definitions only.  Extends the Crash.v state with the two durable objects of a
   restore: the multipart version in the metadata (metadata.go:27,83-97) and the restore log
   (key format 0x05, badger.go:58-65: one entry per root written by a chunk commit and per node
   that did not exist at the restore timestamp when the chunk put it, badger.go:1061-1065,
   1176-1185).  Ported:
     StartMultipartInsert  badger.go:864-893   one metadata commit
     chunk Commit          badger.go:1027-1152 log batch flush (tsMetadata) FIRST, then the node
                           batch (nodes + root-node key at the version timestamp), then the roots
                           metadata (root listed with an empty updated-nodes index)
     AbortMultipartInsert / open   cleanMultipartLocked(true), badger.go:216-287: ONE batch
                           deleting every logged node / root-node key at the restore timestamp
                           and the log entries, then the metadata commit multipart := 0
     Finalize during a restore  badger.go:561-567,578 (the "previous version finalized" check is
                           skipped), 705-735: deletes batch, metadata (last finalized), THEN
                           cleanMultipartLocked(false): log removal batch, multipart := 0.
   The roots metadata is never cleaned by an abort: the restored root stays listed (HasRoot
   true) although its nodes are gone - observed on the real backend, harmless for C07's clause
   because the version is not finalized. *)
From Verif Require Import Lib.Base NodeDB.Spec NodeDB.Badger NodeDB.Crash.

Record mdb := mkm { m_c : cdb; m_mp : N; m_log : list (bool * N) }.   (* log entry: (is_root, id) *)
Definition mdb0 : mdb := mkm cdb0 0 [].

Inductive mop :=
| MBase (o : op)
| MStart (ver : N)
| MChunk (ver typ rid : N) (cont : contents) (puts reach inl0 : list N)
| MAbort
| MFinalize (ver : N) (rids : list N).

Inductive mstep :=
| MSBase (s : step)
| MSLog (es : list (bool * N))
| MSClean (ns rks : list N) (t : N)
| MSLogClear
| MSSetMp (v : N).

Definition apply_mstep (m : mdb) (s : mstep) : mdb :=
  match s with
  | MSBase b => mkm (apply_step (m_c m) b) (m_mp m) (m_log m)
  | MSLog es => mkm (m_c m) (m_mp m) (es ++ m_log m)
  | MSClean ns rks t => mkm (apply_step (m_c m) (SFlush ns rks t false)) (m_mp m) []
  | MSLogClear => mkm (m_c m) (m_mp m) []
  | MSSetMp v => mkm (m_c m) v (m_log m)
  end.

Definition apply_msteps (m : mdb) (l : list mstep) : mdb := fold_left apply_mstep l m.

Definition m_meta (m : mdb) : sdb := b_meta (c_b (m_c m)).
Definition m_store (m : mdb) : store := b_store (c_b (m_c m)).

Definition log_nodes (l : list (bool * N)) : list N :=
  flat_map (fun e : bool * N => if fst e then [] else [snd e]) l.
Definition log_roots (l : list (bool * N)) : list N :=
  flat_map (fun e : bool * N => if fst e then [snd e] else []) l.

Definition clean_steps (m : mdb) : list mstep :=
  if m_mp m =? 0 then []
  else [MSClean (log_nodes (m_log m)) (log_roots (m_log m)) (m_mp m); MSSetMp 0].

(* Finalize without the "previous version is finalized" check (badger.go:578) *)
Definition s_finalize_mp (s : sdb) (ver : N) (rids : list N) : eclass * sdb :=
  match rids with
  | [] => (EOther, s)
  | _ =>
    if last_geb s ver then (EAlreadyFinalized, s)
    else
      let roots := roots_at s ver in
      let fin := fin_set roots rids in
      if negb (forallb (fun i => has_rid i roots || is_empty_rid i) fin) then (ERootNotFound, s)
      else (EOk, mkdb (match d_last s with None => ver | Some _ => d_earliest s end) (Some ver)
                      (set_roots s ver (filter (fun r => nmem (r_id r) fin) roots)))
  end.

Definition mplan (m : mdb) (o : mop) : eclass * list mstep :=
  let d := c_b (m_c m) in
  match o with
  | MBase b =>
      if m_mp m =? 0 then (fst (plan (m_c m) b), map MSBase (snd (plan (m_c m) b)))
      else (EOther, [])                                   (* ErrMultipartInProgress *)
  | MStart ver =>
      if ver =? 0 then (EOther, [])
      else if m_mp m =? 0 then (EOk, [MSSetMp ver])
      else if m_mp m =? ver then (EOk, []) else (EOther, [])
  | MChunk ver typ rid cont puts reach inl0 =>
      if (m_mp m =? 0) || negb (m_mp m =? ver) then (EOther, [])
      else if last_geb (b_meta d) ver then (EAlreadyFinalized, [])
      else
        let listed := has_rid rid (roots_at (b_meta d) ver) in
        let m' := if listed then b_meta d
                  else mkdb (d_earliest (b_meta d)) (d_last (b_meta d))
                            (set_roots (b_meta d) ver (roots_at (b_meta d) ver ++ [mkroot rid typ cont []])) in
        let aux' := if listed then b_aux d else ((ver, rid), mkaux [] [] reach inl0) :: b_aux d in
        (EOk, [MSLog ((true, rid) :: map (fun n => (false, n))
                                         (filter (fun n => negb (visible n ver (b_store d))) puts));
               MSBase (SFlush puts [rid] ver true);
               MSBase (SMeta m' aux')])
  | MAbort => (EOk, clean_steps m)
  | MFinalize ver rids =>
      if negb (m_mp m =? 0) && negb (m_mp m =? ver) then (EOther, [])
      else
        match (if m_mp m =? 0 then s_finalize (b_meta d) ver rids else s_finalize_mp (b_meta d) ver rids) with
        | (EOk, m') =>
            (EOk, [MSBase (SFlush (fin_dels d ver (fin_set (roots_at (b_meta d) ver) rids)) [] ver false);
                   MSBase (SMeta m' (b_aux d))]
                  ++ (if m_mp m =? 0 then [] else [MSLogClear; MSSetMp 0]))
        | (e, _) => (e, [])
        end
  end.

Definition m_run_until (k : nat) (m : mdb) (o : mop) : mdb := apply_msteps m (firstn k (snd (mplan m o))).
Definition m_run_all (m : mdb) (o : mop) : eclass * mdb := (fst (mplan m o), apply_msteps m (snd (mplan m o))).
Definition m_run (m : mdb) (h : list mop) : mdb := fold_left (fun m o => snd (m_run_all m o)) h m.

(* New(): load the metadata, then cleanMultipartLocked(true) (badger.go:95-99) *)
Definition m_reopen (m : mdb) : mdb := apply_msteps m (clean_steps m).

(* 0 absent, 1 exact, 2 node missing, 3 root not found — as Crash.c_status *)
Definition m_status (m : mdb) (ver rid : N) : N := c_status (m_c m) ver rid.

Definition mobs := ((N * option N) * N * list ((N * N) * N))%type.
Definition m_observe (m : mdb) (known : list (N * N)) : mobs :=
  ((d_earliest (m_meta m), d_last (m_meta m)), m_mp m,
   map (fun p => (p, m_status m (fst p) (snd p))) known).

(* one case of the restore stream: operations before the interrupted call, the interrupted
   call, completed steps, roots to observe |-> observation after reopen *)
Definition restore_case (x : list mop * mop * nat * list (N * N)) : mobs :=
  let '(h, o, k, known) := x in
  m_observe (m_reopen (m_run_until k (m_run mdb0 h) o)) known.

Definition mobs_eqb (a b : mobs) : bool :=
  let '((e1, l1), p1, r1) := a in
  let '((e2, l2), p2, r2) := b in
  (e1 =? e2) && optN_eqb l1 l2 && (p1 =? p2) &&
  list_eqb (fun x y => pair_eqb (fst x) (fst y) && (snd x =? snd y)) r1 r2.

(* the crash stream mixes plain crash cases (Crash.crash_case) and restore cases *)
Definition crash_in := (list op * op * nat * list (N * N))%type.
Definition restore_in := (list mop * mop * nat * list (N * N))%type.
Definition any_in := (crash_in + restore_in)%type.
Definition any_out := ((cobs * eclass * cobs) + mobs)%type.
Definition in_c (a : crash_in) : any_in := inl a.
Definition in_r (b : restore_in) : any_in := inr b.
Definition out_c (a : cobs * eclass * cobs) : any_out := inl a.
Definition out_r (b : mobs) : any_out := inr b.

Definition any_case (x : any_in) : any_out :=
  match x with inl a => inl (crash_case a) | inr b => inr (restore_case b) end.

Definition any_eqb (a b : any_out) : bool :=
  match a, b with
  | inl x, inl y => crash_eqb x y
  | inr x, inr y => mobs_eqb x y
  | _, _ => false
  end.
