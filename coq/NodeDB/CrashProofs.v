(* NodeDB/CrashProofs.v — crash safety of the step lists of Crash.v. *)
From Verif Require Import Lib.Base NodeDB.Spec NodeDB.Badger NodeDB.BadgerProofs NodeDB.Crash.

(* closed form of a batch of writes at one timestamp *)
Lemma best_write_all n t ns d b st :
  best n t (write_all ns d b st) =
  if nmem n ns && (d <=? t)
  then match best n t st with
       | Some (ts', b') => if ts' <=? d then Some (d, b) else Some (ts', b')
       | None => Some (d, b)
       end
  else best n t st.
Proof.
  unfold write_all. induction ns as [|m ms IH]; [reflexivity|].
  cbn [map app]. rewrite best_cons, IH. unfold nmem. cbn [existsb]. fold (nmem n ms).
  rewrite (N.eqb_sym n m).
  destruct (d <=? t) eqn:DT; [|rewrite !andb_false_r; reflexivity].
  rewrite !andb_true_r. destruct (m =? n) eqn:MN; cbn [orb].
  - destruct (nmem n ms).
    + destruct (best n t st) as [[ts' b']|].
      * destruct (ts' <=? d) eqn:E; [rewrite N.leb_refl; reflexivity|rewrite E; reflexivity].
      * rewrite N.leb_refl. reflexivity.
    + destruct (best n t st) as [[ts' b']|]; [destruct (ts' <=? d); reflexivity|reflexivity].
  - reflexivity.
Qed.

Lemma best_write_twice n t ns d b st :
  best n t (write_all ns d b (write_all ns d b st)) = best n t (write_all ns d b st).
Proof.
  rewrite (best_write_all n t ns d b (write_all ns d b st)). rewrite best_write_all.
  destruct (nmem n ns && (d <=? t)); [|reflexivity].
  destruct (best n t st) as [[ts' b']|].
  - destruct (ts' <=? d) eqn:E; [rewrite N.leb_refl; reflexivity|rewrite E; reflexivity].
  - rewrite N.leb_refl. reflexivity.
Qed.

Definition seqv (a b : store) : Prop := forall n t, best n t a = best n t b.

(* same metadata, same index, observationally equal key spaces *)
Definition cequiv (x y : cdb) : Prop :=
  b_meta (c_b x) = b_meta (c_b y) /\ b_aux (c_b x) = b_aux (c_b y) /\
  seqv (b_store (c_b x)) (b_store (c_b y)) /\ seqv (c_rk x) (c_rk y).

Lemma cequiv_refl x : cequiv x x.
Proof. repeat split. Qed.

(* ---------------- Commit ---------------- *)
Lemma crash_safe_commit_l c ver typ rid old ws puts removed reach inl0 k :
  let o := OCommit ver typ rid old ws puts removed reach inl0 in
  inv (c_b c) -> (k < length (snd (plan c o)))%nat ->
  let c1 := reopen (run_until k c o) in
  inv (c_b c1) /\ b_meta (c_b c1) = b_meta (c_b c) /\ b_aux (c_b c1) = b_aux (c_b c) /\
  (forall r t, visible r t (c_rk c) = true -> visible r t (c_rk c1) = true) /\
  fst (retry c1 o) = fst (run_all c o) /\ cequiv (snd (retry c1 o)) (snd (run_all c o)).
Proof.
  intros o I. subst o. unfold retry, reopen, run_all, run_until, plan, plan_orig.
  destruct (s_commit (b_meta (c_b c)) ver typ rid old ws) as [e m'] eqn:SC.
  destruct e; cbn [snd length]; try (intros K0; exfalso; cbn in K0; lia).
  destruct (has_rid rid (roots_at (b_meta (c_b c)) ver)) eqn:HR; cbn [snd length]; [intros K0; exfalso; cbn in K0; lia|].
  intros K. destruct k as [|[|k]]; [| |exfalso; lia].
  - cbn [firstn apply_steps fold_left]. rewrite SC, HR.
    split; [exact I|]. split; [reflexivity|]. split; [reflexivity|].
    split; [intros r0 t0 V0; exact V0|]. split; [reflexivity|apply cequiv_refl].
  - cbn [firstn apply_steps fold_left apply_step c_b c_rk b_meta b_aux b_store]. rewrite SC, HR.
    cbn [fst snd apply_steps fold_left apply_step c_b c_rk b_meta b_aux b_store].
    split; [apply (crash_after_commit_flush (c_b c) puts ver I)|].
    split; [reflexivity|]. split; [reflexivity|].
    split; [intros r0 t0 V0; apply visible_puts; exact V0|].
    split; [reflexivity|].
    split; [reflexivity|]. split; [reflexivity|].
    split; intros n t; apply best_write_twice.
Qed.

(* ---------------- Finalize ---------------- *)
Lemma crash_safe_finalize_l c ver rids k :
  let o := OFinalize ver rids in
  inv (c_b c) -> (k < length (snd (plan c o)))%nat ->
  let c1 := reopen (run_until k c o) in
  b_meta (c_b c1) = b_meta (c_b c) /\ b_aux (c_b c1) = b_aux (c_b c) /\ c_rk c1 = c_rk c /\
  (forall v r, last_geb (b_meta (c_b c)) v = true -> d_earliest (b_meta (c_b c)) <= v ->
     has_rid r (roots_at (b_meta (c_b c)) v) = true ->
     forall n, In n (a_reach (aux_get v r (b_aux (c_b c)))) -> visible n v (b_store (c_b c1)) = true) /\
  fst (retry c1 o) = fst (run_all c o) /\ cequiv (snd (retry c1 o)) (snd (run_all c o)).
Proof.
  intros o I. subst o. unfold retry, reopen, run_all, run_until, plan, plan_orig.
  destruct (s_finalize (b_meta (c_b c)) ver rids) as [e m'] eqn:SF.
  destruct e; cbn [snd length]; try (intros K0; exfalso; cbn in K0; lia).
  intros K. destruct I as [IR IM].
  destruct k as [|[|k]]; [| |exfalso; lia].
  - cbn [firstn apply_steps fold_left]. rewrite SF.
    split; [reflexivity|]. split; [reflexivity|]. split; [reflexivity|].
    split; [intros v r _ Hev Hh n Hn; exact (proj1 (IR v r Hev Hh n Hn))|].
    split; [reflexivity|apply cequiv_refl].
  - cbn [firstn apply_steps fold_left apply_step c_b c_rk b_meta b_aux b_store]. rewrite SF.
    cbn [fst snd apply_steps fold_left apply_step c_b c_rk b_meta b_aux b_store].
    unfold fin_dels at 2. cbn [b_meta b_aux].
    fold (fin_dels (c_b c) ver (fin_set (roots_at (b_meta (c_b c)) ver) rids)).
    split; [reflexivity|]. split; [reflexivity|]. split; [reflexivity|].
    split.
    + intros v r LG Hev Hh n Hn. destruct (s_finalize_ok _ _ _ _ SF) as [_ [LG2 _]].
      unfold last_geb in *. destruct (d_last (b_meta (c_b c))) as [l|]; [|discriminate].
      apply N.leb_le in LG. apply N.leb_gt in LG2.
      unfold visible. rewrite best_dels_before by lia. exact (proj1 (IR v r Hev Hh n Hn)).
    + split; [reflexivity|]. split; [reflexivity|]. split; [reflexivity|].
      split; [intros n t; apply best_write_twice|intros n t; reflexivity].
Qed.

(* ---------------- Prune: the code's ordering is not retry-safe ---------------- *)
Definition h_prune_crash : list op :=
  [OCommit 1 1 2 None [(6, 1)] [1] [] [1] []; OCommit 1 2 3 None [(2, 2)] [2] [] [2] [];
   OFinalize 1 [2; 3];
   OCommit 2 1 4 (Some (1, 2)) [(3, 1)] [3; 4] [] [4; 3; 1] []; OFinalize 2 [4]].

(* the uninterrupted Prune(1) succeeds; after a crash between its batch flush and its
   metadata commit the retry fails with "root not found" and would fail again forever
   (the state is unchanged by the failed retry), while the metadata still says version 1 is
   the earliest retained version *)
Lemma crash_safe_prune_refuted_l :
  let c := c_run cdb0 h_prune_crash in
  fst (run_all_orig c (OPrune 1)) = EOk /\
  let c1 := reopen (run_until_orig 1 c (OPrune 1)) in
  fst (retry_orig c1 (OPrune 1)) = ERootNotFound /\ snd (retry_orig c1 (OPrune 1)) = c1 /\
  d_earliest (b_meta (c_b c1)) = 1 /\ inv (c_b c) /\ prune_safe (c_b c) 1 = true.
Proof.
  cbv zeta. split; [vm_compute; reflexivity|]. split; [vm_compute; reflexivity|].
  split; [vm_compute; reflexivity|]. split; [vm_compute; reflexivity|].
  split; [|vm_compute; reflexivity].
  assert (E : c_b (c_run cdb0 h_prune_crash) = b_run bdb0 h_prune_crash) by (vm_compute; reflexivity).
  rewrite E. apply inv_run; [exact inv0|vm_compute; reflexivity].
Qed.

(* the small repair (skip lone roots whose root-node key is already gone) on the same crash *)
Lemma crash_prune_alt_witness :
  let c := c_run cdb0 h_prune_crash in
  let c1 := reopen (run_until 1 c (OPrune 1)) in
  fst (retry c1 (OPrune 1)) = EOk /\ snd (retry c1 (OPrune 1)) = snd (run_all c (OPrune 1)) /\
  snd (run_all c (OPrune 1)) = snd (run_all_orig c (OPrune 1)).
Proof. vm_compute. repeat split; reflexivity. Qed.

(* ---------------- Prune with the repair, all states ---------------- *)
Lemma visible_deleted x d ds st : In x ds -> visible x d (write_all ds d false st) = false.
Proof.
  intros HI. unfold visible. rewrite best_write_all.
  assert (M : nmem x ds = true) by (apply nmem_In; exact HI). rewrite M, N.leb_refl. cbn [andb].
  destruct (best x d st) as [[ts' b']|] eqn:B; [|reflexivity].
  destruct (best_in _ _ _ _ _ B) as [_ Hle]. replace (ts' <=? d) with true by (symmetry; apply N.leb_le; exact Hle).
  reflexivity.
Qed.

Lemma c_visit_all_nil c ver : c_visit_all c ver [] = EOk.
Proof. reflexivity. Qed.

(* root-node keys of listed roots of retained versions were written at the root's version *)
Definition rk_inv (c : cdb) : Prop :=
  forall v rid, d_earliest (b_meta (c_b c)) <= v -> has_rid rid (roots_at (b_meta (c_b c)) v) = true ->
    best rid v (c_rk c) = Some (v, true).

Lemma live_all c ver :
  forallb (fun r => visible (r_id r) ver (c_rk c)) (lone_roots (c_b c) ver) = true ->
  live_lone c ver = lone_roots (c_b c) ver.
Proof.
  unfold live_lone. generalize (lone_roots (c_b c) ver). intros l. induction l as [|r t IH]; [reflexivity|].
  cbn [forallb filter]. intros H. apply andb_true_iff in H as [H1 H2]. rewrite H1, (IH H2). reflexivity.
Qed.

Lemma filter_none {A} (f : A -> bool) l : (forall x, In x l -> f x = false) -> filter f l = [].
Proof.
  induction l as [|x t IH]; [reflexivity|]. intros H. cbn [filter].
  rewrite (H x (or_introl eq_refl)). apply IH. intros y Hy. apply H. right. exact Hy.
Qed.

Lemma crash_safe_prune_alt_l c ver k :
  let o := OPrune ver in
  inv (c_b c) -> rk_inv c -> prune_safe (c_b c) ver = true ->
  (k < length (snd (plan c o)))%nat ->
  let c1 := reopen (run_until k c o) in
  b_meta (c_b c1) = b_meta (c_b c) /\ b_aux (c_b c1) = b_aux (c_b c) /\
  (* every listed root of every later version stays readable (nodes and root-node key) *)
  (forall v r, ver < v -> has_rid r (roots_at (b_meta (c_b c)) v) = true ->
     visible r v (c_rk c1) = true /\
     forall n, In n (a_reach (aux_get v r (b_aux (c_b c)))) -> visible n v (b_store (c_b c1)) = true) /\
  (* the retry succeeds and reaches exactly the uninterrupted state *)
  fst (run_all c1 o) = EOk /\ snd (run_all c1 o) = snd (run_all c o).
Proof.
  intros o I RK PS. subst o. unfold reopen, run_all, run_until, plan.
  destruct (s_prune_check (b_meta (c_b c)) ver) eqn:PC; cbn [snd length]; try (intros K0; exfalso; cbn in K0; lia).
  assert (LV : live_lone c ver = lone_roots (c_b c) ver).
  { apply live_all. apply forallb_forall. intros r Hr. unfold lone_roots in Hr. apply filter_In in Hr as [Hr _].
    assert (EV : d_earliest (b_meta (c_b c)) <= ver).
    { unfold s_prune_check in PC. destruct (d_last (b_meta (c_b c))); [|discriminate].
      destruct (n <? ver); [discriminate|].
      destruct (negb (ver =? d_earliest (b_meta (c_b c)))) eqn:E2; [discriminate|].
      apply negb_false_iff in E2. apply N.eqb_eq in E2. lia. }
    unfold visible. rewrite (RK ver (r_id r) EV (in_has_rid r _ Hr)). reflexivity. }
  rewrite LV.
  destruct (c_visit_all c ver (lone_roots (c_b c) ver)) eqn:VA; cbn [snd length]; try (intros K0; exfalso; cbn in K0; lia).
  intros K. destruct k as [|[|k]]; [| |exfalso; lia].
  - cbn [firstn apply_steps fold_left]. rewrite PC, LV, VA.
    split; [reflexivity|]. split; [reflexivity|].
    split; [|split; reflexivity].
    intros v r Hlt Hh. destruct I as [IR _].
    assert (EV : d_earliest (b_meta (c_b c)) <= v).
    { unfold s_prune_check in PC. destruct (d_last (b_meta (c_b c))); [|discriminate].
      destruct (n <? ver); [discriminate|].
      destruct (negb (ver =? d_earliest (b_meta (c_b c)))) eqn:E2; [discriminate|].
      apply negb_false_iff in E2. apply N.eqb_eq in E2. lia. }
    split; [unfold visible; rewrite (RK v r EV Hh); reflexivity|].
    intros n Hn. exact (proj1 (IR v r EV Hh n Hn)).
  - cbn [firstn apply_steps fold_left apply_step c_b c_rk b_meta b_aux b_store].
    rewrite PC.
    set (c1 := mkc (mkb (b_meta (c_b c)) (b_aux (c_b c))
                       (write_all (dels_of (c_b c) ver (lone_roots (c_b c) ver)) ver false (b_store (c_b c))))
                   (write_all (map r_id (lone_roots (c_b c) ver)) ver false (c_rk c))).
    assert (LL : lone_roots (c_b c1) ver = lone_roots (c_b c) ver) by reflexivity.
    assert (L0 : live_lone c1 ver = []).
    { unfold live_lone. rewrite LL. apply filter_none. intros x Hx. unfold c1. cbn [c_rk].
      apply visible_deleted. apply in_map. exact Hx. }
    rewrite L0. cbn [c_visit_all dels_of flat_map map fst snd apply_steps fold_left apply_step write_all app].
    split; [reflexivity|]. split; [reflexivity|].
    split.
    + intros v r Hlt Hh.
      assert (EV : d_earliest (b_meta (c_b c)) <= v).
      { unfold s_prune_check in PC. destruct (d_last (b_meta (c_b c))); [|discriminate].
        destruct (n <? ver); [discriminate|].
        destruct (negb (ver =? d_earliest (b_meta (c_b c)))) eqn:E2; [discriminate|].
        apply negb_false_iff in E2. apply N.eqb_eq in E2. lia. }
      split.
      * unfold c1. cbn [c_rk]. unfold visible.
        rewrite (best_dels_newer r v ver _ _ v true (RK v r EV Hh) Hlt). reflexivity.
      * intros n Hn.
        (* the node part is the store of the completed prune: use the C06 invariant *)
        pose proof (inv_prune (c_b c) ver I PS) as IP. unfold b_prune in IP. rewrite PC in IP.
        assert (VB : visit_all (c_b c) ver (lone_roots (c_b c) ver) = EOk).
        { clear - VA. revert VA. generalize (lone_roots (c_b c) ver). intros l.
          induction l as [|x t IH]; [reflexivity|]. cbn [c_visit_all visit_all]. unfold c_visit_root.
          destruct (negb (visible (r_id x) ver (c_rk c))); [discriminate|].
          destruct (visit_root (c_b c) ver x); try discriminate. exact IH. }
        rewrite VB in IP. cbn [snd] in IP. destruct IP as [IR' _].
        assert (Hh' : has_rid r (roots_at (b_meta (mkb (s_prune_do (b_meta (c_b c)) ver) (b_aux (c_b c))
                        (write_all (prune_dels (c_b c) ver) ver false (b_store (c_b c))))) v) = true).
        { cbn [b_meta]. unfold s_prune_do. destruct (b_meta (c_b c)) as [e la vs]. cbn [d_last d_vers].
          rewrite roots_at_adel by lia. exact Hh. }
        assert (EV' : d_earliest (b_meta (mkb (s_prune_do (b_meta (c_b c)) ver) (b_aux (c_b c))
                        (write_all (prune_dels (c_b c) ver) ver false (b_store (c_b c))))) <= v).
        { cbn [b_meta s_prune_do d_earliest]. lia. }
        exact (proj1 (IR' v r EV' Hh' n Hn)).
    + split; [reflexivity|]. unfold c1. cbn [c_b c_rk b_meta b_aux b_store]. reflexivity.
Qed.

(* ---------------- rk_inv and inv hold after every history ---------------- *)
Lemma rk_inv_step c o : inv (c_b c) -> rk_inv c -> rk_inv (snd (run_all c o)).
Proof.
  intros [_ IM] RK. unfold run_all, plan, plan_orig.
  destruct o as [ver typ rid old ws puts removed reach inl0|ver rids|ver].
  - destruct (s_commit (b_meta (c_b c)) ver typ rid old ws) as [e m'] eqn:SC.
    destruct e; cbn [snd apply_steps fold_left]; try exact RK.
    destruct (has_rid rid (roots_at (b_meta (c_b c)) ver)) eqn:HR; cbn [snd apply_steps fold_left]; [exact RK|].
    destruct (s_commit_ok _ _ _ _ _ _ _ SC) as [HE [_ [_ [_ [HM _]]]]].
    intros v r Hev Hh. cbn [apply_step c_b c_rk b_meta] in *. rewrite HE in Hev.
    unfold write_all. cbn [map app]. rewrite best_cons.
    destruct (HM v r Hh) as [Hh'|[-> ->]].
    + specialize (RK v r Hev Hh'). rewrite RK.
      destruct ((rid =? r) && (ver <=? v)) eqn:C; [|reflexivity].
      apply andb_true_iff in C as [C1 C2]. apply N.eqb_eq in C1. apply N.leb_le in C2. subst r.
      destruct (v <=? ver) eqn:E; [|reflexivity]. apply N.leb_le in E.
      assert (v = ver) by lia. subst v. congruence.
    + rewrite !N.eqb_refl, N.leb_refl. cbn [andb].
      destruct (best rid ver (c_rk c)) as [[a ab]|] eqn:B; [|reflexivity].
      destruct (best_in _ _ _ _ _ B) as [_ Hle].
      replace (a <=? ver) with true by (symmetry; apply N.leb_le; exact Hle). reflexivity.
  - destruct (s_finalize (b_meta (c_b c)) ver rids) as [e m'] eqn:SF.
    destruct e; cbn [snd apply_steps fold_left]; try exact RK.
    destruct (s_finalize_ok _ _ _ _ SF) as [_ [_ [HE [HO HV]]]].
    intros v r Hev Hh. cbn [apply_step c_b c_rk b_meta write_all map app] in *.
    assert (Hev' : d_earliest (b_meta (c_b c)) <= v).
    { rewrite HE in Hev. destruct (d_last (b_meta (c_b c))) eqn:DL; [exact Hev|rewrite (IM DL); lia]. }
    apply RK; [exact Hev'|].
    destruct (N.eq_dec v ver) as [->|NE].
    + rewrite HV in Hh. eapply has_rid_filter. exact Hh.
    + rewrite (HO v NE) in Hh. exact Hh.
  - destruct (s_prune_check (b_meta (c_b c)) ver) eqn:PC; cbn [snd apply_steps fold_left]; try exact RK.
    destruct (c_visit_all c ver (live_lone c ver)); cbn [snd apply_steps fold_left]; try exact RK.
    intros v r Hev Hh. cbn [apply_step c_b c_rk b_meta s_prune_do d_earliest] in *.
    assert (EV : ver = d_earliest (b_meta (c_b c))).
    { unfold s_prune_check in PC. destruct (d_last (b_meta (c_b c))); [|discriminate].
      destruct (n <? ver); [discriminate|].
      destruct (negb (ver =? d_earliest (b_meta (c_b c)))) eqn:E2; [discriminate|].
      apply negb_false_iff in E2. apply N.eqb_eq in E2. exact E2. }
    assert (Hh' : has_rid r (roots_at (b_meta (c_b c)) v) = true).
    { unfold s_prune_do in Hh. destruct (b_meta (c_b c)) as [e la vs]. cbn [d_last d_vers] in Hh.
      rewrite roots_at_adel in Hh by lia. exact Hh. }
    apply (best_dels_newer r v ver _ _ v true); [apply RK; [lia|exact Hh']|lia].
Qed.

Lemma c_visit_all_eq c ver l :
  (forall r, In r l -> visible (r_id r) ver (c_rk c) = true) ->
  c_visit_all c ver l = visit_all (c_b c) ver l.
Proof.
  induction l as [|x t IH]; intros H; [reflexivity|]. cbn [c_visit_all visit_all]. unfold c_visit_root.
  rewrite (H x (or_introl eq_refl)). cbn [negb]. rewrite IH; [reflexivity|].
  intros r Hr. apply H. right. exact Hr.
Qed.

(* the uninterrupted step list of an operation is the operation of Badger.v *)
Lemma run_all_b c o :
  rk_inv c ->
  fst (run_all c o) = fst (b_step (c_b c) o) /\ c_b (snd (run_all c o)) = snd (b_step (c_b c) o).
Proof.
  intros RK. unfold run_all, plan, plan_orig. destruct o as [ver typ rid old ws puts removed reach inl0|ver rids|ver]; cbn [b_step].
  - unfold b_commit. destruct (s_commit (b_meta (c_b c)) ver typ rid old ws) as [e m'] eqn:SC.
    destruct e; cbn [fst snd apply_steps fold_left]; try (split; reflexivity).
    destruct (has_rid rid (roots_at (b_meta (c_b c)) ver)); cbn [negb fst snd apply_steps fold_left apply_step c_b b_meta b_aux b_store];
      split; reflexivity.
  - unfold b_finalize. destruct (s_finalize (b_meta (c_b c)) ver rids) as [e m'] eqn:SF.
    destruct e; cbn [fst snd apply_steps fold_left apply_step c_b b_meta b_aux b_store]; split; reflexivity.
  - unfold b_prune. destruct (s_prune_check (b_meta (c_b c)) ver) eqn:PC; cbn [fst snd apply_steps fold_left]; try (split; reflexivity).
    assert (KV : forall r, In r (lone_roots (c_b c) ver) -> visible (r_id r) ver (c_rk c) = true).
    { intros r Hr. unfold lone_roots in Hr. apply filter_In in Hr as [Hr _].
      assert (EV : d_earliest (b_meta (c_b c)) <= ver).
      { unfold s_prune_check in PC. destruct (d_last (b_meta (c_b c))); [|discriminate].
        destruct (n <? ver); [discriminate|].
        destruct (negb (ver =? d_earliest (b_meta (c_b c)))) eqn:E2; [discriminate|].
        apply negb_false_iff in E2. apply N.eqb_eq in E2. lia. }
      unfold visible. rewrite (RK ver (r_id r) EV (in_has_rid r _ Hr)). reflexivity. }
    rewrite (live_all c ver) by (apply forallb_forall; exact KV).
    rewrite (c_visit_all_eq c ver _ KV).
    destruct (visit_all (c_b c) ver (lone_roots (c_b c) ver));
      cbn [fst snd apply_steps fold_left apply_step c_b b_meta b_aux b_store]; split; reflexivity.
Qed.

Lemma rk_inv0 : rk_inv cdb0.
Proof. intros v rid _ H. discriminate. Qed.

Lemma crash_run h : forall c, inv (c_b c) -> rk_inv c -> ok_run (c_b c) h = true ->
  inv (c_b (c_run c h)) /\ rk_inv (c_run c h) /\ c_b (c_run c h) = b_run (c_b c) h.
Proof.
  induction h as [|o t IH]; intros c I RK OK; [split; [exact I|split; [exact RK|reflexivity]]|].
  cbn [ok_run] in OK. apply andb_true_iff in OK as [OK O3]. apply andb_true_iff in OK as [O1 O2].
  unfold c_run, b_run. cbn [fold_left]. destruct (run_all_b c o RK) as [_ HB].
  assert (I' : inv (c_b (snd (run_all c o)))) by (rewrite HB; apply inv_step; assumption).
  assert (RK' : rk_inv (snd (run_all c o))) by (apply rk_inv_step; assumption).
  assert (OK' : ok_run (c_b (snd (run_all c o))) t = true) by (rewrite HB; exact O3).
  destruct (IH _ I' RK' OK') as [A [B C]]. unfold c_run, b_run in *. rewrite <- HB.
  split; [exact A|split; [exact B|exact C]].
Qed.

(* all histories: the hypotheses of the three crash lemmas hold after every in-domain, safe history *)
Lemma crash_hyps_after_history h :
  ok_run bdb0 h = true -> inv (c_b (c_run cdb0 h)) /\ rk_inv (c_run cdb0 h).
Proof.
  intros OK. destruct (crash_run h cdb0 inv0 rk_inv0 OK) as [A [B _]]. split; assumption.
Qed.
