(* NodeDB/Crash.v — write operations of the badger backend as lists of atomic durable steps.

   Executable definitions only.  The durable state is the Badger.v state (roots metadata +
   earliest/last in [b_meta], updated-nodes index and ghost node sets in [b_aux], node keys in
   [b_store]) extended with the root-node keys (key format 0x06, badger.go:65-68: keyed by the
   typed hash WITHOUT the version, written at the version timestamp).  A durable step is
     SFlush  one WriteBatch.Flush at a version timestamp: node-key writes and root-node-key
             writes of the same batch (Commit: badger.go:1046,1173,1126; Finalize: 694-708;
             Prune: 794,807,834), or
     SMeta   one metadata transaction CommitAt(tsMetadata): roots metadata, updated-nodes
             index, earliest/last (Commit: 1066-1107,1131; Finalize: 688,712-722;
             Prune: 813,839-842).
   The code's order is: data batch first, metadata last.  A crash keeps exactly the steps
   already performed; [reopen] loads the metadata (nothing else is kept in memory; multipart
   cleanup is not part of this file), [retry] plans the operation again on the reopened
   state, exactly as the code would.

   Crash points of hooks/c07-crashpoints.diff and the number of completed steps:
     badger.commit.afterLogFlush 0   badger.commit.afterBatchFlush 1
     badger.finalize.afterBatchFlush 1   badger.finalize.afterMetaCommit 2
     badger.prune.afterBatchFlush 1
   Prune is ported as it is after repo commit 9d3b657 (tolerant retry); plan_orig keeps the
   earlier behaviour. *)
From Verif Require Import Lib.Base NodeDB.Spec NodeDB.Badger.

Record cdb := mkc { c_b : bdb; c_rk : store }.
Definition cdb0 : cdb := mkc bdb0 [].

Inductive step :=
| SFlush (ns rks : list N) (t : N) (b : bool)
| SMeta (m : sdb) (aux : list ((N * N) * raux)).

Definition apply_step (c : cdb) (s : step) : cdb :=
  match s with
  | SFlush ns rks t b =>
      mkc (mkb (b_meta (c_b c)) (b_aux (c_b c)) (write_all ns t b (b_store (c_b c))))
          (write_all rks t b (c_rk c))
  | SMeta m aux => mkc (mkb m aux (b_store (c_b c))) (c_rk c)
  end.

Definition apply_steps (c : cdb) (l : list step) : cdb := fold_left apply_step l c.

(* GetNode: checkRoot first (badger.go:198-212,304), then the node *)
Definition c_visit_root (c : cdb) (ver : N) (r : sroot) : eclass :=
  if negb (visible (r_id r) ver (c_rk c)) then ERootNotFound else visit_root (c_b c) ver r.

Fixpoint c_visit_all (c : cdb) (ver : N) (l : list sroot) : eclass :=
  match l with
  | [] => EOk
  | r :: t => match c_visit_root c ver r with EOk => c_visit_all c ver t | e => e end
  end.

Definition dels_of (d : bdb) (ver : N) (l : list sroot) : list N :=
  flat_map (fun r => filter (fun n => written_at n ver (b_store d))
                            (a_reach (aux_get ver (r_id r) (b_aux d)))) l.

(* the steps an operation would perform on the current state (its checks read the
   metadata; Prune also traverses the lone roots) *)
Definition plan_orig (c : cdb) (o : op) : eclass * list step :=
  let d := c_b c in
  match o with
  | OCommit ver typ rid old ws puts removed reach inl0 =>
      match s_commit (b_meta d) ver typ rid old ws with
      | (EOk, m') =>
          if has_rid rid (roots_at (b_meta d) ver) then (EOk, [])
          else (EOk, [SFlush puts [rid] ver true;
                      SMeta m' (((ver, rid), mkaux puts removed reach inl0) :: b_aux d)])
      | (e, _) => (e, [])
      end
  | OFinalize ver rids =>
      match s_finalize (b_meta d) ver rids with
      | (EOk, m') =>
          (EOk, [SFlush (fin_dels d ver (fin_set (roots_at (b_meta d) ver) rids)) [] ver false;
                 SMeta m' (b_aux d)])
      | (e, _) => (e, [])
      end
  | OPrune ver =>
      match s_prune_check (b_meta d) ver with
      | EOk =>
          match c_visit_all c ver (lone_roots d ver) with
          | EOk => (EOk, [SFlush (dels_of d ver (lone_roots d ver)) (map r_id (lone_roots d ver)) ver false;
                          SMeta (s_prune_do (b_meta d) ver) (b_aux d)])
          | e => (e, [])
          end
      | e => (e, [])
      end
  end.

(* ---- Prune as it is now (repo commit 9d3b657, badger.go Prune: "if errors.Is(err,
   api.ErrRootNotFound) { continue }"): a lone root whose root-node key is already gone was
   processed by an interrupted prune of this version (its nodes were deleted in the same
   batch) and is skipped.  [plan_orig] above keeps the earlier behaviour (the traversal of
   such a root failed the whole Prune) for crash_safe_prune_original_refuted. ---- *)
Definition live_lone (c : cdb) (ver : N) : list sroot :=
  filter (fun r => visible (r_id r) ver (c_rk c)) (lone_roots (c_b c) ver).

Definition plan (c : cdb) (o : op) : eclass * list step :=
  let d := c_b c in
  match o with
  | OPrune ver =>
      match s_prune_check (b_meta d) ver with
      | EOk =>
          match c_visit_all c ver (live_lone c ver) with
          | EOk => (EOk, [SFlush (dels_of d ver (live_lone c ver)) (map r_id (live_lone c ver)) ver false;
                          SMeta (s_prune_do (b_meta d) ver) (b_aux d)])
          | e => (e, [])
          end
      | e => (e, [])
      end
  | _ => plan_orig c o
  end.

Definition run_until (k : nat) (c : cdb) (o : op) : cdb := apply_steps c (firstn k (snd (plan c o))).
Definition run_all (c : cdb) (o : op) : eclass * cdb := (fst (plan c o), apply_steps c (snd (plan c o))).
Definition reopen (c : cdb) : cdb := c.
Definition retry (c : cdb) (o : op) : eclass * cdb := run_all (reopen c) o.

Definition c_run (c : cdb) (h : list op) : cdb := fold_left (fun c o => snd (run_all c o)) h c.

Definition run_until_orig (k : nat) (c : cdb) (o : op) : cdb := apply_steps c (firstn k (snd (plan_orig c o))).
Definition run_all_orig (c : cdb) (o : op) : eclass * cdb := (fst (plan_orig c o), apply_steps c (snd (plan_orig c o))).
Definition retry_orig (c : cdb) (o : op) : eclass * cdb := run_all_orig (reopen c) o.

(* ---- reads ---- *)
(* 0 absent, 1 exact, 2 node missing, 3 root not found *)
Definition c_status (c : cdb) (ver rid : N) : N :=
  if s_has (b_meta (c_b c)) ver rid
  then (if is_empty_rid rid then 1
        else if negb (visible rid ver (c_rk c)) then 3
        else b_status (c_b c) ver rid)
  else 0.

Definition cobs := ((N * option N) * list ((N * N) * N))%type.

Definition c_observe (c : cdb) (known : list (N * N)) : cobs :=
  ((d_earliest (b_meta (c_b c)), d_last (b_meta (c_b c))),
   map (fun p => (p, c_status c (fst p) (snd p))) known).

(* one case of the crash stream: history, interrupted operation, completed steps, roots to
   observe  |->  observation after reopen, class of the retry, observation after the retry *)
Definition crash_case (x : list op * op * nat * list (N * N)) : cobs * eclass * cobs :=
  let '(h, o, k, known) := x in
  let c1 := reopen (run_until k (c_run cdb0 h) o) in
  let r := retry c1 o in
  (c_observe c1 known, fst r, c_observe (snd r) known).

Definition cobs_eqb (a b : cobs) : bool :=
  (fst (fst a) =? fst (fst b)) && optN_eqb (snd (fst a)) (snd (fst b)) &&
  list_eqb (fun x y => pair_eqb (fst x) (fst y) && (snd x =? snd y)) (snd a) (snd b).

Definition crash_eqb (a b : cobs * eclass * cobs) : bool :=
  cobs_eqb (fst (fst a)) (fst (fst b)) && eclass_eqb (snd (fst a)) (snd (fst b)) &&
  cobs_eqb (snd a) (snd b).
