(* NodeDB/GcProofs.v — garbage collection at the discard timestamp "earliest retained version"
   changes no answer; one version higher it does. *)
From Verif Require Import Lib.Base NodeDB.Spec NodeDB.PathBadger NodeDB.Badger NodeDB.BadgerProofs NodeDB.Gc NodeDB.PathBadgerProofs.

(* inserting one write into the log either changes nothing for a reader or makes exactly that
   write the visible one, above or level with what was visible before *)
Lemma best_insert n t l1 n0 ts b l2 :
  best n t (l1 ++ (n0, ts, b) :: l2) = best n t (l1 ++ l2) \/
  (n0 = n /\ best n t (l1 ++ (n0, ts, b) :: l2) = Some (ts, b) /\
   match best n t (l1 ++ l2) with Some (a, _) => a <= ts | None => True end).
Proof.
  induction l1 as [|[[nx tsx] bx] l1 IH]; cbn [app].
  - rewrite best_cons. destruct ((n0 =? n) && (ts <=? t)) eqn:C; [|left; reflexivity].
    apply andb_true_iff in C as [C1 _]. apply N.eqb_eq in C1.
    destruct (best n t l2) as [[a ab]|].
    + destruct (a <=? ts) eqn:E; [|left; reflexivity]. right. apply N.leb_le in E. auto.
    + right. auto.
  - rewrite !best_cons. destruct IH as [IH|[E0 [IA IB]]]; [rewrite IH; left; reflexivity|].
    rewrite IA. destruct ((nx =? n) && (tsx <=? t)) eqn:C.
    + destruct (ts <=? tsx) eqn:E1.
      * left. apply N.leb_le in E1. destruct (best n t (l1 ++ l2)) as [[a ab]|]; [|reflexivity].
        replace (a <=? tsx) with true by (symmetry; apply N.leb_le; lia). reflexivity.
      * apply N.leb_gt in E1. right. split; [exact E0|]. split; [reflexivity|].
        destruct (best n t (l1 ++ l2)) as [[a ab]|]; [|lia].
        destruct (a <=? tsx); [lia|exact IB].
    + right. split; [exact E0|]. split; [reflexivity|exact IB].
Qed.

Lemma best_some n t st ts b : In (n, ts, b) st -> ts <= t -> exists x, best n t st = Some x.
Proof.
  intros HI Hle. destruct (best n t st) as [x|] eqn:B; [exists x; reflexivity|].
  exfalso. exact (best_none _ _ _ _ _ B HI Hle).
Qed.

Theorem gc_best D st st' : gc_rel D st st' -> forall n t, D <= t -> best n t st' = best n t st.
Proof.
  induction 1 as [st|l1 n0 ts b l2 ts' b' st' HI Hlt Hle _ IH]; intros n t Ht; [reflexivity|].
  rewrite (IH n t Ht). destruct (best_insert n t l1 n0 ts b l2) as [E|[E0 [EA EB]]]; [symmetry; exact E|].
  subst n0. exfalso.
  destruct (best_some n t (l1 ++ l2) ts' b' HI ltac:(lia)) as [[a ab] BA]. rewrite BA in EB.
  pose proof (best_max _ _ _ _ _ BA ts' b' HI ltac:(lia)). lia.
Qed.

Lemma forallb_eq {A} (f g : A -> bool) l : (forall x, f x = g x) -> forallb f l = forallb g l.
Proof. intros H. induction l as [|x t IH]; [reflexivity|]. cbn [forallb]. rewrite H, IH. reflexivity. Qed.

(* with the discard timestamp at the earliest retained version no garbage collection changes
   the status of any root, and the invariant of BadgerProofs survives it: compactions can be
   interleaved anywhere in a history *)
Theorem gc_keeps_retained_roots_l d st' :
  gc_rel (d_earliest (b_meta d)) (b_store d) st' ->
  let d' := mkb (b_meta d) (b_aux d) st' in
  (forall v rid, b_status d' v rid = b_status d v rid) /\ (inv d -> inv d').
Proof.
  intros G. cbv zeta.
  assert (V : forall n t, d_earliest (b_meta d) <= t -> visible n t st' = visible n t (b_store d)).
  { intros n t Ht. unfold visible. rewrite (gc_best _ _ _ G n t Ht). reflexivity. }
  split.
  - intros v rid. unfold b_status. cbn [b_meta]. destruct (s_has (b_meta d) v rid) eqn:SH; [|reflexivity].
    destruct (is_empty_rid rid) eqn:EM; [reflexivity|]. cbn [orb].
    unfold s_has in SH. rewrite EM in SH. cbn [orb] in SH. apply andb_true_iff in SH as [SH _]. apply N.leb_le in SH.
    unfold b_readable, all_visible. cbn [b_aux b_store].
    replace (forallb (fun n => visible n v st') (a_need (aux_get v rid (b_aux d))))
      with (forallb (fun n => visible n v (b_store d)) (a_need (aux_get v rid (b_aux d)))); [reflexivity|].
    apply forallb_eq. intros n. symmetry. apply V. exact SH.
  - intros [IR IM]. split; [|exact IM]. intros v r Hev Hh n Hn. cbn [b_meta b_aux b_store] in *.
    destruct (IR v r Hev Hh n Hn) as [A B]. split; [rewrite V by exact Hev; exact A|].
    intros AL t Ht. rewrite V by lia. exact (B AL t Ht).
Qed.

(* one version too high (the seeded change of pathbadger.go Prune): a node removed by version 2
   is dropped although version 1, the earliest retained version, still needs it *)
Definition h_gc : list op :=
  [OCommit 0 1 2 None [(1, 1); (2, 1)] [1; 2; 3] [] [3; 1; 2] []; OFinalize 0 [2];
   OCommit 1 1 3 (Some (0, 2)) [(3, 1)] [4; 5] [3] [5; 1; 2; 4] []; OFinalize 1 [3];
   OCommit 2 1 4 (Some (1, 3)) [(2, 0)] [6] [2; 5] [6; 1; 4] []; OFinalize 2 [4];
   OPrune 0].

Lemma gc_discard_too_high_refuted_l :
  let d := b_run bdb0 h_gc in
  ok_run bdb0 h_gc = true /\ d_earliest (b_meta d) = 1 /\
  b_status d 1 3 = 1 /\ b_status d 2 4 = 1 /\
  (* discard timestamp = earliest: the most aggressive compaction changes nothing *)
  b_status (b_gc 1 d) 1 3 = 1 /\ b_status (b_gc 1 d) 2 4 = 1 /\
  (* discard timestamp = earliest + 1: the earliest retained version loses nodes *)
  b_status (b_gc 2 d) 1 3 = 2 /\ b_status (b_gc 2 d) 2 4 = 1.
Proof. vm_compute. repeat split; reflexivity. Qed.

(* the same on the pathbadger model *)
Definition h_pgc : list pop :=
  [PCommit 0 1 2 None [(1, 1); (2, 1)] [((0, 1), 1); ((0, 2), 2)] []; PFinalize 0 [2];
   PCommit 1 1 3 (Some (0, 2)) [(3, 1)] [((1, 1), 4); ((0, 1), 1); ((1, 2), 5); ((0, 2), 2)] []; PFinalize 1 [3];
   PCommit 2 1 4 (Some (1, 3)) [(2, 0)] [((2, 1), 6); ((0, 1), 1)] [(1, 1); (1, 2); (0, 2)]; PFinalize 2 [4];
   PPrune 0].

Lemma pathbadger_gc_discard_too_high_refuted_l :
  let d := p_run pdb0 h_pgc in
  p_accepted pdb0 h_pgc = true /\ p_earliest d = 1 /\
  p_status d 1 3 = 1 /\ p_status d 2 4 = 1 /\
  p_status (p_gc 1 d) 1 3 = 1 /\ p_status (p_gc 1 d) 2 4 = 1 /\
  p_status (p_gc 2 d) 1 3 = 2 /\ p_status (p_gc 2 d) 2 4 = 1.
Proof. vm_compute. repeat split; reflexivity. Qed.

(* ------------------------------------------------------------------ *)
(* the same theorem for pathbadger's finalized key space               *)
(* ------------------------------------------------------------------ *)
Definition fstore := list ((N * pos) * N * option N).

Lemma fkey_eqb_eq a b : fkey_eqb a b = true <-> a = b.
Proof.
  destruct a as [ta [av ai]], b as [tb [bv bi]]. unfold fkey_eqb, pos_eqb. cbn [fst snd]. split.
  - intros H. apply andb_true_iff in H as [H1 H2]. apply andb_true_iff in H2 as [H2 H3].
    apply N.eqb_eq in H1. apply N.eqb_eq in H2. apply N.eqb_eq in H3. congruence.
  - intros H. injection H as -> -> ->. rewrite !N.eqb_refl. reflexivity.
Qed.

Lemma fbest_cons k t k' ts v (st : fstore) :
  fbest k t ((k', ts, v) :: st) =
  if fkey_eqb k' k && (ts <=? t)
  then match fbest k t st with
       | Some (ts', v') => if ts' <=? ts then Some (ts, v) else fbest k t st
       | None => Some (ts, v)
       end
  else fbest k t st.
Proof.
  cbn [fbest]. destruct (fkey_eqb k' k && (ts <=? t)); [|reflexivity].
  destruct (fbest k t st) as [[ts' v']|]; reflexivity.
Qed.

Lemma fbest_in k t (st : fstore) ts v : fbest k t st = Some (ts, v) -> In (k, ts, v) st /\ ts <= t.
Proof.
  induction st as [|[[k' ts'] v'] r IH]; [discriminate|].
  rewrite fbest_cons. destruct (fkey_eqb k' k && (ts' <=? t)) eqn:C.
  - apply andb_true_iff in C as [C1 C2]. apply fkey_eqb_eq in C1. apply N.leb_le in C2. subst k'.
    destruct (fbest k t r) as [[a av]|] eqn:R.
    + destruct (a <=? ts') eqn:E; intros H.
      * injection H as <- <-. split; [left; reflexivity|exact C2].
      * destruct (IH H) as [HI HB]. split; [right; exact HI|exact HB].
    + intros H. injection H as <- <-. split; [left; reflexivity|exact C2].
  - intros H. destruct (IH H) as [HI HB]. split; [right; exact HI|exact HB].
Qed.

Lemma fbest_none k t (st : fstore) ts v : fbest k t st = None -> In (k, ts, v) st -> ts <= t -> False.
Proof.
  induction st as [|[[k' ts'] v'] r IH]; [intros _ []|].
  rewrite fbest_cons. destruct (fkey_eqb k' k && (ts' <=? t)) eqn:C.
  - destruct (fbest k t r) as [[a av]|]; [destruct (a <=? ts')|]; discriminate.
  - intros HN [HI|HI] Hle.
    + injection HI as -> -> ->. assert (X : fkey_eqb k k = true) by (apply fkey_eqb_eq; reflexivity).
      rewrite X in C. cbn in C. apply N.leb_gt in C. lia.
    + exact (IH HN HI Hle).
Qed.

Lemma fbest_max k t (st : fstore) ts v :
  fbest k t st = Some (ts, v) -> forall ts2 v2, In (k, ts2, v2) st -> ts2 <= t -> ts2 <= ts.
Proof.
  revert ts v. induction st as [|[[k' ts'] v'] r IH]; [discriminate|].
  intros ts v. rewrite fbest_cons. destruct (fkey_eqb k' k && (ts' <=? t)) eqn:C.
  - apply andb_true_iff in C as [C1 C2]. apply fkey_eqb_eq in C1. apply N.leb_le in C2. subst k'.
    destruct (fbest k t r) as [[a av]|] eqn:R.
    + destruct (a <=? ts') eqn:E; intros H ts2 v2 [HI|HI] Hle.
      * injection H as <- <-. injection HI as -> ->. lia.
      * injection H as <- <-. apply N.leb_le in E. specialize (IH a av eq_refl ts2 v2 HI Hle). lia.
      * injection H as <- <-. injection HI as -> ->. apply N.leb_gt in E. lia.
      * exact (IH ts v H ts2 v2 HI Hle).
    + intros H ts2 v2 [HI|HI] Hle.
      * injection H as <- <-. injection HI as -> ->. lia.
      * exfalso. exact (fbest_none k t r ts2 v2 R HI Hle).
  - intros H ts2 v2 [HI|HI] Hle.
    + injection HI as -> -> ->. assert (X : fkey_eqb k k = true) by (apply fkey_eqb_eq; reflexivity).
      rewrite X in C. cbn in C. apply N.leb_gt in C. lia.
    + exact (IH ts v H ts2 v2 HI Hle).
Qed.

Lemma fbest_insert k t (l1 : fstore) k0 ts v l2 :
  fbest k t (l1 ++ (k0, ts, v) :: l2) = fbest k t (l1 ++ l2) \/
  (k0 = k /\ fbest k t (l1 ++ (k0, ts, v) :: l2) = Some (ts, v) /\
   match fbest k t (l1 ++ l2) with Some (a, _) => a <= ts | None => True end).
Proof.
  induction l1 as [|[[kx tsx] vx] l1 IH]; cbn [app].
  - rewrite fbest_cons. destruct (fkey_eqb k0 k && (ts <=? t)) eqn:C; [|left; reflexivity].
    apply andb_true_iff in C as [C1 _]. apply fkey_eqb_eq in C1.
    destruct (fbest k t l2) as [[a av]|].
    + destruct (a <=? ts) eqn:E; [|left; reflexivity]. right. apply N.leb_le in E. auto.
    + right. auto.
  - rewrite !fbest_cons. destruct IH as [IH|[E0 [IA IB]]]; [rewrite IH; left; reflexivity|].
    rewrite IA. destruct (fkey_eqb kx k && (tsx <=? t)) eqn:C.
    + destruct (ts <=? tsx) eqn:E1.
      * left. apply N.leb_le in E1. destruct (fbest k t (l1 ++ l2)) as [[a av]|]; [|reflexivity].
        replace (a <=? tsx) with true by (symmetry; apply N.leb_le; lia). reflexivity.
      * apply N.leb_gt in E1. right. split; [exact E0|]. split; [reflexivity|].
        destruct (fbest k t (l1 ++ l2)) as [[a av]|]; [|lia].
        destruct (a <=? tsx); [lia|exact IB].
    + right. split; [exact E0|]. split; [reflexivity|exact IB].
Qed.

Inductive pgc_rel (D : N) : fstore -> fstore -> Prop :=
| pgc_refl st : pgc_rel D st st
| pgc_drop l1 k ts v l2 ts' v' st' :
    In (k, ts', v') (l1 ++ l2) -> ts < ts' -> ts' <= D ->
    pgc_rel D (l1 ++ l2) st' -> pgc_rel D (l1 ++ (k, ts, v) :: l2) st'.

Theorem pgc_fbest D st st' : pgc_rel D st st' -> forall k t, D <= t -> fbest k t st' = fbest k t st.
Proof.
  induction 1 as [st|l1 k0 ts v l2 ts' v' st' HI Hlt Hle _ IH]; intros k t Ht; [reflexivity|].
  rewrite (IH k t Ht). destruct (fbest_insert k t l1 k0 ts v l2) as [E|[E0 [EA EB]]]; [symmetry; exact E|].
  subst k0. exfalso.
  destruct (fbest k t (l1 ++ l2)) as [[a av]|] eqn:BA.
  - pose proof (fbest_max _ _ _ _ _ BA ts' v' HI ltac:(lia)). lia.
  - exact (fbest_none _ _ _ _ _ BA HI ltac:(lia)).
Qed.

Theorem pathbadger_gc_keeps_retained_roots_l d st' :
  pgc_rel (p_earliest d) (p_fin d) st' ->
  let d' := mkp (p_earliest d) (p_last d) (p_rootkeys d) st' (p_pend d) (p_next d) (p_pseq d) (p_upd d) (p_ghost d) in
  forall v rid, p_status d' v rid = p_status d v rid.
Proof.
  intros G d' v rid. unfold p_status, p_has. subst d'. cbn [p_earliest p_rootkeys].
  unfold has_rootkey at 1. cbn [p_rootkeys]. fold (has_rootkey d v rid).
  destruct (is_empty_rid rid) eqn:EM; cbn [orb]; [reflexivity|].
  destruct ((p_earliest d <=? v) && has_rootkey d v rid) eqn:H; [|reflexivity].
  apply andb_true_iff in H as [H _]. apply N.leb_le in H.
  unfold ghost_of. cbn [p_ghost].
  replace (forallb _ (pr_tree _)) with
    (forallb (fun e => match resolve d v (pr_typ (match kget vr_eqb (v, rid) (p_ghost d) with Some g => g | None => mkproot 0 [] [] end)) rid (fst e) with
                       | Some n => n =? snd e | None => false end)
             (pr_tree (match kget vr_eqb (v, rid) (p_ghost d) with Some g => g | None => mkproot 0 [] [] end))); [reflexivity|].
  apply forallb_eq. intros e. unfold resolve, seq_of, fget. cbn [p_pseq p_pend p_fin].
  rewrite (pgc_fbest _ _ _ G _ v H). reflexivity.
Qed.
