(* NodeDB/SpecProofs.v — properties of the abstract database over all histories. *)
From Verif Require Import Lib.Base NodeDB.Spec NodeDB.Badger NodeDB.BadgerProofs.

(* Prune succeeds only on the earliest version, only if it is finalized and not the last
   finalized one; it advances earliest by one and touches no other version. *)
Lemma s_prune_ok s v s' :
  s_prune s v = (EOk, s') ->
  exists l, d_last s = Some l /\ v = d_earliest s /\ v < l /\
            d_earliest s' = v + 1 /\ d_last s' = Some l /\
            (forall u, u <> v -> roots_at s' u = roots_at s u) /\ roots_at s' v = [].
Proof.
  unfold s_prune, s_prune_check. destruct (d_last s) as [l|] eqn:DL; [|discriminate].
  destruct (l <? v) eqn:E1; [discriminate|].
  destruct (negb (v =? d_earliest s)) eqn:E2; [discriminate|].
  destruct (v =? l) eqn:E3; [discriminate|].
  intros H. injection H as <-. exists l.
  apply N.ltb_ge in E1. apply negb_false_iff in E2. apply N.eqb_eq in E2. apply N.eqb_neq in E3.
  unfold s_prune_do. cbn [d_earliest d_last].
  split; [reflexivity|split; [exact E2|split; [lia|split; [reflexivity|split; [exact DL|split]]]]].
  - intros u Hu. destruct s as [e la vs]. cbn [d_last d_vers]. unfold roots_at. cbn [d_vers]. rewrite aget_adel_other; [reflexivity|congruence].
  - unfold roots_at. cbn [d_vers]. rewrite aget_adel_same. reflexivity.
Qed.

Lemma s_prune_err s v e s' : s_prune s v = (e, s') -> e <> EOk -> s' = s.
Proof.
  unfold s_prune. destruct (s_prune_check s v); intros H; injection H as <- <-; intros NE;
    try reflexivity. exfalso. apply NE. reflexivity.
Qed.

Lemma find_root_app rid l x r :
  find_root rid l = Some r -> find_root rid (l ++ [x]) = Some r.
Proof.
  induction l as [|y t IH]; cbn [find_root app]; [discriminate|].
  destruct (r_id y =? rid); [intros H; exact H|exact IH].
Qed.

Lemma find_root_add_derived rid o n l r :
  find_root rid l = Some r ->
  exists r', find_root rid (add_derived o n l) = Some r' /\ r_cont r' = r_cont r /\ r_id r' = r_id r.
Proof.
  induction l as [|y t IH]; cbn [find_root add_derived]; [discriminate|].
  destruct (r_id y =? o) eqn:E; cbn [find_root r_id].
  - destruct (r_id y =? rid).
    + intros H. injection H as <-. eexists. split; [reflexivity|split; reflexivity].
    + intros H. exists r. split; [exact H|split; reflexivity].
  - destruct (r_id y =? rid).
    + intros H. injection H as <-. eexists. split; [reflexivity|split; reflexivity].
    + exact IH.
Qed.

(* a successful commit into version [ver] leaves the contents of every root of every other
   version unchanged (only derived-root links are appended) *)
Lemma s_commit_other m ver typ rid old ws m' v r x :
  s_commit m ver typ rid old ws = (EOk, m') -> v <> ver ->
  find_root r (roots_at m v) = Some x ->
  exists x', find_root r (roots_at m' v) = Some x' /\ r_cont x' = r_cont x.
Proof.
  unfold s_commit. destruct m as [ea la vs]. cbn [d_earliest d_last].
  match goal with |- context [apply_writes ws ?c] => generalize c end. intros oc.
  match goal with |- (match ?pre with EOk => _ | _ => _ end) = _ -> _ => destruct pre; try discriminate end.
  match goal with |- (if ?c then _ else _) = _ -> _ => destruct c; [intros H; discriminate|] end.
  destruct (last_geb (mkdb ea la vs) ver); [intros H; discriminate|].
  destruct (has_rid rid (roots_at (mkdb ea la vs) ver)).
  { intros H. injection H as <-. intros _ HF. exists x. split; [exact HF|reflexivity]. }
  assert (A : forall l0, v <> ver -> roots_at (mkdb ea la (set_roots (mkdb ea la vs) ver l0)) v = roots_at (mkdb ea la vs) v).
  { intros l0 NE. unfold set_roots. cbn [d_vers]. rewrite roots_at_set.
    destruct (ver =? v) eqn:E; [apply N.eqb_eq in E; congruence|reflexivity]. }
  destruct old as [[over orid]|].
  - destruct (is_empty_rid orid).
    + intros H. injection H as <-. intros NE HF. rewrite A by exact NE. exists x. split; [exact HF|reflexivity].
    + destruct ((over <? ea) && negb (over =? ver)); [intros H; discriminate|].
      destruct (negb (has_rid orid (roots_at (mkdb ea la vs) over))); [intros H; discriminate|].
      intros H. injection H as <-. intros NE HF. unfold set_roots at 1. cbn [d_vers]. rewrite roots_at_set.
      destruct (over =? v) eqn:E.
      * apply N.eqb_eq in E. subst over. rewrite A by exact NE.
        destruct (find_root_add_derived r orid rid _ x HF) as [x' [H1 [H2 _]]]. exists x'. split; assumption.
      * rewrite A by exact NE. exists x. split; [exact HF|reflexivity].
  - intros H. injection H as <-. intros NE HF. rewrite A by exact NE. exists x. split; [exact HF|reflexivity].
Qed.

Lemma s_read_some s v rid c :
  is_empty_rid rid = false ->
  (s_read s v rid = Some c <->
   d_earliest s <= v /\ exists x, find_root rid (roots_at s v) = Some x /\ r_cont x = c).
Proof.
  intros EM. unfold s_read. rewrite EM. destruct (d_earliest s <=? v) eqn:E.
  - apply N.leb_le in E. destruct (find_root rid (roots_at s v)) as [x|]; split.
    + intros H. injection H as <-. split; [exact E|]. exists x. split; reflexivity.
    + intros [_ [x' [H1 H2]]]. injection H1 as <-. rewrite H2. reflexivity.
    + discriminate.
    + intros [_ [x' [H1 _]]]. discriminate.
  - apply N.leb_gt in E. split; [discriminate|]. intros [H _]. lia.
Qed.

(* one step: a root of a finalized version keeps its contents unless that version is pruned *)
Lemma s_step_finalized_read s o v rid c :
  last_geb s v = true -> s_read s v rid = Some c ->
  let s' := snd (s_step s o) in
  d_earliest s' <= v ->
  s_read s' v rid = Some c /\ last_geb s' v = true /\ d_earliest s <= d_earliest s'.
Proof.
  intros LG HR s' HE. subst s'.
  destruct (is_empty_rid rid) eqn:EM.
  { assert (X : forall s0, s_read s0 v rid = Some c).
    { intros s0. unfold s_read in *. rewrite EM in *. exact HR. }
    split; [apply X|].
    unfold last_geb in *. destruct (d_last s) as [l|] eqn:DL; [|discriminate].
    destruct o as [ver typ r2 old ws p1 p2 p3 p4|ver rids|ver]; cbn [s_step] in *.
    - destruct (s_commit s ver typ r2 old ws) as [e m'] eqn:SC. cbn [snd] in *. destruct e;
        try (rewrite (s_commit_err _ _ _ _ _ _ _ _ SC) by discriminate; rewrite DL; split; [exact LG|lia]).
      destruct (s_commit_ok _ _ _ _ _ _ _ SC) as [H1 [H2 _]]. rewrite H2, H1, DL. split; [exact LG|lia].
    - destruct (s_finalize s ver rids) as [e m'] eqn:SF. cbn [snd] in *. destruct e;
        try (rewrite (s_finalize_err _ _ _ _ _ SF) by discriminate; rewrite DL; split; [exact LG|lia]).
      destruct (s_finalize_ok _ _ _ _ SF) as [H1 [H2 [H3 _]]]. rewrite H1, H3, DL.
      unfold last_geb in H2. rewrite DL in H2. apply N.leb_le in LG. apply N.leb_gt in H2.
      split; [apply N.leb_le; lia|lia].
    - destruct (s_prune s ver) as [e m'] eqn:SP. cbn [snd] in *. destruct e;
        try (rewrite (s_prune_err _ _ _ _ SP) by discriminate; rewrite DL; split; [exact LG|lia]).
      destruct (s_prune_ok _ _ _ SP) as [l2 [H1 [H2 [H3 [H4 [H5 _]]]]]]. rewrite H5, H4.
      rewrite DL in H1. injection H1 as <-. split; [exact LG|lia]. }
  apply (s_read_some s v rid c EM) in HR as [HEA [x [HF HC]]].
  unfold last_geb in LG. destruct (d_last s) as [l|] eqn:DL; [|discriminate]. apply N.leb_le in LG.
  destruct o as [ver typ r2 old ws p1 p2 p3 p4|ver rids|ver]; cbn [s_step] in *.
  - destruct (s_commit s ver typ r2 old ws) as [e m'] eqn:SC. cbn [snd] in *.
    assert (U : e <> EOk -> s_read m' v rid = Some c /\ last_geb m' v = true /\ d_earliest s <= d_earliest m').
    { intros NE. rewrite (s_commit_err _ _ _ _ _ _ _ _ SC NE). split; [|split; [|lia]].
      - apply (s_read_some s v rid c EM). split; [exact HEA|]. exists x. split; assumption.
      - unfold last_geb. rewrite DL. apply N.leb_le. exact LG. }
    destruct e; try (apply U; discriminate).
    destruct (s_commit_ok _ _ _ _ _ _ _ SC) as [H1 [H2 [H3 _]]].
    unfold last_geb in H3. rewrite DL in H3. apply N.leb_gt in H3.
    assert (NE : v <> ver) by lia.
    destruct (s_commit_other _ _ _ _ _ _ _ v rid x SC NE HF) as [x' [HF' HC']].
    split; [|split].
    + apply (s_read_some m' v rid c EM). split; [lia|]. exists x'. split; [exact HF'|congruence].
    + unfold last_geb. rewrite H2, DL. apply N.leb_le. exact LG.
    + lia.
  - destruct (s_finalize s ver rids) as [e m'] eqn:SF. cbn [snd] in *.
    assert (U : e <> EOk -> s_read m' v rid = Some c /\ last_geb m' v = true /\ d_earliest s <= d_earliest m').
    { intros NE. rewrite (s_finalize_err _ _ _ _ _ SF NE). split; [|split; [|lia]].
      - apply (s_read_some s v rid c EM). split; [exact HEA|]. exists x. split; assumption.
      - unfold last_geb. rewrite DL. apply N.leb_le. exact LG. }
    destruct e; try (apply U; discriminate).
    destruct (s_finalize_ok _ _ _ _ SF) as [H1 [H2 [H3 [H4 _]]]].
    unfold last_geb in H2. rewrite DL in H2. apply N.leb_gt in H2. rewrite DL in H3.
    assert (NE : v <> ver) by lia.
    split; [|split].
    + apply (s_read_some m' v rid c EM). split; [lia|]. exists x. rewrite (H4 v NE). split; assumption.
    + unfold last_geb. rewrite H1. apply N.leb_le. lia.
    + lia.
  - destruct (s_prune s ver) as [e m'] eqn:SP. cbn [snd] in *.
    assert (U : e <> EOk -> s_read m' v rid = Some c /\ last_geb m' v = true /\ d_earliest s <= d_earliest m').
    { intros NE. rewrite (s_prune_err _ _ _ _ SP NE). split; [|split; [|lia]].
      - apply (s_read_some s v rid c EM). split; [exact HEA|]. exists x. split; assumption.
      - unfold last_geb. rewrite DL. apply N.leb_le. exact LG. }
    destruct e; try (apply U; discriminate).
    destruct (s_prune_ok _ _ _ SP) as [l2 [H1 [H2 [H3 [H4 [H5 [H6 _]]]]]]].
    assert (NE : v <> ver) by lia.
    split; [|split].
    + apply (s_read_some m' v rid c EM). split; [lia|]. exists x. rewrite (H6 v NE). split; assumption.
    + unfold last_geb. rewrite H5. rewrite DL in H1. injection H1 as <-. apply N.leb_le. exact LG.
    + lia.
Qed.

Lemma earliest_mono_step s o :
  d_last s <> None ->
  d_earliest s <= d_earliest (snd (s_step s o)) /\ d_last (snd (s_step s o)) <> None.
Proof.
  intros DL. destruct o as [ver typ r2 old ws p1 p2 p3 p4|ver rids|ver]; cbn [s_step].
  - destruct (s_commit s ver typ r2 old ws) as [e m'] eqn:SC. cbn [snd].
    destruct e; try (rewrite (s_commit_err _ _ _ _ _ _ _ _ SC) by discriminate; split; [lia|exact DL]).
    destruct (s_commit_ok _ _ _ _ _ _ _ SC) as [H1 [H2 _]]. rewrite H1, H2. split; [lia|exact DL].
  - destruct (s_finalize s ver rids) as [e m'] eqn:SF. cbn [snd].
    destruct e; try (rewrite (s_finalize_err _ _ _ _ _ SF) by discriminate; split; [lia|exact DL]).
    destruct (s_finalize_ok _ _ _ _ SF) as [H1 [_ [H3 _]]]. rewrite H1, H3.
    destruct (d_last s); [split; [lia|discriminate]|exfalso; apply DL; reflexivity].
  - destruct (s_prune s ver) as [e m'] eqn:SP. cbn [snd].
    destruct e; try (rewrite (s_prune_err _ _ _ _ SP) by discriminate; split; [lia|exact DL]).
    destruct (s_prune_ok _ _ _ SP) as [l2 [H1 [H2 [H3 [H4 [H5 _]]]]]]. rewrite H4, H5.
    split; [lia|discriminate].
Qed.

Lemma earliest_mono_run h : forall s, d_last s <> None -> d_earliest s <= d_earliest (s_run s h).
Proof.
  induction h as [|o t IH]; intros s DL; [unfold s_run; cbn; lia|].
  unfold s_run in *. cbn [fold_left]. destruct (earliest_mono_step s o DL) as [H1 H2].
  specialize (IH _ H2). lia.
Qed.

(* all histories: a root of a finalized version reads back the same contents after any
   continuation that does not prune that version *)
Lemma s_finalized_stable h : forall s v rid c,
  last_geb s v = true -> s_read s v rid = Some c ->
  d_earliest (s_run s h) <= v -> s_read (s_run s h) v rid = Some c.
Proof.
  induction h as [|o t IH]; intros s v rid c LG HR HE; [exact HR|].
  assert (DL : d_last s <> None) by (unfold last_geb in LG; destruct (d_last s); [discriminate|discriminate]).
  destruct (earliest_mono_step s o DL) as [M1 M2].
  pose proof (earliest_mono_run t _ M2) as M3.
  unfold s_run in *. cbn [fold_left] in *.
  assert (Hle : d_earliest (snd (s_step s o)) <= v) by lia.
  destruct (s_step_finalized_read s o v rid c LG HR Hle) as [R1 [L1 _]].
  exact (IH _ _ _ _ L1 R1 HE).
Qed.

(* all histories: whatever happens later, a root that was once present with contents c is
   afterwards absent or present with exactly c - provided it can no longer be re-created,
   i.e. its version is finalized or already pruned. *)
Lemma s_step_absent s o v rid :
  last_geb s v = true -> has_rid rid (roots_at s v) = false ->
  last_geb (snd (s_step s o)) v = true /\ has_rid rid (roots_at (snd (s_step s o)) v) = false.
Proof.
  intros LG HA. unfold last_geb in LG. destruct (d_last s) as [l|] eqn:DL; [|discriminate].
  apply N.leb_le in LG.
  assert (U : forall m', m' = s -> last_geb m' v = true /\ has_rid rid (roots_at m' v) = false).
  { intros m' ->. split; [unfold last_geb; rewrite DL; apply N.leb_le; exact LG|exact HA]. }
  destruct o as [ver typ r2 old ws p1 p2 p3 p4|ver rids|ver]; cbn [s_step].
  - destruct (s_commit s ver typ r2 old ws) as [e m'] eqn:SC. cbn [snd].
    destruct e; try (apply U; apply (s_commit_err _ _ _ _ _ _ _ _ SC); discriminate).
    destruct (s_commit_ok _ _ _ _ _ _ _ SC) as [H1 [H2 [H3 [_ [H5 _]]]]].
    unfold last_geb in H3. rewrite DL in H3. apply N.leb_gt in H3.
    split; [unfold last_geb; rewrite H2, DL; apply N.leb_le; exact LG|].
    destruct (has_rid rid (roots_at m' v)) eqn:X; [|reflexivity].
    destruct (H5 v rid X) as [Y|[Y _]]; [congruence|lia].
  - destruct (s_finalize s ver rids) as [e m'] eqn:SF. cbn [snd].
    destruct e; try (apply U; apply (s_finalize_err _ _ _ _ _ SF); discriminate).
    destruct (s_finalize_ok _ _ _ _ SF) as [H1 [H2 [H3 [H4 _]]]].
    unfold last_geb in H2. rewrite DL in H2. apply N.leb_gt in H2.
    split; [unfold last_geb; rewrite H1; apply N.leb_le; lia|].
    rewrite H4 by lia. exact HA.
  - destruct (s_prune s ver) as [e m'] eqn:SP. cbn [snd].
    destruct e; try (apply U; apply (s_prune_err _ _ _ _ SP); discriminate).
    destruct (s_prune_ok _ _ _ SP) as [l2 [H1 [H2 [H3 [H4 [H5 [H6 H7]]]]]]].
    split; [unfold last_geb; rewrite H5; rewrite DL in H1; injection H1 as <-; apply N.leb_le; exact LG|].
    destruct (N.eq_dec v ver) as [->|NE]; [rewrite H7; reflexivity|rewrite H6 by exact NE; exact HA].
Qed.

Lemma s_absent_stable h : forall s v rid,
  last_geb s v = true -> has_rid rid (roots_at s v) = false ->
  has_rid rid (roots_at (s_run s h) v) = false.
Proof.
  induction h as [|o t IH]; intros s v rid LG HA; [exact HA|].
  unfold s_run in *. cbn [fold_left]. destruct (s_step_absent s o v rid LG HA) as [L1 A1].
  exact (IH _ _ _ L1 A1).
Qed.

(* once a version is finalized, each of its candidate roots is, after any continuation,
   either reported absent or read back with exactly the contents it had *)
Lemma s_absent_or_exact h s v rid :
  last_geb s v = true ->
  s_read (s_run s h) v rid = None \/ s_read (s_run s h) v rid = s_read s v rid.
Proof.
  intros LG. destruct (is_empty_rid rid) eqn:EM.
  { right. unfold s_read. rewrite EM. reflexivity. }
  destruct (s_read s v rid) as [c|] eqn:R0.
  - destruct (N.le_gt_cases (d_earliest (s_run s h)) v) as [Hle|Hgt].
    + right. exact (s_finalized_stable h s v rid c LG R0 Hle).
    + left. unfold s_read. rewrite EM. apply N.leb_gt in Hgt. rewrite Hgt. reflexivity.
  - left.
    assert (DL : d_last s <> None) by (unfold last_geb in LG; destruct (d_last s); discriminate).
    pose proof (earliest_mono_run h s DL) as MO.
    unfold s_read in *. rewrite EM in *.
    destruct (d_earliest (s_run s h) <=? v) eqn:E2; [|reflexivity]. apply N.leb_le in E2.
    destruct (d_earliest s <=? v) eqn:E; [|apply N.leb_gt in E; lia].
    assert (HA : has_rid rid (roots_at s v) = false).
    { unfold has_rid. destruct (find_root rid (roots_at s v)); [discriminate|reflexivity]. }
    pose proof (s_absent_stable h s v rid LG HA) as X. unfold has_rid in X.
    destruct (find_root rid (roots_at (s_run s h) v)); [discriminate|reflexivity].
Qed.
