(* NodeDB/Gc.v — Badger's physical garbage collection below the discard timestamp.

   Executable definitions (and the relation the theorems quantify over).  In managed mode a
   compaction may drop, for a key, every version that is older than another version of the same
   key whose timestamp is at or below the discard timestamp (db.SetDiscardTs): such a version can
   only be seen by reads below the discard timestamp.  The backends set the discard timestamp to
   the timestamp of the earliest retained version: badger.go Prune (SetDiscardTs(versionToTs(
   version+1)) after earliest became version+1) and New (versionToTs(earliest)-1, more
   conservative); pathbadger.go Prune likewise.  Dropping a deletion marker together with
   everything below it does not change any read either and is not modelled separately. *)
From Verif Require Import Lib.Base NodeDB.Spec NodeDB.PathBadger NodeDB.Badger.

(* one compaction may drop any subset of the dominated versions, one after the other *)
Inductive gc_rel (D : N) : store -> store -> Prop :=
| gc_refl st : gc_rel D st st
| gc_drop l1 n ts b l2 ts' b' st' :
    In (n, ts', b') (l1 ++ l2) -> ts < ts' -> ts' <= D ->
    gc_rel D (l1 ++ l2) st' -> gc_rel D (l1 ++ (n, ts, b) :: l2) st'.

(* the most aggressive compaction: every dominated version is dropped *)
Definition dominated (D : N) (st : store) (e : N * N * bool) : bool :=
  existsb (fun e' => (fst (fst e') =? fst (fst e)) && (snd (fst e) <? snd (fst e')) && (snd (fst e') <=? D)) st.
Definition gc_all (D : N) (st : store) : store := filter (fun e => negb (dominated D st e)) st.

Definition b_gc (D : N) (d : bdb) : bdb := mkb (b_meta d) (b_aux d) (gc_all D (b_store d)).

(* the same for pathbadger's finalized key space *)
Definition fdominated (D : N) (st : list ((N * pos) * N * option N)) (e : (N * pos) * N * option N) : bool :=
  existsb (fun e' => fkey_eqb (fst (fst e')) (fst (fst e)) && (snd (fst e) <? snd (fst e')) && (snd (fst e') <=? D)) st.
Definition p_gc (D : N) (d : pdb) : pdb :=
  mkp (p_earliest d) (p_last d) (p_rootkeys d)
      (filter (fun e => negb (fdominated D (p_fin d) e)) (p_fin d))
      (p_pend d) (p_next d) (p_pseq d) (p_upd d) (p_ghost d).
