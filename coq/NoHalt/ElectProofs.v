(* C10: when exactly the validator election (fatal by design) fails.  Uses the election
   model of Verif.Sched.Elect (read-only). *)
From Verif Require Import Lib.Base Sched.Elect.

Local Ltac b2p :=
  repeat match goal with
  | H : (_ =? _) = true |- _ => apply N.eqb_eq in H
  | H : (_ =? _) = false |- _ => apply N.eqb_neq in H
  | H : (_ <? _) = true |- _ => apply N.ltb_lt in H
  | H : (_ <? _) = false |- _ => apply N.ltb_ge in H
  | H : (_ <=? _) = true |- _ => apply N.leb_le in H
  | H : (_ <=? _) = false |- _ => apply N.leb_gt in H
  end.

(* ---------- VotingPowerFromStake (scheduler/api/api.go:300-333) ---------- *)
(* linear distribution: the conversion fails exactly from 2^63 * 16 = 2^67 base units on *)
Lemma voting_power_linear_none_iff s :
  voting_power false s = None <-> 2 ^ 67 <= s.
Proof.
  unfold voting_power, BASE_UNITS_PER_POWER.
  assert (E : 2 ^ 67 = 16 * 2 ^ 63) by reflexivity.
  destruct (s / 16 =? 0) eqn:E0; b2p.
  - split; [discriminate|]. intros H. exfalso.
    assert (2 ^ 63 <= s / 16) by (apply N.div_le_lower_bound; lia). lia.
  - destruct (s / 16 <? 2 ^ 63) eqn:E1; b2p.
    + split; [discriminate|]. intros H. exfalso.
      assert (2 ^ 63 <= s / 16) by (apply N.div_le_lower_bound; lia). lia.
    + split; [intros _|reflexivity].
      rewrite E. eapply N.le_trans; [apply N.mul_le_mono_l; exact E1|].
      apply N.mul_div_le. lia.
Qed.

(* under the genesis bound on the total supply (scheduler genesis.go:160-171: the power
   of the whole supply is at most MaxInt64/8) no stake can overflow *)
Lemma voting_power_defined_under_supply_bound s supply :
  s <= supply -> supply / 16 <= (2 ^ 63 - 1) / 8 -> voting_power false s <> None.
Proof.
  intros Hs Hb H. apply voting_power_linear_none_iff in H.
  assert (2 ^ 63 <= supply / 16).
  { apply N.div_le_lower_bound; [lia|]. change (16 * 2 ^ 63) with (2 ^ 67). lia. }
  assert ((2 ^ 63 - 1) / 8 < 2 ^ 63) by (apply N.div_lt_upper_bound; [lia|]; lia).
  lia.
Qed.

(* ---------- the elect loop ---------- *)
Lemma adel_notin {V} k (l : list (N * V)) : ~ In k (map fst l) -> adel k l = l.
Proof.
  induction l as [|[k' v] r IH]; cbn [adel map fst In]; intros H; [reflexivity|].
  destruct (k' =? k) eqn:E; b2p; [exfalso; apply H; left; exact E|].
  f_equal. apply IH. intros Hin. apply H. right. exact Hin.
Qed.

Lemma aset_keys_notin {V} k (v : V) l :
  ~ In k (map fst l) -> map fst (aset k v l) = k :: map fst l.
Proof. intros H. unfold aset. cbn [map fst]. rewrite adel_notin by exact H. reflexivity. Qed.

Definition powers_defined (p : params) (ents : list entity) (cs : list node) : Prop :=
  forall n, In n cs -> node_power p ents n <> None.

(* number of validators the loop ends with: every candidate is inserted until the
   maximum is reached (checked AFTER the insertion, so at least one is taken) *)
Lemma fill_length p ents : forall cs acc ve,
  powers_defined p ents cs -> NoDup (map n_cons cs) ->
  (forall n, In n cs -> ~ In (n_cons n) (map fst acc)) ->
  exists acc' ve', fill p ents cs acc ve = Some (acc', ve') /\
    length acc' = match cs with
                  | [] => length acc
                  | _ => Nat.min (length acc + length cs) (Nat.max (N.to_nat (p_max p)) (length acc + 1))
                  end.
Proof.
  induction cs as [|n r IH]; intros acc ve Hp Hnd Hfresh; cbn [fill].
  - exists acc, ve. split; reflexivity.
  - destruct (node_power p ents n) as [pw|] eqn:Epw; [|exfalso; apply (Hp n); [left; reflexivity|exact Epw]].
    assert (Hk : ~ In (n_cons n) (map fst acc)) by (apply Hfresh; left; reflexivity).
    remember (aset (n_cons n) (n_id n, n_ent n, pw) acc) as acc1 eqn:Eacc1.
    assert (Hkeys : map fst acc1 = n_cons n :: map fst acc) by (subst acc1; apply aset_keys_notin; exact Hk).
    assert (Hlen1 : length acc1 = S (length acc)).
    { pose proof (f_equal (@length N) Hkeys) as HL. cbn [length] in HL.
      rewrite !map_length in HL. exact HL. }
    unfold len, vmap, vinfo in *. destruct (p_max p <=? N.of_nat (length acc1)) eqn:E; b2p.
    + exists acc1, (n_ent n :: ve). split; [reflexivity|]. rewrite Hlen1. cbn [length]. lia.
    + cbn [map] in Hnd. inversion Hnd as [|x l Hnotin Hnd']; subst x l.
      destruct (IH acc1 (n_ent n :: ve)) as [acc' [ve' [Hf Hl]]].
      * intros m Hm. apply Hp. right. exact Hm.
      * exact Hnd'.
      * intros m Hm. rewrite Hkeys. cbn [In]. intros [He|Hin].
        -- apply Hnotin. rewrite He. apply in_map. exact Hm.
        -- apply (Hfresh m); [right; exact Hm|exact Hin].
      * exists acc', ve'. split; [exact Hf|]. rewrite Hl, Hlen1.
        destruct r as [|m r']; cbn [length] in *; lia.
Qed.

(* The election fails EXACTLY in these cases (given that consensus keys are unique among
   the candidates -- the registry enforces it -- and no voting power overflows):
   - no stake-eligible validator candidate at all: "failed to elect any validators";
   - fewer candidates than MinValidators (after the MaxValidators cut): "insufficient validators". *)
Lemma election_outcome p ents perm_e cands sh :
  let seq := cand_seq_sh p ents perm_e cands sh in
  powers_defined p ents seq -> NoDup (map n_cons seq) ->
  match seq with
  | [] => elect_core p ents perm_e cands sh = VErrNone
  | _ =>
      let k := N.min (len seq) (N.max (p_max p) 1) in
      if k <? p_min p
      then elect_core p ents perm_e cands sh = VErrInsufficient
      else exists vals vents, elect_core p ents perm_e cands sh = VOk vals vents
  end.
Proof.
  intros seq Hp Hnd. unfold elect_core. fold seq.
  destruct (fill_length p ents seq [] [] Hp Hnd) as [acc [ve [Hf Hl]]].
  { intros n _ []. }
  rewrite Hf. destruct seq as [|n r] eqn:Es.
  - cbn [length] in Hl. unfold len. rewrite Hl. reflexivity.
  - cbn zeta.
    assert (Hk : len acc = N.min (len (n :: r)) (N.max (p_max p) 1)).
    { unfold len. rewrite Hl. cbn [length]. lia. }
    rewrite <- Hk.
    assert (Hnz : len acc <> 0).
    { rewrite Hk. unfold len. cbn [length]. lia. }
    rewrite (proj2 (N.eqb_neq _ 0) Hnz).
    destruct (len acc <? p_min p); [reflexivity|]. do 2 eexists. reflexivity.
Qed.

(* the documented precondition in model terms: if at least MinValidators candidates (and
   MaxValidators allows that many) remain, the election succeeds *)
Lemma election_succeeds_under_precondition p ents perm_e cands sh :
  let seq := cand_seq_sh p ents perm_e cands sh in
  powers_defined p ents seq -> NoDup (map n_cons seq) ->
  seq <> [] -> p_min p <= len seq -> p_min p <= N.max (p_max p) 1 ->
  exists vals vents, elect_core p ents perm_e cands sh = VOk vals vents.
Proof.
  intros seq Hp Hnd Hne H1 H2.
  pose proof (election_outcome p ents perm_e cands sh Hp Hnd) as H. fold seq in H.
  destruct seq as [|n r]; [contradiction|]. cbn zeta in H.
  destruct (N.min (len (n :: r)) (N.max (p_max p) 1) <? p_min p) eqn:E; b2p; [lia|exact H].
Qed.

(* a voting power overflow is the only other failure *)
Lemma election_power_error_iff p ents perm_e cands sh :
  elect_core p ents perm_e cands sh = VErrPower <->
  fill p ents (cand_seq_sh p ents perm_e cands sh) [] [] = None.
Proof.
  unfold elect_core. destruct (fill p ents _ [] []) as [[acc ve]|].
  - split; [|discriminate]. destruct (len acc =? 0); [discriminate|].
    destruct (len acc <? p_min p); discriminate.
  - split; reflexivity.
Qed.

(* ---------- scheduler parameter changes (scheduler/api/sanity_check.go:31-62 after commit
   2b1f48e; apps/scheduler/messages.go:35-41: changes.SanityCheck, Apply, params.SanityCheck) ----------
   Go ints are signed: the proposed values are in Z.  None = the proposal is refused. *)
Definition sched_change (cmin cmax : option Z) (pmin pmax : Z) : option (Z * Z) :=
  let bad c := match c with Some v => (v <=? 0)%Z | None => false end in
  if bad cmin || bad cmax then None                       (* ConsensusParameterChanges.SanityCheck :55-60 *)
  else
    let pmin' := match cmin with Some v => v | None => pmin end in   (* Apply *)
    let pmax' := match cmax with Some v => v | None => pmax end in
    if (0 <? pmax')%Z && (pmax' <? pmin')%Z then None     (* ConsensusParameters.SanityCheck :41-43 *)
    else Some (pmin', pmax').

(* the same without the checks added by 2b1f48e *)
Definition sched_change_original (cmin cmax : option Z) (pmin pmax : Z) : option (Z * Z) :=
  Some (match cmin with Some v => v | None => pmin end, match cmax with Some v => v | None => pmax end).

(* positive and consistent, as InitChain requires (apps/scheduler/genesis.go:29-34) together
   with the parameter sanity check *)
Definition sched_consistent (pmin pmax : Z) : Prop := (0 < pmin /\ 0 < pmax /\ pmin <= pmax)%Z.

(* a history of proposed changes: refused ones leave the parameters alone *)
Fixpoint sched_run (cs : list (option Z * option Z)) (pmin pmax : Z) : Z * Z :=
  match cs with
  | [] => (pmin, pmax)
  | (cmin, cmax) :: r =>
      match sched_change cmin cmax pmin pmax with
      | Some (a, b) => sched_run r a b
      | None => sched_run r pmin pmax
      end
  end.

Lemma sched_change_consistent cmin cmax pmin pmax a b :
  sched_consistent pmin pmax -> sched_change cmin cmax pmin pmax = Some (a, b) -> sched_consistent a b.
Proof.
  intros [H1 [H2 H3]]. unfold sched_change.
  destruct cmin as [x|], cmax as [y|]; cbn [orb];
    repeat match goal with
    | |- context [(?u <=? 0)%Z] => destruct (Z.leb_spec u 0); cbn [orb]
    end; try discriminate;
    repeat match goal with
    | |- context [(0 <? ?u)%Z] => destruct (Z.ltb_spec 0 u); cbn [andb]
    | |- context [(?u <? ?v)%Z] => destruct (Z.ltb_spec u v); cbn [andb]
    end; try discriminate; intros E; injection E as <- <-; unfold sched_consistent; lia.
Qed.

Lemma sched_run_consistent cs : forall pmin pmax,
  sched_consistent pmin pmax ->
  sched_consistent (fst (sched_run cs pmin pmax)) (snd (sched_run cs pmin pmax)).
Proof.
  induction cs as [|[cmin cmax] r IH]; intros pmin pmax H; cbn [sched_run]; [exact H|].
  destruct (sched_change cmin cmax pmin pmax) as [[a b]|] eqn:E.
  - apply IH. eapply sched_change_consistent; eassumption.
  - apply IH. exact H.
Qed.

(* Through parameter changes alone the election's "insufficient validators" failure is
   unreachable: whatever changes were proposed, with the resulting MinValidators / MaxValidators
   the election succeeds as soon as MinValidators stake-eligible candidates exist. *)
Lemma election_not_insufficient_by_parameters cs pmin0 pmax0 p ents perm_e cands sh :
  sched_consistent pmin0 pmax0 ->
  Z.of_N (p_min p) = fst (sched_run cs pmin0 pmax0) ->
  Z.of_N (p_max p) = snd (sched_run cs pmin0 pmax0) ->
  let seq := cand_seq_sh p ents perm_e cands sh in
  powers_defined p ents seq -> NoDup (map n_cons seq) ->
  p_min p <= len seq ->
  exists vals vents, elect_core p ents perm_e cands sh = VOk vals vents.
Proof.
  intros Hc Hmin Hmax seq Hp Hnd Hlen.
  pose proof (sched_run_consistent cs pmin0 pmax0 Hc) as [H1 [H2 H3]].
  rewrite <- Hmin in H1, H3. rewrite <- Hmax in H2, H3.
  apply election_succeeds_under_precondition; try assumption.
  - intros E. fold seq in E. rewrite E in Hlen. unfold len in Hlen. cbn in Hlen. lia.
  - lia.
Qed.

(* the ORIGINAL change handler accepted {min 2, max 1}: a concrete election with two eligible
   validators then fails with "insufficient validators" *)
Definition ex_node (i : N) : node := mkNode i i (100 + i) 8 1000 0 0 [] [].
Lemma sched_change_original_refuted :
  sched_change_original (Some 2%Z) (Some 1%Z) 1 100 = Some (2%Z, 1%Z) /\
  sched_change (Some 2%Z) (Some 1%Z) 1 100 = None /\
  elect_core (mkParams 2 1 1 true false) [] [0; 1] [ex_node 1; ex_node 2] [ex_node 1; ex_node 2] = VErrInsufficient /\
  exists vals vents,
    elect_core (mkParams 1 100 1 true false) [] [0; 1] [ex_node 1; ex_node 2] [ex_node 1; ex_node 2] = VOk vals vents.
Proof.
  split; [reflexivity|]. split; [reflexivity|]. split; [vm_compute; reflexivity|].
  eexists. eexists. vm_compute. reflexivity.
Qed.

(* ---------- validator election with the VRF beacon backend (shuffle.go:38-86) ---------- *)
(* The sortition only ever looks at the proofs of the validator CANDIDATES. *)
Lemma vrf_collect_ext beta beta' l : forall seen,
  (forall n, In n l -> beta (n_id n) = beta' (n_id n)) ->
  vrf_collect beta l seen = vrf_collect beta' l seen.
Proof.
  induction l as [|n r IH]; intros seen H; cbn [vrf_collect]; [reflexivity|].
  rewrite <- (H n (or_introl eq_refl)).
  assert (Hr : forall m, In m r -> beta (n_id m) = beta' (n_id m)) by (intros m Hm; apply H; right; exact Hm).
  destruct (beta (n_id n)) as [b|]; [|apply IH; exact Hr].
  destruct (memN b seen); [apply IH; exact Hr|]. f_equal. apply IH. exact Hr.
Qed.

Lemma filter_has_pi_ext beta beta' l :
  (forall n, In n l -> beta (n_id n) = beta' (n_id n)) ->
  filter (has_pi beta) l = filter (has_pi beta') l.
Proof.
  intros H. apply filter_ext_in. intros n Hn. unfold has_pi. rewrite (H n Hn). reflexivity.
Qed.

(* whatever proofs nodes that are NOT validator candidates submitted (compute nodes, observers,
   frozen / expired / under-staked validators) -- the election result is the same *)
Lemma vrf_election_ignores_other_proofs p ents epoch nodes pe pn beta beta' :
  (forall n, In n (vcands p ents epoch nodes) -> beta (n_id n) = beta' (n_id n)) ->
  elect_validators_vrf p ents epoch nodes pe pn beta = elect_validators_vrf p ents epoch nodes pe pn beta'.
Proof.
  intros H. unfold elect_validators_vrf, vrf_sort.
  rewrite (filter_has_pi_ext beta beta' _ H), (vrf_collect_ext beta beta' _ [] H). reflexivity.
Qed.

(* when fewer than MinValidators candidates have a proof, the election is exactly the
   entropy-path election (for which election_succeeds_under_precondition applies) *)
Lemma vrf_election_falls_back p ents epoch nodes pe pn beta :
  len (filter (has_pi beta) (vcands p ents epoch nodes)) < p_min p ->
  elect_validators_vrf p ents epoch nodes pe pn beta = elect_validators p ents epoch nodes pe pn.
Proof.
  intros H. unfold elect_validators_vrf, elect_validators.
  rewrite (proj2 (N.ltb_lt _ _) H). reflexivity.
Qed.

(* the seeded variant: the fallback test counts the proofs of ALL nodes *)
Definition elect_validators_vrf_any_proofs (p : params) (ents : list entity) (epoch : N) (nodes : list node)
  (perm_e perm_n : list N) (beta : N -> option N) (nproofs : N) : vres :=
  let cands := vcands p ents epoch nodes in
  elect_core p ents perm_e cands
    (if nproofs <? p_min p then apply_perm perm_n cands else vrf_sort beta cands).

(* two eligible validators without proofs, two proofs from other nodes, MinValidators = 2: the
   variant elects nobody, the real rule elects both *)
Lemma vrf_any_proofs_refuted :
  let p := mkParams 2 100 1 true false in
  let nodes := [ex_node 1; ex_node 2] in
  elect_validators_vrf_any_proofs p [] 1 nodes [0; 1] [0; 1] (fun _ => None) 2 = VErrNone /\
  exists vals vents, elect_validators_vrf p [] 1 nodes [0; 1] [0; 1] (fun _ => None) = VOk vals vents /\ len vals = 2.
Proof.
  split; [vm_compute; reflexivity|]. eexists. eexists. split; vm_compute; reflexivity.
Qed.
