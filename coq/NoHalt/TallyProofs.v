(* C10: the governance tally never fails except for "total voting stake is
   zero"; the "voted stake greater than total" error (proposal.go:137-141) and
   the subShares underflow (governance.go:511-519) are unreachable under the
   share invariant -- for ARBITRARY uint8 vote values (castVote accepts any). *)
From Verif Require Import Lib.Base NoHalt.Model NoHalt.Proofs.

Local Ltac b2p :=
  repeat match goal with
  | H : (_ =? _) = true |- _ => apply N.eqb_eq in H
  | H : (_ =? _) = false |- _ => apply N.eqb_neq in H
  | H : (_ <? _) = true |- _ => apply N.ltb_lt in H
  | H : (_ <? _) = false |- _ => apply N.ltb_ge in H
  end.

(* ---------- finite sums over vote values ---------- *)
Lemma fsum_ext n f g : (forall v, f v = g v) -> fsum n f = fsum n g.
Proof. intros H. induction n as [|k IH]; cbn [fsum]; [reflexivity|]. rewrite IH, H. reflexivity. Qed.

Lemma fsum_zero n : fsum n sh_empty = 0.
Proof. induction n as [|k IH]; cbn [fsum]; [reflexivity|]. rewrite IH. reflexivity. Qed.

Lemma fsum_add n f g : fsum n (fun v => f v + g v) = fsum n f + fsum n g.
Proof. induction n as [|k IH]; cbn [fsum]; [reflexivity|]. rewrite IH. lia. Qed.

Lemma fsum_le n f g : (forall v, f v <= g v) -> fsum n f <= fsum n g.
Proof. intros H. induction n as [|k IH]; cbn [fsum]; [lia|]. specialize (H (N.of_nat k)). lia. Qed.

(* updating an entry below the bound *)
Lemma fsum_upd n m k x :
  (N.to_nat k < n)%nat -> fsum n (sh_upd m k x) + m k = fsum n m + x.
Proof.
  induction n as [|j IH]; intros Hk; [lia|]. cbn [fsum]. unfold sh_upd at 2.
  destruct (N.of_nat j =? k) eqn:E; b2p.
  - (* the updated entry is the last one: the prefix is untouched *)
    assert (Hpre : fsum j (sh_upd m k x) = fsum j m).
    { clear IH Hk. subst k.
      assert (G : forall i, (i <= j)%nat -> fsum i (sh_upd m (N.of_nat j) x) = fsum i m).
      { induction i as [|i IHi]; intros Hi; cbn [fsum]; [reflexivity|].
        rewrite IHi by lia. unfold sh_upd.
        destruct (N.of_nat i =? N.of_nat j) eqn:E2; b2p; [lia|reflexivity]. }
      apply G. lia. }
    rewrite Hpre. subst k. lia.
  - assert (N.to_nat k < j)%nat by lia. specialize (IH H). lia.
Qed.

Lemma fsum_get_le n m k : (N.to_nat k < n)%nat -> m k <= fsum n m.
Proof.
  induction n as [|j IH]; intros Hk; [lia|]. cbn [fsum].
  destruct (N.eq_dec (N.of_nat j) k) as [<-|Hne]; [lia|].
  assert (N.to_nat k < j)%nat by lia. specialize (IH H). lia.
Qed.

Lemma fsum_div_le n f b t : t <> 0 -> fsum n (fun v => f v * b / t) <= fsum n f * b / t.
Proof.
  intros Ht. induction n as [|k IH]; cbn [fsum]; [apply N.le_0_l|].
  rewrite N.mul_add_distr_r.
  eapply N.le_trans; [|apply div_add_le; exact Ht].
  apply N.add_le_mono_r. exact IH.
Qed.

(* wrappers over the fixed bound: proofs below never unfold [sh_sum] *)
Lemma sh_sum_add f g : sh_sum (fun v => f v + g v) = sh_sum f + sh_sum g.
Proof. exact (fsum_add nvotes f g). Qed.
Lemma sh_sum_empty : sh_sum sh_empty = 0.
Proof. exact (fsum_zero nvotes). Qed.

Definition vote_ok (v : vote) : Prop := (N.to_nat v < nvotes)%nat.

(* shares delegated to [to] by the accounts that voted (each vote counted) *)
Fixpoint voter_shares (to : N) (delegs : list (N * N * N)) (votes : list (N * vote)) : N :=
  match votes with
  | [] => 0
  | (d, _) :: r =>
      match deleg_shares d to delegs with
      | Some s => s + voter_shares to delegs r
      | None => voter_shares to delegs r
      end
  end.

(* The share invariant restricted to what the tally reads: for every validator
   entity, the shares its voting delegators hold do not exceed the pool's total
   shares.  It follows from the ledger invariant "total shares of a pool = sum
   of the delegations to it" (C05) because the votes of one proposal are keyed
   by voter (one vote per account) -- see voter_shares_le_all below. *)
Definition share_inv (validators delegs : list (N * N * N)) (votes : list (N * vote)) : Prop :=
  forall to bal ts, In (to, bal, ts) validators -> voter_shares to delegs votes <= ts.

(* every stored vote is a uint8 *)
Definition votes_ok (votes : list (N * vote)) : Prop := Forall (fun x => vote_ok (snd x)) votes.

Lemma add_sum m v x : vote_ok v -> sh_sum (add_shares m v x) = sh_sum m + x.
Proof.
  intros Hv. unfold sh_sum, add_shares.
  pose proof (fsum_upd nvotes m v (m v + x) Hv). lia.
Qed.
Lemma add_get_same m v x : add_shares m v x v = m v + x.
Proof. unfold add_shares, sh_upd. rewrite N.eqb_refl. reflexivity. Qed.
Lemma add_get_other m v v' x : v <> v' -> add_shares m v x v' = m v'.
Proof. intros H. unfold add_shares, sh_upd. destruct (v' =? v) eqn:E; b2p; [congruence|reflexivity]. Qed.

Lemma sub_ok m v x :
  vote_ok v -> x <= m v ->
  exists m', sub_shares m v x = Ok m' /\ sh_sum m' + x = sh_sum m /\
             m' v = m v - x /\ (forall v', v <> v' -> m' v' = m v').
Proof.
  intros Hv H. unfold sub_shares. rewrite qsub_ok by exact H. cbn [bind].
  eexists. split; [reflexivity|]. repeat split.
  - unfold sh_sum. pose proof (fsum_upd nvotes m v (m v - x) Hv). lia.
  - unfold sh_upd. rewrite N.eqb_refl. reflexivity.
  - intros v' Hne. unfold sh_upd. destruct (v' =? v) eqn:E; b2p; [congruence|reflexivity].
Qed.

(* validator voted [ov]: its entry covers everything still to be deducted *)
Lemma tally_votes_own to ov delegs votes :
  vote_ok ov -> votes_ok votes ->
  forall m, voter_shares to delegs votes <= m ov ->
  exists m', tally_votes to (Some ov) delegs votes m = Ok m' /\ sh_sum m' = sh_sum m.
Proof.
  intros Hov. induction votes as [|[d v] r IH]; intros Hvs m H; cbn [tally_votes voter_shares] in *.
  - exists m. split; reflexivity.
  - inversion Hvs as [|x l Hv Hr]; subst. cbn [snd] in Hv.
    destruct (deleg_shares d to delegs) as [s|]; [|apply IH; assumption].
    unfold tally_step. destruct (ov =? v) eqn:E; b2p.
    + cbn [bind]. apply IH; [exact Hr|lia].
    + destruct (sub_ok m ov s Hov ltac:(lia)) as [m1 [Hs [Hsum [Hget Hoth]]]].
      rewrite Hs. cbn [bind].
      destruct (IH Hr (add_shares m1 v s)) as [m' [Hm' Hsum']].
      { rewrite add_get_other by congruence. rewrite Hget. lia. }
      exists m'. split; [exact Hm'|]. rewrite Hsum', add_sum by exact Hv. lia.
Qed.

(* validator did not vote: only additions *)
Lemma tally_votes_none to delegs votes :
  votes_ok votes ->
  forall m, exists m', tally_votes to None delegs votes m = Ok m' /\
                       sh_sum m' = sh_sum m + voter_shares to delegs votes.
Proof.
  induction votes as [|[d v] r IH]; intros Hvs m; cbn [tally_votes voter_shares].
  - exists m. split; [reflexivity|lia].
  - inversion Hvs as [|x l Hv Hr]; subst. cbn [snd] in Hv.
    destruct (deleg_shares d to delegs) as [s|]; [|apply IH; exact Hr].
    cbn [tally_step bind].
    destruct (IH Hr (add_shares m v s)) as [m' [Hm' Hsum']].
    exists m'. split; [exact Hm'|]. rewrite Hsum', add_sum by exact Hv. lia.
Qed.

Lemma vote_of_ok who votes ov : votes_ok votes -> vote_of who votes = Some ov -> vote_ok ov.
Proof.
  induction votes as [|[w v] r IH]; cbn [vote_of]; intros Hvs H; [discriminate|].
  inversion Hvs as [|x l Hv Hr]; subst. destruct (w =? who); [injection H as <-; exact Hv|apply IH; assumption].
Qed.

Lemma validator_shares_ok to ts delegs votes :
  votes_ok votes -> voter_shares to delegs votes <= ts ->
  exists m, validator_shares to ts delegs votes = Ok m /\ sh_sum m <= ts.
Proof.
  intros Hvs H. unfold validator_shares.
  destruct (vote_of to votes) as [ov|] eqn:Eo.
  - pose proof (vote_of_ok _ _ _ Hvs Eo) as Hov.
    destruct (tally_votes_own to ov delegs votes Hov Hvs (add_shares sh_empty ov ts)) as [m [Hm Hsum]].
    { rewrite add_get_same. unfold sh_empty. lia. }
    exists m. split; [exact Hm|]. rewrite Hsum, add_sum by exact Hov.
    rewrite sh_sum_empty. lia.
  - destruct (tally_votes_none to delegs votes Hvs sh_empty) as [m [Hm Hsum]].
    exists m. split; [exact Hm|]. rewrite Hsum, sh_sum_empty. lia.
Qed.

Lemma stake_pure_le bal ts s : ts <> 0 -> stake_pure bal ts s <= s * bal / ts.
Proof.
  intros _. unfold stake_pure. destruct ((s =? 0) || (bal =? 0) || (ts =? 0)); [apply N.le_0_l|apply N.le_refl].
Qed.
Lemma stake_pure_ts0 bal s : stake_pure bal 0 s = 0.
Proof. unfold stake_pure. rewrite N.eqb_refl, !orb_true_r. reflexivity. Qed.

(* stated for an arbitrary bound [n] so that no proof step ever unfolds the 256-fold sum *)
Lemma stakes_le_n n bal ts (m : shmap) :
  fsum n m <= ts -> fsum n (fun v => stake_pure bal ts (m v)) <= bal.
Proof.
  intros H.
  destruct (N.eq_dec ts 0) as [Hts|Hts].
  - assert (E : fsum n (fun v => stake_pure bal ts (m v)) = fsum n sh_empty).
    { apply fsum_ext. intros v. subst ts. apply stake_pure_ts0. }
    rewrite E, fsum_zero. apply N.le_0_l.
  - apply N.le_trans with (fsum n (fun v => m v * bal / ts)).
    { apply fsum_le. intros v. apply stake_pure_le. exact Hts. }
    apply N.le_trans with (fsum n m * bal / ts).
    { apply (fsum_div_le n m bal ts Hts). }
    rewrite N.mul_comm. apply mul_frac_le; assumption.
Qed.

Lemma validator_stakes_le bal ts m : sh_sum m <= ts -> sh_sum (validator_stakes bal ts m) <= bal.
Proof. exact (stakes_le_n nvotes bal ts m). Qed.

Lemma share_inv_tail v r delegs votes :
  share_inv (v :: r) delegs votes -> share_inv r delegs votes.
Proof. intros H to bal ts Hin. apply (H to bal ts). right. exact Hin. Qed.

(* VotedSum <= totalVotingStake, and no subShares underflow, for ANY votes *)
Lemma tally_results_ok validators delegs votes :
  votes_ok votes -> share_inv validators delegs votes ->
  exists rs, tally_results validators delegs votes = Ok rs /\
             sh_sum rs <= total_voting_stake validators.
Proof.
  intros Hvs. induction validators as [|[[to bal] ts] r IH]; intros Hinv; cbn [tally_results total_voting_stake].
  - exists sh_empty. split; [reflexivity|]. rewrite sh_sum_empty. lia.
  - destruct (validator_shares_ok to ts delegs votes Hvs) as [m [Hm Hms]].
    { apply (Hinv to bal ts). left. reflexivity. }
    destruct (IH (share_inv_tail _ _ _ _ Hinv)) as [rest [Hrest Hrs]].
    rewrite Hm. cbn [bind]. rewrite Hrest. cbn [bind].
    eexists. split; [reflexivity|].
    rewrite (sh_sum_add (validator_stakes bal ts m) rest).
    pose proof (validator_stakes_le bal ts m Hms) as Hst. lia.
Qed.

Lemma close_proposal_ok rs total th :
  total <> 0 -> sh_sum rs <= total -> is_fatal (close_proposal rs total th) = false.
Proof.
  intros Ht Hs. unfold close_proposal. rewrite (proj2 (N.eqb_neq total 0) Ht).
  destruct (total <? sh_sum rs) eqn:E; b2p; [lia|].
  destruct (rs VYes =? 0); [reflexivity|]. rewrite qquo_ok by exact Ht. reflexivity.
Qed.

(* the tally is fatal EXACTLY when the total voting stake is zero *)
Lemma tally_fatal_iff validators delegs votes th :
  votes_ok votes -> share_inv validators delegs votes ->
  (tally validators delegs votes th = Fatal <-> total_voting_stake validators = 0).
Proof.
  intros Hvs Hinv. unfold tally.
  destruct (total_voting_stake validators =? 0) eqn:E; b2p.
  - split; [intros _; exact E|reflexivity].
  - destruct (tally_results_ok validators delegs votes Hvs Hinv) as [rs [Hrs Hle]].
    rewrite Hrs. cbn [bind].
    pose proof (close_proposal_ok rs _ th E Hle) as Hc.
    destruct (close_proposal rs (total_voting_stake validators) th); [|discriminate].
    cbn [bind]. split; [discriminate|contradiction].
Qed.

Lemma total_zero_iff validators :
  total_voting_stake validators = 0 <-> Forall (fun v => snd (fst v) = 0) validators.
Proof.
  induction validators as [|[[to bal] ts] r IH]; cbn [total_voting_stake].
  - split; [constructor|reflexivity].
  - split.
    + intros H. constructor; [cbn; lia|apply IH; lia].
    + intros H. inversion H as [|x l Hx Hl]; subst. cbn in Hx. apply IH in Hl. lia.
Qed.

(* ---------- from the ledger invariant to share_inv ---------- *)
(* all shares delegated to [to] *)
Fixpoint all_shares (to : N) (delegs : list (N * N * N)) : N :=
  match delegs with
  | [] => 0
  | (_, to', s) :: r => if to' =? to then s + all_shares to r else all_shares to r
  end.

(* delegations of one delegator removed *)
Fixpoint drop_delegator (d : N) (delegs : list (N * N * N)) : list (N * N * N) :=
  match delegs with
  | [] => []
  | (d', to', s) :: r => if d' =? d then drop_delegator d r else (d', to', s) :: drop_delegator d r
  end.

Lemma deleg_shares_drop_other d d' to delegs :
  d <> d' -> deleg_shares d to (drop_delegator d' delegs) = deleg_shares d to delegs.
Proof.
  intros Hne. induction delegs as [|[[x t] s] r IH]; cbn [drop_delegator deleg_shares]; [reflexivity|].
  destruct (x =? d') eqn:E; b2p.
  - subst x. destruct (d' =? d) eqn:E2; b2p; [congruence|]. cbn [andb]. exact IH.
  - cbn [deleg_shares]. rewrite IH. reflexivity.
Qed.

Lemma all_shares_drop d to delegs :
  match deleg_shares d to delegs with Some s => s | None => 0 end
  + all_shares to (drop_delegator d delegs) <= all_shares to delegs.
Proof.
  induction delegs as [|[[x t] s] r IH]; cbn [deleg_shares drop_delegator all_shares]; [lia|].
  destruct (x =? d) eqn:E1; cbn [andb].
  - destruct (t =? to) eqn:E2.
    + assert (all_shares to (drop_delegator d r) <= all_shares to r).
      { clear. induction r as [|[[x t] s] r IH]; cbn [drop_delegator all_shares]; [lia|].
        destruct (x =? d); [destruct (t =? to); lia|].
        cbn [all_shares]. destruct (t =? to); lia. }
      lia.
    + exact IH.
  - cbn [all_shares]. destruct (t =? to); lia.
Qed.

Lemma voter_shares_drop to d delegs votes :
  ~ In d (map fst votes) ->
  voter_shares to (drop_delegator d delegs) votes = voter_shares to delegs votes.
Proof.
  induction votes as [|[x v] r IH]; cbn [voter_shares map fst In]; intros H; [reflexivity|].
  rewrite deleg_shares_drop_other by (intros ->; apply H; left; reflexivity).
  rewrite IH by (intros Hin; apply H; right; exact Hin). reflexivity.
Qed.

(* one vote per account => the voters' shares are part of all delegated shares *)
Lemma voter_shares_le_all to votes :
  NoDup (map fst votes) ->
  forall delegs, voter_shares to delegs votes <= all_shares to delegs.
Proof.
  induction votes as [|[d v] r IH]; intros Hnd delegs; cbn [voter_shares]; [lia|].
  cbn [map fst] in Hnd. inversion Hnd as [|x l Hnotin Hnd']; subst.
  pose proof (all_shares_drop d to delegs) as Hdrop.
  pose proof (IH Hnd' (drop_delegator d delegs)) as Hrest.
  rewrite voter_shares_drop in Hrest by exact Hnotin.
  destruct (deleg_shares d to delegs); lia.
Qed.

(* ledger form of the share invariant: the pool's total shares cover all delegations to it *)
Definition ledger_inv (validators delegs : list (N * N * N)) : Prop :=
  forall to bal ts, In (to, bal, ts) validators -> all_shares to delegs <= ts.

Lemma share_inv_of_ledger validators delegs votes :
  NoDup (map fst votes) -> ledger_inv validators delegs -> share_inv validators delegs votes.
Proof.
  intros Hnd Hl to bal ts Hin.
  eapply N.le_trans; [apply voter_shares_le_all; exact Hnd|apply (Hl to bal ts Hin)].
Qed.

(* ---------- the statements used by Props/C10.v ---------- *)
Theorem tally_never_exceeds_total_l validators delegs votes :
  votes_ok votes -> NoDup (map fst votes) -> ledger_inv validators delegs ->
  exists rs, tally_results validators delegs votes = Ok rs /\
             sh_sum rs <= total_voting_stake validators.
Proof.
  intros Hvs Hnd Hl.
  exact (tally_results_ok validators delegs votes Hvs (share_inv_of_ledger _ _ _ Hnd Hl)).
Qed.

Theorem tally_fatal_iff_l validators delegs votes th :
  votes_ok votes -> NoDup (map fst votes) -> ledger_inv validators delegs ->
  (tally validators delegs votes th = Fatal <->
   Forall (fun v => snd (fst v) = 0) validators).
Proof.
  intros Hvs Hnd Hl. rewrite <- total_zero_iff.
  apply tally_fatal_iff; [exact Hvs|]. apply share_inv_of_ledger; assumption.
Qed.

(* without the invariant the "should never happen" errors ARE reachable:
   a delegation larger than the pool's shares underflows subShares *)
Lemma tally_needs_invariant :
  exists validators delegs votes th,
    votes_ok votes /\ total_voting_stake validators <> 0 /\ tally validators delegs votes th = Fatal.
Proof.
  exists [(1, 100, 10)], [(2, 1, 11)], [(1, VYes); (2, VNo)], 68.
  split; [repeat constructor; cbv; lia|].
  split; [cbn; lia|reflexivity].
Qed.

(* ---------- non-vacuity: a concrete state satisfies the hypotheses ---------- *)
Definition ex_validators : list (N * N * N) := [(1, 176000, 170000); (2, 0, 5000); (3, 192000, 192000)].
Definition ex_delegs : list (N * N * N) :=
  [(1, 1, 160000); (10, 1, 10000); (2, 2, 5000); (3, 3, 190000); (10, 3, 2000)].
(* validator 1 votes yes, its delegator 10 overrides with the invalid value 200;
   validator 2 was slashed to zero; validator 3 is silent; account 11 has no delegation *)
Definition ex_votes : list (N * vote) := [(1, VYes); (10, 200); (2, VYes); (11, 0)].

Example ex_hyps : votes_ok ex_votes /\ NoDup (map fst ex_votes) /\ ledger_inv ex_validators ex_delegs.
Proof.
  split; [repeat constructor; cbv; lia|]. split.
  - cbn. repeat constructor; cbn; intuition discriminate.
  - intros to bal ts Hin. cbn in Hin.
    destruct Hin as [H|[H|[H|[]]]]; injection H as <- <- <-; vm_compute; discriminate.
Qed.

Definition tally_view (r : res (shmap * bool)) : option (N * N * N * N * bool) :=
  match r with
  | Ok (m, p) => Some (m VYes, m VNo, m VAbstain, m 200, p)
  | Fatal => None
  end.

Example ex_tally : tally_view (tally ex_validators ex_delegs ex_votes 68) = Some (165647, 0, 0, 12352, false).
Proof. vm_compute. reflexivity. Qed.

(* no votes at all, and votes only from non-validators *)
Example ex_tally_no_votes : tally_view (tally ex_validators ex_delegs [] 68) = Some (0, 0, 0, 0, false).
Proof. vm_compute. reflexivity. Qed.
Example ex_tally_nonvalidators :
  tally_view (tally ex_validators ex_delegs [(11, VYes); (10, VYes)] 68) = Some (12352, 0, 0, 0, false).
Proof. vm_compute. reflexivity. Qed.
