(* C10: the governance tally never fails except for "total voting stake is
   zero"; the "voted stake greater than total" error (proposal.go:137-141) and
   the subShares underflow (governance.go:511-519) are unreachable under the
   share invariant. *)
From Verif Require Import Lib.Base NoHalt.Model NoHalt.Proofs.

Local Ltac b2p :=
  repeat match goal with
  | H : (_ =? _) = true |- _ => apply N.eqb_eq in H
  | H : (_ =? _) = false |- _ => apply N.eqb_neq in H
  | H : (_ <? _) = true |- _ => apply N.ltb_lt in H
  | H : (_ <? _) = false |- _ => apply N.ltb_ge in H
  end.

Definition sh_sum (m : shmap) : N := let '(y, n, a) := m in y + n + a.

(* shares delegated to [to] by the accounts that voted (each vote counted) *)
Fixpoint voter_shares (to : N) (delegs : list (N * N * N)) (votes : list (N * vote)) : N :=
  match votes with
  | [] => 0
  | (d, _) :: r =>
      match deleg_shares d to delegs with
      | Some s => s + voter_shares to delegs r
      | None => voter_shares to delegs r
      end
  end.

(* The share invariant restricted to what the tally reads: for every validator
   entity, the shares its voting delegators hold do not exceed the pool's total
   shares.  It follows from the ledger invariant "total shares of a pool = sum
   of the delegations to it" (C05) because the votes of one proposal are keyed
   by voter (one vote per account) -- see voter_shares_le_all below. *)
Definition share_inv (validators delegs : list (N * N * N)) (votes : list (N * vote)) : Prop :=
  forall to bal ts, In (to, bal, ts) validators -> voter_shares to delegs votes <= ts.

Lemma vote_eqb_eq a b : vote_eqb a b = true <-> a = b.
Proof. destruct a, b; cbn; split; congruence. Qed.

Lemma add_sum m v x : sh_sum (add_shares m v x) = sh_sum m + x.
Proof. destruct m as [[y n] a], v; cbn; lia. Qed.
Lemma add_get_same m v x : sh_get (add_shares m v x) v = sh_get m v + x.
Proof. destruct m as [[y n] a], v; cbn; lia. Qed.
Lemma add_get_other m v v' x : v <> v' -> sh_get (add_shares m v x) v' = sh_get m v'.
Proof. destruct m as [[y n] a], v, v'; cbn; congruence. Qed.

Lemma sub_ok m v x :
  x <= sh_get m v ->
  exists m', sub_shares m v x = Ok m' /\ sh_sum m' + x = sh_sum m /\
             sh_get m' v = sh_get m v - x /\ (forall v', v <> v' -> sh_get m' v' = sh_get m v').
Proof.
  intros H. unfold sub_shares. rewrite qsub_ok by exact H. cbn [bind].
  eexists. split; [reflexivity|].
  destruct m as [[y n] a], v; cbn in *; repeat split; try lia;
    intros v' Hv; destruct v'; cbn; congruence.
Qed.

(* validator voted [ov]: its entry covers everything still to be deducted *)
Lemma tally_votes_own to ov delegs votes :
  forall m, voter_shares to delegs votes <= sh_get m ov ->
  exists m', tally_votes to (Some ov) delegs votes m = Ok m' /\ sh_sum m' = sh_sum m.
Proof.
  induction votes as [|[d v] r IH]; intros m H; cbn [tally_votes voter_shares] in *.
  - exists m. split; reflexivity.
  - destruct (deleg_shares d to delegs) as [s|]; [|apply IH; exact H].
    unfold tally_step. destruct (vote_eqb ov v) eqn:E.
    + cbn [bind]. apply IH. lia.
    + destruct (sub_ok m ov s ltac:(lia)) as [m1 [Hs [Hsum [Hget Hoth]]]].
      rewrite Hs. cbn [bind].
      assert (Hne : v <> ov).
      { intros ->. assert (vote_eqb ov ov = true) by (apply vote_eqb_eq; reflexivity). congruence. }
      destruct (IH (add_shares m1 v s)) as [m' [Hm' Hsum']].
      { rewrite add_get_other by exact Hne. rewrite Hget. lia. }
      exists m'. split; [exact Hm'|]. rewrite Hsum', add_sum. lia.
Qed.

(* validator did not vote: only additions *)
Lemma tally_votes_none to delegs votes :
  forall m, exists m', tally_votes to None delegs votes m = Ok m' /\
                       sh_sum m' = sh_sum m + voter_shares to delegs votes.
Proof.
  induction votes as [|[d v] r IH]; intros m; cbn [tally_votes voter_shares].
  - exists m. split; [reflexivity|lia].
  - destruct (deleg_shares d to delegs) as [s|]; [|apply IH].
    cbn [tally_step bind].
    destruct (IH (add_shares m v s)) as [m' [Hm' Hsum']].
    exists m'. split; [exact Hm'|]. rewrite Hsum', add_sum. lia.
Qed.

Lemma validator_shares_ok to ts delegs votes :
  voter_shares to delegs votes <= ts ->
  exists m, validator_shares to ts delegs votes = Ok m /\ sh_sum m <= ts.
Proof.
  intros H. unfold validator_shares.
  destruct (vote_of to votes) as [ov|].
  - destruct (tally_votes_own to ov delegs votes (add_shares (0, 0, 0) ov ts)) as [m [Hm Hsum]].
    { rewrite add_get_same. destruct ov; cbn [sh_get]; lia. }
    exists m. split; [exact Hm|]. rewrite Hsum, add_sum. cbn [sh_sum]. lia.
  - destruct (tally_votes_none to delegs votes (0, 0, 0)) as [m [Hm Hsum]].
    exists m. split; [exact Hm|]. rewrite Hsum. cbn [sh_sum]. lia.
Qed.

Lemma validator_stakes_ok bal ts m :
  sh_sum m <= ts ->
  exists st, validator_stakes bal ts m = Ok st /\ sh_sum st <= bal.
Proof.
  destruct m as [[y n] a]. cbn [sh_sum]. intros H. unfold validator_stakes.
  destruct (stake_for_shares_ok bal ts y) as [sy [Hy Cy]].
  destruct (stake_for_shares_ok bal ts n) as [sn [Hn Cn]].
  destruct (stake_for_shares_ok bal ts a) as [sa [Ha Ca]].
  rewrite Hy, Hn, Ha. cbn [bind]. eexists. split; [reflexivity|]. cbn [sh_sum].
  destruct (N.eq_dec ts 0) as [Hts|Hts].
  - destruct Cy as [->|[? _]]; [|contradiction].
    destruct Cn as [->|[? _]]; [|contradiction].
    destruct Ca as [->|[? _]]; [|contradiction]. lia.
  - assert (Hb : forall x s, (s = 0 \/ ts <> 0 /\ s = x * bal / ts) -> s <= x * bal / ts).
    { intros x s [->|[_ ->]]; [apply N.le_0_l|apply N.le_refl]. }
    apply Hb in Cy, Cn, Ca.
    assert (Hsum : y * bal / ts + n * bal / ts + a * bal / ts <= (y + n + a) * bal / ts).
    { rewrite !N.mul_add_distr_r.
      eapply N.le_trans; [|apply div_add_le; exact Hts].
      apply N.add_le_mono_r. apply div_add_le. exact Hts. }
    assert (Htop : (y + n + a) * bal / ts <= bal).
    { rewrite N.mul_comm. apply mul_frac_le; assumption. }
    lia.
Qed.

Lemma share_inv_tail v r delegs votes :
  share_inv (v :: r) delegs votes -> share_inv r delegs votes.
Proof. intros H to bal ts Hin. apply (H to bal ts). right. exact Hin. Qed.

(* VotedSum <= totalVotingStake, and no subShares underflow, for ANY votes *)
Lemma tally_results_ok validators delegs votes :
  share_inv validators delegs votes ->
  exists rs, tally_results validators delegs votes = Ok rs /\
             sh_sum rs <= total_voting_stake validators.
Proof.
  induction validators as [|[[to bal] ts] r IH]; intros Hinv; cbn [tally_results total_voting_stake].
  - exists (0, 0, 0). split; [reflexivity|cbn; lia].
  - destruct (validator_shares_ok to ts delegs votes) as [m [Hm Hms]].
    { apply (Hinv to bal ts). left. reflexivity. }
    destruct (validator_stakes_ok bal ts m Hms) as [st [Hst Hsts]].
    destruct (IH (share_inv_tail _ _ _ _ Hinv)) as [rest [Hrest Hrs]].
    rewrite Hm. cbn [bind]. rewrite Hst. cbn [bind]. rewrite Hrest. cbn [bind].
    destruct st as [[y n] a], rest as [[y' n'] a']. eexists. split; [reflexivity|].
    cbn [sh_sum] in *. lia.
Qed.

Lemma close_proposal_ok rs total th :
  total <> 0 -> sh_sum rs <= total -> is_fatal (close_proposal rs total th) = false.
Proof.
  intros Ht Hs. unfold close_proposal. rewrite (proj2 (N.eqb_neq total 0) Ht).
  destruct rs as [[y n] a]. cbn [sh_sum] in Hs.
  destruct (total <? y + n + a) eqn:E; b2p; [lia|].
  destruct (y =? 0); [reflexivity|]. rewrite qquo_ok by exact Ht. reflexivity.
Qed.

(* the tally is fatal EXACTLY when the total voting stake is zero *)
Lemma tally_fatal_iff validators delegs votes th :
  share_inv validators delegs votes ->
  (tally validators delegs votes th = Fatal <-> total_voting_stake validators = 0).
Proof.
  intros Hinv. unfold tally.
  destruct (total_voting_stake validators =? 0) eqn:E; b2p.
  - split; [intros _; exact E|reflexivity].
  - destruct (tally_results_ok validators delegs votes Hinv) as [rs [Hrs Hle]].
    rewrite Hrs. cbn [bind].
    pose proof (close_proposal_ok rs _ th E Hle) as Hc.
    destruct (close_proposal rs (total_voting_stake validators) th); [|discriminate].
    cbn [bind]. split; [discriminate|contradiction].
Qed.

Lemma total_zero_iff validators :
  total_voting_stake validators = 0 <-> Forall (fun v => snd (fst v) = 0) validators.
Proof.
  induction validators as [|[[to bal] ts] r IH]; cbn [total_voting_stake].
  - split; [constructor|reflexivity].
  - split.
    + intros H. constructor; [cbn; lia|apply IH; lia].
    + intros H. inversion H as [|x l Hx Hl]; subst. cbn in Hx. apply IH in Hl. lia.
Qed.

(* ---------- from the ledger invariant to share_inv ---------- *)
(* all shares delegated to [to] *)
Fixpoint all_shares (to : N) (delegs : list (N * N * N)) : N :=
  match delegs with
  | [] => 0
  | (_, to', s) :: r => if to' =? to then s + all_shares to r else all_shares to r
  end.

(* delegations of one delegator removed *)
Fixpoint drop_delegator (d : N) (delegs : list (N * N * N)) : list (N * N * N) :=
  match delegs with
  | [] => []
  | (d', to', s) :: r => if d' =? d then drop_delegator d r else (d', to', s) :: drop_delegator d r
  end.

Lemma deleg_shares_drop_other d d' to delegs :
  d <> d' -> deleg_shares d to (drop_delegator d' delegs) = deleg_shares d to delegs.
Proof.
  intros Hne. induction delegs as [|[[x t] s] r IH]; cbn [drop_delegator deleg_shares]; [reflexivity|].
  destruct (x =? d') eqn:E; b2p.
  - subst x. destruct (d' =? d) eqn:E2; b2p; [congruence|]. cbn [andb]. exact IH.
  - cbn [deleg_shares]. rewrite IH. reflexivity.
Qed.

Lemma all_shares_drop d to delegs :
  match deleg_shares d to delegs with Some s => s | None => 0 end
  + all_shares to (drop_delegator d delegs) <= all_shares to delegs.
Proof.
  induction delegs as [|[[x t] s] r IH]; cbn [deleg_shares drop_delegator all_shares]; [lia|].
  destruct (x =? d) eqn:E1; cbn [andb].
  - destruct (t =? to) eqn:E2.
    + (* first match: later duplicates of (d,to) only make the right side larger *)
      assert (all_shares to (drop_delegator d r) <= all_shares to r).
      { clear. induction r as [|[[x t] s] r IH]; cbn [drop_delegator all_shares]; [lia|].
        destruct (x =? d); [destruct (t =? to); lia|].
        cbn [all_shares]. destruct (t =? to); lia. }
      lia.
    + exact IH.
  - cbn [all_shares]. destruct (t =? to); lia.
Qed.

Lemma voter_shares_drop to d delegs votes :
  ~ In d (map fst votes) ->
  voter_shares to (drop_delegator d delegs) votes = voter_shares to delegs votes.
Proof.
  induction votes as [|[x v] r IH]; cbn [voter_shares map fst In]; intros H; [reflexivity|].
  rewrite deleg_shares_drop_other by (intros ->; apply H; left; reflexivity).
  rewrite IH by (intros Hin; apply H; right; exact Hin). reflexivity.
Qed.

(* one vote per account => the voters' shares are part of all delegated shares *)
Lemma voter_shares_le_all to votes :
  NoDup (map fst votes) ->
  forall delegs, voter_shares to delegs votes <= all_shares to delegs.
Proof.
  induction votes as [|[d v] r IH]; intros Hnd delegs; cbn [voter_shares]; [lia|].
  cbn [map fst] in Hnd. inversion Hnd as [|x l Hnotin Hnd']; subst.
  pose proof (all_shares_drop d to delegs) as Hdrop.
  pose proof (IH Hnd' (drop_delegator d delegs)) as Hrest.
  rewrite voter_shares_drop in Hrest by exact Hnotin.
  destruct (deleg_shares d to delegs); lia.
Qed.

(* ledger form of the share invariant: the pool's total shares cover all delegations to it *)
Definition ledger_inv (validators delegs : list (N * N * N)) : Prop :=
  forall to bal ts, In (to, bal, ts) validators -> all_shares to delegs <= ts.

Lemma share_inv_of_ledger validators delegs votes :
  NoDup (map fst votes) -> ledger_inv validators delegs -> share_inv validators delegs votes.
Proof.
  intros Hnd Hl to bal ts Hin.
  eapply N.le_trans; [apply voter_shares_le_all; exact Hnd|apply (Hl to bal ts Hin)].
Qed.

(* ---------- the statements used by Props/C10.v ---------- *)
Theorem tally_never_exceeds_total_l validators delegs votes :
  NoDup (map fst votes) -> ledger_inv validators delegs ->
  exists y n a, tally_results validators delegs votes = Ok (y, n, a) /\
                y + n + a <= total_voting_stake validators.
Proof.
  intros Hnd Hl.
  destruct (tally_results_ok validators delegs votes (share_inv_of_ledger _ _ _ Hnd Hl))
    as [[[y n] a] [H Hle]].
  exists y, n, a. split; [exact H|exact Hle].
Qed.

Theorem tally_fatal_iff_l validators delegs votes th :
  NoDup (map fst votes) -> ledger_inv validators delegs ->
  (tally validators delegs votes th = Fatal <->
   Forall (fun v => snd (fst v) = 0) validators).
Proof.
  intros Hnd Hl. rewrite <- total_zero_iff.
  apply tally_fatal_iff. apply share_inv_of_ledger; assumption.
Qed.

(* without the invariant the "should never happen" errors ARE reachable:
   a delegation larger than the pool's shares underflows subShares *)
Lemma tally_needs_invariant :
  exists validators delegs votes th,
    total_voting_stake validators <> 0 /\ tally validators delegs votes th = Fatal.
Proof.
  exists [(1, 100, 10)], [(2, 1, 11)], [(1, VYes); (2, VNo)], 68.
  split; [cbn; lia|reflexivity].
Qed.

(* ---------- non-vacuity: a concrete state satisfies the hypotheses ---------- *)
Definition ex_validators : list (N * N * N) := [(1, 176000, 170000); (2, 0, 5000); (3, 192000, 192000)].
Definition ex_delegs : list (N * N * N) :=
  [(1, 1, 160000); (10, 1, 10000); (2, 2, 5000); (3, 3, 190000); (10, 3, 2000)].
(* validator 1 votes yes, its delegator 10 overrides with no; validator 2 was
   slashed to zero; validator 3 is silent; account 11 has no delegation *)
Definition ex_votes : list (N * vote) := [(1, VYes); (10, VNo); (2, VYes); (11, VYes)].

Example ex_hyps : NoDup (map fst ex_votes) /\ ledger_inv ex_validators ex_delegs.
Proof.
  split.
  - cbn. repeat constructor; cbn; intuition discriminate.
  - intros to bal ts Hin. cbn in Hin.
    destruct Hin as [H|[H|[H|[]]]]; injection H as <- <- <-; vm_compute; discriminate.
Qed.

Example ex_tally : tally ex_validators ex_delegs ex_votes 68 = Ok ((165647, 12352, 0), false).
Proof. vm_compute. reflexivity. Qed.

(* no votes at all, and votes only from non-validators *)
Example ex_tally_no_votes : tally ex_validators ex_delegs [] 68 = Ok ((0, 0, 0), false).
Proof. vm_compute. reflexivity. Qed.
Example ex_tally_nonvalidators : tally ex_validators ex_delegs [(11, VYes); (10, VYes)] 68
  = Ok ((12352, 0, 0), false).
Proof. vm_compute. reflexivity. Qed.
