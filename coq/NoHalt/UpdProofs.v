(* C10: the validator updates handed to the consensus engine are always acceptable to it:
   elected validators have power >= 1 (so none is read as a removal), every removal names a
   validator the engine knows, and the set never becomes empty.  Election model and the
   diff lemmas: Verif.Sched (read-only). *)
From Verif Require Import Lib.Base Sched.Elect Sched.ElectSpec Sched.ElectLemmas Sched.ElectProofs Sched.ElectProofs2.
From Coq Require Import Permutation.

(* VotingPowerFromStake never yields 0: stakes below one power unit get the floor 1 *)
Lemma voting_power_small_stake s : s < 16 -> voting_power false s = Some 1.
Proof.
  intros H. unfold voting_power, BASE_UNITS_PER_POWER.
  rewrite N.div_small by exact H. reflexivity.
Qed.

Lemma voting_power_ge_1 sq s x : voting_power sq s = Some x -> 1 <= x.
Proof. apply power_positive. Qed.

(* every elected validator has voting power at least 1 *)
Lemma elected_power_ge_1 p ents epoch nodes pe pn vals vents :
  elect_validators p ents epoch nodes pe pn = VOk vals vents ->
  Forall (fun kv => 1 <= snd kv) (powers_of vals).
Proof.
  intros H. pose proof (elect_powers_nonzero _ _ _ _ _ _ _ _ H) as Hn.
  eapply Forall_impl; [|exact Hn]. intros kv Hk. cbn beta in *. lia.
Qed.

(* a removal (power 0) in the update list always names a validator of the current set *)
Lemma removals_are_known cur pend k :
  Forall (fun kv => snd kv <> 0) pend ->
  In (k, 0) (diff_validators cur pend) -> In k (map fst cur).
Proof.
  intros Hnz H. unfold diff_validators in H. apply in_app_or in H as [H|H].
  - apply in_map_iff in H as [[k' v] [E H]]. cbn [fst] in E. injection E as <-.
    apply filter_In in H as [H _]. change k' with (fst (k', v)). apply in_map. exact H.
  - apply filter_In in H as [H _]. rewrite Forall_forall in Hnz. specialize (Hnz _ H). cbn in Hnz. lia.
Qed.

(* applying the updates to the current set gives exactly the elected set, which is not empty *)
Lemma updates_never_empty_the_set cur pend :
  NoDup (map fst cur) -> NoDup (map fst pend) ->
  Forall (fun kv => snd kv <> 0) pend -> pend <> [] ->
  exists k v, aget k (apply_updates cur (diff_validators cur pend)) = Some v /\ v <> 0.
Proof.
  intros Hc Hp Hnz Hne. destruct pend as [|[k v] r]; [contradiction|].
  exists k, v. split.
  - rewrite (diff_applies cur ((k, v) :: r) _ Hc Hp Hnz (Permutation_refl _) k).
    cbn [aget]. rewrite N.eqb_refl. reflexivity.
  - inversion Hnz; subst. assumption.
Qed.

(* the whole statement for one election: what EndBlock returns is acceptable *)
Lemma election_updates_acceptable p ents epoch nodes pe pn vals vents cur :
  elect_validators p ents epoch nodes pe pn = VOk vals vents ->
  NoDup (map fst cur) -> NoDup (map fst (powers_of vals)) -> vals <> [] ->
  let ups := diff_validators cur (powers_of vals) in
  (forall k, In (k, 0) ups -> In k (map fst cur)) /\
  (exists k v, aget k (apply_updates cur ups) = Some v /\ v <> 0) /\
  (forall k, aget k (apply_updates cur ups) = aget k (powers_of vals)).
Proof.
  intros H Hc Hp Hne ups.
  pose proof (elect_powers_nonzero _ _ _ _ _ _ _ _ H) as Hnz.
  split; [|split].
  - intros k Hk. eapply removals_are_known; eassumption.
  - apply updates_never_empty_the_set; try assumption.
    destruct vals; [contradiction|discriminate].
  - intros k. apply (diff_applies cur (powers_of vals) ups Hc Hp Hnz (Permutation_refl _)).
Qed.

(* ---- the seeded variant: the "zero -> 1" floor applied BEFORE the linear scaling ---- *)
Definition voting_power_floor_first (stake : N) : option N :=
  if stake =? 0 then Some 1
  else let q := stake / BASE_UNITS_PER_POWER in
       if q <? 2 ^ 63 then Some q else None.

(* it yields power 0 for every non-zero stake below one power unit ... *)
Lemma floor_first_zero_power s : 0 < s -> s < 16 -> voting_power_floor_first s = Some 0.
Proof.
  intros H0 H. unfold voting_power_floor_first, BASE_UNITS_PER_POWER.
  destruct (s =? 0) eqn:E; [apply N.eqb_eq in E; lia|].
  rewrite N.div_small by exact H. reflexivity.
Qed.

(* ... which the consensus engine reads as the removal of a validator it does not know *)
Lemma floor_first_refuted :
  exists cur pend k,
    NoDup (map fst cur) /\ NoDup (map fst pend) /\
    voting_power_floor_first 10 = Some (match aget k pend with Some v => v | None => 1 end) /\
    In (k, 0) (diff_validators cur pend) /\ ~ In k (map fst cur).
Proof.
  exists [(1, 100)], [(1, 100); (2, 0)], 2.
  split; [repeat constructor; cbn; intuition discriminate|].
  split; [repeat constructor; cbn; intuition discriminate|].
  split; [reflexivity|].
  split; [vm_compute; left; reflexivity|].
  cbn. intuition discriminate.
Qed.
