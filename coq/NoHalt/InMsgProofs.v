(* C10: processing incoming runtime messages at round finalization never fails fatally, for
   ANY committed message count, and never touches another runtime's queue. *)
From Verif Require Import Lib.Base NoHalt.Model NoHalt.Proofs.

Local Ltac b2p :=
  repeat match goal with
  | H : (_ =? _) = true |- _ => apply N.eqb_eq in H
  | H : (_ =? _) = false |- _ => apply N.eqb_neq in H
  | H : (_ <=? _) = true |- _ => apply N.leb_le in H
  | H : (_ <=? _) = false |- _ => apply N.leb_gt in H
  end.

(* the size counter equals the number of stored messages, which are distinct *)
Definition rq_ok (r : rq) : Prop :=
  q_size r = N.of_nat (length (q_msgs r)) /\ NoDup (q_msgs r) /\ Forall (fun m => m < q_next r) (q_msgs r).

Lemma filter_notin (m : N) l : ~ In m l -> filter (fun x => negb (x =? m)) l = l.
Proof.
  induction l as [|a r IH]; cbn [filter In]; intros H; [reflexivity|].
  destruct (a =? m) eqn:E; b2p; [exfalso; apply H; left; exact E|]. cbn [negb]. f_equal. apply IH. tauto.
Qed.

(* removing a PREFIX of the queue: the counter never hits zero early *)
Lemma remove_prefix_ok : forall pre rest size,
  NoDup (pre ++ rest) -> size = N.of_nat (length (pre ++ rest)) ->
  remove_msgs pre size (pre ++ rest) = Ok (N.of_nat (length rest), rest).
Proof.
  induction pre as [|m r IH]; intros rest size Hnd Hs; cbn [remove_msgs app].
  - subst. reflexivity.
  - cbn [app length] in *. inversion Hnd as [|x l Hnotin Hnd']; subst x l.
    destruct (size =? 0) eqn:E; b2p; [lia|].
    cbn [filter]. rewrite N.eqb_refl. cbn [negb].
    rewrite filter_notin by exact Hnotin.
    apply IH; [exact Hnd'|lia].
Qed.

Lemma nodup_app_tail {A} (a b : list A) : NoDup (a ++ b) -> NoDup b.
Proof. induction a as [|x r IH]; cbn [app]; intros H; [exact H|]. inversion H; subst. apply IH. assumption. Qed.

Lemma nodup_snoc {A} (l : list A) x : NoDup l -> ~ In x l -> NoDup (l ++ [x]).
Proof.
  induction l as [|a r IH]; cbn [app]; intros Hnd Hx; [constructor; [intros []|constructor]|].
  inversion Hnd as [|y ys Hnotin Hnd']; subst. constructor.
  - intros Hin. apply in_app_or in Hin as [Hin|[<-|[]]]; [contradiction|]. apply Hx. left. reflexivity.
  - apply IH; [exact Hnd'|]. intros Hin. apply Hx. right. exact Hin.
Qed.

Lemma firstn_skipn_app {A} n (l : list A) : firstn n l ++ skipn n l = l.
Proof. apply firstn_skipn. Qed.

(* round finalization never fails FATALLY whatever count the committee committed: a count
   above the queue size just takes the whole queue (the hash decides between success and a
   failed round) *)
Lemma finalize_inmsgs_ok r count hash_ok :
  rq_ok r ->
  (hash_ok = false /\ finalize_inmsgs r count hash_ok = Ok None) \/
  exists r1, finalize_inmsgs r count hash_ok = Ok (Some r1) /\ rq_ok r1 /\
             q_msgs r1 = skipn (N.to_nat count) (q_msgs r).
Proof.
  intros [Hs [Hnd Hlt]]. unfold finalize_inmsgs, fetch_own.
  destruct hash_ok; cbn [negb]; [right|left; split; reflexivity].
  set (n := N.to_nat count).
  pose proof (firstn_skipn_app n (q_msgs r)) as Hsplit.
  assert (E : remove_msgs (firstn n (q_msgs r)) (q_size r) (q_msgs r)
              = Ok (N.of_nat (length (skipn n (q_msgs r))), skipn n (q_msgs r))).
  { rewrite <- Hsplit at 2. apply remove_prefix_ok; rewrite Hsplit; assumption. }
  rewrite E. cbn [bind]. eexists. split; [reflexivity|]. split; [|reflexivity].
  unfold rq_ok. cbn [q_size q_msgs q_next]. split; [reflexivity|]. split.
  - rewrite <- Hsplit in Hnd. apply nodup_app_tail in Hnd. exact Hnd.
  - rewrite <- Hsplit in Hlt. apply Forall_app in Hlt. tauto.
Qed.

Lemma finalize_inmsgs_total r count hash_ok :
  rq_ok r -> is_fatal (finalize_inmsgs r count hash_ok) = false.
Proof.
  intros H. destruct (finalize_inmsgs_ok r count hash_ok H) as [[_ E]|[r1 [E _]]]; rewrite E; reflexivity.
Qed.

(* submitting keeps the invariant *)
Lemma rq_submit_ok maxq r r1 : rq_ok r -> rq_submit maxq r = Some r1 -> rq_ok r1.
Proof.
  intros [Hs [Hnd Hlt]]. unfold rq_submit. destruct (maxq <=? q_size r); [discriminate|].
  intros E; injection E as <-. unfold rq_ok. cbn [q_size q_msgs q_next]. repeat split.
  - rewrite app_length. cbn [length]. lia.
  - apply nodup_snoc; [exact Hnd|].
    intros Hx. rewrite Forall_forall in Hlt. specialize (Hlt _ Hx). lia.
  - apply Forall_app. split.
    + eapply Forall_impl; [|exact Hlt]. intros a Ha. cbn in *. lia.
    + constructor; [lia|constructor].
Qed.

(* independence: finalizing one runtime never changes another runtime's queue *)
Lemma sys_finalize_independent sys id count hash_ok sys1 other :
  other <> id -> sys_finalize sys id count hash_ok = Ok sys1 -> aget other sys1 = aget other sys.
Proof.
  intros Hne. unfold sys_finalize. destruct (aget id sys) as [r|]; [|intros E; injection E as <-; reflexivity].
  destruct (finalize_inmsgs r count hash_ok) as [[r1|]|]; cbn [bind]; try discriminate;
    intros E; injection E as <-; [|reflexivity].
  apply aget_aset_other. exact Hne.
Qed.

Lemma sys_finalize_total sys id count hash_ok :
  (forall r, aget id sys = Some r -> rq_ok r) -> is_fatal (sys_finalize sys id count hash_ok) = false.
Proof.
  intros H. unfold sys_finalize. destruct (aget id sys) as [r|] eqn:E; [|reflexivity].
  destruct (finalize_inmsgs_ok r count hash_ok (H r eq_refl)) as [[_ E1]|[r1 [E1 _]]]; rewrite E1; reflexivity.
Qed.

(* the seeded variant (the fetch runs on into the next runtime's queue) is refuted *)
Lemma overrun_refuted :
  exists r foreign count, rq_ok r /\ finalize_inmsgs_overrun r foreign count = Fatal /\
                          is_fatal (finalize_inmsgs r count true) = false.
Proof.
  exists (mkRQ 1 1 [0]), [0], 2. repeat split; try reflexivity.
  - repeat constructor. intros [].
  - repeat constructor.
Qed.

Example inmsg_ex :
  finalize_inmsgs (mkRQ 3 3 [0; 1; 2]) 5 true = Ok (Some (mkRQ 0 3 [])) /\
  finalize_inmsgs (mkRQ 3 3 [0; 1; 2]) 2 true = Ok (Some (mkRQ 1 3 [2])) /\
  finalize_inmsgs (mkRQ 3 3 [0; 1; 2]) 2 false = Ok None.
Proof. repeat split; reflexivity. Qed.
