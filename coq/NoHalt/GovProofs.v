(* C10: the governance deposits pool always holds exactly the recorded deposits of the open
   proposals, whatever parameter changes happen in between, so closing proposals never asks
   the pool for more than it holds. *)
From Verif Require Import Lib.Base NoHalt.Model NoHalt.Proofs.

Local Ltac b2p :=
  repeat match goal with
  | H : (_ =? _) = true |- _ => apply N.eqb_eq in H
  | H : (_ =? _) = false |- _ => apply N.eqb_neq in H
  end.

Fixpoint dsum (l : list (N * N)) : N := match l with [] => 0 | (_, d) :: r => d + dsum r end.

(* pool = sum of the recorded deposits; ids are unique and below the next identifier *)
Definition ginv (st : gst) : Prop :=
  g_pool st = dsum (g_open st) /\ NoDup (map fst (g_open st)) /\
  Forall (fun x => fst x < g_next st) (g_open st).

Lemma adel_notin_id (k : N) (l : list (N * N)) : ~ In k (map fst l) -> adel k l = l.
Proof.
  induction l as [|[k' v] r IH]; cbn [adel map fst In]; intros H; [reflexivity|].
  destruct (k' =? k) eqn:E; b2p; [exfalso; apply H; left; exact E|].
  f_equal. apply IH. intros Hin. apply H. right. exact Hin.
Qed.

Lemma dsum_adel id l dep :
  NoDup (map fst l) -> aget id l = Some dep -> dsum l = dep + dsum (adel id l).
Proof.
  induction l as [|[k v] r IH]; cbn [aget adel dsum map fst]; intros Hnd H; [discriminate|].
  inversion Hnd as [|x xs Hnotin Hnd']; subst.
  destruct (k =? id) eqn:E; b2p.
  - injection H as <-. subst k. rewrite adel_notin_id by exact Hnotin. reflexivity.
  - cbn [dsum]. rewrite (IH Hnd' H). lia.
Qed.

Lemma adel_keys_subset id (l : list (N * N)) x : In x (map fst (adel id l)) -> In x (map fst l).
Proof.
  induction l as [|[k v] r IH]; cbn [adel map fst In]; [tauto|].
  destruct (k =? id); cbn [map fst In]; intuition.
Qed.

Lemma adel_nodup id (l : list (N * N)) : NoDup (map fst l) -> NoDup (map fst (adel id l)).
Proof.
  induction l as [|[k v] r IH]; cbn [adel map fst]; intros H; [constructor|].
  inversion H as [|x xs Hnotin Hnd]; subst.
  destruct (k =? id); [apply IH; exact Hnd|].
  cbn [map fst]. constructor; [|apply IH; exact Hnd].
  intros Hin. apply Hnotin. eapply adel_keys_subset. exact Hin.
Qed.

Lemma adel_forall (P : N * N -> Prop) id l : Forall P l -> Forall P (adel id l).
Proof.
  induction l as [|[k v] r IH]; cbn [adel]; intros H; [constructor|].
  inversion H; subst. destruct (k =? id); [apply IH; assumption|constructor; [assumption|apply IH; assumption]].
Qed.

Lemma aget_in_dsum id (l : list (N * N)) dep : aget id l = Some dep -> dep <= dsum l.
Proof.
  induction l as [|[k v] r IH]; cbn [aget dsum]; intros H; [discriminate|].
  destruct (k =? id); [injection H as <-; lia|]. specialize (IH H). lia.
Qed.

(* one step: never Fatal, invariant preserved -- for ANY parameter change *)
Lemma gstep_ok st o : ginv st -> exists st', gstep st o = Ok st' /\ ginv st'.
Proof.
  intros [Hp [Hnd Hlt]]. destruct o as [|x|id]; cbn [gstep].
  - eexists. split; [reflexivity|]. unfold ginv. cbn [g_pool g_open g_next dsum map fst].
    repeat split.
    + lia.
    + constructor; [|exact Hnd].
      intros Hin. apply in_map_iff in Hin as [[k v] [Hk Hin]]. cbn in Hk. subst k.
      rewrite Forall_forall in Hlt. specialize (Hlt _ Hin). cbn in Hlt. lia.
    + constructor; [cbn; lia|]. eapply Forall_impl; [|exact Hlt]. intros a Ha. cbn in *. lia.
  - eexists. split; [reflexivity|]. unfold ginv. cbn. auto.
  - destruct (aget id (g_open st)) as [dep|] eqn:E.
    + pose proof (aget_in_dsum _ _ _ E) as Hle.
      rewrite qsub_ok by lia. cbn [bind]. eexists. split; [reflexivity|].
      unfold ginv. cbn [g_pool g_open g_next]. repeat split.
      * rewrite Hp, (dsum_adel id _ dep Hnd E). lia.
      * apply adel_nodup. exact Hnd.
      * apply adel_forall. exact Hlt.
    + exists st. split; [reflexivity|]. repeat split; assumption.
Qed.

(* any history of submissions, parameter changes and closings: never Fatal, and the pool is
   always the sum of the open proposals' recorded deposits *)
Lemma grun_ok ops : forall st, ginv st -> exists st', grun ops st = Ok st' /\ ginv st'.
Proof.
  induction ops as [|o r IH]; intros st H; cbn [grun].
  - exists st. split; [reflexivity|exact H].
  - destruct (gstep_ok st o H) as [st1 [H1 Hi]]. rewrite H1. cbn [bind]. apply IH. exact Hi.
Qed.

Definition ginit (min : N) : gst := mkG 0 min 1 [].
Lemma ginit_inv min : ginv (ginit min).
Proof. repeat split; cbn; constructor. Qed.

(* one EndBlock closing several proposals never needs more than the pool holds *)
Lemma gov_close_ok pool deps rest :
  pool = fold_right N.add rest deps ->
  exists l, gov_close pool deps = Ok (l, rest) /\ map (fun x => fst (fst x)) l = deps.
Proof.
  revert pool. induction deps as [|d r IH]; intros pool H; cbn [gov_close fold_right] in *.
  - subst. exists []. split; reflexivity.
  - rewrite qsub_ok by lia. cbn [bind].
    destruct (IH (pool - d) ltac:(lia)) as [l [Hl Hm]]. rewrite Hl. cbn [bind].
    exists ((d, 0, 0) :: l). split; [reflexivity|cbn; f_equal; exact Hm].
Qed.

(* The variant that refunds the CURRENT minimum deposit is refuted: raise the minimum while a
   proposal is open, then close it. *)
Lemma current_min_refund_refuted :
  exists ops, grun_current_min ops (ginit 100) = Fatal /\
              exists st, grun ops (ginit 100) = Ok st /\ g_pool st = 0.
Proof.
  exists [GSubmit; GSetMin 1000; GClose 1]. split; [reflexivity|].
  eexists. split; [reflexivity|reflexivity].
Qed.

(* and when the minimum is LOWERED it silently leaves money behind (invariant broken) *)
Lemma current_min_refund_breaks_invariant :
  exists ops st, grun_current_min ops (ginit 100) = Ok st /\ g_open st = [] /\ g_pool st <> 0.
Proof.
  exists [GSubmit; GSetMin 10; GClose 1]. eexists. split; [reflexivity|]. split; [reflexivity|]. cbn. lia.
Qed.

Example grun_ex :
  match grun [GSubmit; GSubmit; GSetMin 5000; GSubmit; GClose 2; GSetMin 1; GClose 1; GSubmit; GClose 3]
             (ginit 100) with
  | Ok st => (g_pool st, g_open st) = (1, [(4, 1)])
  | Fatal => False
  end.
Proof. vm_compute. reflexivity. Qed.
