(* C10: totality ("never Fatal") of the fee split, reward and slashing
   arithmetic under the preconditions the surrounding code establishes, with
   refutation witnesses where a precondition is NOT established by the code. *)
From Verif Require Import Lib.Base NoHalt.Model.

Local Ltac b2p :=
  repeat match goal with
  | H : (_ =? _) = true |- _ => apply N.eqb_eq in H
  | H : (_ =? _) = false |- _ => apply N.eqb_neq in H
  | H : (_ <? _) = true |- _ => apply N.ltb_lt in H
  | H : (_ <? _) = false |- _ => apply N.ltb_ge in H
  | H : (_ <=? _) = true |- _ => apply N.leb_le in H
  | H : (_ <=? _) = false |- _ => apply N.leb_gt in H
  end.

(* ---------- arithmetic helpers ---------- *)
Lemma mul_frac_le a c b : b <> 0 -> c <= b -> a * c / b <= a.
Proof.
  intros Hb Hc.
  apply N.le_trans with (a * b / b).
  - apply N.div_le_mono; [exact Hb|]. apply N.mul_le_mono_l. exact Hc.
  - rewrite N.div_mul by exact Hb. apply N.le_refl.
Qed.

Lemma div_mul_self_le a b : b <> 0 -> a / b * b <= a.
Proof. intros Hb. rewrite N.mul_comm. apply N.mul_div_le. exact Hb. Qed.

Lemma div_add_le a b c : c <> 0 -> a / c + b / c <= (a + b) / c.
Proof.
  intros Hc. apply N.div_le_lower_bound; [exact Hc|].
  rewrite N.mul_add_distr_l.
  apply N.add_le_mono; apply N.mul_div_le; exact Hc.
Qed.

Lemma mul_frac_lt a c b : b <> 0 -> c < b -> a <> 0 -> a * c / b < a.
Proof.
  intros Hb Hc Ha. apply N.div_lt_upper_bound; [exact Hb|].
  rewrite (N.mul_comm b a). apply N.mul_lt_mono_pos_l; lia.
Qed.

Lemma qquo_ok a b : b <> 0 -> qquo a b = Ok (a / b).
Proof. intros H. unfold qquo. destruct (b =? 0) eqn:E; b2p; [contradiction|reflexivity]. Qed.
Lemma qsub_ok a b : b <= a -> qsub a b = Ok (a - b).
Proof. intros H. unfold qsub. destruct (a <? b) eqn:E; b2p; [lia|reflexivity]. Qed.
Lemma qquo_zero a : qquo a 0 = Fatal.
Proof. reflexivity. Qed.

(* ---------- (a1) disburseFeesP ---------- *)
(* Precondition = ConsensusParameters.SanityCheck, go/staking/api/sanity_check.go:43-45
   ("fee split proportions are all zero" is rejected), enforced on the genesis
   document and re-run on every parameter change (apps/staking/messages.go:41). *)
Lemma fee_p_total total wP wV wQ k :
  wP + wV + wQ <> 0 -> is_fatal (fee_p total wP wV wQ k) = false.
Proof.
  intros Hw. unfold fee_p.
  destruct (total =? 0); [reflexivity|].
  rewrite qquo_ok by lia. cbn [bind].
  assert (Hle : total * (wV + wQ) / (wV + wQ + wP) <= total)
    by (apply mul_frac_le; lia).
  rewrite qsub_ok by exact Hle. cbn [bind].
  destruct (k && negb (total - total * (wV + wQ) / (wV + wQ + wP) =? 0)); reflexivity.
Qed.

(* nothing is created or lost *)
Lemma fee_p_conserves total wP wV wQ k a b c :
  fee_p total wP wV wQ k = Ok (a, b, c) -> a + b + c = total.
Proof.
  unfold fee_p. destruct (total =? 0) eqn:E0; b2p.
  - intros H; injection H as <- <- <-. lia.
  - unfold qquo. destruct (wV + wQ + wP =? 0); [discriminate|]. cbn [bind].
    unfold qsub. destruct (total <? _) eqn:E1; [discriminate|]. b2p. cbn [bind].
    destruct (k && _); intros H; injection H as <- <- <-; lia.
Qed.

(* ---------- (a2) disburseFeesVQ ---------- *)
(* Preconditions:
   - nEV > 0: the commit info has one entry per validator of the previous
     height (CometBFT), it is empty only at the initial height, where
     LastBlockFees = 0 because InitChain folds them into the common pool
     (apps/staking/genesis.go:41-62)  -> lemma fee_vq_zero_fees;
   - nVE <= nEV: voting entities are resolved from the signed entries (votes.go:23-43).
   No premise on the weights: since commit c9cfe37 a zero vote + next-propose
   weight sends everything to the common pool.  The ORIGINAL function needed
   wV + wQ <> 0, which SanityCheck does not give (fee_vq_original_refuted). *)
Lemma fee_vq_zero_fees nEV nVE wV wQ k : fee_vq 0 nEV nVE wV wQ k = Ok (0, 0, 0).
Proof. reflexivity. Qed.

(* the common tail: pays without error and conserves the pending fees *)
Lemma fee_vq_tail_ok last nEV nVE perV sNP k :
  perV * nEV <= last -> nVE <= nEV -> sNP <= perV ->
  exists a b c, fee_vq_tail last perV sNP nVE k = Ok (a, b, c) /\ a + b * nVE + c = last.
Proof.
  intros Hper HnV HsNP. unfold fee_vq_tail.
  rewrite qsub_ok by exact HsNP. cbn [bind].
  assert (Hper2 : perV * nVE <= last).
  { apply N.le_trans with (perV * nEV); [apply N.mul_le_mono_l; exact HnV|exact Hper]. }
  assert (Hsplit : sNP * nVE + (perV - sNP) * nVE = perV * nVE).
  { rewrite <- N.mul_add_distr_r. f_equal. lia. }
  destruct (negb (sNP * nVE =? 0) && k).
  - rewrite qsub_ok by lia. cbn [bind].
    destruct (perV - sNP =? 0) eqn:E; b2p.
    + do 3 eexists. split; [reflexivity|]. rewrite E. lia.
    + rewrite qsub_ok by lia. cbn [bind]. do 3 eexists. split; [reflexivity|]. lia.
  - cbn [bind]. destruct (perV - sNP =? 0) eqn:E; b2p.
    + do 3 eexists. split; [reflexivity|]. rewrite E. lia.
    + rewrite qsub_ok by lia. cbn [bind]. do 3 eexists. split; [reflexivity|]. lia.
Qed.

(* totality AND conservation, for ALL weights *)
Lemma fee_vq_ok last nEV nVE wV wQ k :
  0 < nEV -> nVE <= nEV ->
  exists a b c, fee_vq last nEV nVE wV wQ k = Ok (a, b, c) /\ a + b * nVE + c = last.
Proof.
  intros HnE HnV. unfold fee_vq.
  destruct (last =? 0) eqn:E0; b2p.
  - exists 0, 0, 0. split; [reflexivity|lia].
  - rewrite qquo_ok by lia. cbn [bind].
    destruct (wV + wQ =? 0) eqn:Ed; b2p.
    + exists 0, 0, last. split; [reflexivity|lia].
    + rewrite qquo_ok by exact Ed. cbn [bind].
      apply (fee_vq_tail_ok last nEV nVE).
      * apply div_mul_self_le; lia.
      * exact HnV.
      * apply mul_frac_le; lia.
Qed.

Lemma fee_vq_total last nEV nVE wV wQ k :
  0 < nEV -> nVE <= nEV ->
  is_fatal (fee_vq last nEV nVE wV wQ k) = false.
Proof.
  intros HnE HnV. destruct (fee_vq_ok last nEV nVE wV wQ k HnE HnV) as [a [b [c [H _]]]].
  rewrite H. reflexivity.
Qed.

Lemma fee_vq_conserves last nEV nVE wV wQ k a b c :
  0 < nEV -> nVE <= nEV ->
  fee_vq last nEV nVE wV wQ k = Ok (a, b, c) -> a + b * nVE + c = last.
Proof.
  intros HnE HnV H. destruct (fee_vq_ok last nEV nVE wV wQ k HnE HnV) as [a' [b' [c' [H' Hs]]]].
  rewrite H in H'. injection H' as -> -> ->. exact Hs.
Qed.

(* fees persisted by disburseFeesP under ANY sanity-checked weights are split
   without error by disburseFeesVQ of the next block under ANY other weights
   (a parameter change may take effect in between) *)
Lemma fee_p_then_vq_total total wP wV wQ k persist b c nEV nVE wV' wQ' k' :
  fee_p total wP wV wQ k = Ok (persist, b, c) ->
  0 < nEV -> nVE <= nEV ->
  is_fatal (fee_vq persist nEV nVE wV' wQ' k') = false.
Proof. intros _ HnE HnV. apply fee_vq_total; assumption. Qed.

(* ---- the ORIGINAL function (before c9cfe37) ---- *)
(* it agrees with the repaired one whenever vote + next-propose weight is non-zero *)
Lemma fee_vq_original_agrees last nEV nVE wV wQ k :
  wV + wQ <> 0 -> fee_vq_original last nEV nVE wV wQ k = fee_vq last nEV nVE wV wQ k.
Proof.
  intros H. unfold fee_vq_original, fee_vq.
  destruct (last =? 0); [reflexivity|].
  destruct (qquo last nEV); [|reflexivity]. cbn [bind].
  rewrite (proj2 (N.eqb_neq _ 0) H). reflexivity.
Qed.

(* REFUTATION of its totality under the preconditions the code enforces
   (SanityCheck: weights not ALL zero): with weights (P,V,Q) = (1,0,0) and
   non-zero LastBlockFees the division by V+Q fails.  Reached on the real
   multiplexer when a change-parameters proposal switching to V = Q = 0 is
   executed by the governance EndBlock (300_governance) of a block whose fees
   were already persisted by the staking EndBlock (100_staking). *)
Lemma fee_vq_original_refuted :
  exists last nEV nVE wP wV wQ k,
    wP + wV + wQ <> 0 /\ 0 < nEV /\ nVE <= nEV /\ last <> 0 /\
    fee_vq_original last nEV nVE wV wQ k = Fatal /\
    is_fatal (fee_vq last nEV nVE wV wQ k) = false.
Proof. exists 1, 1, 1, 1, 0, 0, true. repeat split; try lia; reflexivity. Qed.

Lemma fee_vq_original_fatal_zero_weights last nEV nVE k :
  last <> 0 -> fee_vq_original last nEV nVE 0 0 k = Fatal.
Proof.
  intros H. unfold fee_vq_original. destruct (last =? 0) eqn:E; b2p; [contradiction|].
  unfold qquo at 1. destruct (nEV =? 0); [reflexivity|]. cbn [bind]. reflexivity.
Qed.

(* the scenario end to end on the model: fees persisted under (2,1,1), split under (1,0,0) *)
Example fee_p_then_vq_weight_change :
  fee_p 1000 2 1 1 true = Ok (500, 500, 0) /\
  fee_vq_original 500 4 4 0 0 true = Fatal /\
  fee_vq 500 4 4 0 0 true = Ok (0, 0, 500).
Proof. repeat split; reflexivity. Qed.

(* ---------- share pools ---------- *)
Lemma stake_for_shares_ok bal ts s : exists x, stake_for_shares bal ts s = Ok x /\
  (x = 0 \/ (ts <> 0 /\ x = s * bal / ts)).
Proof.
  unfold stake_for_shares.
  destruct ((s =? 0) || (bal =? 0) || (ts =? 0)) eqn:E.
  - exists 0. split; [reflexivity|left; reflexivity].
  - apply orb_false_iff in E as [E E3]. apply orb_false_iff in E as [E1 E2]. b2p.
    rewrite qquo_ok by exact E3. eexists. split; [reflexivity|right; split; [exact E3|reflexivity]].
Qed.

(* the tally uses the total function [stake_pure]: it IS StakeForShares, which never fails *)
Lemma stake_for_shares_pure bal ts s : stake_for_shares bal ts s = Ok (stake_pure bal ts s).
Proof.
  unfold stake_for_shares, stake_pure.
  destruct ((s =? 0) || (bal =? 0) || (ts =? 0)) eqn:E; [reflexivity|].
  apply orb_false_iff in E as [E E3]. b2p. apply qquo_ok. exact E3.
Qed.

(* ---------- (b) rewards ---------- *)
(* Preconditions: the two denominators are the non-zero package constants
   (staking/api/rewards.go:21-22 = 100_000_000, commission.go:414 = 100_000);
   den > 0: the attenuation denominator is the number of commit-info entries;
   at the first block rewardBlockProposing returns before the call because
   GetCurrentEpoch = EpochInvalid when LastHeight = 0 (abci/state.go:283-286,
   proposing_rewards.go:55-58); rate <= cden: commission schedule rules
   (commission.go:160-200) and MinCommissionRate bound (sanity_check.go:47-50). *)
Lemma commission_ok cden rate q :
  cden <> 0 -> rate <= cden ->
  commission cden rate q = Ok (q * rate / cden, q - q * rate / cden) /\ q * rate / cden <= q.
Proof.
  intros Hc Hr. unfold commission. rewrite qquo_ok by exact Hc. cbn [bind].
  assert (H : q * rate / cden <= q) by (apply mul_frac_le; assumption).
  rewrite qsub_ok by exact H. split; [reflexivity|exact H].
Qed.

Lemma reward_total rden cden bal ts factor scale num den pool rate :
  rden <> 0 -> cden <> 0 -> den <> 0 -> rate <= cden ->
  is_fatal (reward rden cden bal ts factor scale num den pool rate) = false.
Proof.
  intros Hrd Hcd Hden Hrate. unfold reward.
  rewrite qquo_ok by exact Hrd. cbn [bind].
  rewrite qquo_ok by exact Hden. cbn [bind].
  set (q := bal * factor * scale * num / rden / den).
  destruct (q =? 0) eqn:Eq; [reflexivity|].
  destruct (pool <? q) eqn:Ep; [reflexivity|]. b2p.
  destruct (commission_ok cden rate q Hcd Hrate) as [Hcom Hle].
  rewrite Hcom. cbn [bind].
  set (com := q * rate / cden) in *.
  assert (Hp1 : exists p1, (if q - com =? 0 then Ok pool else qsub pool (q - com)) = Ok p1 /\ com <= p1).
  { destruct (q - com =? 0) eqn:E; b2p.
    - exists pool. split; [reflexivity|lia].
    - exists (pool - (q - com)). split; [apply qsub_ok; lia|lia]. }
  destruct Hp1 as [p1 [Hp1 Hp1le]]. rewrite Hp1. cbn [bind].
  destruct (com =? 0) eqn:Ec; [reflexivity|]. b2p.
  assert (Hbal : bal <> 0).
  { intros ->. apply Eq. unfold q. rewrite !N.mul_0_l.
    rewrite (N.div_0_l rden) by exact Hrd. apply N.div_0_l. exact Hden. }
  unfold shares_for_stake.
  destruct (ts =? 0).
  - cbn [bind]. rewrite qsub_ok by exact Hp1le. reflexivity.
  - destruct (bal + (q - com) =? 0) eqn:Eb; b2p; [lia|].
    rewrite qquo_ok by exact Eb. cbn [bind]. rewrite qsub_ok by exact Hp1le. reflexivity.
Qed.

(* the guard at the first block is NEEDED: with an empty commit info the division fails *)
Lemma reward_fatal_den_zero rden cden bal ts factor scale num pool rate :
  rden <> 0 -> reward rden cden bal ts factor scale num 0 pool rate = Fatal.
Proof. intros H. unfold reward. rewrite qquo_ok by exact H. reflexivity. Qed.

(* ---------- (b') TransferFromCommon(escrow = true) ---------- *)
(* totality AND conservation of the repaired function: no premise on the pool *)
Lemma tfc_ok cden bal ts pool amount rate :
  cden <> 0 -> rate <= cden ->
  transfer_from_common_escrow cden bal ts pool amount rate = Ok None /\ N.min pool amount = 0 \/
  exists rem com sh gen,
    transfer_from_common_escrow cden bal ts pool amount rate = Ok (Some (rem, com, sh, gen)) /\
    rem + com + gen = N.min pool amount.
Proof.
  intros Hc Hr. unfold transfer_from_common_escrow.
  set (t := N.min pool amount).
  destruct (t =? 0) eqn:Et; b2p; [left; split; [reflexivity|exact Et]|]. right.
  destruct (ts =? 0) eqn:Ets; b2p.
  - unfold shares_for_stake. rewrite (proj2 (N.eqb_eq ts 0) Ets). cbn [bind].
    do 4 eexists. split; [reflexivity|lia].
  - destruct (commission_ok cden rate t Hc Hr) as [Hcom Hle]. rewrite Hcom. cbn [bind].
    set (com := t * rate / cden) in *.
    destruct (com =? 0) eqn:Ec; b2p.
    + do 4 eexists. split; [reflexivity|lia].
    + destruct (bal + (t - com) =? 0) eqn:Eb; b2p.
      * cbn [negb andb].
        do 4 eexists. split; [reflexivity|lia].
      * cbn [andb]. unfold shares_for_stake. rewrite (proj2 (N.eqb_neq ts 0) Ets).
        rewrite (proj2 (N.eqb_neq _ 0) Eb). rewrite qquo_ok by exact Eb. cbn [bind].
        do 4 eexists. split; [reflexivity|lia].
Qed.

Lemma tfc_total cden bal ts pool amount rate :
  cden <> 0 -> rate <= cden ->
  is_fatal (transfer_from_common_escrow cden bal ts pool amount rate) = false.
Proof.
  intros Hc Hr. destruct (tfc_ok cden bal ts pool amount rate Hc Hr) as [[H _]|[a [b [c [d [H _]]]]]];
    rewrite H; reflexivity.
Qed.

(* common pool decrease = escrow increase (rem + com) + general balance increase (gen) *)
Lemma tfc_conserves cden bal ts pool amount rate rem com sh gen :
  cden <> 0 -> rate <= cden ->
  transfer_from_common_escrow cden bal ts pool amount rate = Ok (Some (rem, com, sh, gen)) ->
  rem + com + gen = N.min pool amount /\ N.min pool amount <= pool.
Proof.
  intros Hc Hr H. split; [|lia].
  destruct (tfc_ok cden bal ts pool amount rate Hc Hr) as [[H' _]|[a [b [c [d [H' Hs]]]]]].
  - rewrite H in H'. discriminate.
  - rewrite H in H'. injection H' as -> -> -> ->. exact Hs.
Qed.

(* ---- the ORIGINAL function (before c3a21ab) ---- *)
Lemma tfc_original_total cden bal ts pool amount rate :
  cden <> 0 -> rate <= cden ->
  (ts = 0 \/ bal <> 0 \/ rate < cden) ->
  is_fatal (transfer_from_common_escrow_original cden bal ts pool amount rate) = false.
Proof.
  intros Hc Hr Hcase. unfold transfer_from_common_escrow_original.
  set (t := N.min pool amount).
  destruct (t =? 0) eqn:Et; [reflexivity|]. b2p.
  destruct (ts =? 0) eqn:Ets; b2p.
  - unfold shares_for_stake. rewrite (proj2 (N.eqb_eq ts 0) Ets). reflexivity.
  - destruct (commission_ok cden rate t Hc Hr) as [Hcom Hle]. rewrite Hcom. cbn [bind].
    destruct (t * rate / cden =? 0) eqn:Ec; [reflexivity|].
    unfold shares_for_stake. rewrite (proj2 (N.eqb_neq ts 0) Ets).
    assert (Hb : bal + (t - t * rate / cden) <> 0).
    { destruct Hcase as [H|[H|H]]; [contradiction|lia|].
      assert (t * rate / cden < t) by (apply mul_frac_lt; assumption). lia. }
    rewrite (proj2 (N.eqb_neq _ 0) Hb). rewrite qquo_ok by exact Hb. reflexivity.
Qed.

(* an escrow account slashed to zero (shares outstanding, balance 0) with a
   100 % commission rate made the ORIGINAL TransferFromCommon(escrow=true) fail;
   the repaired one leaves the commission in the general balance *)
Lemma tfc_original_fatal_full_commission cden ts pool amount :
  cden <> 0 -> ts <> 0 -> pool <> 0 -> amount <> 0 ->
  transfer_from_common_escrow_original cden 0 ts pool amount cden = Fatal /\
  transfer_from_common_escrow cden 0 ts pool amount cden = Ok (Some (0, 0, 0, N.min pool amount)).
Proof.
  intros Hc Hts Hp Ha. unfold transfer_from_common_escrow_original, transfer_from_common_escrow.
  set (t := N.min pool amount).
  assert (Ht : t <> 0) by (unfold t; lia).
  rewrite (proj2 (N.eqb_neq t 0) Ht), (proj2 (N.eqb_neq ts 0) Hts).
  destruct (commission_ok cden cden t Hc (N.le_refl _)) as [Hcom _]. rewrite Hcom. cbn [bind].
  rewrite N.div_mul by exact Hc.
  rewrite (proj2 (N.eqb_neq t 0) Ht).
  replace (0 + (t - t)) with 0 by lia. rewrite N.sub_diag.
  split.
  - unfold shares_for_stake. rewrite (proj2 (N.eqb_neq ts 0) Hts). reflexivity.
  - rewrite N.eqb_refl. cbn [negb andb]. reflexivity.
Qed.

Lemma tfc_original_refuted :
  exists cden bal ts pool amount rate,
    cden <> 0 /\ rate <= cden /\
    transfer_from_common_escrow_original cden bal ts pool amount rate = Fatal /\
    is_fatal (transfer_from_common_escrow cden bal ts pool amount rate) = false.
Proof. exists 100000, 0, 5, 10, 10, 100000. repeat split; try lia; reflexivity. Qed.

(* outside the dead-pool case the repair changes nothing *)
Lemma tfc_original_agrees cden bal ts pool amount rate :
  cden <> 0 -> rate <= cden -> (ts = 0 \/ bal <> 0 \/ rate < cden) ->
  transfer_from_common_escrow_original cden bal ts pool amount rate =
  transfer_from_common_escrow cden bal ts pool amount rate.
Proof.
  intros Hc Hr Hcase. unfold transfer_from_common_escrow_original, transfer_from_common_escrow.
  set (t := N.min pool amount).
  destruct (t =? 0) eqn:Et; [reflexivity|]. b2p.
  destruct (ts =? 0) eqn:Ets; [reflexivity|]. b2p.
  destruct (commission_ok cden rate t Hc Hr) as [Hcom Hle]. rewrite Hcom. cbn [bind].
  destruct (t * rate / cden =? 0) eqn:Ec; [reflexivity|].
  assert (Hb : bal + (t - t * rate / cden) <> 0).
  { destruct Hcase as [H|[H|H]]; [contradiction|lia|].
    assert (t * rate / cden < t) by (apply mul_frac_lt; assumption). lia. }
  rewrite (proj2 (N.eqb_neq _ 0) Hb). cbn [andb]. reflexivity.
Qed.

(* ---------- (b'') distributeSlashedFunds ---------- *)
Lemma distribute_slashed_total total pct n :
  pct <= 100 -> exists r e, distribute_slashed total pct n = Ok (r, e) /\ r + e * n <= total.
Proof.
  intros Hp. unfold distribute_slashed. rewrite qquo_ok by lia. cbn [bind].
  assert (Hle : total * pct / 100 <= total) by (apply mul_frac_le; lia).
  destruct (n =? 0) eqn:E; b2p.
  - subst. do 2 eexists. split; [reflexivity|lia].
  - rewrite qsub_ok by exact Hle. cbn [bind]. rewrite qquo_ok by exact E. cbn [bind].
    do 2 eexists. split; [reflexivity|].
    pose proof (div_mul_self_le (total - total * pct / 100) n E). lia.
Qed.

(* a percentage above 100 (excluded by the descriptor validity check) makes it fail as soon as
   something was slashed and somebody else is to be rewarded *)
Lemma distribute_slashed_fatal_above_100 total pct n :
  100 < pct -> 100 <= total -> n <> 0 -> distribute_slashed total pct n = Fatal.
Proof.
  intros Hp Ht Hn. unfold distribute_slashed. rewrite qquo_ok by lia. cbn [bind].
  rewrite (proj2 (N.eqb_neq n 0) Hn).
  assert (H : total < total * pct / 100).
  { apply N.lt_le_trans with (total * 101 / 100).
    - apply N.lt_le_trans with ((total * 100 + 100) / 100).
      + replace (total * 100 + 100) with ((total + 1) * 100) by lia. rewrite N.div_mul by lia. lia.
      + apply N.div_le_mono; lia.
    - apply N.div_le_mono; [lia|]. apply N.mul_le_mono_l. lia. }
  unfold qsub. destruct (total <? total * pct / 100) eqn:E; b2p; [reflexivity|lia].
Qed.

Lemma rt_percent_valid_spec pe pb : rt_percent_valid pe pb = true <-> pe <= 100 /\ pb <= 100.
Proof.
  unfold rt_percent_valid. rewrite andb_true_iff, !N.leb_le. tauto.
Qed.

(* the copy/paste validity check accepts a descriptor with which the distribution fails *)
Lemma rt_percent_copy_paste_refuted :
  exists pe pb total n,
    rt_percent_valid_copy_paste pe pb = true /\ rt_percent_valid pe pb = false /\
    distribute_slashed total pb n = Fatal.
Proof. exists 30, 200, 100, 1. repeat split; reflexivity. Qed.

(* ---------- (g) fee checks ---------- *)
Lemma gas_price_total amount gas : exists p, gas_price amount gas = Ok p /\ (gas = 0 -> p = 0).
Proof.
  unfold gas_price. destruct ((amount =? 0) || (gas =? 0)) eqn:E.
  - exists 0. split; [reflexivity|reflexivity].
  - apply orb_false_iff in E as [_ E]. b2p. rewrite qquo_ok by exact E.
    eexists. split; [reflexivity|contradiction].
Qed.

(* the minimum gas price check of transaction delivery never fails fatally (never panics),
   for ANY fee shape: no fee, zero amount, zero gas, huge amount, gas 2^64-1 *)
Lemma fee_check_total min_price fee : is_fatal (fee_check min_price fee) = false.
Proof.
  unfold fee_check. destruct (min_price =? 0); [reflexivity|].
  destruct fee as [[a g]|]; [|reflexivity].
  destruct (gas_price_total a g) as [p [E _]]. rewrite E. reflexivity.
Qed.

(* a fee with a positive amount and gas 0 has price 0: it is rejected under a positive minimum *)
Lemma fee_check_zero_gas min_price amount :
  min_price <> 0 -> fee_check min_price (Some (amount, 0)) = Ok false.
Proof.
  intros H. unfold fee_check, gas_price. rewrite (proj2 (N.eqb_neq _ 0) H).
  rewrite N.eqb_refl, orb_true_r. cbn [bind].
  destruct (0 <? min_price) eqn:E; [reflexivity|]. apply N.ltb_ge in E. lia.
Qed.

(* the && variant divides by a zero gas limit *)
Lemma gas_price_and_refuted : forall amount, amount <> 0 -> gas_price_and amount 0 = Fatal.
Proof.
  intros a H. unfold gas_price_and. rewrite (proj2 (N.eqb_neq a 0) H). reflexivity.
Qed.

(* ---------- (d) slashing and debonding ---------- *)
Lemma slash_pool_ok bal amount total :
  exists s, slash_pool bal amount total = Ok s /\ s <= bal.
Proof.
  unfold slash_pool. destruct (total =? 0) eqn:E; b2p.
  - exists 0. split; [reflexivity|lia].
  - rewrite qquo_ok by exact E. cbn [bind]. eexists. split; [reflexivity|lia].
Qed.

Lemma slash_total active deb amount :
  exists sa sd, slash_escrow active deb amount = Ok (sa, sd) /\ sa <= active /\ sd <= deb.
Proof.
  unfold slash_escrow.
  destruct (slash_pool_ok active amount (active + deb)) as [sa [Ha Hal]].
  destruct (slash_pool_ok deb amount (active + deb)) as [sd [Hd Hdl]].
  rewrite Ha, Hd. cbn [bind]. exists sa, sd. repeat split; assumption.
Qed.

(* a penalty at least as large as the whole escrow takes everything *)
Lemma slash_to_zero active deb amount :
  active + deb <= amount -> slash_escrow active deb amount = Ok (active, deb).
Proof.
  intros H. unfold slash_escrow, slash_pool.
  destruct (active + deb =? 0) eqn:E; b2p.
  - cbn [bind]. f_equal. f_equal; lia.
  - rewrite !qquo_ok by exact E. cbn [bind].
    assert (forall b, b <= active + deb -> N.min b (b * amount / (active + deb)) = b).
    { intros b Hb. apply N.min_l. apply N.div_le_lower_bound; [exact E|].
      rewrite N.mul_comm. apply N.mul_le_mono_l. exact H. }
    rewrite !H0 by lia. reflexivity.
Qed.

(* Precondition: the share invariant of the debonding pool (a debonding
   delegation's shares are part of the pool's total shares). *)
Lemma debond_total bal ts shares :
  shares <= ts -> exists base, debond_complete bal ts shares = Ok base /\ base <= bal.
Proof.
  intros Hs. unfold debond_complete.
  destruct (stake_for_shares_ok bal ts shares) as [x [Hx Hcase]]. rewrite Hx. cbn [bind].
  rewrite qsub_ok by lia. cbn [bind]. rewrite qsub_ok by exact Hs. cbn [bind].
  assert (Hle : x <= bal).
  { destruct Hcase as [->|[Hts ->]]; [lia|].
    rewrite N.mul_comm. apply mul_frac_le; assumption. }
  rewrite qsub_ok by exact Hle. cbn [bind]. exists x. split; [reflexivity|exact Hle].
Qed.

Lemma debond_refuted : exists bal ts shares, debond_complete bal ts shares = Fatal.
Proof. exists 10, 3, 4. reflexivity. Qed.

(* ---------- epoch signing ---------- *)
Lemma div_guard a b c : b <> 0 -> c * b <= a -> (a / b <? c) = false.
Proof.
  intros Hb H. apply N.ltb_ge. apply N.div_le_lower_bound; [exact Hb|].
  rewrite N.mul_comm. exact H.
Qed.

Lemma signing_eligible_total total count tnum tden :
  total * tnum <= u64max -> count * tden <= u64max ->
  is_fatal (signing_eligible total count tnum tden) = false.
Proof.
  intros H1 H2. unfold signing_eligible.
  assert (G1 : (negb (tnum =? 0) && (u64max / tnum <? total)) = false).
  { destruct (tnum =? 0) eqn:E; [reflexivity|]. b2p. cbn [negb andb].
    apply div_guard; assumption. }
  assert (G2 : (negb (tden =? 0) && (u64max / tden <? count)) = false).
  { destruct (tden =? 0) eqn:E; [reflexivity|]. b2p. cbn [negb andb].
    apply div_guard; assumption. }
  rewrite G1, G2. reflexivity.
Qed.

(* ---------- non-vacuity examples ---------- *)
Example fee_p_ex : fee_p 1000 2 1 1 true = Ok (500, 500, 0).
Proof. reflexivity. Qed.
Example fee_p_ex_huge :
  fee_p (2 ^ 255) 2 1 1 false = Ok (2 ^ 254, 0, 2 ^ 254).
Proof. vm_compute. reflexivity. Qed.
Example fee_vq_ex_all_absent : fee_vq 500 4 0 1 1 true = Ok (0, 63, 500).
Proof. reflexivity. Qed.
Example fee_vq_ex : fee_vq 500 4 3 1 1 true = Ok (186, 63, 125).
Proof. reflexivity. Qed.
Example reward_ex :
  reward 100000000 100000 176000 176000 1 2000000 3 4 1000000000 5000
  = Ok (Some (2508, 132, 130, 999997360)).
Proof. vm_compute. reflexivity. Qed.
Example reward_ex_depleted :
  reward 100000000 100000 176000 176000 1 2000000 3 4 100 5000 = Ok None.
Proof. vm_compute. reflexivity. Qed.
