(* C10 -- "No block content can halt block execution".

   Executable ports of the arithmetic / decision cores of the code paths whose
   errors are FATAL: the ABCI multiplexer turns any error returned by an
   application's BeginBlock / EndBlock into a panic
   (go/consensus/cometbft/abci/mux.go:627-638, 772-780).

   Result type: [Ok v] = the Go function returns nil error, [Fatal] = it
   returns an error (which the multiplexer turns into a panic).

   Numbers are [N] (quantity.Quantity is an unsigned big integer: Add/Mul never
   fail on valid quantities, Sub fails when the result would be negative, Quo
   fails on a zero divisor -- go/common/quantity/quantity.go:101-168). *)
From Verif Require Import Lib.Base.

Inductive res (A : Type) : Type :=
| Ok (a : A)
| Fatal.
Arguments Ok {A} a.
Arguments Fatal {A}.

Definition bind {A B} (r : res A) (f : A -> res B) : res B :=
  match r with Ok a => f a | Fatal => Fatal end.
Notation "'do' x <- r ; k" := (bind r (fun x => k))
  (at level 200, x pattern, r at level 100, k at level 200, right associativity).

Definition is_fatal {A} (r : res A) : bool :=
  match r with Ok _ => false | Fatal => true end.

(* quantity.Quo: error iff divisor is zero (quantity.go:158-166) *)
Definition qquo (a b : N) : res N := if b =? 0 then Fatal else Ok (a / b).
(* quantity.Sub / quantity.Move(dst, src, n): error iff src < n (quantity.go:113-125, 218-231) *)
Definition qsub (a b : N) : res N := if a <? b then Fatal else Ok (a - b).

(* ------------------------------------------------------------------ *)
(* (a1) disburseFeesP -- apps/staking/fees.go:16-111.
   Inputs: total fees of the block, the three fee-split weights, whether the
   proposer resolved to an entity.
   Output: (persisted for voters/next proposer = new LastBlockFees,
            paid to the proposer, moved to the common pool). *)
Definition fee_p (total wP wV wQ : N) (proposer_known : bool) : res (N * N * N) :=
  if total =? 0 then Ok (0, 0, 0)                          (* fees.go:25-30 *)
  else
    let wVQ := wV + wQ in                                  (* :38-41 *)
    let wPVQ := wVQ + wP in                                (* :42-45 *)
    do persist <- qquo (total * wVQ) wPVQ ;                (* :46-52 *)
    do rest <- qsub total persist ;                        (* :55-58 Move(feePersist, totalFees, feePersistAmt) *)
    if proposer_known && negb (rest =? 0)                  (* :64-66 *)
    then Ok (persist, rest, 0)                             (* :72 Move of everything that is left; :89 then sees zero *)
    else Ok (persist, 0, rest).                            (* :89-108 *)

(* (a2) disburseFeesVQ -- fees.go:116-255 (with the repair of commit c9cfe37).
   Inputs: LastBlockFees, number of entries of the commit info, number of
   voting entities, weights, whether the proposer resolved.
   Output: (paid to the next proposer, share paid to EACH voter, remainder to the common pool).
   The voters' loop performs [nVE] Moves of [shareVote] out of the remaining
   fees and fails on the first that is not covered; that is the same Ok/Fatal
   outcome (and the same remainder) as one subtraction of the product. *)
Definition fee_vq_tail (last perV shareNP nVE : N) (proposer_known : bool) : res (N * N * N) :=
  do shareVote <- qsub perV shareNP ;
  let npTotal := shareNP * nVE in
  let pay_np := negb (npTotal =? 0) && proposer_known in
  do last1 <- (if pay_np then qsub last npTotal else Ok last) ;
  do last2 <- (if shareVote =? 0 then Ok last1 else qsub last1 (shareVote * nVE)) ;
  Ok ((if pay_np then npTotal else 0), shareVote, last2).

Definition fee_vq (last nEV nVE wV wQ : N) (proposer_known : bool) : res (N * N * N) :=
  if last =? 0 then Ok (0, 0, 0)                           (* :133-136 *)
  else
    do perV <- qquo last nEV ;                             (* :145-152 *)
    let denom := wV + wQ in                                (* :153-156 *)
    if denom =? 0 then                                     (* :155-161 repair: nothing owed, all to the common pool *)
      Ok (0, 0, last)
    else
      do shareNP <- qquo (perV * wQ) denom ;               (* :162-168 *)
      fee_vq_tail last perV shareNP nVE proposer_known.    (* :169-252 *)

(* disburseFeesVQ as it was BEFORE commit c9cfe37 (fees.go:116-247 of c9cfe37~1):
   the division by vote + next-propose weight is unguarded. *)
Definition fee_vq_original (last nEV nVE wV wQ : N) (proposer_known : bool) : res (N * N * N) :=
  if last =? 0 then Ok (0, 0, 0)
  else
    do perV <- qquo last nEV ;
    let denom := wV + wQ in
    do shareNP <- qquo (perV * wQ) denom ;
    fee_vq_tail last perV shareNP nVE proposer_known.

(* ------------------------------------------------------------------ *)
(* share pools -- go/staking/api/api.go:626-720 *)

(* sharesForStake: api.go:626-652 *)
Definition shares_for_stake (bal ts amount : N) : res N :=
  if ts =? 0 then Ok amount
  else if bal =? 0 then Fatal
  else qquo (amount * ts) bal.

(* StakeForShares: api.go:681-701 *)
Definition stake_for_shares (bal ts shares : N) : res N :=
  if (shares =? 0) || (bal =? 0) || (ts =? 0) then Ok 0
  else qquo (shares * bal) ts.

(* computeCommission: state.go:917-941 -> (commission, remaining) *)
Definition commission (cden rate total : N) : res (N * N) :=
  do com <- qquo (total * rate) cden ;
  do rem <- qsub total com ;
  Ok (com, rem).

(* (b) one reward payment: the common body of AddRewards (state.go:1226-1303)
   and AddRewardSingleAttenuated (state.go:1355-1441).  For AddRewards take
   num = den = 1 (the divisions by 1 are the identity).
   Inputs: active escrow (balance, total shares), reward factor, schedule scale,
   attenuation numerator / denominator, common pool, current commission rate,
   the two denominators (staking.RewardAmountDenominator, CommissionRateDenominator).
   Output: None = nothing paid (zero reward or pool too small), otherwise
   (added to the escrow balance without new shares, commission deposited, new shares, new common pool). *)
Definition reward (rden cden bal ts factor scale num den pool rate : N)
  : res (option (N * N * N * N)) :=
  do q1 <- qquo (bal * factor * scale * num) rden ;        (* state.go:1357-1368 *)
  do q <- qquo q1 den ;                                    (* :1369-1371 *)
  if q =? 0 then Ok None                                   (* :1373-1375 *)
  else if pool <? q then Ok None                           (* :1377-1380 *)
  else
    do cr <- commission cden rate q ;                      (* :1382-1386 *)
    let '(com, rem) := cr in
    do pool1 <- (if rem =? 0 then Ok pool else qsub pool rem) ;    (* :1388-1390 *)
    let bal1 := bal + rem in
    if com =? 0 then Ok (Some (rem, 0, 0, pool1))          (* :1401 *)
    else
      do sh <- shares_for_stake bal1 ts com ;              (* :1409 Deposit -> sharesForStake *)
      do pool2 <- qsub pool1 com ;                         (* Deposit: Move(&p.Balance, stakeSrc, amount) *)
      Ok (Some (rem, com, sh, pool2)).

(* (b2) AddRewards -- state.go:1192-1311: the loop over the (sorted) addresses shares ONE
   common-pool value; an entity whose reward does not fit is skipped (:1242-1245), the
   pool is written once after the loop (:1306).  [scale] = None: past the end of the
   reward schedule, nothing happens (:1209-1212).  Accounts are (balance, total shares,
   current commission rate) in address order.
   Output: per account (added without shares, commission, new shares) -- zeros when
   nothing was paid -- and the final common pool. *)
Fixpoint rewards_loop (rden cden factor scale : N) (accts : list (N * N * N)) (pool : N)
  : res (list (N * N * N) * N) :=
  match accts with
  | [] => Ok ([], pool)
  | (bal, ts, rate) :: r =>
      (* AddRewards has no attenuation: the reward is bal*factor*scale/rden = [reward] with num = den = 1 *)
      do o <- reward rden cden bal ts factor scale 1 1 pool rate ;
      match o with
      | None => do x <- rewards_loop rden cden factor scale r pool ;
                let '(l, p) := x in Ok ((0, 0, 0) :: l, p)
      | Some (rem, com, sh, pool1) =>
                do x <- rewards_loop rden cden factor scale r pool1 ;
                let '(l, p) := x in Ok ((rem, com, sh) :: l, p)
      end
  end.

Definition zeros3 {A} (l : list A) : list (N * N * N) := map (fun _ => (0, 0, 0)) l.

Definition rewards_seq (rden cden factor : N) (scale : option N) (accts : list (N * N * N)) (pool : N)
  : res (list (N * N * N) * N) :=
  match scale with
  | None => Ok (zeros3 accts, pool)
  | Some sc => rewards_loop rden cden factor sc accts pool
  end.

(* (b3) the proposer reward path end to end -- proposing_rewards.go:36-73:
   no entity / no epoch (first block: abci/state.go:283-286) / past the schedule => nothing. *)
Definition proposer_path (rden cden : N) (known epoch_valid : bool) (scale : option N)
           (bal ts factor nVE nEV pool rate : N) : res (option (N * N * N * N)) :=
  if negb known then Ok None                               (* :42-44 *)
  else if negb epoch_valid then Ok None                    (* :55-58 *)
  else match scale with
       | None => Ok None                                   (* state.go:1332-1335 *)
       | Some sc => reward rden cden bal ts factor sc nVE nEV pool rate
       end.

(* (b') TransferFromCommon with escrow = true -- state.go:953-1085 with the repair of commit
   c3a21ab (used only by roothash distributeSlashedFunds, apps/roothash/slashing.go:195).
   Output: None = pool empty; otherwise
   (escrowed without shares, commission deposited, new shares, commission left in the general balance).
   The common pool decreases by min(pool, amount) (MoveUpTo, :969). *)
Definition transfer_from_common_escrow (cden bal ts pool amount rate : N)
  : res (option (N * N * N * N)) :=
  let transferred := N.min pool amount in                  (* :969 MoveUpTo *)
  if transferred =? 0 then Ok None                         (* :973-976 *)
  else if ts =? 0 then                                     (* :1012-1015 everything is commission *)
    do sh <- shares_for_stake bal ts transferred ;         (* dead pool impossible: no shares *)
    Ok (Some (0, transferred, sh, 0))
  else
    do cr <- commission cden rate transferred ;            (* :984-995 *)
    let '(com, rem) := cr in
    let bal1 := bal + rem in                               (* :998 *)
    if com =? 0 then Ok (Some (rem, 0, 0, 0))              (* :1018 *)
    else if (bal1 =? 0) && negb (ts =? 0) then             (* :1022 dead pool: slashed to zero, shares outstanding *)
      Ok (Some (rem, 0, 0, com))                           (* :1023-1031 commission stays in the general balance *)
    else
      do sh <- shares_for_stake bal1 ts com ;              (* :1032-1045 Deposit *)
      Ok (Some (rem, com, sh, 0)).

(* TransferFromCommon(escrow = true) as it was BEFORE commit c3a21ab (state.go:953-1071 of
   c3a21ab~1): the commission deposit is attempted also on a dead pool. *)
Definition transfer_from_common_escrow_original (cden bal ts pool amount rate : N)
  : res (option (N * N * N * N)) :=
  let transferred := N.min pool amount in
  if transferred =? 0 then Ok None
  else if ts =? 0 then
    do sh <- shares_for_stake bal ts transferred ;
    Ok (Some (0, transferred, sh, 0))
  else
    do cr <- commission cden rate transferred ;
    let '(com, rem) := cr in
    let bal1 := bal + rem in
    if com =? 0 then Ok (Some (rem, 0, 0, 0))
    else
      do sh <- shares_for_stake bal1 ts com ;
      Ok (Some (rem, com, sh, 0)).

(* (b'') distributeSlashedFunds -- apps/roothash/slashing.go:151-209: the runtime's account gets
   [pct] percent of the slashed total, the rest is split evenly among the other addresses
   (discrepancy resolvers / the evidence submitter).  The percentages come from the runtime
   descriptor, whose validity (RuntimeStakingParameters.ValidateBasic, registry/api/runtime.go:
   257-265) is checked at registration.
   Output: (runtime share, share of each other address). *)
Definition distribute_slashed (total pct nothers : N) : res (N * N) :=
  do rshare <- qquo (total * pct) 100 ;                    (* :161-166 *)
  if nothers =? 0 then Ok (rshare, 0)                      (* :177-181 *)
  else
    do rest <- qsub total rshare ;                         (* :185-187 *)
    do each <- qquo rest nothers ;                         (* :188-190 *)
    Ok (rshare, each).

(* what registration enforces on the two reward percentages *)
Definition rt_percent_valid (pct_equivocation pct_bad_results : N) : bool :=
  (pct_equivocation <=? 100) && (pct_bad_results <=? 100).
(* the seeded copy/paste variant tests the equivocation percentage twice *)
Definition rt_percent_valid_copy_paste (pct_equivocation pct_bad_results : N) : bool :=
  (pct_equivocation <=? 100) && (pct_equivocation <=? 100).

(* (g) transaction fee checks in delivery -- consensus/api/transaction/gas.go:56-74 (Fee.GasPrice;
   its Quo error would be a PANIC, and mux.DeliverTx / CheckTx do not recover) and
   abci/transaction.go:92-100 (minimum gas price, after the per-byte gas was charged).
   A fee is (amount, gas limit); None = the transaction carries no fee. *)
Definition gas_price (amount gas : N) : res N :=
  if (amount =? 0) || (gas =? 0) then Ok 0                 (* gas.go:57-59 *)
  else qquo amount gas.                                    (* :67-71 *)

(* Output: does the transaction pass the minimum gas price check? *)
Definition fee_check (min_price : N) (fee : option (N * N)) : res bool :=
  if min_price =? 0 then Ok true                           (* transaction.go:93 *)
  else match fee with
       | None => Ok false                                  (* :94-96 *)
       | Some (amount, gas) =>
           do p <- gas_price amount gas ;
           Ok (negb (p <? min_price))                      (* :97-99 *)
       end.

(* the seeded variant: the guard of GasPrice with && instead of || *)
Definition gas_price_and (amount gas : N) : res N :=
  if (amount =? 0) && (gas =? 0) then Ok 0 else qquo amount gas.

(* ------------------------------------------------------------------ *)
(* (d) slashing -- state.go:768-855.  slashPool moves min(balance, balance*amount/total). *)
Definition slash_pool (bal amount total : N) : res N :=
  if total =? 0 then Ok 0
  else do s <- qquo (bal * amount) total ; Ok (N.min bal s).

(* SlashEscrow -> (slashed from active, slashed from debonding) *)
Definition slash_escrow (active deb amount : N) : res (N * N) :=
  let total := active + deb in
  do sa <- slash_pool active amount total ;
  do sd <- slash_pool deb amount total ;
  Ok (sa, sd).

(* debonding completion -- staking.go:264-301: SharePool.Withdraw (api.go:705-720)
   of all shares of one debonding delegation.
   Inputs: debonding pool (balance, total shares), the delegation's shares.
   Output: base units released (new pool = (bal - out, ts - shares)). *)
Definition debond_complete (bal ts shares : N) : res N :=
  do base <- stake_for_shares bal ts shares ;              (* api.go:706 *)
  do _ <- qsub shares shares ;                             (* :711 shareSrc.Sub(shareAmount), shareSrc = the same amount *)
  do _ <- qsub ts shares ;                                 (* :715 *)
  do _ <- qsub bal base ;                                  (* :719 Move(stakeDst, &p.Balance, baseUnits) *)
  Ok base.

(* ------------------------------------------------------------------ *)
(* (c) governance tally -- apps/governance/governance.go:373-498 and
   go/governance/api/proposal.go:105-169.

   Addresses are abstract numbers.  [validators]: the entities of the current
   validator set, each once, with their active escrow pool (validatorsEscrow,
   governance.go:338-371).  [votes]: the proposal's votes (voter, vote).
   [delegs]: all delegations (delegator, escrow account, shares).

   The code keeps one share map per validator and loops votes-outer /
   delegations-inner; the per-validator maps are disjoint and every error is
   equally fatal, so the port computes validator by validator (same maps, same
   Ok/Fatal outcome). *)
(* governance.Vote is a uint8; yes = 1, no = 2, abstain = 3 (proposal.go:176-178) but
   castVote stores ANY value (apps/governance/transactions.go:222-330 has no check), and
   the tally keeps one entry per distinct value. *)
Definition vote := N.
Definition VYes : vote := 1.
Definition VNo : vote := 2.
Definition VAbstain : vote := 3.
Definition nvotes : nat := 256.

(* per-validator share map / result map: vote value -> amount (map[Vote]quantity.Quantity;
   an absent key is zero) *)
Definition shmap := N -> N.
Definition sh_empty : shmap := fun _ => 0.
Definition sh_upd (m : shmap) (v : vote) (x : N) : shmap := fun w => if w =? v then x else m w.
Fixpoint fsum (n : nat) (f : N -> N) : N :=
  match n with O => 0 | S k => fsum k f + f (N.of_nat k) end.
(* sum over all 256 possible vote values (VotedSum, proposal.go:106-114) *)
Definition sh_sum (m : shmap) : N := fsum nvotes m.

(* addShares / subShares: governance.go:500-519 *)
Definition add_shares (m : shmap) (v : vote) (x : N) : shmap := sh_upd m v (m v + x).
Definition sub_shares (m : shmap) (v : vote) (x : N) : res shmap :=
  do r <- qsub (m v) x ; Ok (sh_upd m v r).

Fixpoint vote_of (who : N) (votes : list (N * vote)) : option vote :=
  match votes with
  | [] => None
  | (w, v) :: r => if w =? who then Some v else vote_of who r
  end.

Fixpoint deleg_shares (d to : N) (delegs : list (N * N * N)) : option N :=
  match delegs with
  | [] => None
  | (d', to', s) :: r => if (d' =? d) && (to' =? to) then Some s else deleg_shares d to r
  end.

(* one delegator vote applied to validator [to] -- governance.go:431-452 *)
Definition tally_step (own : option vote) (m : shmap) (v : vote) (s : N) : res shmap :=
  match own with
  | Some ov =>
      if ov =? v then Ok m                                 (* :437-439 *)
      else do m1 <- sub_shares m ov s ;                    (* :442-446 *)
           Ok (add_shares m1 v s)                          (* :449-451 *)
  | None => Ok (add_shares m v s)
  end.

Fixpoint tally_votes (to : N) (own : option vote) (delegs : list (N * N * N))
         (votes : list (N * vote)) (m : shmap) : res shmap :=
  match votes with
  | [] => Ok m
  | (d, v) :: r =>
      match deleg_shares d to delegs with
      | Some s => do m1 <- tally_step own m v s ; tally_votes to own delegs r m1
      | None => tally_votes to own delegs r m
      end
  end.

(* share map of one validator after both loops (governance.go:407-456) *)
Definition validator_shares (to ts : N) (delegs : list (N * N * N)) (votes : list (N * vote)) : res shmap :=
  let own := vote_of to votes in
  let m0 := match own with Some ov => add_shares sh_empty ov ts | None => sh_empty end in  (* :411-421 *)
  tally_votes to own delegs votes m0.

(* StakeForShares as a total function: its only division is guarded by the
   zero tests of the same function (api.go:682-685 vs :696), see
   NoHalt.Proofs.stake_for_shares_pure *)
Definition stake_pure (bal ts shares : N) : N :=
  if (shares =? 0) || (bal =? 0) || (ts =? 0) then 0 else shares * bal / ts.

(* stake of every entry of one validator (governance.go:459-487) *)
Definition validator_stakes (bal ts : N) (m : shmap) : shmap := fun v => stake_pure bal ts (m v).

Fixpoint tally_results (validators : list (N * N * N)) (delegs : list (N * N * N))
         (votes : list (N * vote)) : res shmap :=
  match validators with
  | [] => Ok sh_empty
  | (to, bal, ts) :: r =>
      do m <- validator_shares to ts delegs votes ;
      do rest <- tally_results r delegs votes ;
      Ok (fun v => validator_stakes bal ts m v + rest v)
  end.

Fixpoint total_voting_stake (validators : list (N * N * N)) : N :=
  match validators with
  | [] => 0
  | (_, bal, _) :: r => bal + total_voting_stake r
  end.

(* Proposal.CloseProposal -- proposal.go:122-169 (state and results checks of
   :123-128 hold by construction in closeProposal).  Output: passed? *)
Definition close_proposal (results : shmap) (total threshold : N) : res bool :=
  if total =? 0 then Fatal                                 (* :129-131 *)
  else
    let voted := sh_sum results in                         (* VotedSum :106-114 *)
    let y := results VYes in
    if total <? voted then Fatal                           (* :137-141 *)
    else if y =? 0 then Ok false                           (* :143-148 *)
    else
      do pct <- qquo (y * 100) total ;                     (* :151-157 *)
      Ok (negb (pct <? threshold)).                        (* :161-167 *)

(* governance EndBlock for one closing proposal: governance.go:545-566 + closeProposal.
   Output: (results, passed?) *)
Definition tally (validators : list (N * N * N)) (delegs : list (N * N * N))
           (votes : list (N * vote)) (threshold : N) : res (shmap * bool) :=
  let total := total_voting_stake validators in
  if total =? 0 then Fatal                                 (* governance.go:564-566 *)
  else
    do results <- tally_results validators delegs votes ;
    do passed <- close_proposal results total threshold ;
    Ok (results, passed).

(* ------------------------------------------------------------------ *)
(* epoch signing -- state.go:538-576 (uint64 arithmetic with explicit overflow checks) *)
Definition u64max : N := 18446744073709551615.

(* EpochSigning.Update for the total and one entity counter: Fatal on wrap-around *)
Definition signing_incr (c : N) : res N := if u64max <=? c then Fatal else Ok (c + 1).

(* EligibleEntities for one entity: Fatal on the overflow guards, else eligibility *)
Definition signing_eligible (total count tnum tden : N) : res bool :=
  if negb (tnum =? 0) && (u64max / tnum <? total) then Fatal      (* :558-560 *)
  else if negb (tden =? 0) && (u64max / tden <? count) then Fatal (* :563-565 *)
  else Ok (negb (count * tden <? total * tnum)).                  (* :566-570 *)

(* (b4) the signing reward path end to end -- signing_rewards.go:36-78 + EligibleEntities +
   AddRewards.  Entities are (blocks signed, balance, total shares, rate) in entity-id order
   (EligibleEntities sorts, state.go:572-574). *)
Fixpoint eligible_all (total tnum tden : N) (ents : list (N * N * N * N)) : res (list bool) :=
  match ents with
  | [] => Ok []
  | (count, _, _, _) :: r =>
      do e <- signing_eligible total count tnum tden ;
      do l <- eligible_all total tnum tden r ;
      Ok (e :: l)
  end.

(* AddRewards over the eligible entities only; the others get the zero entry *)
Fixpoint rewards_selected (rden cden factor scale : N) (flags : list bool)
         (ents : list (N * N * N * N)) (pool : N) : res (list (N * N * N) * N) :=
  match flags, ents with
  | true :: fr, (_, bal, ts, rate) :: r =>
      do o <- reward rden cden bal ts factor scale 1 1 pool rate ;
      match o with
      | None => do x <- rewards_selected rden cden factor scale fr r pool ;
                let '(l, p) := x in Ok ((0, 0, 0) :: l, p)
      | Some (rem, com, sh, pool1) =>
                do x <- rewards_selected rden cden factor scale fr r pool1 ;
                let '(l, p) := x in Ok ((rem, com, sh) :: l, p)
      end
  | false :: fr, _ :: r =>
      do x <- rewards_selected rden cden factor scale fr r pool ;
      let '(l, p) := x in Ok ((0, 0, 0) :: l, p)
  | _, _ => Ok ([], pool)
  end.

Definition signing_path (rden cden tnum tden total factor : N) (scale : option N)
           (ents : list (N * N * N * N)) (pool : N) : res (list (N * N * N) * N) :=
  if tden =? 0 then Ok (zeros3 ents, pool)                 (* signing_rewards.go:42-47 *)
  else if total =? 0 then Ok (zeros3 ents, pool)           (* :58-60 *)
  else if negb (tnum =? 0) && (u64max / tnum <? total) then Fatal   (* state.go:558-560 *)
  else
    do flags <- eligible_all total tnum tden ents ;        (* state.go:562-571 *)
    match scale with
    | None => Ok (zeros3 ents, pool)                       (* state.go:1209-1212 *)
    | Some sc => rewards_selected rden cden factor sc flags ents pool
    end.

(* ------------------------------------------------------------------ *)
(* (e) governance deposits -- submitProposal (apps/governance/transactions.go:166-205) takes
   params.MinProposalDeposit of THAT moment into the deposits pool and records it in
   proposal.Deposit; EndBlock (governance.go:617-652) returns proposal.Deposit to the
   submitter (passed / failed) or moves it to the common pool (rejected).  Parameter
   changes may alter MinProposalDeposit at any time in between. *)
Record gst := mkG { g_pool : N; g_min : N; g_next : N; g_open : list (N * N) }. (* open: id -> recorded deposit *)

Inductive gop :=
| GSubmit                 (* a submitProposal that got as far as the deposit *)
| GSetMin (x : N)         (* a parameter change *)
| GClose (id : N).        (* EndBlock closes proposal [id] (any outcome: the pool loses the deposit) *)

Definition gstep (st : gst) (o : gop) : res gst :=
  match o with
  | GSubmit =>
      Ok (mkG (g_pool st + g_min st) (g_min st) (g_next st + 1) ((g_next st, g_min st) :: g_open st))
  | GSetMin x => Ok (mkG (g_pool st) x (g_next st) (g_open st))
  | GClose id =>
      match aget id (g_open st) with
      | None => Ok st                                       (* not an open proposal: nothing closes *)
      | Some dep =>
          do p <- qsub (g_pool st) dep ;                    (* TransferFromGovernanceDeposits / DiscardGovernanceDeposit *)
          Ok (mkG p (g_min st) (g_next st) (adel id (g_open st)))
      end
  end.

Fixpoint grun (ops : list gop) (st : gst) : res gst :=
  match ops with
  | [] => Ok st
  | o :: r => do st1 <- gstep st o ; grun r st1
  end.

(* the seeded variant: the refund takes the CURRENT minimum deposit instead of the recorded one *)
Definition gstep_current_min (st : gst) (o : gop) : res gst :=
  match o with
  | GClose id =>
      match aget id (g_open st) with
      | None => Ok st
      | Some _ =>
          do p <- qsub (g_pool st) (g_min st) ;
          Ok (mkG p (g_min st) (g_next st) (adel id (g_open st)))
      end
  | _ => gstep st o
  end.

Fixpoint grun_current_min (ops : list gop) (st : gst) : res gst :=
  match ops with
  | [] => Ok st
  | o :: r => do st1 <- gstep_current_min st o ; grun_current_min r st1
  end.

(* one EndBlock: the closing proposals' recorded deposits leave the pool one after the other.
   Output: the amounts paid out and the pool afterwards. *)
Fixpoint gov_close (pool : N) (deps : list N) : res (list (N * N * N) * N) :=
  match deps with
  | [] => Ok ([], pool)
  | d :: r =>
      do p <- qsub pool d ;
      do x <- gov_close p r ;
      let '(l, q) := x in Ok ((d, 0, 0) :: l, q)
  end.

(* ------------------------------------------------------------------ *)
(* (f) incoming runtime messages -- apps/roothash/transactions.go:320-410 (SubmitMsg),
   messages.go:22-106 and finalization.go:167-181 (round finalization).
   One queue per runtime: the stored messages (their sequence numbers, in order) and the
   size counter of the queue metadata. *)
Record rq := mkRQ { q_size : N; q_next : N; q_msgs : list N }.

(* SubmitMsg: None = the transaction fails (queue full) *)
Definition rq_submit (maxq : N) (r : rq) : option rq :=
  if maxq <=? q_size r then None
  else Some (mkRQ (q_size r + 1) (q_next r + 1) (q_msgs r ++ [q_next r])).

(* removeRuntimeMessages (messages.go:57-106): each fetched message is removed from the
   runtime's queue, the size counter must not be zero ("inconsistent queue size": an
   unavailable-state error, FATAL) and is decremented *)
Fixpoint remove_msgs (fetched : list N) (size : N) (msgs : list N) : res (N * list N) :=
  match fetched with
  | [] => Ok (size, msgs)
  | m :: r =>
      let msgs1 := filter (fun x => negb (x =? m)) msgs in
      if size =? 0 then Fatal else remove_msgs r (size - 1) msgs1
  end.

(* IncomingMessageQueue(runtime, 0, limit) (state.go:246-281): the first [limit] messages of
   THIS runtime's queue; fetchRuntimeMessages returns nothing for limit 0 *)
Definition fetch_own (r : rq) (count : N) : list N := firstn (N.to_nat count) (q_msgs r).

(* the part of round finalization that touches the queue, for a committed in-message count and
   whether the committed hash equals the hash of the fetched messages.
   Output: None = the round fails (not fatal), Some = the queue afterwards. *)
Definition finalize_inmsgs (r : rq) (count : N) (hash_ok : bool) : res (option rq) :=
  let fetched := fetch_own r count in
  if negb hash_ok then Ok None                             (* finalization.go:175-178 failRound *)
  else do x <- remove_msgs fetched (q_size r) (q_msgs r) ;  (* :179-181 *)
       let '(sz, ms) := x in Ok (Some (mkRQ sz (q_next r) ms)).

(* the seeded variant: the iterator runs on into the NEXT runtime's queue *)
Definition finalize_inmsgs_overrun (r : rq) (foreign : list N) (count : N) : res (option rq) :=
  let fetched := firstn (N.to_nat count) (q_msgs r ++ foreign) in
  do x <- remove_msgs fetched (q_size r) (q_msgs r) ;
  let '(sz, ms) := x in Ok (Some (mkRQ sz (q_next r) ms)).

(* all runtimes: runtime id -> queue *)
Definition sys_finalize (sys : list (N * rq)) (id count : N) (hash_ok : bool) : res (list (N * rq)) :=
  match aget id sys with
  | None => Ok sys
  | Some r =>
      do o <- finalize_inmsgs r count hash_ok ;
      match o with None => Ok sys | Some r1 => Ok (aset id r1 sys) end
  end.

(* ------------------------------------------------------------------ *)
(* correspondence: one sum type of calls and outputs *)
Inductive call :=
| CFeeP (total wP wV wQ : N) (known : bool)
| CFeeVQ (last nEV nVE wV wQ : N) (known : bool)
| CReward (rden cden bal ts factor scale num den pool rate : N)
| CRewardSeq (rden cden factor : N) (scale : option N) (accts : list (N * N * N)) (pool : N)
| CSigning (rden cden tnum tden total factor : N) (scale : option N) (ents : list (N * N * N * N)) (pool : N)
| CGovClose (pool : N) (deps : list N)
| CInMsg (size count : N) (hash_ok : bool)   (* a queue holding [size] messages 0..size-1 *)
| CSlash (active deb amount : N)
| CDebond (bal ts shares : N)
| CTally (validators delegs : list (N * N * N)) (votes : list (N * vote)) (threshold : N).

Inductive outv :=
| OFatal
| OTriple (a b c : N)
| ONone
| OQuad (a b c d : N)
| OPair (a b : N)
| OOne (a : N)
| OSeq (l : list (N * N * N)) (pool : N)
| OTally (y n a other : N) (passed : bool).   (* other = all entries except yes/no/abstain *)

Definition run_call (c : call) : outv :=
  match c with
  | CFeeP t p v q k =>
      match fee_p t p v q k with Ok (a, b, c) => OTriple a b c | Fatal => OFatal end
  | CFeeVQ l e n v q k =>
      (* the per-voter share is observable only when somebody is paid *)
      match fee_vq l e n v q k with
      | Ok (a, b, c) => OTriple a (if n =? 0 then 0 else b) c
      | Fatal => OFatal
      end
  | CReward rd cd b ts f s nu de p r =>
      match reward rd cd b ts f s nu de p r with
      | Ok None => ONone
      | Ok (Some (a, b, c, d)) => OQuad a b c d
      | Fatal => OFatal
      end
  | CRewardSeq rd cd f sc ac p =>
      match rewards_seq rd cd f sc ac p with Ok (l, q) => OSeq l q | Fatal => OFatal end
  | CSigning rd cd tn td tot f sc en p =>
      match signing_path rd cd tn td tot f sc en p with Ok (l, q) => OSeq l q | Fatal => OFatal end
  | CInMsg sz c hk =>
      match finalize_inmsgs (mkRQ sz sz (map N.of_nat (seq 0 (N.to_nat sz)))) c hk with
      | Ok None => ONone
      | Ok (Some r) => OOne (q_size r)
      | Fatal => OFatal
      end
  | CGovClose p ds =>
      match gov_close p ds with Ok (l, q) => OSeq l q | Fatal => OFatal end
  | CSlash a d m =>
      match slash_escrow a d m with Ok (x, y) => OPair x y | Fatal => OFatal end
  | CDebond b t s =>
      match debond_complete b t s with Ok x => OOne x | Fatal => OFatal end
  | CTally vs ds vt th =>
      match tally vs ds vt th with
      | Ok (r, p) => OTally (r VYes) (r VNo) (r VAbstain) (sh_sum r - r VYes - r VNo - r VAbstain) p
      | Fatal => OFatal
      end
  end.

Definition outv_eqb (a b : outv) : bool :=
  match a, b with
  | OFatal, OFatal => true
  | ONone, ONone => true
  | OTriple a1 a2 a3, OTriple b1 b2 b3 => (a1 =? b1) && (a2 =? b2) && (a3 =? b3)
  | OQuad a1 a2 a3 a4, OQuad b1 b2 b3 b4 => (a1 =? b1) && (a2 =? b2) && (a3 =? b3) && (a4 =? b4)
  | OSeq l p, OSeq l' p' =>
      list_eqb (fun x y => let '(a1, a2, a3) := x in let '(b1, b2, b3) := y in
                           (a1 =? b1) && (a2 =? b2) && (a3 =? b3)) l l' && (p =? p')
  | OPair a1 a2, OPair b1 b2 => (a1 =? b1) && (a2 =? b2)
  | OOne a1, OOne b1 => a1 =? b1
  | OTally y n a o p, OTally y' n' a' o' p' => (y =? y') && (n =? n') && (a =? a') && (o =? o') && Bool.eqb p p'
  | _, _ => false
  end.
