(* C10: the reward SEQUENCES (epoch-end AddRewards loop sharing the common pool,
   signing-reward path, proposer-reward path) never fail and conserve the pool. *)
From Verif Require Import Lib.Base NoHalt.Model NoHalt.Proofs.

Local Ltac b2p :=
  repeat match goal with
  | H : (_ =? _) = true |- _ => apply N.eqb_eq in H
  | H : (_ =? _) = false |- _ => apply N.eqb_neq in H
  | H : (_ <? _) = true |- _ => apply N.ltb_lt in H
  | H : (_ <? _) = false |- _ => apply N.ltb_ge in H
  end.

(* one payment: Ok, and what leaves the pool is what the escrow receives *)
Lemma reward_ok rden cden bal ts factor scale num den pool rate :
  rden <> 0 -> cden <> 0 -> den <> 0 -> rate <= cden ->
  reward rden cden bal ts factor scale num den pool rate = Ok None \/
  exists rem com sh p2,
    reward rden cden bal ts factor scale num den pool rate = Ok (Some (rem, com, sh, p2)) /\
    p2 + rem + com = pool.
Proof.
  intros Hrd Hcd Hden Hrate. unfold reward.
  rewrite qquo_ok by exact Hrd. cbn [bind].
  rewrite qquo_ok by exact Hden. cbn [bind].
  set (q := bal * factor * scale * num / rden / den).
  destruct (q =? 0) eqn:Eq; [left; reflexivity|].
  destruct (pool <? q) eqn:Ep; [left; reflexivity|]. b2p. right.
  destruct (commission_ok cden rate q Hcd Hrate) as [Hcom Hle].
  rewrite Hcom. cbn [bind].
  set (com := q * rate / cden) in *.
  assert (Hp1 : exists p1, (if q - com =? 0 then Ok pool else qsub pool (q - com)) = Ok p1 /\ p1 + (q - com) = pool).
  { destruct (q - com =? 0) eqn:E; b2p.
    - exists pool. split; [reflexivity|lia].
    - exists (pool - (q - com)). split; [apply qsub_ok; lia|lia]. }
  destruct Hp1 as [p1 [Hp1 Hp1e]]. rewrite Hp1. cbn [bind].
  destruct (com =? 0) eqn:Ec; b2p.
  - do 4 eexists. split; [reflexivity|]. lia.
  - assert (Hbal : bal <> 0).
    { intros ->. apply Eq. unfold q. rewrite !N.mul_0_l.
      rewrite (N.div_0_l rden) by exact Hrd. apply N.div_0_l. exact Hden. }
    unfold shares_for_stake.
    destruct (ts =? 0).
    + cbn [bind]. rewrite qsub_ok by lia. cbn [bind]. do 4 eexists. split; [reflexivity|]. lia.
    + destruct (bal + (q - com) =? 0) eqn:Eb; b2p; [lia|].
      rewrite qquo_ok by exact Eb. cbn [bind]. rewrite qsub_ok by lia. cbn [bind].
      do 4 eexists. split; [reflexivity|]. lia.
Qed.

Fixpoint paid (l : list (N * N * N)) : N :=
  match l with [] => 0 | (rem, com, _) :: r => rem + com + paid r end.

Lemma paid_zeros {A} (l : list A) : paid (zeros3 l) = 0.
Proof. induction l as [|x r IH]; cbn; [reflexivity|]. unfold zeros3 in IH. rewrite IH. reflexivity. Qed.

Definition rates_ok (cden : N) (accts : list (N * N * N)) : Prop :=
  Forall (fun a => snd a <= cden) accts.

(* AddRewards: never Fatal -- for ANY pool (also one that runs dry in the middle of the
   loop), ANY stakes (also dead pools: zero balance, shares outstanding) and any
   commission rates up to 100 % -- one entry per account, and the pool decreases by
   exactly what was paid *)
Lemma rewards_loop_ok rden cden factor scale accts :
  rden <> 0 -> cden <> 0 -> rates_ok cden accts ->
  forall pool, exists l p,
    rewards_loop rden cden factor scale accts pool = Ok (l, p) /\
    length l = length accts /\ p + paid l = pool.
Proof.
  intros Hrd Hcd. induction accts as [|[[bal ts] rate] r IH]; intros Hr pool; cbn [rewards_loop].
  - exists [], pool. repeat split; cbn; lia.
  - inversion Hr as [|x l Hx Hr']; subst. cbn [snd] in Hx.
    destruct (reward_ok rden cden bal ts factor scale 1 1 pool rate Hrd Hcd ltac:(lia) Hx)
      as [H|[rem [com [sh [p2 [H Hc]]]]]]; rewrite H; cbn [bind].
    + destruct (IH Hr' pool) as [l [p [Hl [Hlen Hp]]]]. rewrite Hl. cbn [bind].
      exists ((0, 0, 0) :: l), p. repeat split; cbn [length paid]; lia.
    + destruct (IH Hr' p2) as [l [p [Hl [Hlen Hp]]]]. rewrite Hl. cbn [bind].
      exists ((rem, com, sh) :: l), p. repeat split; cbn [length paid]; lia.
Qed.

Lemma rewards_seq_ok rden cden factor scale accts pool :
  rden <> 0 -> cden <> 0 -> rates_ok cden accts ->
  exists l p, rewards_seq rden cden factor scale accts pool = Ok (l, p) /\
              length l = length accts /\ p + paid l = pool.
Proof.
  intros Hrd Hcd Hr. unfold rewards_seq. destruct scale as [sc|].
  - apply rewards_loop_ok; assumption.
  - exists (zeros3 accts), pool. repeat split.
    + unfold zeros3. apply map_length.
    + rewrite paid_zeros. lia.
Qed.

Lemma rewards_sequence_total_l rden cden factor scale accts pool :
  rden <> 0 -> cden <> 0 -> rates_ok cden accts ->
  is_fatal (rewards_seq rden cden factor scale accts pool) = false.
Proof.
  intros Hrd Hcd Hr. destruct (rewards_seq_ok rden cden factor scale accts pool Hrd Hcd Hr) as [l [p [H _]]].
  rewrite H. reflexivity.
Qed.

(* ---------- proposer path ---------- *)
(* the commit info is empty only at the first block, where no epoch is known *)
Lemma proposer_path_total rden cden known epoch_valid scale bal ts factor nVE nEV pool rate :
  rden <> 0 -> cden <> 0 -> rate <= cden -> (epoch_valid = true -> nEV <> 0) ->
  is_fatal (proposer_path rden cden known epoch_valid scale bal ts factor nVE nEV pool rate) = false.
Proof.
  intros Hrd Hcd Hr Hn. unfold proposer_path.
  destruct known; [|reflexivity]. destruct epoch_valid; [|reflexivity]. cbn [negb].
  destruct scale as [sc|]; [|reflexivity].
  apply reward_total; try assumption. apply Hn. reflexivity.
Qed.

(* ---------- signing path ---------- *)
Definition signing_ok (cden tnum tden total : N) (ents : list (N * N * N * N)) : Prop :=
  total * tnum <= u64max /\
  Forall (fun e => let '(count, _, _, rate) := e in count * tden <= u64max /\ rate <= cden) ents.

Lemma eligible_all_ok total tnum tden ents :
  total * tnum <= u64max ->
  Forall (fun e : N * N * N * N => let '(count, _, _, _) := e in count * tden <= u64max) ents ->
  exists fl, eligible_all total tnum tden ents = Ok fl /\ length fl = length ents.
Proof.
  intros Ht. induction ents as [|[[[count bal] ts] rate] r IH]; intros Hf; cbn [eligible_all].
  - exists []. split; reflexivity.
  - inversion Hf as [|x l Hx Hr]; subst.
    pose proof (signing_eligible_total total count tnum tden Ht Hx) as Hs.
    destruct (signing_eligible total count tnum tden) as [e|]; [|discriminate]. cbn [bind].
    destruct (IH Hr) as [fl [Hfl Hlen]]. rewrite Hfl. cbn [bind].
    exists (e :: fl). split; [reflexivity|cbn; lia].
Qed.

Lemma rewards_selected_ok rden cden factor scale :
  rden <> 0 -> cden <> 0 ->
  forall flags ents pool,
    Forall (fun e : N * N * N * N => let '(_, _, _, rate) := e in rate <= cden) ents ->
    exists l p, rewards_selected rden cden factor scale flags ents pool = Ok (l, p) /\ p + paid l = pool.
Proof.
  intros Hrd Hcd. induction flags as [|f fr IH]; intros ents pool Hf.
  - exists [], pool. split; [reflexivity|cbn; lia].
  - destruct ents as [|[[[count bal] ts] rate] r].
    + exists [], pool. split; [destruct f; reflexivity|cbn; lia].
    + inversion Hf as [|x l Hx Hr]; subst. cbn [rewards_selected]. destruct f.
      * destruct (reward_ok rden cden bal ts factor scale 1 1 pool rate Hrd Hcd ltac:(lia) Hx)
          as [H|[rem [com [sh [p2 [H Hc]]]]]]; rewrite H; cbn [bind].
        -- destruct (IH r pool Hr) as [l [p [Hl Hp]]]. rewrite Hl. cbn [bind].
           exists ((0, 0, 0) :: l), p. split; [reflexivity|cbn [paid]; lia].
        -- destruct (IH r p2 Hr) as [l [p [Hl Hp]]]. rewrite Hl. cbn [bind].
           exists ((rem, com, sh) :: l), p. split; [reflexivity|cbn [paid]; lia].
      * destruct (IH r pool Hr) as [l [p [Hl Hp]]]. rewrite Hl. cbn [bind].
        exists ((0, 0, 0) :: l), p. split; [reflexivity|cbn [paid]; lia].
Qed.

Lemma signing_path_ok rden cden tnum tden total factor scale ents pool :
  rden <> 0 -> cden <> 0 -> signing_ok cden tnum tden total ents ->
  exists l p, signing_path rden cden tnum tden total factor scale ents pool = Ok (l, p) /\ p + paid l = pool.
Proof.
  intros Hrd Hcd [Ht Hf]. unfold signing_path.
  assert (Hz : exists l p, Ok (zeros3 ents, pool) = Ok (l, p) /\ p + paid l = pool).
  { exists (zeros3 ents), pool. split; [reflexivity|]. rewrite paid_zeros. lia. }
  destruct (tden =? 0); [exact Hz|]. destruct (total =? 0); [exact Hz|].
  assert (G1 : (negb (tnum =? 0) && (u64max / tnum <? total)) = false).
  { destruct (tnum =? 0) eqn:E; [reflexivity|]. b2p. cbn [negb andb]. apply div_guard; assumption. }
  rewrite G1.
  destruct (eligible_all_ok total tnum tden ents Ht) as [fl [Hfl _]].
  { eapply Forall_impl; [|exact Hf]. intros [[[c b] t] r] [H _]. exact H. }
  rewrite Hfl. cbn [bind]. destruct scale as [sc|]; [|exact Hz].
  apply rewards_selected_ok; try assumption.
  eapply Forall_impl; [|exact Hf]. intros [[[c b] t] r] [_ H]. exact H.
Qed.

Lemma signing_path_total rden cden tnum tden total factor scale ents pool :
  rden <> 0 -> cden <> 0 -> signing_ok cden tnum tden total ents ->
  is_fatal (signing_path rden cden tnum tden total factor scale ents pool) = false.
Proof.
  intros Hrd Hcd H.
  destruct (signing_path_ok rden cden tnum tden total factor scale ents pool Hrd Hcd H) as [l [p [E _]]].
  rewrite E. reflexivity.
Qed.

(* ---------- non-vacuity ---------- *)
(* three entities: a healthy one, a dead pool (slashed to zero, shares outstanding), one
   with 100 % commission; the pool runs dry after the first payment *)
Example rewards_seq_ex :
  rewards_seq 100000000 100000 50 (Some 2000000)
    [(176000, 170000, 5000); (0, 5000, 100000); (192000, 192000, 100000)] 200000
  = Ok ([(167200, 8800, 4358); (0, 0, 0); (0, 0, 0)], 24000).
Proof. vm_compute. reflexivity. Qed.

Example signing_path_ex :
  signing_path 100000000 100000 1 2 10 1 (Some 2000000)
    [(10, 176000, 170000, 5000); (4, 160000, 160000, 0); (5, 192000, 192000, 100000)] 1000000
  = Ok ([(3344, 176, 166); (0, 0, 0); (0, 3840, 3840)], 992640).
Proof. vm_compute. reflexivity. Qed.
