(* Restore: importing chunks in any order with duplicates gives exactly the
   contents; a proof that verifies against the root carries only pairs of the
   tree (or exhibits a hash collision); a chunk with a wrong digest, an
   undecodable chunk or a chunk that does not verify changes nothing. *)
From Verif Require Import Lib.Base Mkvs.Trie Mkvs.BitsProofs Mkvs.AlistProofs Mkvs.TrieProofs Mkvs.HashProofs
  Ckpt.Model Ckpt.Proofs Ckpt.ParProofs.
Local Open Scope nat_scope.

(* ------------------------------------------------------------------ *)
(* importing                                                            *)
(* ------------------------------------------------------------------ *)
Definition put (s : store) (e : entry) : store := al_set (fst e) (snd e) s.

Lemma al_set_in_weak k v l e : In e (al_set k v l) -> e = (k, v) \/ In e l.
Proof.
  induction l as [|[k0 v0] l IH]; cbn [al_set].
  - intros [<-|[]]. now left.
  - destruct (bytes_cmp k k0).
    + intros [<-|Hin]; [now left|right; now right].
    + intros [<-|Hin]; [now left|now right].
    + intros [<-|Hin]; [right; now left|]. destruct (IH Hin); [now left|right; now right].
Qed.

Lemma import_weak es : forall st e, In e (fold_left put es st) -> In e st \/ In e es.
Proof.
  induction es as [|x es IH]; intros st e Hin; cbn [fold_left] in Hin; [now left|].
  destruct (IH _ _ Hin) as [H1|H1]; [|right; now right].
  unfold put in H1. apply al_set_in_weak in H1 as [->|H1]; [right; left; now destruct x|now left].
Qed.

Section Import.
  Variable C : list entry.
  Hypothesis SC : sorted C.

  Lemma import_in es : forall st,
    sorted st -> incl st C -> incl es C ->
    sorted (fold_left put es st) /\
    (forall e, In e (fold_left put es st) <-> In e st \/ In e es).
  Proof.
    induction es as [|[k v] es IH]; intros st Ss Is Ie; cbn [fold_left].
    - split; [assumption|]. intros e. cbn. tauto.
    - destruct (IH (put st (k, v))) as [S1 I1].
      + apply al_set_sorted. assumption.
      + intros e He. unfold put in He. cbn [fst snd] in He. apply al_set_in in He; [|assumption].
        destruct He as [->|[_ He]]; [apply Ie; now left|now apply Is].
      + intros e He. apply Ie. now right.
      + split; [assumption|]. intros e. rewrite I1. unfold put. cbn [fst snd].
        rewrite al_set_in by assumption. split.
        * intros [[->|[_ Hin]]|Hin]; [right; now left|now left|right; now right].
        * intros [Hin|[<-|Hin]]; [|left; now left|now right].
          destruct e as [k' v']. destruct (bytes_eq_dec k' k) as [->|Hne].
          { left. left. f_equal. eapply sorted_key_unique; [exact SC|apply Is; exact Hin|apply Ie; now left]. }
          { left. right. split; [exact Hne|exact Hin]. }
  Qed.

  Lemma restore_fold l : forall st,
    sorted st -> incl st C -> (forall c, In c l -> incl (pleaves c) C) ->
    sorted (fold_left (fun s c => import c s) l st) /\
    (forall e, In e (fold_left (fun s c => import c s) l st) <->
               In e st \/ exists c, In c l /\ In e (pleaves c)).
  Proof.
    induction l as [|c l IH]; intros st Ss Is Hl; cbn [fold_left].
    - split; [assumption|]. intros e. split; [now left|]. intros [?|(c & [] & _)]. assumption.
    - destruct (import_in (pleaves c) st Ss Is) as [S1 I1]; [apply Hl; now left|].
      destruct (IH (import c st)) as [S2 I2].
      + exact S1.
      + intros e He. apply I1 in He as [He|He]; [now apply Is|]. eapply Hl; [now left|exact He].
      + intros c' Hc'. apply Hl. now right.
      + split; [exact S2|]. intros e. rewrite I2. unfold import at 1. fold put. rewrite I1. split.
        * intros [[Hin|Hin]|(c' & Hc' & Hin)]; [now left|right; exists c; split; [now left|assumption]|].
          right. exists c'. split; [now right|assumption].
        * intros [Hin|(c' & [<-|Hc'] & Hin)]; [left; now left|left; now right|].
          right. exists c'. auto.
  Qed.

  (* any list of chunks that carries only pairs of C and all of them *)
  Theorem restore_exact l :
    (forall c, In c l -> incl (pleaves c) C) ->
    (forall e, In e C -> exists c, In c l /\ In e (pleaves c)) ->
    fold_left (fun s c => import c s) l [] = C.
  Proof.
    intros Hs Hc. destruct (restore_fold l []) as [S1 I1]; [exact I|intros e []|exact Hs|].
    apply sorted_ext; [exact S1|exact SC|]. intros e. rewrite I1. split.
    - intros [[]|(c & Hin & He)]. eapply Hs; eauto.
    - intros He. right. auto.
  Qed.
End Import.

(* ------------------------------------------------------------------ *)
(* all chunks of a checkpoint                                           *)
(* ------------------------------------------------------------------ *)
Section Chunks.
  Variable H : bytes -> bytes.

  Theorem chunks_sound size threads t c :
    In c (chunks H size threads t) -> incl (pleaves c) (contents t).
  Proof.
    unfold chunks. rewrite in_map_iff. intros (run & <- & _). apply chunk_sound.
  Qed.

  Theorem chunks_cover_all size threads t e :
    wf t -> In e (contents t) -> exists c, In c (chunks H size threads t) /\ In e (pleaves c).
  Proof.
    intros W Hin. unfold chunks, chunk_runs. destruct threads as [|n].
    - pose proof (seq_runs_concat size t) as Ec. rewrite <- Ec in Hin.
      apply in_concat in Hin as (run & Hr & He).
      exists (chunk_of H (inrun run) t). split; [exact (in_map (fun run0 => chunk_of H (inrun run0) t) _ _ Hr)|].
      destruct e as [k v]. apply chunk_complete.
      + rewrite <- Ec. apply in_concat. eauto.
      + eapply inrun_self. exact He.
    - destruct (par_cover H size (S n) t e W Hin) as (run & Hr & He).
      exists (chunk_of H (inrun run) t). split; [exact (in_map (fun run0 => chunk_of H (inrun run0) t) _ _ Hr)|exact He].
  Qed.

  Theorem chunks_hash size threads t c :
    In c (chunks H size threads t) -> phash H c = root_hash H t.
  Proof. unfold chunks. rewrite in_map_iff. intros (run & <- & _). apply chunk_hash. Qed.

  Theorem chunks_verify size threads t c :
    tdepth t <= MAX_PROOF_DEPTH -> In c (chunks H size threads t) -> verify H (root_hash H t) c = true.
  Proof. unfold chunks. rewrite in_map_iff. intros Hd (run & <- & _). now apply chunk_verifies. Qed.

  (* restoring the chunks in any order, any number of times each *)
  Theorem restore_any_order_l size threads t l :
    wf t ->
    (forall c, In c l -> In c (chunks H size threads t)) ->
    (forall c, In c (chunks H size threads t) -> In c l) ->
    fold_left (fun s c => import c s) l [] = contents t.
  Proof.
    intros W Hsub Hall. apply restore_exact.
    - now apply contents_sorted.
    - intros c Hc. eapply chunks_sound. eauto.
    - intros e He. destruct (chunks_cover_all size threads t e W He) as (c & Hc & Hin). eauto.
  Qed.

  (* ... hence the restored database holds a tree with the same root *)
  Corollary restored_root_l size threads t l t' :
    wf t -> wf t' ->
    (forall c, In c l -> In c (chunks H size threads t)) ->
    (forall c, In c (chunks H size threads t) -> In c l) ->
    contents t' = fold_left (fun s c => import c s) l [] ->
    t' = t /\ root_hash H t' = root_hash H t.
  Proof.
    intros W W' Hs Ha Ec. rewrite (restore_any_order_l size threads t l W Hs Ha) in Ec.
    assert (t' = t) as -> by (now apply canonical). auto.
  Qed.

  (* the chunk list depends only on the contents and the parameters *)
  Theorem metadata_deterministic_l size threads t1 t2 :
    wf t1 -> wf t2 -> contents t1 = contents t2 ->
    chunks H size threads t1 = chunks H size threads t2.
  Proof. intros W1 W2 E. now rewrite (canonical t1 t2 W1 W2 E). Qed.
End Chunks.

(* ------------------------------------------------------------------ *)
(* a verified proof carries only pairs of the tree                      *)
(* ------------------------------------------------------------------ *)
Fixpoint pbounded (hlen : nat) (p : ptree) : Prop :=
  match p with
  | PHash h => length h = hlen
  | PNil => True
  | PLeaf k v => (N.of_nat (length k) < 2 ^ 32 /\ N.of_nat (length v) < 2 ^ 32)%N
  | PNode lbl lf l r =>
      (N.of_nat (length lbl) < 2 ^ 16)%N /\
      match lf with
      | None => True
      | Some (k, v) => (N.of_nat (length k) < 2 ^ 32 /\ N.of_nat (length v) < 2 ^ 32)%N
      end /\ pbounded hlen l /\ pbounded hlen r
  end.

Section Verify.
  Variable H : bytes -> bytes.
  Variable hlen : nat.
  Hypothesis Hlen : forall x, length (H x) = hlen.

  Lemma phash_len p : pbounded hlen p -> length (phash H p) = hlen.
  Proof. destruct p; cbn [phash pbounded]; intros B; auto; apply Hlen. Qed.

  Lemma phash_node lbl lf l r :
    phash H (PNode lbl lf l r) =
    H (node_pre lbl (eval_hexpr H (opt_leaf_hexpr lf)) (phash H l) (phash H r)).
  Proof. reflexivity. Qed.

  Lemma coll x y : x <> y -> H x = H y -> collision H.
  Proof. intros Hne E. exists x, y. auto. Qed.

  Theorem verify_sound p : forall t,
    pbounded hlen p -> bounded t -> phash H p = root_hash H t ->
    incl (pleaves p) (contents t) \/ collision H.
  Proof.
    induction p as [h| |k v|lbl lf pl IHl pr IHr]; intros t Bp Bt E.
    - left. intros e [].
    - left. intros e [].
    - destruct t as [|k' v'|lbl' lf' l' r'].
      + right. cbn [phash] in E. rewrite leaf_hexpr_eval in E. eapply coll; [|exact E]. discriminate.
      + cbn [phash] in E. change (root_hash H (Leaf k' v')) with (eval_hexpr H (leaf_hexpr k' v')) in E.
        rewrite !leaf_hexpr_eval in E. apply H_inj_or in E as [E|Cn]; [|now right].
        cbn in Bp, Bt. destruct Bp, Bt. apply leaf_pre_inj in E as [-> ->]; auto. left. intros e He. exact He.
      + right. cbn [phash] in E. rewrite leaf_hexpr_eval, node_hexpr_eval in E.
        eapply coll; [|exact E]. discriminate.
    - destruct t as [|k' v'|lbl' lf' l' r'].
      + right. rewrite phash_node in E. eapply coll; [|exact E]. discriminate.
      + right. rewrite phash_node in E.
        change (root_hash H (Leaf k' v')) with (eval_hexpr H (leaf_hexpr k' v')) in E.
        rewrite leaf_hexpr_eval in E. eapply coll; [|exact E]. discriminate.
      + rewrite phash_node, node_hexpr_eval in E. apply H_inj_or in E as [E|Cn]; [|now right].
        cbn [pbounded] in Bp. destruct Bp as (Bl & Bf & Bpl & Bpr).
        cbn [bounded] in Bt. destruct Bt as (Bl' & Bf' & Bl2 & Br2).
        apply (node_pre_inj hlen) in E as (-> & Ef & El & Er);
          auto using opt_leaf_len, root_hash_len, phash_len.
        apply opt_leaf_inj in Ef as [->|Cn]; [|now right|assumption|assumption].
        destruct (IHl _ Bpl Bl2 El) as [Il|Cn]; [|now right].
        destruct (IHr _ Bpr Br2 Er) as [Ir|Cn]; [|now right].
        left. cbn [pleaves contents]. intros e. rewrite !in_app_iff. intros [He|[He|He]]; auto.
  Qed.
End Verify.

(* ------------------------------------------------------------------ *)
(* restoreChunk                                                         *)
(* ------------------------------------------------------------------ *)
Section RestoreChunk.
  Variable H Hd : bytes -> bytes.
  Variable decode : bytes -> option ptree.
  Variable hlen : nat.
  Hypothesis Hlen : forall x, length (H x) = hlen.
  (* the format's length fields: what the decoder can produce at all *)
  Hypothesis decode_bounded : forall b p, decode b = Some p -> pbounded hlen p.

  Lemma bytes_eqb_false a b : bytes_eqb a b = false <-> a <> b.
  Proof. apply bytes_eqb_neq. Qed.

  (* wrong digest: ErrChunkCorrupted, nothing imported *)
  Theorem wrong_digest_rejected root digest b st :
    Hd b <> digest -> restore_chunk H Hd decode root digest b st = (RCorrupted, st).
  Proof.
    intros Hne. unfold restore_chunk. apply bytes_eqb_false in Hne. now rewrite Hne.
  Qed.

  (* any failure leaves the store untouched *)
  Theorem failed_chunk_invisible root digest b st :
    fst (restore_chunk H Hd decode root digest b st) <> ROk ->
    snd (restore_chunk H Hd decode root digest b st) = st.
  Proof.
    unfold restore_chunk. destruct (negb _); [reflexivity|].
    destruct (decode b) as [p|]; [|reflexivity]. destruct (verify H root p); [|reflexivity].
    cbn. congruence.
  Qed.

  (* an accepted chunk has the digest of the metadata, hence IS the genuine
     chunk file (or the digest collides), and everything it makes visible is a
     pair of the checkpointed tree (or the node hash collides) *)
  Theorem accepted_chunk_genuine t digest good b st :
    bounded t -> digest = Hd good ->
    fst (restore_chunk H Hd decode (root_hash H t) digest b st) = ROk ->
    (b = good \/ collision Hd) /\
    ((forall e, In e (snd (restore_chunk H Hd decode (root_hash H t) digest b st)) ->
                In e st \/ In e (contents t)) \/ collision H).
  Proof.
    intros Bt -> Hok. unfold restore_chunk in *.
    destruct (bytes_eqb (Hd b) (Hd good)) eqn:Ed; cbn [negb] in *; [|cbn in Hok; discriminate].
    apply bytes_eqb_eq in Ed. split; [now apply H_inj_or|].
    destruct (decode b) as [p|] eqn:Edec; [|cbn in Hok; discriminate].
    destruct (verify H (root_hash H t) p) eqn:Ev; [|cbn in Hok; discriminate].
    unfold verify in Ev. apply andb_true_iff in Ev as [_ Ev]. apply bytes_eqb_eq in Ev.
    destruct (verify_sound H hlen Hlen p t (decode_bounded _ _ Edec) Bt Ev) as [Hi|Cn]; [|now right].
    left. cbn [snd]. intros e He. unfold import in He. fold put in He.
    apply import_weak in He as [He|He]; auto.
  Qed.
End RestoreChunk.

(* ------------------------------------------------------------------ *)
(* the restorer reports completion only when every chunk is imported   *)
(* ------------------------------------------------------------------ *)
Section Done.
  Variable H Hd : bytes -> bytes.
  Variable decode : bytes -> option ptree.
  Variable root : bytes.
  Variable digests : list bytes.

  (* ghost: the indices whose import succeeded since the restore was started *)
  Definition gstep (g : rstate * list nat) (e : event) : rstate * list nat :=
    let s' := fst (rstep H Hd decode root digests (fst g) e) in
    match e, snd (rstep H Hd decode root digests (fst g) e) with
    | EChunk i _, ROk => (s', i :: snd g)
    | EChunk _ _, RProofFail => (s', [])
    | EChunk _ _, _ => (s', snd g)
    | EStart, ROk => (s', [])
    | EStart, _ => (s', snd g)
    | EAbort, _ => (s', [])
    | EAbortR, _ => (s', [])
    end.
  Definition grun (st0 : store) (evs : list event) : rstate * list nat :=
    fold_left gstep evs (mkr false [] st0, []).

  Definition all_accounted (g : rstate * list nat) : Prop :=
    active (fst g) = true -> forall j, j < length digests -> In j (pend (fst g)) \/ In j (snd g).

  Lemma rm_in i j l : In j l -> j = i \/ In j (rm i l).
  Proof.
    intros Hin. destruct (Nat.eq_dec j i) as [->|Hne]; [now left|right].
    unfold rm. apply filter_In. split; [assumption|]. apply negb_true_iff. now apply Nat.eqb_neq.
  Qed.

  Lemma gstep_inv g e : all_accounted g -> all_accounted (gstep g e).
  Proof.
    destruct g as [s imp]. unfold all_accounted, gstep. cbn [fst snd]. intros Inv.
    destruct e as [i b| | |]; cbn [rstep].
    - destruct (active s) eqn:Ea; cbn [negb]; [|cbn [fst snd]; intros E; congruence].
      destruct (existsb (Nat.eqb i) (pend s)); cbn [negb]; [|cbn [fst snd]; rewrite Ea; exact Inv].
      destruct (nth_error digests i) as [d|]; [|cbn [fst snd]; rewrite Ea; exact Inv].
      destruct (restore_chunk H Hd decode root d b (db s)) as [[] st']; cbn [fst snd active pend];
        try (rewrite Ea; exact Inv); try discriminate.
      intros _ j Hj. destruct (Inv eq_refl j Hj) as [Hp|Hi]; [|right; now right].
      destruct (rm_in i j _ Hp) as [->|Hr]; [right; now left|now left].
    - cbn [fst snd active]. discriminate.
    - cbn [fst snd active]. discriminate.
    - destruct (active s) eqn:Ea; cbn [fst snd active pend]; [rewrite Ea; exact Inv|].
      intros _ j Hj. left. apply in_seq. lia.
  Qed.

  Lemma grun_inv st0 evs : all_accounted (grun st0 evs).
  Proof.
    unfold grun. assert (all_accounted (mkr false [] st0, [])) as I0 by (intros E; discriminate).
    revert I0. generalize (mkr false [] st0, @nil nat). induction evs as [|e evs IH]; intros g Ig; cbn [fold_left];
      [assumption|]. apply IH. now apply gstep_inv.
  Qed.

  (* after ANY sequence of starts, aborts, good, bad and duplicate deliveries:
     a RestoreChunk call that ends the restore (done = true) is the call that
     imports the last outstanding chunk; every other chunk was imported before *)
  Theorem done_only_after_every_import_l st0 evs i b s' :
    let g := grun st0 evs in
    rstep H Hd decode root digests (fst g) (EChunk i b) = (s', ROk) ->
    active (fst g) = true -> active s' = false ->
    forall j, j < length digests -> j = i \/ In j (snd g).
  Proof.
    intros g Hstep Ea Ed j Hj. pose proof (grun_inv st0 evs) as Inv. fold g in Inv.
    destruct g as [s imp]. cbn [fst snd] in *. unfold all_accounted in Inv. cbn [fst snd] in Inv.
    destruct (Inv Ea j Hj) as [Hp|Hi]; [|now right]. left.
    cbn [rstep] in Hstep. rewrite Ea in Hstep. cbn [negb] in Hstep.
    destruct (existsb (Nat.eqb i) (pend s)); cbn [negb] in Hstep; [|congruence].
    destruct (nth_error digests i) as [d|]; [|congruence].
    destruct (restore_chunk H Hd decode root d b (db s)) as [[] st']; try congruence.
    injection Hstep as <-. cbn [active] in Ed. apply negb_false_iff, Nat.eqb_eq in Ed.
    destruct (rm_in i j _ Hp) as [->|Hr]; [reflexivity|].
    destruct (rm i (pend s)); [destruct Hr|discriminate].
  Qed.
End Done.

(* ------------------------------------------------------------------ *)
(* whole restore histories                                              *)
(* ------------------------------------------------------------------ *)
Section History.
  Variable H Hd : bytes -> bytes.
  Variable decode : bytes -> option ptree.
  Variable enc : ptree -> bytes.                     (* the chunk file of a proof *)
  Hypothesis dec_enc : forall c, decode (enc c) = Some c.
  Variables (size : N) (threads : nat) (t : tree).
  Hypothesis Wt : wf t.

  Let cs := chunks H size threads t.
  Let digests := map (fun c => Hd (enc c)) cs.
  Let root := root_hash H t.

  Definition hist_inv (s : rstate) : Prop :=
    sorted (db s) /\ incl (db s) (contents t) /\
    (active s = true -> forall j c, nth_error cs j = Some c -> In j (pend s) \/ incl (pleaves c) (db s)).

  Lemma hist_step s e : hist_inv s -> hist_inv (fst (rstep H Hd decode root digests s e)) \/ collision Hd.
  Proof.
    intros (Ss & Is & Ip). destruct e as [i b| | |]; cbn [rstep].
    - destruct (active s) eqn:Ea; cbn [negb]; [|left; cbn [fst]; repeat split; auto; congruence].
      destruct (existsb (Nat.eqb i) (pend s)); cbn [negb]; [|left; cbn [fst]; repeat split; auto].
      destruct (nth_error digests i) as [d|] eqn:Ed; [|left; cbn [fst]; repeat split; auto].
      unfold digests in Ed. rewrite nth_error_map in Ed.
      destruct (nth_error cs i) as [ci|] eqn:Eci; [|discriminate]. cbn in Ed. injection Ed as <-.
      unfold restore_chunk.
      destruct (bytes_eqb (Hd b) (Hd (enc ci))) eqn:Eb; cbn [negb]; [|left; cbn [fst]; repeat split; auto].
      apply bytes_eqb_eq in Eb. destruct (H_inj_or Hd _ _ Eb) as [->|Cn]; [|now right].
      rewrite dec_enc. destruct (verify H root ci); [|left; cbn [fst]; repeat split; auto; cbn; congruence].
      left. cbn [fst active pend db].
      assert (In ci cs) as Hci by (eapply nth_error_In; eauto).
      assert (incl (pleaves ci) (contents t)) as Hs by (eapply chunks_sound; exact Hci).
      destruct (import_in (contents t) (contents_sorted t Wt) (pleaves ci) (db s) Ss Is Hs) as [S1 I1].
      unfold import. fold put. repeat split.
      + exact S1.
      + intros e He. apply I1 in He as [He|He]; auto.
      + intros _ j c Hj. destruct (Ip eq_refl j c Hj) as [Hp|Hi].
        * destruct (rm_in i j _ Hp) as [->|Hr]; [|now left].
          right. rewrite Eci in Hj. injection Hj as <-. intros e He. apply I1. now right.
        * right. intros e He. apply I1. left. auto.
    - left. cbn [fst db active]. split; [exact I|]. split; [intros e []|discriminate].
    - left. cbn [fst db active]. split; [exact Ss|]. split; [exact Is|discriminate].
    - destruct (active s) eqn:Ea; cbn [fst]; left; [repeat split; auto|].
      cbn [db active pend]. repeat split; auto. intros _ j c Hj. left. apply in_seq.
      unfold digests. rewrite map_length. split; [lia|]. cbn. apply nth_error_Some. congruence.
  Qed.

  Lemma hist_run evs : forall s, hist_inv s -> hist_inv (rrun H Hd decode root digests s evs) \/ collision Hd.
  Proof.
    induction evs as [|e evs IH]; intros s Hi; cbn [rrun fold_left]; [now left|].
    destruct (hist_step s e Hi) as [Hi'|Cn]; [|now right]. apply IH. exact Hi'.
  Qed.

  (* the delivery that ends the restore *)
  Lemma hist_done s i b s' :
    hist_inv s -> rstep H Hd decode root digests s (EChunk i b) = (s', ROk) -> active s' = false ->
    db s' = contents t \/ collision Hd.
  Proof.
    intros (Ss & Is & Ip) Hstep Hdone. cbn [rstep] in Hstep.
    destruct (active s) eqn:Ea; cbn [negb] in Hstep; [|congruence].
    destruct (existsb (Nat.eqb i) (pend s)); cbn [negb] in Hstep; [|congruence].
    destruct (nth_error digests i) as [d|] eqn:Ed; [|congruence].
    unfold digests in Ed. rewrite nth_error_map in Ed.
    destruct (nth_error cs i) as [ci|] eqn:Eci; [|discriminate]. cbn in Ed. injection Ed as <-.
    unfold restore_chunk in Hstep.
    destruct (bytes_eqb (Hd b) (Hd (enc ci))) eqn:Eb; cbn [negb] in Hstep; [|congruence].
    apply bytes_eqb_eq in Eb. destruct (H_inj_or Hd _ _ Eb) as [->|Cn]; [|now right].
    rewrite dec_enc in Hstep. destruct (verify H root ci); [|congruence].
    injection Hstep as <-. cbn [active db] in *. apply negb_false_iff, Nat.eqb_eq in Hdone.
    assert (In ci cs) as Hci by (eapply nth_error_In; eauto).
    assert (incl (pleaves ci) (contents t)) as Hs by (eapply chunks_sound; exact Hci).
    destruct (import_in (contents t) (contents_sorted t Wt) (pleaves ci) (db s) Ss Is Hs) as [S1 I1].
    left. unfold import. fold put. apply sorted_ext; [exact S1|now apply contents_sorted|].
    intros e. split.
    - intros He. apply I1 in He as [He|He]; auto.
    - intros He. apply I1.
      destruct (chunks_cover_all H size threads t e Wt He) as (c & Hc & Hin). fold cs in Hc.
      apply In_nth_error in Hc as [j Hj].
      destruct (Ip eq_refl j c Hj) as [Hp|Hi]; [|left; auto].
      destruct (rm_in i j _ Hp) as [->|Hr].
      + rewrite Eci in Hj. injection Hj as <-. now right.
      + destruct (rm i (pend s)); [destruct Hr|discriminate].
  Qed.

  (* For ANY sequence of starts, aborts and deliveries (genuine, corrupt,
     duplicate, out of order) into an empty database: what is visible is always
     part of the checkpointed contents, and the delivery that ends the restore
     (done) leaves exactly the checkpointed contents -- unless the digest
     function collides. *)
  Theorem restore_history_exact_l evs :
    let s := rrun H Hd decode root digests (mkr false [] []) evs in
    (incl (db s) (contents t) /\
     forall i b s', rstep H Hd decode root digests s (EChunk i b) = (s', ROk) ->
                    active s' = false -> db s' = contents t \/ collision Hd)
    \/ collision Hd.
  Proof.
    intros s. assert (hist_inv (mkr false [] [])) as H0i.
    { split; [exact I|]. split; [intros e []|discriminate]. }
    destruct (hist_run evs _ H0i) as [Hi|Cn]; [|now right].
    left. split; [apply Hi|]. intros i b s' Hstep Hdone. eapply hist_done; eauto.
  Qed.
End History.

(* ------------------------------------------------------------------ *)
(* rejected deliveries are no-ops; finalize                             *)
(* ------------------------------------------------------------------ *)
Section Rejected.
  Variable H Hd : bytes -> bytes.
  Variable decode : bytes -> option ptree.
  Variable root : bytes.
  Variable digests : list bytes.

  Definition rejected (r : rres) : Prop :=
    r = RCorrupted \/ r = RNotPending \/ r = RNoRestore \/ r = RInProgress.

  (* a delivery answered with ErrChunkCorrupted, ErrChunkAlreadyRestored,
     ErrNoRestoreInProgress (or a StartRestore answered with
     ErrRestoreAlreadyInProgress) leaves restorer and database exactly as they were *)
  Theorem rejected_is_noop_l s e :
    rejected (snd (rstep H Hd decode root digests s e)) -> fst (rstep H Hd decode root digests s e) = s.
  Proof.
    unfold rejected. destruct e as [i b| | |]; cbn [rstep].
    - destruct (negb (active s)); [reflexivity|].
      destruct (negb (existsb (Nat.eqb i) (pend s))); [reflexivity|].
      destruct (nth_error digests i); [|reflexivity].
      destruct (restore_chunk H Hd decode root b0 b (db s)) as [[] st']; cbn [fst snd]; try reflexivity;
        intros [?|[?|[?|?]]]; discriminate.
    - cbn. intros [?|[?|[?|?]]]; discriminate.
    - cbn. intros [?|[?|[?|?]]]; discriminate.
    - destruct (active s); cbn; [reflexivity|]. intros [?|[?|[?|?]]]; discriminate.
  Qed.

  (* a failed proof verification aborts the restorer and imports nothing *)
  Theorem proof_failure_aborts_l s i b :
    snd (rstep H Hd decode root digests s (EChunk i b)) = RProofFail ->
    fst (rstep H Hd decode root digests s (EChunk i b)) = mkr false [] (db s).
  Proof.
    cbn [rstep]. destruct (negb (active s)); [discriminate|].
    destruct (negb (existsb (Nat.eqb i) (pend s))); [discriminate|].
    destruct (nth_error digests i); [|discriminate].
    destruct (restore_chunk H Hd decode root b0 b (db s)) as [[] st']; cbn [fst snd]; try discriminate. reflexivity.
  Qed.

  Lemma rrun_app s e1 e2 :
    rrun H Hd decode root digests s (e1 ++ e2) = rrun H Hd decode root digests (rrun H Hd decode root digests s e1) e2.
  Proof. unfold rrun. apply fold_left_app. Qed.

  (* ... so a history with a rejected delivery removed ends in the same state *)
  Theorem history_without_rejected_l s e1 e e2 :
    rejected (snd (rstep H Hd decode root digests (rrun H Hd decode root digests s e1) e)) ->
    rrun H Hd decode root digests s (e1 ++ e :: e2) = rrun H Hd decode root digests s (e1 ++ e2).
  Proof.
    intros Hr. rewrite !rrun_app. unfold rrun at 1. cbn [fold_left]. fold (rrun H Hd decode root digests).
    now rewrite (rejected_is_noop_l _ _ Hr).
  Qed.

  (* Finalize with another root than the checkpoint's fails *)
  Theorem finalize_root_mismatch_l r s : r <> root -> rfinalize root r s = None.
  Proof. intros Hn. unfold rfinalize. destruct (bytes_eqb r root) eqn:E; [apply bytes_eqb_eq in E; congruence|reflexivity]. Qed.
End Rejected.

Section Altered.
  Variable H Hd : bytes -> bytes.
  Variable decode : bytes -> option ptree.

  (* a chunk file whose bytes differ from the created ones is refused by the
     digest check, before anything is decoded, verified or written -- unless
     the digest function collides on the two files *)
  Theorem altered_chunk_rejected_l root good b st :
    b <> good ->
    restore_chunk H Hd decode root (Hd good) b st = (RCorrupted, st) \/ collision Hd.
  Proof.
    intros Hne. destruct (bytes_eq_dec (Hd b) (Hd good)) as [E|E].
    - right. exists b, good. auto.
    - left. now apply wrong_digest_rejected.
  Qed.
End Altered.

Section Matching.
  Variable H Hd : bytes -> bytes.
  Variable decode : bytes -> option ptree.

  (* the second failure layer: a chunk whose bytes MATCH the manifest digest is
     never answered with the retryable ErrChunkCorrupted *)
  Theorem digest_match_never_corrupted_l root digest b st :
    Hd b = digest -> fst (restore_chunk H Hd decode root digest b st) <> RCorrupted.
  Proof.
    intros E. unfold restore_chunk. rewrite E, (proj2 (bytes_eqb_eq _ _) eq_refl). cbn [negb].
    destruct (decode b) as [p|]; [destruct (verify H root p)|]; cbn; discriminate.
  Qed.

  (* ... if it does not decode, or decodes to something that does not verify,
     the answer is the proof failure, nothing is written *)
  Theorem matching_undecodable_is_proof_failure_l root digest b st :
    Hd b = digest ->
    (decode b = None \/ exists p, decode b = Some p /\ verify H root p = false) ->
    restore_chunk H Hd decode root digest b st = (RProofFail, st).
  Proof.
    intros E Hbad. unfold restore_chunk. rewrite E, (proj2 (bytes_eqb_eq _ _) eq_refl). cbn [negb].
    destruct Hbad as [->|(p & -> & ->)]; reflexivity.
  Qed.

  (* ... and the restorer abandons the checkpoint (so that the caller does not
     fetch the same bytes again) *)
  Theorem matching_undecodable_aborts_l root digests s i b :
    active s = true -> existsb (Nat.eqb i) (pend s) = true -> nth_error digests i = Some (Hd b) ->
    (decode b = None \/ exists p, decode b = Some p /\ verify H root p = false) ->
    rstep H Hd decode root digests s (EChunk i b) = (mkr false [] (db s), RProofFail).
  Proof.
    intros Ea Ep Ed Hbad. cbn [rstep]. rewrite Ea, Ep, Ed. cbn [negb].
    now rewrite (matching_undecodable_is_proof_failure_l root (Hd b) b (db s) eq_refl Hbad).
  Qed.
End Matching.
