(* Statements of Props/C12.v assembled from the lemmas of Ckpt/*.v *)
From Verif Require Import Lib.Base Mkvs.Trie Mkvs.TrieProofs Mkvs.HashProofs
  Ckpt.Model Ckpt.Proofs Ckpt.ParProofs Ckpt.RestoreProofs Ckpt.Examples Ckpt.Stack Ckpt.StackSim Ckpt.Frame Gen.CkptConsts.

Lemma chunks_cover_l : forall H size threads t, wf t ->
  (forall c, In c (chunks H size threads t) -> incl (pleaves c) (contents t)) /\
  (forall e, In e (contents t) -> exists c, In c (chunks H size threads t) /\ In e (pleaves c)).
Proof.
  intros H size threads t W. split.
  - intros c. apply chunks_sound.
  - intros e. now apply chunks_cover_all.
Qed.

Lemma chunks_verify_l : forall H size threads t c,
  In c (chunks H size threads t) ->
  phash H c = root_hash H t /\
  (tdepth t <= MAX_PROOF_DEPTH -> verify H (root_hash H t) c = true)%nat.
Proof.
  intros H size threads t c Hc. split; [eapply chunks_hash; eauto|].
  intros Hd. eapply RestoreProofs.chunks_verify; eauto.
Qed.

Lemma restore_any_order_l : forall H size threads t l,
  wf t ->
  (forall c, In c l -> In c (chunks H size threads t)) ->
  (forall c, In c (chunks H size threads t) -> In c l) ->
  fold_left (fun s c => import c s) l [] = contents t /\
  forall t', wf t' -> contents t' = fold_left (fun s c => import c s) l [] ->
             t' = t /\ root_hash H t' = root_hash H t.
Proof.
  intros H size threads t l W Hs Ha. split; [eapply restore_any_order_l; eauto|].
  intros t' W' Ec. eapply restored_root_l; eauto.
Qed.

Lemma chunk_nonempty_progress_l : forall size threads t,
  snd (par_runs size threads t) = [] /\
  (contents t = [] -> seq_runs size t = [[]]) /\
  (contents t <> [] ->
     Forall (fun r => r <> []) (seq_runs size t) /\
     (length (seq_runs size t) <= length (contents t))%nat).
Proof. intros size threads t. split; [apply par_terminates|apply seq_runs_progress]. Qed.

Lemma bad_chunk_rejected_l : forall H Hd decode root digest b st,
  (Hd b <> digest -> restore_chunk H Hd decode root digest b st = (RCorrupted, st)) /\
  (fst (restore_chunk H Hd decode root digest b st) <> ROk ->
   snd (restore_chunk H Hd decode root digest b st) = st).
Proof.
  intros. split; [apply wrong_digest_rejected|apply failed_chunk_invisible].
Qed.

Lemma accepted_chunk_is_genuine_l : forall H Hd decode hlen,
  (forall x, length (H x) = hlen) ->
  (forall b p, decode b = Some p -> pbounded hlen p) ->
  forall t digest good b st,
  bounded t -> digest = Hd good ->
  fst (restore_chunk H Hd decode (root_hash H t) digest b st) = ROk ->
  (b = good \/ collision Hd) /\
  ((forall e, In e (snd (restore_chunk H Hd decode (root_hash H t) digest b st)) ->
              In e st \/ In e (contents t)) \/ collision H).
Proof. intros. eapply accepted_chunk_genuine; eauto. Qed.

Lemma verified_proof_sound_l : forall H hlen, (forall x, length (H x) = hlen) ->
  forall p t, pbounded hlen p -> bounded t -> phash H p = root_hash H t ->
  incl (pleaves p) (contents t) \/ collision H.
Proof. intros H hlen Hl p t. now apply verify_sound. Qed.


Lemma gen_consts_expected_l :
  max_proof_depth = 128 /\ proof_depth_guard_is_gt = true /\ split_iters = 10 /\
  seq_continue_is_lt = true /\ par_break_is_ge_and_lastleaf = true /\
  seq_err_checked_after_loop = true /\ seq_err_checked_after_peek = true /\ chunk_proof_version = 0 /\
  (prefix_leaf, prefix_internal, prefix_nil) = (0, 1, 2) /\ depth_size = 2 /\ value_length_size = 4.
Proof. repeat split; reflexivity. Qed.

Lemma par_runs_nonempty_l : forall size threads t,
  wf t -> t <> Nil -> Forall (fun r => r <> []) (fst (par_runs size threads t)).
Proof. intros size threads t W Hn. exact (ParProofs.par_runs_nonempty H0 t W size threads Hn). Qed.

Lemma stack_port_chunks_l : forall H t, wf t -> forall size n, t <> Nil ->
  exists res, s_par H size (S n) t = Some (res, []) /\ map fst res = chunks H size (S n) t.
Proof.
  intros H t W size n Hn. destruct (par_stack_refines_count_l H t W size (S n) Hn) as (res & E & _ & Ec).
  exists res. split; [exact E|]. rewrite Ec. reflexivity.
Qed.

(* create with the ported stack machine, restore: exactly the contents *)
Lemma stack_create_restore_exact_l : forall H t size n, wf t ->
  exists res, s_par H size (S n) t = Some (res, []) /\
    (forall c, In c (map fst res) -> phash H c = root_hash H t /\ incl (pleaves c) (contents t)) /\
    (forall e, In e (contents t) -> exists c, In c (map fst res) /\ In e (pleaves c)) /\
    NoDup (concat (map snd res)) /\ Forall sorted (map snd res) /\
    incl (concat (map snd res)) (contents t) /\
    (forall l, (forall c, In c l -> In c (map fst res)) -> (forall c, In c (map fst res) -> In c l) ->
               fold_left (fun s c => import c s) l [] = contents t).
Proof.
  intros H t size n W. destruct (stack_port_chunks_all H t size n W) as (res & E & Ec & Er).
  exists res. split; [exact E|]. rewrite Ec, Er.
  destruct (par_runs_disjoint_l size (S n) t W) as [Hnd Hincl].
  split; [|split; [|split; [exact Hnd|split; [apply par_runs_sorted_l; exact W|split; [exact Hincl|]]]]].
  - intros c Hc. split; [eapply chunks_hash; eauto|eapply chunks_sound; eauto].
  - intros e He. apply chunks_cover_all; assumption.
  - intros l Hs Ha. eapply restore_any_order_l; eauto.
Qed.

(* done, then Finalize with the checkpoint's root: exactly the checkpointed contents *)
Lemma finalize_after_done_exact_l : forall H Hd decode enc,
  (forall c, decode (enc c) = Some c) ->
  forall size threads t, wf t -> forall evs,
  let cs := chunks H size threads t in
  let digests := map (fun c => Hd (enc c)) cs in
  let s := rrun H Hd decode (root_hash H t) digests (mkr false [] []) evs in
  forall i b s', rstep H Hd decode (root_hash H t) digests s (EChunk i b) = (s', ROk) ->
                 active s' = false ->
                 rfinalize (root_hash H t) (root_hash H t) s' = Some (contents t) \/ collision Hd.
Proof.
  intros H Hd decode enc De size threads t W evs cs digests s i b s' Hstep Hdone.
  destruct (restore_history_exact_l H Hd decode enc De size threads t W evs) as [[_ Hx]|Cn]; [|now right].
  destruct (Hx i b s' Hstep Hdone) as [E|Cn]; [|now right].
  left. unfold rfinalize. rewrite (proj2 (bytes_eqb_eq _ _) eq_refl). now rewrite E.
Qed.

Lemma par_runs_disjoint_sorted_l : forall size threads t, wf t ->
  NoDup (concat (fst (par_runs size threads t))) /\
  incl (concat (fst (par_runs size threads t))) (contents t) /\
  Forall sorted (fst (par_runs size threads t)).
Proof.
  intros size threads t W. destruct (par_runs_disjoint_l size threads t W) as [A B].
  repeat split; auto. now apply par_runs_sorted_l.
Qed.

Lemma entry_sizes_are_costs_l : forall lbl lf k v,
  N.of_nat (length (1 :: leaf_bin k v)) = leaf_cost k v /\
  N.of_nat (length (1 :: node_bin lbl lf)) = node_cost lbl lf.
Proof. intros. split; [apply leaf_entry_cost|apply node_entry_cost]. Qed.
