(* The size estimate: the bound the chunkers rely on (a chunk is closed by the
   first key that lifts the estimate to the chunk size), the sequential chunker
   as iterated [next_run], and the proof builder port's estimate as the sum
   over its included set. *)
From Verif Require Import Lib.Base Mkvs.Trie Mkvs.BitsProofs Ckpt.Model Ckpt.Proofs Ckpt.ParProofs Ckpt.Stack.
Local Open Scope nat_scope.

Definition afull (a : aent) : N := snd (fst a).
Definition amarg (a : aent) : N := snd a.
Definition msum (l : list aent) : N := fold_right (fun a s => (amarg a + s)%N) 0%N l.
(* estimate of a fresh builder after visiting exactly the keys of [r] (consecutive keys) *)
Definition run_est (r : list aent) : N :=
  match r with [] => 0%N | a :: rest => (afull a + msum rest)%N end.

(* ---------- the boundary rule ---------- *)
Lemma take_more_bound size l : forall acc,
  let k := length (take_more size acc l) in
  (1 <= k -> (acc + msum (firstn (k - 1) l) < size)%N) /\
  (k < length l -> (size <= acc + msum (firstn k l))%N).
Proof.
  induction l as [|[[e f] m] r IH]; intros acc; cbn [take_more].
  - cbn. split; lia.
  - destruct (N.ltb_spec acc size) as [Hlt|Hge]; cbn [length].
    + specialize (IH (acc + m)%N). cbn zeta in IH. destruct IH as [IH1 IH2].
      set (k := length (take_more size (acc + m) r)) in *. split.
      * intros _. destruct k as [|k'].
        { cbn. unfold msum. cbn. lia. }
        { replace (S (S k') - 1) with (S k') by lia. cbn [firstn msum fold_right]. fold (msum (firstn k' r)).
          unfold amarg at 1. cbn [snd]. replace (S k' - 1) with k' in IH1 by lia.
          specialize (IH1 ltac:(lia)). lia. }
      * intros Hk. cbn [firstn msum fold_right]. fold (msum (firstn k r)). unfold amarg at 1. cbn [snd].
        specialize (IH2 ltac:(lia)). lia.
    + split; [lia|]. intros _. cbn. lia.
Qed.

(* one chunk: [n] keys are visited; before the last one the estimate was below
   the chunk size (else the chunk would have been closed earlier), and unless
   the keys ran out the estimate has reached the chunk size *)
Theorem next_run_bound_l size l :
  let n := length (next_run size l) in
  (2 <= n -> (run_est (firstn (n - 1) l) < size)%N) /\
  (n < length l -> (size <= run_est (firstn n l))%N) /\
  (l <> [] -> 1 <= n).
Proof.
  destruct l as [|[[e f] m] r]; cbn [next_run length].
  - cbn. repeat split; try lia. congruence.
  - pose proof (take_more_bound size r f) as [B1 B2]. cbn zeta in *.
    set (k := length (take_more size f r)) in *. repeat split.
    + intros Hk. replace (S k - 1) with (S (k - 1)) by lia. cbn [firstn run_est]. unfold afull. cbn [fst snd].
      apply B1. lia.
    + intros Hk. cbn [firstn run_est]. unfold afull. cbn [fst snd]. apply B2. lia.
    + lia.
Qed.

(* what one more key adds is at most the cost of its own root-to-leaf path *)
Lemma annot_marg_le t : forall A a, In a (annot A t) -> (A + amarg a <= afull a)%N.
Proof.
  induction t as [|k v|lbl lf l IHl r IHr]; intros A a Hin; cbn [annot] in Hin.
  - destruct Hin.
  - destruct Hin as [<-|[]]. unfold amarg, afull. cbn. lia.
  - set (c := node_cost lbl lf) in *.
    assert (forall a, In a (annot_lf (A + c) lf ++ annot (A + c) l ++ annot (A + c) r) ->
            (A + c + amarg a <= afull a)%N) as Hall.
    { intros a0 Ha. rewrite !in_app_iff in Ha. destruct Ha as [Ha|[Ha|Ha]]; auto.
      destruct lf as [[k v]|]; cbn in Ha; [|tauto]. destruct Ha as [<-|[]]. unfold amarg, afull. cbn. lia. }
    destruct (annot_lf (A + c) lf ++ annot (A + c) l ++ annot (A + c) r) as [|[[e f] m] rest]; [destruct Hin|].
    cbn [bump] in Hin. destruct Hin as [<-|Hin].
    + specialize (Hall (e, f, m) (or_introl eq_refl)). unfold amarg, afull in *. cbn [fst snd] in *. lia.
    + specialize (Hall a (or_intror Hin)). lia.
Qed.

(* the bound: the estimate of a chunk is below chunk size + the cost of the
   root-to-leaf path of its last key (a one-key chunk costs exactly that path) *)
Theorem chunk_size_bound_l size A s d :
  let l := skipn d (annot A s) in
  let n := length (next_run size l) in
  forall a, nth_error l (n - 1) = Some a -> 1 <= n ->
  (n = 1 -> run_est (firstn n l) = afull a) /\
  (2 <= n -> (run_est (firstn n l) < size + afull a)%N).
Proof.
  intros l n a Ha Hn. pose proof (next_run_bound_l size l) as (B1 & _ & _). fold n in B1.
  assert (In a (annot A s)) as Hin.
  { apply nth_error_In in Ha. unfold l in Ha. rewrite <- (firstn_skipn d (annot A s)). apply in_or_app. now right. }
  pose proof (annot_marg_le s A a Hin) as Hm.
  destruct l as [|a0 rest] eqn:El; [destruct (n - 1); discriminate|]. split.
  - intros E1. rewrite E1 in *. cbn in Ha. injection Ha as <-. cbn. unfold msum. cbn. lia.
  - intros H2. specialize (B1 H2).
    destruct n as [|[|n']]; try lia. replace (S (S n') - 1) with (S n') in * by lia.
    cbn [nth_error] in Ha. cbn [firstn run_est] in *.
    assert (msum (firstn (S n') rest) = (msum (firstn n' rest) + amarg a)%N) as Es.
    { clear - Ha. revert rest Ha. induction n' as [|n' IH]; intros [|x rest] Ha; cbn in Ha; try discriminate.
      - injection Ha as ->. cbn. lia.
      - specialize (IH rest Ha). cbn [firstn msum fold_right] in *. fold (msum (firstn (S n') rest)).
        fold (msum (firstn n' rest)) in *. rewrite IH. lia. }
    change (match rest with [] => [] | a1 :: l0 => a1 :: firstn n' l0 end) with (firstn (S n') rest).
    rewrite Es. lia.
Qed.

(* ---------- the sequential chunker is iterated next_run with a fresh builder ---------- *)
Lemma runs_aux_unfold size l : forall cur acc,
  runs_aux size cur acc l =
  (rev cur ++ take_more size acc l) ::
  match skipn (length (take_more size acc l)) l with
  | [] => []
  | (e, f, _) :: r' => runs_aux size [e] f r'
  end.
Proof.
  induction l as [|[[e f] m] r IH]; intros cur acc; cbn [runs_aux take_more].
  - cbn. now rewrite app_nil_r.
  - destruct (N.ltb acc size).
    + rewrite IH. cbn [rev length skipn]. rewrite <- app_assoc. reflexivity.
    + cbn [length skipn]. now rewrite app_nil_r.
Qed.

Fixpoint iter_runs (fuel : nat) (size : N) (l : list aent) : list (list entry) :=
  match fuel, l with
  | _, [] => []
  | O, _ => []
  | S f, _ => next_run size l :: iter_runs f size (skipn (length (next_run size l)) l)
  end.

Lemma runs_aux_iter size : forall fuel e f m r, length r < fuel ->
  runs_aux size [e] f r = iter_runs fuel size ((e, f, m) :: r).
Proof.
  induction fuel as [|fuel IH]; intros e f m r Hl; [lia|].
  rewrite runs_aux_unfold. cbn [iter_runs next_run rev app length skipn]. f_equal.
  destruct (skipn (length (take_more size f r)) r) as [|[[e' f'] m'] r'] eqn:Es; [destruct fuel; reflexivity|].
  apply IH. assert (length (skipn (length (take_more size f r)) r) <= length r) as Hle
    by (rewrite skipn_length; lia). rewrite Es in Hle. cbn in Hle. lia.
Qed.

Theorem seq_runs_iter_l size t :
  contents t <> [] -> seq_runs size t = iter_runs (length (contents t)) size (annot 0 t).
Proof.
  intros Hne. unfold seq_runs. rewrite <- (annot_length 0%N t).
  destruct (annot 0%N t) as [|[[e f] m] r] eqn:Ea.
  - exfalso. apply Hne. rewrite <- (annot_entries t 0%N), Ea. reflexivity.
  - apply runs_aux_iter. cbn. lia.
Qed.

(* ---------- the proof builder port: estimate = sum over the included set ---------- *)
Lemma path_eqb_eq a : forall b, path_eqb a b = true <-> a = b.
Proof.
  induction a as [|x a IH]; intros [|y b]; cbn [path_eqb]; split; try congruence; try reflexivity.
  - intros E. apply andb_true_iff in E as [E1 E2]. apply Bool.eqb_prop in E1. apply IH in E2. congruence.
  - intros [= -> ->]. rewrite Bool.eqb_reflx. cbn. now apply IH.
Qed.

Lemma lf_eqb_eq a b : lf_eqb a b = true <-> a = b.
Proof.
  destruct a as [[k v]|], b as [[k' v']|]; cbn [lf_eqb]; split; try congruence; try reflexivity.
  - intros E. apply andb_true_iff in E as [E1 E2]. apply bytes_eqb_eq in E1, E2. congruence.
  - intros [= -> ->]. rewrite !bytes_eqb_refl. reflexivity.
Qed.

Lemma tree_eqb_eq a : forall b, tree_eqb a b = true <-> a = b.
Proof.
  induction a as [|k v|lbl lf l IHl r IHr]; intros [|k' v'|lbl' lf' l' r']; cbn [tree_eqb];
    split; try congruence; try reflexivity.
  - intros E. apply andb_true_iff in E as [E1 E2]. apply bytes_eqb_eq in E1, E2. congruence.
  - intros [= -> ->]. rewrite !bytes_eqb_refl. reflexivity.
  - intros E. repeat (apply andb_true_iff in E as [E ?]).
    apply path_eqb_eq in E. apply lf_eqb_eq in H1. apply IHl in H0. apply IHr in H. congruence.
  - intros [= -> -> -> ->]. rewrite (proj2 (path_eqb_eq lbl' lbl') eq_refl), (proj2 (lf_eqb_eq lf' lf') eq_refl),
      (proj2 (IHl l') eq_refl), (proj2 (IHr r') eq_refl). reflexivity.
Qed.

Lemma mem_tree_in n l : existsb (tree_eqb n) l = true <-> In n l.
Proof.
  rewrite existsb_exists. split.
  - intros (x & Hin & E). apply tree_eqb_eq in E. now subst.
  - intros Hin. exists n. split; [assumption|]. now apply tree_eqb_eq.
Qed.

Definition nsize_sum (l : list tree) : N := fold_right (fun n s => (node_size n + s)%N) 0%N l.

Definition pb_ok (pb : pbuilder) : Prop := NoDup (inc pb) /\ psize pb = nsize_sum (inc pb) /\ ~ In Nil (inc pb).

Lemma include_ok n pb : pb_ok pb ->
  pb_ok (include n pb) /\
  (forall m, In m (inc (include n pb)) <-> In m (inc pb) \/ (m = n /\ n <> Nil)).
Proof.
  intros (Hnd & Hs & Hnil). unfold include. destruct n as [|k v|lbl lf l r].
  - split; [repeat split; assumption|]. intros m. split; [auto|]. intros [?|[_ ?]]; congruence.
  - destruct (existsb (tree_eqb (Leaf k v)) (inc pb)) eqn:E.
    + apply mem_tree_in in E. split; [repeat split; assumption|]. intros m. split; [auto|].
      intros [?|[-> _]]; assumption.
    + assert (~ In (Leaf k v) (inc pb)) as Hni by (intros Hi; apply mem_tree_in in Hi; congruence).
      split.
      * repeat split; cbn [inc psize]; [now constructor|unfold nsize_sum; cbn [fold_right]; fold (nsize_sum (inc pb)); rewrite Hs; lia|].
        intros [?|?]; [discriminate|auto].
      * intros m. cbn [inc In]. split; [intros [<-|?]; [right; split; [reflexivity|discriminate]|auto]|].
        intros [?|[-> _]]; auto.
  - destruct (existsb (tree_eqb (Node lbl lf l r)) (inc pb)) eqn:E.
    + apply mem_tree_in in E. split; [repeat split; assumption|]. intros m. split; [auto|].
      intros [?|[-> _]]; assumption.
    + assert (~ In (Node lbl lf l r) (inc pb)) as Hni by (intros Hi; apply mem_tree_in in Hi; congruence).
      split.
      * repeat split; cbn [inc psize]; [now constructor|unfold nsize_sum; cbn [fold_right]; fold (nsize_sum (inc pb)); rewrite Hs; lia|].
        intros [?|?]; [discriminate|auto].
      * intros m. cbn [inc In]. split; [intros [<-|?]; [right; split; [reflexivity|discriminate]|auto]|].
        intros [?|[-> _]]; auto.
Qed.

(* After any sequence of Include calls the estimate is the sum of
   1 + len(serialized) over the DISTINCT included nodes.  An internal node's
   serialization contains its inline leaf, and that leaf is a node of its own
   when it was visited: it is then counted twice (proof.go:190-199). *)
Theorem pb_size_is_sum_l ns :
  let pb := fold_left (fun pb n => include n pb) ns (mkpb [] 0%N) in
  NoDup (inc pb) /\ psize pb = nsize_sum (inc pb) /\
  forall m, In m (inc pb) <-> (In m ns /\ m <> Nil).
Proof.
  assert (forall ns pb0, pb_ok pb0 ->
          let pb := fold_left (fun pb n => include n pb) ns pb0 in
          pb_ok pb /\ forall m, In m (inc pb) <-> In m (inc pb0) \/ (In m ns /\ m <> Nil)) as G.
  { clear ns. induction ns as [|n ns IH]; intros pb0 Hok; cbn [fold_left].
    - split; [assumption|]. intros m. cbn. tauto.
    - destruct (include_ok n pb0 Hok) as [Hok1 Hin1]. destruct (IH _ Hok1) as [Hok2 Hin2].
      split; [assumption|]. intros m. rewrite Hin2, Hin1. cbn [In]. split.
      + intros [[?|[-> ?]]|[? ?]]; auto.
      + intros [?|[[<-|?] ?]]; auto. }
  destruct (G ns (mkpb [] 0%N)) as [(Hnd & Hs & _) Hin].
  { split; [cbn; constructor|]. split; [reflexivity|intros []]. }
  cbn zeta. split; [assumption|]. split; [assumption|]. intros m. rewrite Hin. cbn [inc In]. tauto.
Qed.

Example double_count_of_inline_leaf lbl k v l r :
  let n := Node lbl (Some (k, v)) l r in
  psize (include (Leaf k v) (include n (mkpb [] 0%N))) = (node_cost lbl (Some (k, v)) + leaf_cost k v)%N.
Proof. cbn. lia. Qed.
