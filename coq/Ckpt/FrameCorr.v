(* Correspondence interface for the chunk framing (harness/cmd/ckpt -mode
   frame): the uncompressed chunk streams of real checkpoints, byte for byte.
   The model has no SHA-512/256: the payloads of the hash entries are taken
   from the real stream (in pre-order) and put into the model's chunk before
   it is serialized; everything else (which entries, their order, the node and
   leaf serialization, the CBOR framing) is the model's. *)
From Verif Require Import Lib.Base Mkvs.Trie Ckpt.Model Ckpt.Stack Ckpt.Frame.

Fixpoint fill (p : ptree) (hs : list bytes) : ptree * list bytes :=
  match p with
  | PHash _ => (PHash (hd [] hs), tl hs)
  | PNode lbl lf l r =>
      let (l', h1) := fill l hs in
      let (r', h2) := fill r h1 in
      (PNode lbl lf l' r', h2)
  | _ => (p, hs)
  end.

Definition fr_in := (cksrc * N * N * list (list bytes))%type.
Definition run_frame (i : fr_in) : list bytes :=
  let '(src, size, threads, hss) := i in
  let t := src_tree src in
  map (fun ch => chunk_stream (fst (fill (fst ch) (snd ch))))
      (combine (chunks H0 size (N.to_nat threads) t) hss).
Definition fr_eqb (a b : list bytes) : bool := list_eqb bytes_eqb a b.
