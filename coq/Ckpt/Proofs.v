(* Proofs about the chunk model: the key runs of the sequential chunker,
   chunks as prunings (what a chunk carries, that it verifies), depth. *)
From Verif Require Import Lib.Base Mkvs.Trie Mkvs.BitsProofs Mkvs.AlistProofs Mkvs.TrieProofs Mkvs.HashProofs Ckpt.Model.
Local Open Scope nat_scope.

(* ------------------------------------------------------------------ *)
(* annotated key list                                                   *)
(* ------------------------------------------------------------------ *)
Lemma bump_entries c l : map aentry (bump c l) = map aentry l.
Proof. destruct l as [|[[e f] m] r]; reflexivity. Qed.

Lemma annot_lf_entries A lf : map aentry (annot_lf A lf) = lf_contents lf.
Proof. destruct lf as [[k v]|]; reflexivity. Qed.

Lemma annot_entries t : forall A, map aentry (annot A t) = contents t.
Proof.
  induction t as [|k v|lbl lf l IHl r IHr]; intros A; cbn [annot contents]; try reflexivity.
  rewrite bump_entries, !map_app, annot_lf_entries, IHl, IHr. reflexivity.
Qed.

Lemma annot_length A t : length (annot A t) = length (contents t).
Proof. rewrite <- (annot_entries t A). now rewrite map_length. Qed.

(* ------------------------------------------------------------------ *)
(* sequential runs                                                      *)
(* ------------------------------------------------------------------ *)
Lemma runs_aux_concat size l : forall cur acc,
  concat (runs_aux size cur acc l) = rev cur ++ map aentry l.
Proof.
  induction l as [|[[e f] m] r IH]; intros cur acc; cbn [runs_aux map].
  - cbn. now rewrite app_nil_r.
  - destruct (N.ltb acc size).
    + rewrite IH. cbn [rev]. now rewrite <- app_assoc.
    + cbn [concat]. rewrite IH. reflexivity.
Qed.

Theorem seq_runs_concat size t : concat (seq_runs size t) = contents t.
Proof.
  unfold seq_runs. rewrite <- (annot_entries t 0%N).
  destruct (annot 0%N t) as [|[[e f] m] r]; [reflexivity|].
  rewrite runs_aux_concat. reflexivity.
Qed.

Lemma runs_aux_nonempty size l : forall cur acc,
  cur <> [] -> Forall (fun r => r <> []) (runs_aux size cur acc l).
Proof.
  induction l as [|[[e f] m] r IH]; intros cur acc Hc; cbn [runs_aux].
  - constructor; [|constructor]. intros E. apply Hc.
    apply (f_equal (@rev entry)) in E. now rewrite rev_involutive in E.
  - destruct (N.ltb acc size).
    + apply IH. discriminate.
    + constructor.
      * intros E. apply Hc. apply (f_equal (@rev entry)) in E. now rewrite rev_involutive in E.
      * apply IH. discriminate.
Qed.

Lemma runs_aux_count size l : forall cur acc, length (runs_aux size cur acc l) <= S (length l).
Proof.
  induction l as [|[[e f] m] r IH]; intros cur acc; cbn [runs_aux length]; [lia|].
  destruct (N.ltb acc size).
  - specialize (IH (e :: cur) (acc + m)%N). lia.
  - specialize (IH [e] f). cbn [length]. lia.
Qed.

(* every chunk of a non-empty tree visits at least one new key, so there are
   at most as many chunks as keys; an empty tree has exactly one (empty) chunk *)
Theorem seq_runs_progress size t :
  (contents t = [] -> seq_runs size t = [[]]) /\
  (contents t <> [] ->
     Forall (fun r => r <> []) (seq_runs size t) /\
     length (seq_runs size t) <= length (contents t)).
Proof.
  unfold seq_runs. rewrite <- (annot_entries t 0%N).
  destruct (annot 0%N t) as [|[[e f] m] r]; split; intros Hc; try reflexivity; try easy.
  split; [apply runs_aux_nonempty; discriminate|].
  cbn [map length]. rewrite map_length. apply runs_aux_count.
Qed.

(* size 0 or 1: one key per chunk *)
Lemma runs_aux_size0 l : forall cur acc size, (size <= 1)%N -> (1 <= acc)%N ->
  (forall e f m, In (e, f, m) l -> (1 <= f)%N) ->
  runs_aux size cur acc l = rev cur :: map (fun a => [aentry a]) l.
Proof.
  induction l as [|[[e f] m] r IH]; intros cur acc size Hs Ha Hf; cbn [runs_aux map]; [reflexivity|].
  destruct (N.ltb_spec acc size); [lia|].
  rewrite IH; auto.
  - apply (Hf e f m). now left.
  - intros e' f' m' Hin. apply (Hf e' f' m'). now right.
Qed.

(* ------------------------------------------------------------------ *)
(* chunks as prunings                                                   *)
(* ------------------------------------------------------------------ *)
Section Chunk.
  Variable H : bytes -> bytes.
  Variable S : bytes -> bool.

  Definition selected (t : tree) : Prop := exists k v, In (k, v) (contents t) /\ S k = true.

  Lemma prune_none t : prune_opt H S t = None -> forall k v, In (k, v) (contents t) -> S k = false.
  Proof.
    induction t as [|k0 v0|lbl lf l IHl r IHr]; cbn [prune_opt contents]; intros E k v Hin.
    - destruct Hin.
    - destruct Hin as [[= <- <-]|[]]. destruct (S k0); [discriminate|reflexivity].
    - destruct (prune_opt H S l) eqn:El; [discriminate|].
      destruct (prune_opt H S r) eqn:Er; [discriminate|].
      destruct (sel_lf S lf) eqn:Ef; [discriminate|].
      rewrite !in_app_iff in Hin. destruct Hin as [Hin|[Hin|Hin]].
      + destruct lf as [[k1 v1]|]; cbn in Hin; [|tauto]. destruct Hin as [[= <- <-]|[]]. exact Ef.
      + exact (IHl eq_refl _ _ Hin).
      + exact (IHr eq_refl _ _ Hin).
  Qed.

  (* the structural lemma: a node with a selected key below is present in
     full, with the chunks of its children *)
  Lemma chunk_node lbl lf l r :
    selected (Node lbl lf l r) ->
    chunk_of H S (Node lbl lf l r) = PNode lbl lf (chunk_of H S l) (chunk_of H S r).
  Proof.
    intros (k & v & Hin & Hs). unfold chunk_of. cbn [prune_opt].
    destruct (prune_opt H S l) eqn:El; [reflexivity|].
    destruct (prune_opt H S r) eqn:Er; [reflexivity|].
    destruct (sel_lf S lf) eqn:Ef; [reflexivity|]. exfalso.
    cbn [contents] in Hin. rewrite !in_app_iff in Hin. destruct Hin as [Hin|[Hin|Hin]].
    - destruct lf as [[k1 v1]|]; cbn in Hin; [|tauto]. destruct Hin as [[= <- <-]|[]].
      cbn in Ef. congruence.
    - rewrite (prune_none _ El _ _ Hin) in Hs. discriminate.
    - rewrite (prune_none _ Er _ _ Hin) in Hs. discriminate.
  Qed.

  Lemma prune_some t : forall p, prune_opt H S t = Some p -> selected t.
  Proof.
    induction t as [|k0 v0|lbl lf l IHl r IHr]; cbn [prune_opt]; intros p E.
    - discriminate.
    - destruct (S k0) eqn:Es; [|discriminate]. exists k0, v0. cbn. auto.
    - destruct (prune_opt H S l) eqn:El.
      { destruct (IHl _ eq_refl) as (k & v & Hin & Hs). exists k, v. cbn [contents].
        rewrite !in_app_iff. auto. }
      destruct (prune_opt H S r) eqn:Er.
      { destruct (IHr _ eq_refl) as (k & v & Hin & Hs). exists k, v. cbn [contents].
        rewrite !in_app_iff. auto. }
      destruct lf as [[k1 v1]|]; cbn [sel_lf] in E; [|discriminate].
      destruct (S k1) eqn:Es; [|discriminate]. exists k1, v1. cbn. auto.
  Qed.

  Lemma prune_unselected t : ~ selected t -> prune_opt H S t = None.
  Proof. intros Hn. destruct (prune_opt H S t) eqn:E; [|reflexivity]. exfalso. eauto using prune_some. Qed.

  Lemma chunk_unselected t : ~ selected t -> pleaves (chunk_of H S t) = [].
  Proof.
    intros Hn. unfold chunk_of. rewrite prune_unselected by exact Hn. destruct t; reflexivity.
  Qed.

  Lemma selected_dec t : selected t \/ ~ selected t.
  Proof.
    destruct (existsb (fun e => S (fst e)) (contents t)) eqn:E.
    - left. apply existsb_exists in E as ([k v] & Hin & Hs). exists k, v. auto.
    - right. intros (k & v & Hin & Hs).
      assert (existsb (fun e => S (fst e)) (contents t) = true) as E'
        by (apply existsb_exists; exists (k, v); auto).
      congruence.
  Qed.

  (* a chunk carries only pairs of the tree *)
  Lemma chunk_sound t : incl (pleaves (chunk_of H S t)) (contents t).
  Proof.
    induction t as [|k0 v0|lbl lf l IHl r IHr].
    - intros e He. destruct He.
    - unfold chunk_of. cbn [prune_opt]. destruct (S k0); cbn; intros e He; auto. destruct He.
    - destruct (selected_dec (Node lbl lf l r)) as [Hs|Hn].
      + rewrite chunk_node by exact Hs. cbn [pleaves contents]. intros e He.
        rewrite !in_app_iff in *. destruct He as [He|[He|He]]; auto.
      + rewrite chunk_unselected by exact Hn. intros e [].
  Qed.
End Chunk.

Section Chunk2.
  Variable H : bytes -> bytes.

  (* every selected pair of the tree is carried *)
  Lemma chunk_complete S t : forall k v,
    In (k, v) (contents t) -> S k = true -> In (k, v) (pleaves (chunk_of H S t)).
  Proof.
    induction t as [|k0 v0|lbl lf l IHl r IHr]; intros k v Hin Hs.
    - destruct Hin.
    - destruct Hin as [[= <- <-]|[]]. unfold chunk_of. cbn [prune_opt]. rewrite Hs. cbn. auto.
    - rewrite chunk_node by (exists k, v; auto). cbn [pleaves contents] in *.
      rewrite !in_app_iff in *. destruct Hin as [Hin|[Hin|Hin]]; auto.
  Qed.

  (* subtrees *)
  Inductive sub : tree -> tree -> Prop :=
  | sub_refl t : sub t t
  | sub_l s lbl lf l r : sub s l -> sub s (Node lbl lf l r)
  | sub_r s lbl lf l r : sub s r -> sub s (Node lbl lf l r).

  Lemma sub_contents s t : sub s t -> incl (contents s) (contents t).
  Proof.
    induction 1 as [t|s lbl lf l r _ IH|s lbl lf l r _ IH]; intros e He; auto;
      cbn [contents]; rewrite !in_app_iff; auto.
  Qed.

  Lemma sub_trans a b c : sub a b -> sub b c -> sub a c.
  Proof. intros Hab Hbc. induction Hbc; auto using sub. Qed.

  Lemma sub_wf s t : sub s t -> forall p, wf_at p t -> exists q, wf_at q s.
  Proof.
    induction 1 as [t|s lbl lf l r _ IH|s lbl lf l r _ IH]; intros p W; eauto;
      cbn [wf_at] in W; destruct W as (_ & Wl & Wr & _); eauto.
  Qed.

  (* [inl t s e]: any chunk of [t] that visits a key below [s] carries [e] *)
  Definition inl (t s : tree) (e : entry) : Prop :=
    forall S k v, In (k, v) (contents s) -> S k = true -> In e (pleaves (chunk_of H S t)).

  Lemma inl_mono t s s' e : incl (contents s') (contents s) -> inl t s e -> inl t s' e.
  Proof. intros Hi Hl S k v Hin Hs. eapply Hl; eauto. Qed.

  (* the inline leaf of every ancestor-or-self of a visited key is carried *)
  Lemma inl_lf lbl lf l r t e :
    sub (Node lbl lf l r) t -> In e (lf_contents lf) -> inl t (Node lbl lf l r) e.
  Proof.
    intros Hsub He. remember (Node lbl lf l r) as s eqn:Es.
    induction Hsub as [t|s lbl' lf' l' r' Hs IH|s lbl' lf' l' r' Hs IH]; intros S k v Hin HS.
    - subst t. rewrite chunk_node by (exists k, v; auto). cbn [pleaves]. rewrite in_app_iff. auto.
    - assert (In (k, v) (contents (Node lbl' lf' l' r'))) as Hin'.
      { cbn [contents]. rewrite !in_app_iff. right; left. eapply sub_contents; eauto. }
      rewrite chunk_node by (exists k, v; auto). cbn [pleaves]. rewrite !in_app_iff. right; left.
      eapply IH; eauto.
    - assert (In (k, v) (contents (Node lbl' lf' l' r'))) as Hin'.
      { cbn [contents]. rewrite !in_app_iff. right; right. eapply sub_contents; eauto. }
      rewrite chunk_node by (exists k, v; auto). cbn [pleaves]. rewrite !in_app_iff. right; right.
      eapply IH; eauto.
  Qed.

  (* ---------------------------------------------------------------- *)
  (* a chunk verifies against the root                                  *)
  (* ---------------------------------------------------------------- *)
  Lemma chunk_hash S t : phash H (chunk_of H S t) = root_hash H t.
  Proof.
    induction t as [|k0 v0|lbl lf l IHl r IHr].
    - reflexivity.
    - unfold chunk_of. cbn [prune_opt]. destruct (S k0); reflexivity.
    - destruct (selected_dec S (Node lbl lf l r)) as [Hs|Hn].
      + rewrite chunk_node by exact Hs. cbn [phash]. rewrite IHl, IHr. reflexivity.
      + unfold chunk_of. rewrite prune_unselected by exact Hn. reflexivity.
  Qed.

  (* depth: a chunk is never deeper than the tree *)
  Fixpoint tdepth (t : tree) : nat :=
    match t with
    | Node _ _ l r => Datatypes.S (Nat.max (tdepth l) (tdepth r))
    | _ => 0
    end.

  Lemma chunk_depth S t : pdepth (chunk_of H S t) <= tdepth t.
  Proof.
    induction t as [|k0 v0|lbl lf l IHl r IHr].
    - cbn. lia.
    - unfold chunk_of. cbn [prune_opt]. destruct (S k0); cbn; lia.
    - destruct (selected_dec S (Node lbl lf l r)) as [Hs|Hn].
      + rewrite chunk_node by exact Hs. cbn [pdepth tdepth]. lia.
      + unfold chunk_of. rewrite prune_unselected by exact Hn. cbn. lia.
  Qed.

  Lemma bytes_eqb_refl' a : bytes_eqb a a = true.
  Proof. apply bytes_eqb_eq. reflexivity. Qed.

  Theorem chunk_verifies S t :
    tdepth t <= MAX_PROOF_DEPTH -> verify H (root_hash H t) (chunk_of H S t) = true.
  Proof.
    intros Hd. unfold verify. rewrite chunk_hash, bytes_eqb_refl', andb_true_r.
    apply Nat.leb_le. pose proof (chunk_depth S t). lia.
  Qed.
End Chunk2.
