(* The parallel chunker: every pair of the tree is carried by some chunk
   (coverage invariant over split / emit / filter), the lock-step rounds
   terminate within the fuel, the order in which the goroutines of one round
   run is irrelevant. *)
From Verif Require Import Lib.Base Mkvs.Trie Mkvs.BitsProofs Mkvs.AlistProofs Mkvs.TrieProofs Ckpt.Model Ckpt.Proofs.
From Coq Require Import Permutation.
Local Open Scope nat_scope.

Lemma skipn_skipn {A} (x y : nat) (l : list A) : skipn x (skipn y l) = skipn (y + x) l.
Proof.
  revert l; induction y as [|y IH]; intros l; [reflexivity|].
  destruct l as [|a l]; [now rewrite !skipn_nil|]. cbn [skipn Nat.add]. apply IH.
Qed.

(* ------------------------------------------------------------------ *)
(* runs are prefixes of what remains                                    *)
(* ------------------------------------------------------------------ *)
Lemma take_more_split size l : forall acc,
  map aentry l = take_more size acc l ++ map aentry (skipn (length (take_more size acc l)) l).
Proof.
  induction l as [|[[e f] m] r IH]; intros acc; cbn [take_more]; [reflexivity|].
  destruct (N.ltb acc size); [|reflexivity].
  cbn [map length skipn app]. f_equal. apply IH.
Qed.

Lemma next_run_split size l :
  map aentry l = next_run size l ++ map aentry (skipn (length (next_run size l)) l).
Proof.
  destruct l as [|[[e f] m] r]; [reflexivity|]. cbn [next_run map length skipn app].
  f_equal. apply take_more_split.
Qed.

Lemma next_run_nonempty size l : l <> [] -> next_run size l <> [].
Proof. destruct l as [|[[e f] m] r]; [congruence|discriminate]. Qed.

Definition rem_entries (tk : task) : list entry := skipn (tdone tk) (contents (tsub tk)).

Lemma remaining_entries tk : map aentry (remaining tk) = rem_entries tk.
Proof. unfold remaining, rem_entries. now rewrite <- skipn_map, annot_entries. Qed.

Lemma rem_split size tk : rem_entries tk = task_run size tk ++ rem_entries (advance size tk).
Proof.
  rewrite <- (remaining_entries tk). unfold task_run. rewrite (next_run_split size (remaining tk)) at 1.
  f_equal. unfold rem_entries, advance, remaining. cbn [tdone tsub].
  rewrite <- skipn_skipn, <- !skipn_map, annot_entries. reflexivity.
Qed.

Lemma task_run_nonempty size tk : rem_entries tk <> [] -> task_run size tk <> [].
Proof.
  intros Hr. apply next_run_nonempty. intros E. apply Hr.
  rewrite <- remaining_entries, E. reflexivity.
Qed.

Lemma unfinished_rem tk : unfinished tk = true <-> rem_entries tk <> [].
Proof.
  unfold unfinished, rem_entries. rewrite Nat.ltb_lt. split.
  - intros Hl E. apply (f_equal (@length entry)) in E. rewrite skipn_length in E. cbn in E. lia.
  - intros Hn. destruct (Nat.lt_ge_cases (tdone tk) (length (contents (tsub tk)))); [assumption|].
    exfalso. apply Hn. now apply skipn_all2.
Qed.

(* ------------------------------------------------------------------ *)
(* coverage invariant                                                   *)
(* ------------------------------------------------------------------ *)
Section Cover.
  Variable H : bytes -> bytes.
  Variable t : tree.
  Hypothesis Wt : wf t.

  Definition covered (rs : list (list entry)) (e : entry) : Prop :=
    exists run, In run rs /\ In e (pleaves (chunk_of H (inrun run) t)).

  (* what a task still owes: its unvisited keys, and (as long as it has any)
     whatever is carried inline with every key of its subtree *)
  Definition owes (tk : task) (e : entry) : Prop :=
    In e (rem_entries tk) \/ (rem_entries tk <> [] /\ inl H t (tsub tk) e).

  Definition tasks_ok (ts : list task) : Prop := Forall (fun tk => sub (tsub tk) t) ts.
  Definition owed (ts : list task) (e : entry) : Prop := exists tk, In tk ts /\ owes tk e.

  Lemma sub_nonempty s : sub s t -> s <> Nil -> contents s <> [].
  Proof.
    intros Hs Hn. destruct (sub_wf _ _ Hs [] Wt) as [q Wq].
    pose proof (wf_present_len _ _ Wq) as L. destruct s; try congruence; cbn [present] in L;
      intros E; rewrite E in L; cbn in L; lia.
  Qed.

  Lemma inrun_self run k v : In (k, v) run -> inrun run k = true.
  Proof.
    intros Hin. unfold inrun. apply existsb_exists. exists (k, v). split; [assumption|].
    cbn. apply bytes_eqb_eq. reflexivity.
  Qed.

  Lemma covered_mono rs rs' e : incl rs rs' -> covered rs e -> covered rs' e.
  Proof. intros Hi (run & Hin & He). exists run. auto. Qed.

  (* --- split --- *)
  Lemma child_tasks_in a cs c : In c cs -> c <> Nil -> In (mk c a 0) (child_tasks a cs).
  Proof.
    intros Hin Hn. unfold child_tasks. apply in_flat_map. exists c. split; [assumption|].
    destruct c; [congruence| |]; cbn; auto.
  Qed.

  Lemma child_tasks_sub a cs tk : In tk (child_tasks a cs) -> In (tsub tk) cs /\ tdone tk = 0.
  Proof.
    unfold child_tasks. rewrite in_flat_map. intros (c & Hc & Hin).
    destruct c; cbn in Hin; [tauto| |]; destruct Hin as [<-|[]]; auto.
  Qed.

  Lemma split_ok tk : sub (tsub tk) t -> tasks_ok (split tk).
  Proof.
    intros Hs. unfold split, tasks_ok. destruct (tsub tk) as [|k v|lbl lf l r] eqn:Et;
      try (constructor; [rewrite Et; assumption|constructor]).
    assert (sub l t) as Hl by (eapply sub_trans; [|exact Hs]; apply sub_l, sub_refl).
    assert (sub r t) as Hr by (eapply sub_trans; [|exact Hs]; apply sub_r, sub_refl).
    assert (forall cs, (forall c, In c cs -> sub c t) -> forall a, Forall (fun tk0 => sub (tsub tk0) t) (child_tasks a cs)) as Hct.
    { intros cs Hcs a. apply Forall_forall. intros tk0 Hin. apply child_tasks_sub in Hin as [Hin _]. auto. }
    destruct (tdone tk <=? _).
    { destruct l, r; try (apply Hct; intros c [<-|[<-|[]]]; assumption).
      constructor; [rewrite Et; assumption|constructor]. }
    destruct (tdone tk <? _).
    { apply Forall_app. split; [apply Hct; intros c [<-|[]]; assumption|].
      constructor; [assumption|constructor]. }
    destruct (tdone tk =? _).
    { constructor; [rewrite Et; assumption|constructor]. }
    constructor; [assumption|constructor].
  Qed.

  Lemma split_owes tk e : sub (tsub tk) t -> owes tk e -> owed (split tk) e.
  Proof.
    intros Hs Ho. unfold split.
    destruct (tsub tk) as [|k v|lbl lf l r] eqn:Et; try (exists tk; split; [now left|assumption]).
    set (nlf := length (lf_contents lf)). set (nl := length (contents l)). set (d := tdone tk).
    assert (sub l t) as Hl by (eapply sub_trans; [|exact Hs]; apply sub_l, sub_refl).
    assert (sub r t) as Hr by (eapply sub_trans; [|exact Hs]; apply sub_r, sub_refl).
    assert (rem_entries tk = skipn d (lf_contents lf ++ contents l ++ contents r)) as Er
      by (unfold rem_entries; rewrite Et; reflexivity).
    assert (incl (contents l) (contents (tsub tk))) as Il
      by (rewrite Et; cbn [contents]; intros x Hx; rewrite !in_app_iff; auto).
    assert (incl (contents r) (contents (tsub tk))) as Ir
      by (rewrite Et; cbn [contents]; intros x Hx; rewrite !in_app_iff; auto).
    (* every pair owed inline stays owed inline by any descendant task that has work *)
    assert (forall tk', incl (contents (tsub tk')) (contents (tsub tk)) -> rem_entries tk' <> [] ->
            (rem_entries tk <> [] /\ inl H t (tsub tk) e) -> owes tk' e) as Hinl.
    { intros tk' Hi Hr' [_ Hi']. right. split; [assumption|]. eapply inl_mono; eauto. }
    destruct (Nat.leb_spec d nlf) as [Hd|Hd].
    { (* nothing, or only the node's own leaf, visited *)
      assert (forall c, In c [l; r] -> c <> Nil -> sub c t -> incl (contents c) (contents (tsub tk)) ->
              (In e (contents c) \/ In e (lf_contents lf) \/ (rem_entries tk <> [] /\ inl H t (tsub tk) e)) ->
              owed (child_tasks (tanc tk + node_cost lbl lf) [l; r]) e) as Hc.
      { intros c Hc Hn Hsc Hic Hcase. exists (mk c (tanc tk + node_cost lbl lf) 0).
        split; [apply child_tasks_in; assumption|].
        assert (rem_entries (mk c (tanc tk + node_cost lbl lf) 0) = contents c) as Erc by reflexivity.
        destruct Hcase as [Hin|[Hin|Hin]].
        - left. now rewrite Erc.
        - right. split; [rewrite Erc; now apply sub_nonempty|]. cbn [tsub].
          eapply inl_mono; [exact Hic|]. rewrite Et. apply inl_lf; assumption.
        - apply Hinl; auto. rewrite Erc. now apply sub_nonempty. }
      assert (In e (lf_contents lf) \/ In e (contents l) \/ In e (contents r) \/
              (rem_entries tk <> [] /\ inl H t (tsub tk) e)) as Hcases.
      { destruct Ho as [Hin|Hin]; [|auto]. rewrite Er in Hin.
        assert (In e (lf_contents lf ++ contents l ++ contents r)) as Hin'.
        { rewrite <- (firstn_skipn d). apply in_or_app. now right. }
        rewrite !in_app_iff in Hin'. tauto. }
      destruct l as [|kl vl|lbl1 lf1 l1 r1] eqn:El, r as [|kr vr|lbl2 lf2 l2 r2] eqn:Erx;
        try (exists tk; split; [now left|assumption]).
      all: destruct Hcases as [Hc1|[Hc1|[Hc1|Hc1]]];
        try (cbn [contents] in Hc1; contradiction).
      all: try (eapply (Hc r); subst r; [now (right; left)|discriminate|assumption|assumption|now auto]).
      all: try (eapply (Hc l); subst l; [now left|discriminate|assumption|assumption|now auto]).
    }
    destruct (Nat.ltb_spec d (nlf + nl)) as [Hd2|Hd2].
    { (* inside the left subtree *)
      set (tl := mk l (tanc tk + node_cost lbl lf) (d - nlf)).
      assert (rem_entries tk = rem_entries tl ++ contents r) as Er2.
      { rewrite Er, skipn_app, (skipn_all2 (lf_contents lf)) by (fold nlf; lia). fold nlf.
        rewrite skipn_app. fold nl. replace (d - nlf - nl) with 0 by lia. reflexivity. }
      assert (rem_entries tl <> []) as Hne.
      { intros E. apply (f_equal (@length entry)) in E. unfold tl, rem_entries in E. cbn [tdone tsub] in E.
        rewrite skipn_length in E. fold nl in E. cbn in E. lia. }
      destruct Ho as [Hin|Hin].
      - rewrite Er2, in_app_iff in Hin. destruct Hin as [Hin|Hin].
        + exists tl. split; [apply in_or_app; right; now left|now left].
        + destruct r as [|kr vr|lbl2 lf2 l2 r2] eqn:Erx; [destruct Hin| |].
          * eexists. split; [apply in_or_app; left; cbn; left; reflexivity|]. left. exact Hin.
          * eexists. split; [apply in_or_app; left; cbn; left; reflexivity|]. left. exact Hin.
      - exists tl. split; [apply in_or_app; right; now left|]. apply Hinl; auto.
    }
    destruct (Nat.eqb_spec d (nlf + nl)) as [Hd3|Hd3].
    { exists tk; split; [now left|assumption]. }
    { (* inside the right subtree *)
      set (tr := mk r (tanc tk + node_cost lbl lf) (d - nlf - nl)).
      assert (rem_entries tk = rem_entries tr) as Er2.
      { rewrite Er, skipn_app, (skipn_all2 (lf_contents lf)) by (fold nlf; lia). fold nlf.
        rewrite skipn_app, (skipn_all2 (contents l)) by (fold nl; lia). reflexivity. }
      exists tr. split; [now left|]. destruct Ho as [Hin|Hin].
      - left. now rewrite <- Er2.
      - apply Hinl; auto. now rewrite <- Er2. }
  Qed.

  Lemma split_pass_inv threads tasks : forall acc,
    tasks_ok acc -> tasks_ok tasks ->
    tasks_ok (fst (split_pass threads acc tasks)) /\
    (forall e, owed (acc ++ tasks) e -> owed (fst (split_pass threads acc tasks)) e).
  Proof.
    induction tasks as [|tk rest IH]; intros acc Ha Ht; cbn [split_pass].
    - cbn [fst]. rewrite app_nil_r. auto.
    - destruct (threads <=? _).
      + cbn [fst]. split; [apply Forall_app; auto|auto].
      + inversion Ht as [|? ? Htk Hrest]; subst.
        destruct (IH (acc ++ split tk)) as [Ok Ow]; [apply Forall_app; split; [assumption|now apply split_ok]|assumption|].
        split; [assumption|]. intros e (tk0 & Hin & Ho). apply Ow.
        rewrite in_app_iff in Hin. cbn [In] in Hin. destruct Hin as [Hin|[<-|Hin]].
        * exists tk0. rewrite !in_app_iff. auto.
        * destruct (split_owes _ e Htk Ho) as (tk1 & Hin1 & Ho1). exists tk1. rewrite !in_app_iff. auto.
        * exists tk0. rewrite !in_app_iff. auto.
  Qed.

  Lemma split_tasks_inv threads n : forall tasks,
    tasks_ok tasks ->
    tasks_ok (split_tasks threads n tasks) /\
    (forall e, owed tasks e -> owed (split_tasks threads n tasks) e).
  Proof.
    induction n as [|n IH]; intros tasks Ht; cbn [split_tasks]; [auto|].
    destruct (split_pass threads [] tasks) as [ts stop] eqn:E.
    destruct (split_pass_inv threads tasks [] (Forall_nil _) Ht) as [Ok Ow]. rewrite E in Ok, Ow. cbn [fst app] in Ok, Ow.
    destruct stop; [auto|]. destruct (IH ts Ok) as [Ok2 Ow2]. split; [assumption|]. auto.
  Qed.

  (* --- one round --- *)
  Lemma advance_ok size ts : tasks_ok ts -> tasks_ok (filter unfinished (map (advance size) ts)).
  Proof.
    unfold tasks_ok. rewrite !Forall_forall. intros Hs tk Hin. apply filter_In in Hin as [Hin _].
    apply in_map_iff in Hin as (tk0 & <- & Hin). cbn [advance tsub]. auto.
  Qed.

  Lemma emit_owes size ts e :
    tasks_ok ts -> owed ts e ->
    covered (map (task_run size) ts) e \/ owed (filter unfinished (map (advance size) ts)) e.
  Proof.
    intros Hok (tk & Hin & Ho).
    assert (sub (tsub tk) t) as Hs by (unfold tasks_ok in Hok; rewrite Forall_forall in Hok; auto).
    assert (incl (task_run size tk) (contents (tsub tk))) as Hrun.
    { intros x Hx. assert (In x (rem_entries tk)) as Hx' by (rewrite (rem_split size); apply in_or_app; auto).
      unfold rem_entries in Hx'. rewrite <- (firstn_skipn (tdone tk)). apply in_or_app. now right. }
    destruct Ho as [Hr|[Hne Hi]].
    - rewrite (rem_split size tk), in_app_iff in Hr. destruct Hr as [Hr|Hr].
      + left. exists (task_run size tk). split; [now apply in_map|]. destruct e as [k v].
        apply chunk_complete; [|eapply inrun_self; eauto].
        eapply sub_contents; [exact Hs|]. auto.
      + right. exists (advance size tk). split; [|now left].
        apply filter_In. split; [now apply in_map|]. apply unfinished_rem. intros E. rewrite E in Hr. destruct Hr.
    - left. exists (task_run size tk). split; [now apply in_map|].
      pose proof (task_run_nonempty size tk Hne) as Hn.
      destruct (task_run size tk) as [|[k v] rr] eqn:Erun; [congruence|].
      apply (Hi _ k v); [apply Hrun; now left|]. eapply inrun_self. now left.
  Qed.

  Lemma par_rounds_cover size threads fuel : forall ts e,
    tasks_ok ts -> owed ts e ->
    covered (fst (par_rounds fuel size threads ts)) e \/ owed (snd (par_rounds fuel size threads ts)) e.
  Proof.
    induction fuel as [|fuel IH]; intros ts e Hok Ho; cbn [par_rounds]; [now right|].
    destruct ts as [|tk0 rest] eqn:Ets; [destruct Ho as (? & [] & _)|]. rewrite <- Ets in *. clear Ets tk0 rest.
    destruct (split_tasks_inv threads SPLIT_ITERS ts Hok) as [Ok2 Ow2].
    set (ts2 := split_tasks threads SPLIT_ITERS ts) in *.
    destruct (par_rounds fuel size threads (filter unfinished (map (advance size) ts2))) as [more left] eqn:Epr.
    cbn [fst snd].
    destruct (emit_owes size ts2 e Ok2 (Ow2 e Ho)) as [Hc|Ho2].
    - left. eapply covered_mono; [|exact Hc]. intros x Hx. apply in_or_app. now left.
    - specialize (IH _ e (advance_ok size ts2 Ok2) Ho2). rewrite Epr in IH. cbn [fst snd] in IH.
      destruct IH as [Hc|Hl]; [|now right]. left. eapply covered_mono; [|exact Hc].
      intros x Hx. apply in_or_app. now right.
  Qed.
End Cover.

(* ------------------------------------------------------------------ *)
(* termination                                                          *)
(* ------------------------------------------------------------------ *)
Ltac elia := unfold entry in *; lia.
Fixpoint nsum (l : list nat) : nat := match l with [] => 0 | x :: r => x + nsum r end.
Lemma nsum_app a b : nsum (a ++ b) = nsum a + nsum b.
Proof. induction a as [|x a IH]; cbn [nsum app]; lia. Qed.

Definition mu (ts : list task) : nat := nsum (map (fun tk => length (rem_entries tk)) ts).

Lemma mu_app a b : mu (a ++ b) = mu a + mu b.
Proof. unfold mu. now rewrite map_app, nsum_app. Qed.

Lemma mu_nil : mu [] = 0.
Proof. reflexivity. Qed.
Lemma mu_cons tk l : mu (tk :: l) = length (rem_entries tk) + mu l.
Proof. reflexivity. Qed.

Lemma mu_child a cs : mu (child_tasks a cs) = nsum (map (fun c => length (contents c)) cs).
Proof.
  induction cs as [|c cs IH]; [reflexivity|]. unfold child_tasks in *. cbn [flat_map map nsum].
  rewrite mu_app, IH. destruct c; unfold mu, rem_entries; cbn [map nsum tdone tsub skipn contents length]; elia.
Qed.

Lemma mu_split tk : mu (split tk) <= length (rem_entries tk).
Proof.
  unfold split. destruct (tsub tk) as [|k v|lbl lf l r] eqn:Et; try (unfold mu; cbn; elia).
  assert (length (rem_entries tk) =
          length (lf_contents lf) + length (contents l) + length (contents r) - tdone tk) as Er.
  { unfold rem_entries. rewrite Et, skipn_length. cbn [contents]. rewrite !app_length. elia. }
  destruct (Nat.leb_spec (tdone tk) (length (lf_contents lf))).
  { destruct l, r; try (rewrite mu_child; cbn [map nsum]; cbn [contents length] in *; elia).
    unfold mu; cbn; elia. }
  destruct (Nat.ltb_spec (tdone tk) (length (lf_contents lf) + length (contents l))).
  { rewrite Er, mu_app, mu_child. unfold mu, rem_entries. cbn [map nsum tdone tsub]. rewrite skipn_length. elia. }
  destruct (Nat.eqb_spec (tdone tk) (length (lf_contents lf) + length (contents l))).
  { unfold mu; cbn; elia. }
  rewrite Er. unfold mu, rem_entries. cbn [map nsum tdone tsub]. rewrite skipn_length. elia.
Qed.

Lemma mu_split_pass threads tasks : forall acc,
  mu (fst (split_pass threads acc tasks)) <= mu acc + mu tasks.
Proof.
  induction tasks as [|tk rest IH]; intros acc; cbn [split_pass].
  - cbn [fst]. rewrite mu_nil. elia.
  - destruct (threads <=? _); cbn [fst]; [rewrite mu_app; elia|].
    specialize (IH (acc ++ split tk)). rewrite mu_app in IH. pose proof (mu_split tk).
    rewrite mu_cons. elia.
Qed.

Lemma mu_split_tasks threads n : forall ts, mu (split_tasks threads n ts) <= mu ts.
Proof.
  induction n as [|n IH]; intros ts; cbn [split_tasks]; [elia|].
  pose proof (mu_split_pass threads ts []) as P.
  destruct (split_pass threads [] ts) as [ts2 stop]. cbn [fst] in P. rewrite mu_nil in P.
  destruct stop; [elia|]. specialize (IH ts2). elia.
Qed.

Lemma mu_filter l : mu (filter unfinished l) = mu l.
Proof.
  induction l as [|tk l IH]; [reflexivity|]. cbn [filter].
  destruct (unfinished tk) eqn:E.
  - rewrite !mu_cons. elia.
  - rewrite mu_cons, IH.
    destruct (rem_entries tk) eqn:Er; [reflexivity|].
    assert (unfinished tk = true) by (apply unfinished_rem; congruence). congruence.
Qed.

Lemma rem_advance_len size tk :
  length (rem_entries tk) = length (task_run size tk) + length (rem_entries (advance size tk)).
Proof. rewrite (rem_split size tk) at 1. now rewrite app_length. Qed.

Lemma mu_advance_le size l : mu (map (advance size) l) <= mu l.
Proof.
  induction l as [|tk l IH]; [reflexivity|]. cbn [map]. rewrite !mu_cons.
  pose proof (rem_advance_len size tk). elia.
Qed.

Lemma mu_advance_lt size l :
  (exists tk, In tk l /\ rem_entries tk <> []) -> mu (map (advance size) l) < mu l.
Proof.
  induction l as [|tk l IH]; intros (tk0 & Hin & Hne); [destruct Hin|].
  cbn [map]. rewrite !mu_cons. pose proof (rem_advance_len size tk) as L.
  pose proof (mu_advance_le size l) as Le.
  destruct Hin as [->|Hin].
  - pose proof (task_run_nonempty size tk0 Hne) as Hn.
    destruct (task_run size tk0); [congruence|]. cbn [length] in L. elia.
  - assert (mu (map (advance size) l) < mu l) by (apply IH; eauto). elia.
Qed.

Lemma par_rounds_nil fuel size threads : par_rounds fuel size threads [] = ([], []).
Proof. destruct fuel; reflexivity. Qed.

Theorem par_rounds_terminates size threads fuel : forall ts,
  mu ts < fuel -> snd (par_rounds fuel size threads ts) = [].
Proof.
  induction fuel as [|fuel IH]; intros ts Hm; [elia|]. cbn [par_rounds].
  destruct ts as [|tk0 rest] eqn:Ets; [reflexivity|]. rewrite <- Ets in *. clear Ets tk0 rest.
  pose proof (mu_split_tasks threads SPLIT_ITERS ts) as M2.
  set (ts2 := split_tasks threads SPLIT_ITERS ts) in *.
  set (ts' := filter unfinished (map (advance size) ts2)).
  destruct (par_rounds fuel size threads ts') as [more left] eqn:Epr. cbn [snd].
  destruct ts' as [|tk1 rest1] eqn:Et'.
  - rewrite par_rounds_nil in Epr. now injection Epr as _ <-.
  - assert (mu ts' < mu ts2) as Hlt.
    { unfold ts'. rewrite mu_filter. apply mu_advance_lt.
      assert (In tk1 ts') as Hin by (rewrite Et'; now left).
      unfold ts' in Hin. apply filter_In in Hin as [Hin Hu].
      apply in_map_iff in Hin as (tk & <- & Hin). exists tk. split; [assumption|].
      apply unfinished_rem in Hu. intros E. apply Hu.
      pose proof (rem_advance_len size tk) as L. rewrite E in L. cbn [length] in L.
      destruct (rem_entries (advance size tk)); [reflexivity|cbn [length] in L; elia]. }
    specialize (IH ts'). rewrite Et' in IH, Hlt. rewrite Epr in IH. cbn [snd] in IH. apply IH. elia.
Qed.

Theorem par_terminates size threads t : snd (par_runs size threads t) = [].
Proof.
  unfold par_runs. destruct t as [|k v|lbl lf l r]; [reflexivity| |];
    apply par_rounds_terminates; unfold mu, rem_entries; cbn [map nsum tdone tsub skipn]; elia.
Qed.

(* every pair of the tree is carried by some chunk of the parallel chunker *)
Theorem par_cover H size threads t e :
  wf t -> In e (contents t) -> covered H t (fst (par_runs size threads t)) e.
Proof.
  intros W Hin. pose proof (par_terminates size threads t) as T. unfold par_runs in *.
  assert (forall t0, t0 = t -> t0 <> Nil ->
          covered H t (fst (par_rounds (S (length (contents t0))) size threads [mk t0 0%N 0])) e) as G.
  { intros t0 -> Hn.
    destruct (par_rounds_cover H t W size threads (S (length (contents t))) [mk t 0%N 0] e) as [Hc|Ho].
    - constructor; [apply sub_refl|constructor].
    - exists (mk t 0%N 0). split; [now left|]. left. exact Hin.
    - exact Hc.
    - exfalso. destruct t; try (now apply Hn); rewrite T in Ho; destruct Ho as (? & [] & _). }
  destruct t as [|k v|lbl lf l r]; [destruct Hin| |]; apply G; auto; discriminate.
Qed.


(* ------------------------------------------------------------------ *)
(* every run of the parallel chunker is non-empty                       *)
(* ------------------------------------------------------------------ *)
Section NonEmpty.
  Variable H : bytes -> bytes.
  Variable t : tree.
  Hypothesis Wt : wf t.

  Definition live (ts : list task) : Prop :=
    Forall (fun tk => sub (tsub tk) t /\ rem_entries tk <> []) ts.

  Lemma split_live tk : sub (tsub tk) t -> rem_entries tk <> [] -> live (split tk).
  Proof.
    intros Hs Hne. pose proof (split_ok t tk Hs) as Hok. unfold live, tasks_ok in *.
    rewrite Forall_forall in *. intros tk' Hin. split; [now apply Hok|].
    revert Hin. unfold split. destruct (tsub tk) as [|k v|lbl lf l r] eqn:Et;
      try (intros [<-|[]]; assumption).
    assert (sub l t) as Hl by (eapply sub_trans; [|exact Hs]; apply sub_l, sub_refl).
    assert (sub r t) as Hr by (eapply sub_trans; [|exact Hs]; apply sub_r, sub_refl).
    assert (rem_entries tk = skipn (tdone tk) (lf_contents lf ++ contents l ++ contents r)) as Er
      by (unfold rem_entries; rewrite Et; reflexivity).
    assert (forall cs, (forall c, In c cs -> sub c t) -> forall a tk0, In tk0 (child_tasks a cs) -> rem_entries tk0 <> []) as Hct.
    { intros cs Hcs a tk0 Hin0. unfold child_tasks in Hin0. apply in_flat_map in Hin0 as (c & Hc & Hin0).
      destruct c; cbn in Hin0; [tauto| |]; destruct Hin0 as [<-|[]]; unfold rem_entries; cbn [tdone tsub skipn];
        apply (sub_nonempty H t Wt); auto; discriminate. }
    destruct (Nat.leb_spec (tdone tk) (length (lf_contents lf))).
    { destruct l, r; try (apply Hct; intros c [<-|[<-|[]]]; assumption). intros [<-|[]]. assumption. }
    destruct (Nat.ltb_spec (tdone tk) (length (lf_contents lf) + length (contents l))).
    { rewrite in_app_iff. intros [Hin|[<-|[]]]; [revert Hin; apply Hct; intros c [<-|[]]; assumption|].
      intros E. apply (f_equal (@length entry)) in E. unfold rem_entries in E. cbn [tdone tsub] in E.
      rewrite skipn_length in E. cbn [length] in E. elia. }
    destruct (Nat.eqb_spec (tdone tk) (length (lf_contents lf) + length (contents l))).
    { intros [<-|[]]. assumption. }
    intros [<-|[]]. intros E. apply Hne. rewrite Er.
    rewrite skipn_app, (skipn_all2 (lf_contents lf)) by elia.
    rewrite skipn_app, (skipn_all2 (contents l)) by elia. exact E.
  Qed.

  Lemma split_pass_live threads tasks : forall acc,
    live acc -> live tasks -> live (fst (split_pass threads acc tasks)).
  Proof.
    induction tasks as [|tk rest IH]; intros acc Ha Ht; cbn [split_pass]; [assumption|].
    destruct (threads <=? _); cbn [fst]; [apply Forall_app; auto|].
    inversion Ht as [|? ? [Hs Hn] Hrest]; subst. apply IH; [|assumption].
    apply Forall_app. split; [assumption|now apply split_live].
  Qed.

  Lemma split_tasks_live threads n : forall ts, live ts -> live (split_tasks threads n ts).
  Proof.
    induction n as [|n IH]; intros ts Hl; cbn [split_tasks]; [assumption|].
    pose proof (split_pass_live threads ts [] (Forall_nil _) Hl) as P.
    destruct (split_pass threads [] ts) as [ts2 stop]. cbn [fst] in P. destruct stop; auto.
  Qed.

  Lemma par_rounds_nonempty size threads fuel : forall ts,
    live ts -> Forall (fun r => r <> []) (fst (par_rounds fuel size threads ts)).
  Proof.
    induction fuel as [|fuel IH]; intros ts Hl; cbn [par_rounds]; [constructor|].
    destruct ts as [|tk0 rest] eqn:Ets; [constructor|]. rewrite <- Ets in *. clear Ets tk0 rest.
    pose proof (split_tasks_live threads SPLIT_ITERS ts Hl) as L2.
    set (ts2 := split_tasks threads SPLIT_ITERS ts) in *.
    assert (live (filter unfinished (map (advance size) ts2))) as L3.
    { unfold live in *. rewrite Forall_forall in *. intros tk Hin. apply filter_In in Hin as [Hin Hu].
      apply in_map_iff in Hin as (tk0 & <- & Hin). split; [apply (L2 _ Hin)|now apply unfinished_rem]. }
    specialize (IH _ L3).
    destruct (par_rounds fuel size threads (filter unfinished (map (advance size) ts2))) as [more lft].
    cbn [fst] in *. apply Forall_app. split; [|assumption].
    unfold live in L2. rewrite Forall_forall in *. intros run Hin.
    apply in_map_iff in Hin as (tk & <- & Hin). apply task_run_nonempty. now apply L2.
  Qed.

  Theorem par_runs_nonempty size threads :
    t <> Nil -> Forall (fun r => r <> []) (fst (par_runs size threads t)).
  Proof.
    intros Hn. unfold par_runs. destruct t as [|k v|lbl lf l r] eqn:Et; [congruence| |];
      rewrite <- Et in *; apply par_rounds_nonempty; constructor; try constructor;
      try apply sub_refl; unfold rem_entries; cbn [tdone tsub skipn];
      apply (sub_nonempty H t Wt); try apply sub_refl; assumption.
  Qed.
End NonEmpty.

(* ------------------------------------------------------------------ *)
(* the order in which the goroutines of one round run is irrelevant     *)
(* ------------------------------------------------------------------ *)
Lemma upd_length {A} (x : A) l : forall i, length (upd i x l) = length l.
Proof. induction l as [|y l IH]; intros [|i]; cbn [upd length]; auto. Qed.

Lemma nth_error_upd_same {A} (x : A) l : forall i, i < length l -> nth_error (upd i x l) i = Some x.
Proof.
  induction l as [|y l IH]; intros [|i] Hi; cbn [upd nth_error length] in *; try lia; auto.
  apply IH. lia.
Qed.

Lemma nth_error_upd_other {A} (x : A) l : forall i j, i <> j -> nth_error (upd i x l) j = nth_error l j.
Proof.
  induction l as [|y l IH]; intros [|i] [|j] Hne; cbn [upd nth_error]; auto; try congruence.
Qed.

Lemma nth_error_ext {A} (l1 : list A) : forall l2,
  (forall i, nth_error l1 i = nth_error l2 i) -> l1 = l2.
Proof.
  induction l1 as [|x l1 IH]; intros [|y l2] E; auto.
  - specialize (E 0). discriminate.
  - specialize (E 0). discriminate.
  - pose proof (E 0) as E0. cbn in E0. injection E0 as <-. f_equal. apply IH. intros i. apply (E (S i)).
Qed.

Definition sel {A} (sched : list nat) (j : nat) (a b : A) : A :=
  if existsb (Nat.eqb j) sched then a else b.

Lemma round_sched_pointwise size sched : forall a b,
  NoDup sched -> length b = length a ->
  let st := fold_left (run_slot size) sched (a, b) in
  length (fst st) = length a /\ length (snd st) = length a /\
  forall j, nth_error (fst st) j = sel sched j (option_map (advance size) (nth_error a j)) (nth_error a j) /\
            nth_error (snd st) j = sel sched j (option_map (task_run size) (nth_error a j)) (nth_error b j).
Proof.
  induction sched as [|i sched IH]; intros a b Hnd Hlen; cbn [fold_left].
  - cbn. auto.
  - inversion Hnd as [|? ? Hni Hnd']; subst.
    destruct (nth_error a i) as [tk|] eqn:Ei.
    + replace (run_slot size (a, b) i) with (upd i (advance size tk) a, upd i (task_run size tk) b)
        by (unfold run_slot; cbn [fst snd]; rewrite Ei; reflexivity).
      assert (i < length a) as Hi by (apply nth_error_Some; congruence).
      specialize (IH (upd i (advance size tk) a) (upd i (task_run size tk) b) Hnd').
      rewrite !upd_length in IH. specialize (IH Hlen). cbn zeta in *. destruct IH as (L1 & L2 & IH).
      split; [assumption|]. split; [assumption|]. intros j. destruct (IH j) as [Ha Hb].
      unfold sel in *. cbn [existsb]. destruct (Nat.eqb_spec j i) as [->|Hne].
      * assert (existsb (Nat.eqb i) sched = false) as Hf.
        { destruct (existsb (Nat.eqb i) sched) eqn:E; [|reflexivity]. exfalso. apply Hni.
          apply existsb_exists in E as (x & Hx & Hxe). apply Nat.eqb_eq in Hxe. now subst. }
        rewrite Hf in Ha, Hb. cbn [orb]. rewrite Ha, Hb, Ei.
        rewrite !nth_error_upd_same by lia. auto.
      * cbn [orb]. rewrite Ha, Hb. rewrite !nth_error_upd_other by auto. auto.
    + replace (run_slot size (a, b) i) with (a, b)
        by (unfold run_slot; cbn [fst snd]; rewrite Ei; reflexivity).
      specialize (IH a b Hnd' Hlen). cbn zeta in *. destruct IH as (L1 & L2 & IH).
      split; [assumption|]. split; [assumption|]. intros j. destruct (IH j) as [Ha Hb].
      unfold sel in *. cbn [existsb]. destruct (Nat.eqb_spec j i) as [->|Hne]; cbn [orb]; [|auto].
      rewrite Ha, Hb, Ei. cbn [option_map].
      assert (nth_error b i = None) as Hbi by (apply nth_error_None; apply nth_error_None in Ei; lia).
      rewrite Hbi. destruct (existsb (Nat.eqb i) sched); auto.
Qed.

(* whatever order the tasks of a round run in (any permutation of the slots),
   the chunks and the successor tasks are the same, slot by slot *)
Theorem round_order_irrelevant_l size sched ts :
  Permutation sched (seq 0 (length ts)) ->
  round_sched size sched ts = (map (advance size) ts, map (task_run size) ts).
Proof.
  intros Hp. unfold round_sched.
  assert (NoDup sched) as Hnd by (eapply Permutation_NoDup; [apply Permutation_sym; exact Hp|apply seq_NoDup]).
  destruct (round_sched_pointwise size sched ts (map (fun _ => []) ts) Hnd) as (L1 & L2 & Hpt);
    [now rewrite map_length|].
  assert (forall j, existsb (Nat.eqb j) sched = (j <? length ts)) as Hin.
  { intros j. destruct (Nat.ltb_spec j (length ts)) as [Hj|Hj].
    - apply existsb_exists. exists j. split; [|apply Nat.eqb_refl].
      eapply Permutation_in; [apply Permutation_sym; exact Hp|]. apply in_seq. lia.
    - destruct (existsb (Nat.eqb j) sched) eqn:E; [|reflexivity].
      apply existsb_exists in E as (x & Hx & Hxe). apply Nat.eqb_eq in Hxe. subst x.
      eapply Permutation_in in Hx; [|exact Hp]. apply in_seq in Hx. lia. }
  destruct (fold_left (run_slot size) sched (ts, map (fun _ => []) ts)) as [a' b'].
  cbn [fst snd] in *. f_equal; apply nth_error_ext; intros j; destruct (Hpt j) as [Ha Hb];
    unfold sel in *; rewrite Hin in *; rewrite nth_error_map.
  - rewrite Ha. destruct (Nat.ltb_spec j (length ts)); [reflexivity|].
    assert (nth_error ts j = None) as -> by (now apply nth_error_None). reflexivity.
  - rewrite Hb. destruct (Nat.ltb_spec j (length ts)); [reflexivity|].
    assert (nth_error ts j = None) as -> by (now apply nth_error_None).
    rewrite nth_error_map. assert (nth_error ts j = None) as -> by (now apply nth_error_None). reflexivity.
Qed.

(* ------------------------------------------------------------------ *)
(* no key is visited twice; every run is in key order                   *)
(* ------------------------------------------------------------------ *)
Definition rems (ts : list task) : list entry := concat (map rem_entries ts).

Lemma rems_app a b : rems (a ++ b) = rems a ++ rems b.
Proof. unfold rems. now rewrite map_app, concat_app. Qed.

(* [sub_perm a b]: the elements of [a], with multiplicity, are among those of [b] *)
Definition sub_perm {A} (a b : list A) : Prop := exists c, Permutation (a ++ c) b.

Lemma sub_perm_refl {A} (a : list A) : sub_perm a a.
Proof. exists []. now rewrite app_nil_r. Qed.
Lemma sub_perm_nodup {A} (a b : list A) : sub_perm a b -> NoDup b -> NoDup a.
Proof.
  intros [c Hp] Hn. apply Permutation_sym in Hp. apply (Permutation_NoDup Hp) in Hn.
  clear Hp. induction a as [|x a IH]; [constructor|]. cbn [app] in Hn. inversion Hn; subst.
  constructor; [|auto]. intros Hi. apply H1. apply in_or_app. now left.
Qed.
Lemma sub_perm_app {A} (a a' b b' : list A) : sub_perm a a' -> sub_perm b b' -> sub_perm (a ++ b) (a' ++ b').
Proof.
  intros [c Hc] [d Hd]. exists (c ++ d).
  transitivity ((a ++ c) ++ (b ++ d)); [|now apply Permutation_app].
  rewrite <- !app_assoc. apply Permutation_app_head. rewrite !app_assoc. apply Permutation_app_tail.
  apply Permutation_app_comm.
Qed.
Lemma sub_perm_trans {A} (a b c : list A) : sub_perm a b -> sub_perm b c -> sub_perm a c.
Proof.
  intros [x Hx] [y Hy]. exists (x ++ y). rewrite app_assoc. transitivity (b ++ y); [|assumption].
  now apply Permutation_app_tail.
Qed.
Lemma sub_perm_skipn {A} n (l : list A) : sub_perm (skipn n l) l.
Proof. exists (firstn n l). rewrite <- (firstn_skipn n l) at 3. apply Permutation_app_comm. Qed.
Lemma sub_perm_perm {A} (a b : list A) : Permutation a b -> sub_perm a b.
Proof. intros Hp. exists []. now rewrite app_nil_r. Qed.

Lemma rems_child a cs : rems (child_tasks a cs) = concat (map contents cs).
Proof.
  induction cs as [|c cs IH]; [reflexivity|]. unfold child_tasks in *. cbn [flat_map map concat].
  rewrite rems_app, IH. destruct c; unfold rems, rem_entries; cbn [map concat tsub tdone skipn app]; rewrite ?app_nil_r; reflexivity.
Qed.

Lemma split_rems tk : sub_perm (rems (split tk)) (rem_entries tk).
Proof.
  assert (rems [tk] = rem_entries tk) as E1 by (unfold rems; cbn; now rewrite app_nil_r).
  unfold split. destruct (tsub tk) as [|k v|lbl lf l r] eqn:Et; try (rewrite E1; apply sub_perm_refl).
  assert (rem_entries tk = skipn (tdone tk) (lf_contents lf ++ contents l ++ contents r)) as Er
    by (unfold rem_entries; rewrite Et; reflexivity).
  destruct (Nat.leb_spec (tdone tk) (length (lf_contents lf))).
  { assert (sub_perm (contents l ++ contents r) (rem_entries tk)) as Hs.
    { rewrite Er, skipn_app. replace (tdone tk - length (lf_contents lf)) with 0 by lia. cbn [skipn].
      exists (skipn (tdone tk) (lf_contents lf)). apply Permutation_app_comm. }
    assert (sub_perm (concat (map contents [l; r])) (rem_entries tk)) as Hs'
      by (cbn [map concat]; rewrite app_nil_r; exact Hs).
    destruct l, r; try (rewrite rems_child; exact Hs').
    rewrite E1. apply sub_perm_refl. }
  destruct (Nat.ltb_spec (tdone tk) (length (lf_contents lf) + length (contents l))).
  { rewrite rems_app, rems_child. cbn [map concat]. rewrite app_nil_r.
    assert (rems [mk l (tanc tk + node_cost lbl lf) (tdone tk - length (lf_contents lf))] =
            skipn (tdone tk - length (lf_contents lf)) (contents l)) as ->
      by (unfold rems, rem_entries; cbn; now rewrite app_nil_r).
    rewrite Er, skipn_app, (skipn_all2 (lf_contents lf)) by lia. cbn [app]. rewrite skipn_app.
    replace (tdone tk - length (lf_contents lf) - length (contents l)) with 0 by lia. cbn [skipn].
    apply sub_perm_perm, Permutation_app_comm. }
  destruct (Nat.eqb_spec (tdone tk) (length (lf_contents lf) + length (contents l))).
  { rewrite E1. apply sub_perm_refl. }
  assert (rems [mk r (tanc tk + node_cost lbl lf) (tdone tk - length (lf_contents lf) - length (contents l))] =
          skipn (tdone tk - length (lf_contents lf) - length (contents l)) (contents r)) as ->
    by (unfold rems, rem_entries; cbn; now rewrite app_nil_r).
  rewrite Er, skipn_app, (skipn_all2 (lf_contents lf)) by lia. cbn [app].
  rewrite skipn_app, (skipn_all2 (contents l)) by lia. apply sub_perm_refl.
Qed.

Lemma split_pass_rems threads tasks : forall acc,
  sub_perm (rems (fst (split_pass threads acc tasks))) (rems acc ++ rems tasks).
Proof.
  induction tasks as [|tk rest IH]; intros acc; cbn [split_pass].
  - cbn [fst]. unfold rems at 3. cbn. rewrite app_nil_r. apply sub_perm_refl.
  - destruct (threads <=? _); cbn [fst]; [rewrite rems_app; apply sub_perm_refl|].
    eapply sub_perm_trans; [apply IH|]. rewrite rems_app, <- app_assoc. apply sub_perm_app; [apply sub_perm_refl|].
    change (rems (tk :: rest)) with (rem_entries tk ++ rems rest).
    apply sub_perm_app; [apply split_rems|apply sub_perm_refl].
Qed.

Lemma split_tasks_rems threads n : forall ts, sub_perm (rems (split_tasks threads n ts)) (rems ts).
Proof.
  induction n as [|n IH]; intros ts; cbn [split_tasks]; [apply sub_perm_refl|].
  pose proof (split_pass_rems threads ts []) as P. destruct (split_pass threads [] ts) as [ts2 stop].
  cbn [fst] in P. change (rems [] ++ rems ts) with (rems ts) in P.
  destruct stop; [assumption|]. eapply sub_perm_trans; [apply IH|assumption].
Qed.

Lemma emit_rems size ts :
  Permutation (concat (map (task_run size) ts) ++ rems (filter unfinished (map (advance size) ts))) (rems ts).
Proof.
  induction ts as [|tk ts IH]; [reflexivity|]. cbn [map concat filter].
  change (rems (tk :: ts)) with (rem_entries tk ++ rems ts). rewrite (rem_split size tk).
  assert (rems (if unfinished (advance size tk) then advance size tk :: filter unfinished (map (advance size) ts)
                else filter unfinished (map (advance size) ts)) =
          rem_entries (advance size tk) ++ rems (filter unfinished (map (advance size) ts))) as E.
  { destruct (unfinished (advance size tk)) eqn:Eu; [reflexivity|].
    destruct (rem_entries (advance size tk)) eqn:Er; [reflexivity|].
    assert (unfinished (advance size tk) = true) by (apply unfinished_rem; congruence). congruence. }
  rewrite E, <- !app_assoc. apply Permutation_app_head.
  rewrite !app_assoc. etransitivity; [|apply Permutation_app_head; exact IH].
  rewrite <- !app_assoc. rewrite (app_assoc (concat _)), (app_assoc (rem_entries _)).
  apply Permutation_app_tail. apply Permutation_app_comm.
Qed.

Lemma par_rounds_disjoint size threads fuel : forall ts,
  sub_perm (concat (fst (par_rounds fuel size threads ts))) (rems ts).
Proof.
  induction fuel as [|fuel IH]; intros ts; cbn [par_rounds]; [exists (rems ts); reflexivity|].
  destruct ts as [|tk0 rest] eqn:Ets; [apply sub_perm_refl|]. rewrite <- Ets. clear Ets tk0 rest.
  set (ts2 := split_tasks threads SPLIT_ITERS ts).
  specialize (IH (filter unfinished (map (advance size) ts2))).
  destruct (par_rounds fuel size threads (filter unfinished (map (advance size) ts2))) as [more lft].
  cbn [fst] in *. rewrite concat_app.
  eapply sub_perm_trans; [|apply split_tasks_rems]. fold ts2.
  eapply sub_perm_trans; [|apply sub_perm_perm, (emit_rems size ts2)].
  apply sub_perm_app; [apply sub_perm_refl|exact IH].
Qed.

Lemma sorted_nodup l : sorted l -> NoDup l.
Proof.
  induction l as [|x l IH]; cbn [sorted]; intros Hs; [constructor|]. destruct Hs as [Hx Hs].
  constructor; [|auto]. intros Hi. rewrite Forall_forall in Hx. specialize (Hx x Hi).
  unfold key_lt in Hx. rewrite bytes_cmp_refl in Hx. discriminate.
Qed.

(* the keys visited by the chunks of the parallel chunker are pairwise distinct
   pairs of the tree (no key is visited twice) *)
Theorem par_runs_disjoint_l size threads t :
  wf t -> NoDup (concat (fst (par_runs size threads t))) /\
          incl (concat (fst (par_runs size threads t))) (contents t).
Proof.
  intros W. unfold par_runs.
  assert (sub_perm (concat (fst (par_rounds (S (length (contents t))) size threads [mk t 0%N 0]))) (contents t)) as Hs.
  { eapply sub_perm_trans; [apply par_rounds_disjoint|]. unfold rems, rem_entries. cbn. rewrite app_nil_r.
    apply sub_perm_refl. }
  destruct t as [|k v|lbl lf l r]; [cbn; split; [constructor|intros ? []]| |];
    (split; [eapply sub_perm_nodup; [exact Hs|apply sorted_nodup, contents_sorted; exact W]|]);
    destruct Hs as [c Hp]; intros e He; eapply Permutation_in; [exact Hp|apply in_or_app; now left|exact Hp|apply in_or_app; now left].
Qed.

(* each run is a run of consecutive keys of its subtree, in key order *)
Lemma sorted_skipn n l : sorted l -> sorted (skipn n l).
Proof. intros Hs. rewrite <- (firstn_skipn n l) in Hs. now apply sorted_app_inv in Hs as (_ & ? & _). Qed.
Lemma sorted_prefix a b : sorted (a ++ b) -> sorted a.
Proof. intros Hs. now apply sorted_app_inv in Hs as (? & _). Qed.

Lemma par_rounds_sorted t size threads fuel : wf t -> forall ts,
  tasks_ok t ts -> Forall sorted (fst (par_rounds fuel size threads ts)).
Proof.
  intros W. induction fuel as [|fuel IH]; intros ts Hok; cbn [par_rounds]; [constructor|].
  destruct ts as [|tk0 rest] eqn:Ets; [constructor|]. rewrite <- Ets in *. clear Ets tk0 rest.
  destruct (split_tasks_inv H0 t W threads SPLIT_ITERS ts Hok) as [Ok2 _].
  set (ts2 := split_tasks threads SPLIT_ITERS ts) in *.
  specialize (IH _ (advance_ok t size ts2 Ok2)).
  destruct (par_rounds fuel size threads (filter unfinished (map (advance size) ts2))) as [more lft].
  cbn [fst] in *. apply Forall_app. split; [|assumption].
  apply Forall_forall. intros run Hin. apply in_map_iff in Hin as (tk & <- & Hin).
  unfold tasks_ok in Ok2. rewrite Forall_forall in Ok2. specialize (Ok2 _ Hin).
  destruct (sub_wf _ _ Ok2 [] W) as [q Wq]. pose proof (contents_sorted_at _ _ Wq) as Srt.
  apply (sorted_prefix _ (rem_entries (advance size tk))). rewrite <- rem_split. now apply sorted_skipn.
Qed.

Theorem par_runs_sorted_l size threads t : wf t -> Forall sorted (fst (par_runs size threads t)).
Proof.
  intros W. unfold par_runs. destruct t as [|k v|lbl lf l r]; [repeat constructor| |];
    apply (par_rounds_sorted _ size threads _ W); (constructor; [apply sub_refl|constructor]).
Qed.
